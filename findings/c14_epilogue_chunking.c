/* C14 candidate: an epilogue that is exactly one newline-terminated line is reported or not depending on chunking.
 * build: gcc -fsanitize=address,undefined -I/repo -I/repo/htp findings/c14_epilogue_chunking.c /repo/htp/*.c /repo/htp/lzma/*.c -lz */
#include <stdio.h>
#include <string.h>
#include <stdlib.h>
#include "htp.h"
#include "htp_private.h"
#include "htp_multipart.h"
static const char BODY[] = "--B\r\nContent-Disposition: form-data; name=\"a\"\r\n\r\nv\r\n--B--\r\nEpilogue\r\n";
static void run(size_t cut, char *sig, size_t cap) {
    htp_cfg_t *cfg = htp_config_create();
    htp_mpartp_t *p = htp_mpartp_create(cfg, bstr_dup_c("B"), 0);
    size_t n = strlen(BODY);
    if (cut == 0 || cut >= n) htp_mpartp_parse(p, BODY, n);
    else { htp_mpartp_parse(p, BODY, cut); htp_mpartp_parse(p, BODY + cut, n - cut); }
    htp_mpartp_finalize(p);
    htp_multipart_t *m = htp_mpartp_get_multipart(p);
    size_t o = 0; sig[0] = 0;
    for (size_t i = 0; i < htp_list_size(m->parts); i++) {
        htp_multipart_part_t *part = htp_list_get(m->parts, i);
        o += snprintf(sig + o, cap - o, "{type=%d", part->type);
        if (part->value) { o += snprintf(sig + o, cap - o, " value="); for (size_t k = 0; k < bstr_len(part->value) && o + 4 < cap; k++) { unsigned char c = bstr_ptr(part->value)[k]; o += snprintf(sig + o, cap - o, c < 32 ? "\\x%02x" : "%c", c); } }
        o += snprintf(sig + o, cap - o, "}");
    }
    snprintf(sig + o, cap - o, " flags=%llx", (unsigned long long) m->flags);
    htp_mpartp_destroy(p);
    htp_config_destroy(cfg);
}
int main(void) {
    char whole[1024], seg[1024]; int bad = 0;
    run(0, whole, sizeof whole);
    printf("whole: %s\n", whole);
    for (size_t cut = 1; cut < strlen(BODY); cut++) { run(cut, seg, sizeof seg); if (strcmp(seg, whole)) { bad++; printf("cut %zu: %s\n", cut, seg); } }
    printf("%d single cuts differ\n", bad);
    return bad != 0;
}
