/* C02 (credentials "that were on the wire"): htp_parse_authorization_digest() takes the FIRST occurrence of the nine bytes `username=` anywhere in
 * the header value (bstr_index_of_c), not the auth-param NAMED username (RFC 7616 3.4: credentials = "Digest" 1#auth-param, auth-param = token "=" (token / quoted-string)).
 * An occurrence inside another parameter's name or quoted value wins:
 *   Authorization: Digest realm="username=", username="alice"        -> reported user name: `, username=`
 *   Authorization: Digest xusername="mallory", username="alice"      -> reported user name: `mallory`
 * Both are well-formed credentials whose user name is alice.
 * build: gcc -g -fsanitize=address,undefined -I/repo -I/repo/htp findings/c02_digest_username_param.c /repo/htp/*.c /repo/htp/lzma/*.c -lz
 * exit 0: alice reported in both cases; exit 1 + what was reported otherwise. */
#include <stdio.h>
#include <string.h>
#include "htp.h"
static int bad;
static int on_request_headers(htp_tx_t *tx) {
    bstr *u = tx->request_auth_username;
    printf("  auth type %d, reported user name: ", tx->request_auth_type);
    if (u == NULL) printf("(none)\n"); else { fwrite(bstr_ptr(u), 1, bstr_len(u), stdout); printf("\n"); }
    if (u == NULL || bstr_cmp_c(u, "alice") != 0) bad++;
    return HTP_OK;
}
static void run(const char *hdr) {
    htp_cfg_t *cfg = htp_config_create();
    htp_config_set_server_personality(cfg, HTP_SERVER_GENERIC);
    htp_config_register_request_headers(cfg, on_request_headers);
    htp_connp_t *connp = htp_connp_create(cfg);
    htp_connp_open(connp, "1.1.1.1", 1000, "2.2.2.2", 80, NULL);
    char rq[512]; snprintf(rq, sizeof rq, "GET / HTTP/1.1\r\nHost: a\r\nAuthorization: %s\r\n\r\n", hdr);
    printf("Authorization: %s\n", hdr);
    htp_connp_req_data(connp, NULL, rq, strlen(rq));
    htp_connp_destroy_all(connp);
    htp_config_destroy(cfg);
}
int main(void) {
    run("Digest username=\"alice\", realm=\"r\"");                 /* control */
    run("Digest realm=\"username=\", username=\"alice\"");
    run("Digest xusername=\"mallory\", username=\"alice\"");
    if (bad) { printf("DEFECT: %d well-formed Digest credentials reported with a user name that is not the username parameter\n", bad); return 1; }
    return 0;
}
