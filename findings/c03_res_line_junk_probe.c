/* C03 candidate (segmentation, response side), found while putting htp_connp_RES_LINE under contract (contracts/sm_resline.h).
 * htp_response.c:1092-1098: a first response line that does not look like a status line is normally delivered as BODY, except
 *     if (out_current_read_offset + 1 < out_current_len && (out_current_data[out_current_read_offset] == 'H' || len <= 2)) { ignored++; skip }
 * i.e. the decision "junk line in front of a status line: skip it" vs "this response has no status line: everything is body" looks at the NEXT
 * TWO BYTES OF THE CURRENT CHUNK.  If the chunk ends within one byte after the junk line the look-ahead is not possible and the other branch is taken:
 * the junk line becomes the body of a header-less response, the response is finalised, and the real status line that follows is attached
 * to a NEW transaction.  Same byte stream, different chunking => different number of transactions, different status / body.
 * The input is not a well-formed exchange (junk before the status line), so this is outside the letter of C03's quantifier; it is the
 * "response-line-as-body" peek the property lists among its mechanisms.
 * build: gcc -g -fsanitize=address,undefined -I/repo -I/repo/htp findings/c03_res_line_junk_probe.c /repo/htp/[a-z]*.c /repo/htp/lzma/[A-Za-z]*.c -lz
 * exit 1 = at least one single cut changes what is reported. */
#include <stdio.h>
#include <string.h>
#include <stdlib.h>
#include "htp.h"
#include "htp_private.h"

static const char REQ[] = "GET /a HTTP/1.1\r\nHost: x\r\n\r\n";
static const char RES[] = "junk line\r\nHTTP/1.1 200 OK\r\nContent-Length: 3\r\n\r\nabc";
static size_t body_n; static char body[256];
static int on_body(htp_tx_data_t *d) { if (d->data != NULL && body_n + d->len < sizeof(body)) { memcpy(body + body_n, d->data, d->len); body_n += d->len; } return HTP_OK; }

static void run(size_t cut, char *out, size_t outsz) {
    htp_cfg_t *cfg = htp_config_create();
    htp_config_register_response_body_data(cfg, on_body);
    htp_connp_t *connp = htp_connp_create(cfg);
    htp_connp_open(connp, "1.1.1.1", 1, "2.2.2.2", 80, NULL);
    htp_connp_req_data(connp, NULL, REQ, strlen(REQ));
    size_t n = strlen(RES); body_n = 0;
    if (cut == 0 || cut >= n) htp_connp_res_data(connp, NULL, RES, n);
    else { htp_connp_res_data(connp, NULL, RES, cut); htp_connp_res_data(connp, NULL, RES + cut, n - cut); }
    htp_connp_close(connp, NULL);
    int ntx = (int) htp_list_size(connp->conn->transactions);
    htp_tx_t *tx = ntx > 0 ? htp_list_get(connp->conn->transactions, 0) : NULL;
    body[body_n] = 0;
    for (size_t i = 0; i < body_n; i++) if (body[i] == '\r' || body[i] == '\n') body[i] = '.';
    snprintf(out, outsz, "tx=%d status0=%d ignored0=%u body=[%s]", ntx, tx ? tx->response_status_number : -9, tx ? tx->response_ignored_lines : 0, body);
    htp_connp_destroy_all(connp);
    htp_config_destroy(cfg);
}

int main(void) {
    char whole[512], seg[512]; int bad = 0;
    run(0, whole, sizeof(whole));
    printf("whole : %s\n", whole);
    for (size_t cut = 1; cut < strlen(RES); cut++) {
        run(cut, seg, sizeof(seg));
        if (strcmp(whole, seg) != 0) { bad++; printf("cut %2zu: %s\n", cut, seg); }
    }
    printf("%d of %zu single cuts change the reported transactions\n", bad, strlen(RES) - 1);
    return bad != 0;
}
