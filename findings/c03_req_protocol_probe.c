/* C03 (segmentation invariance), request side: htp_connp_REQ_PROTOCOL decides "is this really HTTP/0.9?" by looking at the bytes
 * that happen to be left in the CURRENT chunk (htp_request.c:758-781):
 *   - more than 16 bytes left            -> "missing protocol", go on with header parsing
 *   - <= 16 bytes left, one is not space -> "missing protocol", go on with header parsing
 *   - nothing / only white space left    -> HTTP/0.9: the request is complete, everything that follows is ignored
 * It never returns HTP_DATA_BUFFER to wait for the bytes it wants to look at, so the SAME byte stream gives different
 * transactions depending on where the segment boundary falls.  A cut right after the LF of a protocol-less request line
 * hides the rest of the request (headers, Host) from the parser: the request is reported as HTTP/0.9 with no headers and
 * the next chunk is rejected (HTP_STREAM_ERROR).
 * Observed: whole stream -> is_protocol_0_9=0, 2 headers, cut after byte 17 -> is_protocol_0_9=1, 0 headers,
 * and the second call returns HTP_STREAM_ERROR (drain state without a transaction).
 * (The input is a request line without protocol followed by headers: libhtp deliberately treats it as HTTP/1.x with a
 * missing protocol -- but only when the bytes arrive in the same chunk.)
 * build: gcc -fsanitize=address,undefined -I/repo -I/repo/htp findings/c03_req_protocol_probe.c /repo/htp/*.c /repo/htp/lzma/*.c -lz
 * exit 0: every single cut of the request stream reports the same transaction as the unsegmented run; exit 1 otherwise. */
#include <stdio.h>
#include <string.h>
#include <stdlib.h>
#include "htp.h"
#include "htp_private.h"

static const char REQ[] = "GET /index.html\r\nHost: www.example.com\r\nX-A: b\r\n\r\n";

typedef struct { int ntx; int is09; int protocol; int nhdr; int progress; unsigned conn_flags; int64_t consumed_status; } dump_t;

static dump_t run(size_t cut) {
    dump_t d; memset(&d, 0, sizeof(d));
    htp_cfg_t *cfg = htp_config_create();
    htp_connp_t *connp = htp_connp_create(cfg);
    htp_connp_open(connp, "1.1.1.1", 1, "2.2.2.2", 80, NULL);
    size_t n = strlen(REQ);
    int rc;
    if (cut == 0 || cut >= n) rc = htp_connp_req_data(connp, NULL, REQ, n);
    else { htp_connp_req_data(connp, NULL, REQ, cut); rc = htp_connp_req_data(connp, NULL, REQ + cut, n - cut); }
    d.consumed_status = rc;
    d.ntx = (int) htp_list_size(connp->conn->transactions);
    htp_tx_t *tx = d.ntx > 0 ? htp_list_get(connp->conn->transactions, 0) : NULL;
    if (tx != NULL) {
        d.is09 = tx->is_protocol_0_9; d.protocol = tx->request_protocol_number;
        d.nhdr = (int) htp_table_size(tx->request_headers); d.progress = (int) tx->request_progress;
    }
    d.conn_flags = connp->conn->flags;
    htp_connp_close(connp, NULL);
    htp_connp_destroy_all(connp);
    htp_config_destroy(cfg);
    return d;
}

static void show(const char *what, dump_t d) {
    printf("%s: tx=%d is_protocol_0_9=%d protocol_number=%d request_headers=%d request_progress=%d conn_flags=0x%x last_rc=%d\n",
           what, d.ntx, d.is09, d.protocol, d.nhdr, d.progress, d.conn_flags, (int) d.consumed_status);
}

int main(void) {
    int bad = 0;
    dump_t whole = run(0);
    show("whole stream ", whole);
    for (size_t cut = 1; cut < strlen(REQ); cut++) {
        dump_t s = run(cut);
        if (s.ntx != whole.ntx || s.is09 != whole.is09 || s.protocol != whole.protocol || s.nhdr != whole.nhdr || s.progress != whole.progress || s.conn_flags != whole.conn_flags) {
            char w[64]; snprintf(w, sizeof(w), "cut after %3zu", cut);
            show(w, s);
            bad++;
        }
    }
    printf("%d of %zu single cuts change the reported transaction\n", bad, strlen(REQ) - 1);
    return bad != 0;
}
