/* C18 / C01 candidate found while writing the unbounded cookie contract (units/c02_unb.py, htp_parse_single_cookie_v0):
 * htp_parse_single_cookie_v0 (htp/htp_cookies.c:76) ignores the result of htp_table_addn.  The cookie table is created with
 * htp_table_create(4); when the 5th cookie arrives the underlying list has to grow, and if that realloc fails htp_table_addn answers
 * HTP_ERROR: the freshly duplicated name and value are neither stored nor released, the function still answers HTP_OK.
 * Effect: two strings leaked per dropped cookie, and the cookie silently missing from tx->request_cookies (C02: a field dropped).
 *
 * Build (from anywhere):
 *   gcc -g -fsanitize=address,undefined -I/repo -I/repo/htp -Wl,--wrap=malloc,--wrap=calloc,--wrap=realloc,--wrap=strdup \
 *       /verif/findings/c02_cookie_addn_leak.c /repo/htp/*.c /repo/htp/lzma/*.c -lz -o /var/tmp/c02_cookie_addn_leak
 * Run:  /var/tmp/c02_cookie_addn_leak   (exit status 1 + "LEAK after failing allocation #k" = defect present; exit 0 = fixed)
 *
 * One single allocation failure per run (C18), the k-th allocation made while the request is processed; after every run the parser and
 * the configuration are destroyed with the documented teardown and LeakSanitizer is asked whether anything is left.
 * Proposed minimal fix: check the result, e.g.
 *     if (htp_table_addn(connp->in_tx->request_cookies, name, value) != HTP_OK) { bstr_free(name); bstr_free(value); return HTP_ERROR; }
 */
#include <stdio.h>
#include <stdlib.h>
#include <string.h>
#include <sanitizer/lsan_interface.h>
#include "htp/htp.h"

static long g_count, g_fail_at = -1;
static int g_armed;
void *__real_malloc(size_t); void *__real_calloc(size_t, size_t); void *__real_realloc(void *, size_t); char *__real_strdup(const char *);
#define FAIL_NOW() (g_armed && ++g_count == g_fail_at)
void *__wrap_malloc(size_t n) { if (FAIL_NOW()) return NULL; return __real_malloc(n); }
void *__wrap_calloc(size_t a, size_t b) { if (FAIL_NOW()) return NULL; return __real_calloc(a, b); }
void *__wrap_realloc(void *p, size_t n) { if (FAIL_NOW()) return NULL; return __real_realloc(p, n); }
char *__wrap_strdup(const char *s) { if (FAIL_NOW()) return NULL; return __real_strdup(s); }

static const char REQ[] = "GET / HTTP/1.1\r\nHost: h\r\nCookie: a=1; b=2; c=3; d=4; e=5; f=6\r\n\r\n";
static int g_rc, g_ncookies;
static void run(void) {
  htp_cfg_t *cfg = htp_config_create();
  if (cfg == NULL) return;
  htp_config_set_server_personality(cfg, HTP_SERVER_APACHE_2);
  htp_config_set_parse_request_cookies(cfg, 1);
  htp_connp_t *connp = htp_connp_create(cfg);
  g_ncookies = -1;
  if (connp != NULL) {
    htp_connp_open(connp, "10.0.0.1", 1234, "10.0.0.2", 80, NULL);
    g_armed = 1;                                   /* arming point: only allocations made while processing the stream fail */
    g_rc = htp_connp_req_data(connp, NULL, REQ, sizeof(REQ) - 1);
    g_armed = 0;
    htp_tx_t *tx = htp_list_get(htp_connp_get_connection(connp)->transactions, 0);
    if (tx != NULL && tx->request_cookies != NULL) g_ncookies = (int) htp_table_size(tx->request_cookies);
    htp_connp_close(connp, NULL);
    htp_connp_destroy_all(connp);                  /* the documented teardown */
  }
  htp_config_destroy(cfg);
}

int main(int argc, char **argv) {
  long k0 = argc > 1 ? atol(argv[1]) : 1;
  int bad = 0;
  for (long k = k0; ; k++) {
    g_count = 0; g_fail_at = k; g_armed = 0;
    run();
    g_armed = 0;
    if (g_count < k) break;
    if (__lsan_do_recoverable_leak_check()) {
      fprintf(stderr, "c02_cookie_addn_leak: LEAK after failing allocation #%ld (htp_connp_req_data -> %d, cookies stored: %d of 6)\n", k, g_rc, g_ncookies);
      bad = 1;
      break;
    }
  }
  if (!bad) fprintf(stderr, "c02_cookie_addn_leak: sweep complete, nothing leaked\n");
  return bad;
}
