/* C03 (segmentation invariance), response side: two pipelined responses, the second status line cut after its first byte.
 * htp_connp_RES_FINALIZE probes the line that follows a response; when the probe started in an EARLIER chunk the probed bytes
 * of the current chunk are appended to out_buf by htp_connp_res_consolidate_data(), and the "unread" then rewinds the chunk
 * cursor WITHOUT dropping those bytes from out_buf: RES_LINE reads them a second time.
 * build: gcc -fsanitize=address,undefined -I/repo -I/repo/htp findings/c03_res_finalize_probe.c /repo/htp/*.c /repo/htp/lzma/*.c -lz
 * exit 0: every single cut of the response stream reports the same two response lines as the unsegmented run. */
#include <stdio.h>
#include <string.h>
#include <stdlib.h>
#include "htp.h"
#include "htp_private.h"

static const char REQ[] = "GET /a HTTP/1.1\r\nHost: x\r\n\r\nGET /b HTTP/1.1\r\nHost: x\r\n\r\n";
static const char RES[] = "HTTP/1.1 200 OK\r\nContent-Length: 3\r\n\r\nabcHTTP/1.1 404 Not Found\r\nContent-Length: 0\r\n\r\n";

static int run(size_t cut, char out[2][128]) {
    htp_cfg_t *cfg = htp_config_create();
    htp_connp_t *connp = htp_connp_create(cfg);
    htp_connp_open(connp, "1.1.1.1", 1, "2.2.2.2", 80, NULL);
    htp_connp_req_data(connp, NULL, REQ, strlen(REQ));
    size_t n = strlen(RES);
    if (cut == 0 || cut >= n) htp_connp_res_data(connp, NULL, RES, n);
    else { htp_connp_res_data(connp, NULL, RES, cut); htp_connp_res_data(connp, NULL, RES + cut, n - cut); }
    htp_connp_close(connp, NULL);
    int ntx = (int) htp_list_size(connp->conn->transactions);
    for (int i = 0; i < 2; i++) {
        out[i][0] = 0;
        htp_tx_t *tx = i < ntx ? htp_list_get(connp->conn->transactions, i) : NULL;
        if (tx != NULL && tx->response_line != NULL) {
            size_t l = bstr_len(tx->response_line); if (l > 127) l = 127;
            memcpy(out[i], bstr_ptr(tx->response_line), l); out[i][l] = 0;
        }
    }
    htp_connp_destroy_all(connp);
    htp_config_destroy(cfg);
    return ntx;
}

int main(void) {
    char whole[2][128], seg[2][128];
    int bad = 0;
    int n0 = run(0, whole);
    for (size_t cut = 1; cut < strlen(RES); cut++) {
        int n1 = run(cut, seg);
        if (n1 != n0 || strcmp(whole[0], seg[0]) != 0 || strcmp(whole[1], seg[1]) != 0) {
            bad++;
            printf("cut at %zu: tx=%d line0=[%s] line1=[", cut, n1, seg[0]);
            for (char *p = seg[1]; *p; p++) if (*p == '\r') printf("\\r"); else if (*p == '\n') printf("\\n"); else putchar(*p);
            printf("]   (whole: [%s] [%s])\n", whole[0], whole[1]);
        }
    }
    printf("%d of %zu single cuts change the reported response lines\n", bad, strlen(RES) - 1);
    return bad != 0;
}
