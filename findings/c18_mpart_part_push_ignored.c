/* C18 / C01 / C14: htp_mpartp_handle_data() ignores the result of htp_list_push(parser->multipart.parts, parser->current_part) (htp_multipart.c:821).
 * The part list starts with 64 slots; the 65th part makes it grow.  If that allocation fails the part record is used as current_part but is not in
 * the list that htp_mpartp_destroy() walks: the record, its header table and its name / value strings are never released (and the part is missing
 * from the reported multipart structure although its bytes were consumed).
 * SECOND leak shown by the same sweep (observed k = 728..795 of 795, request data rc = HTP_STREAM_ERROR): htp_ch_multipart_callback_request_body_data()
 * (htp_content_handlers.c:236-252) sets gave_up_data = 1 and returns when calloc(param) or htp_tx_req_add_param() fails in the MIDDLE of the hand-over loop.
 * gave_up_data tells htp_mpart_part_destroy() not to free the name / value of ANY text part, but only the first i parts were handed to the transaction:
 * the names and values of parts i..n-1 are owned by nobody (about 2 x 65 strings here).  The urlencoded twin releases the rest (give_up_params:).
 * The single leak of 9 allocations (observed k = 708) is the ignored htp_list_push described above.
 * build: gcc -g -I/repo -I/repo/htp findings/c18_mpart_part_push_ignored.c /repo/htp/*.c /repo/htp/lzma/*.c -lz     (interposes malloc: no sanitizer)
 * One POST with 66 form-data parts; the k-th allocation made while the BODY is parsed fails, for every k.
 * exit 0: nothing stays allocated after teardown for every k; exit 1 + message otherwise. */
#include <stdio.h>
#include <stdlib.h>
#include <string.h>
#include "htp.h"
extern void *__libc_malloc(size_t); extern void *__libc_calloc(size_t, size_t); extern void *__libc_realloc(void *, size_t); extern void __libc_free(void *);
static long countdown = -1, seen, live;
static int fail_now(void) { seen++; if (countdown > 0 && --countdown == 0) return 1; return 0; }
void *malloc(size_t n) { if (fail_now()) return NULL; void *p = __libc_malloc(n); if (p) live++; return p; }
void *calloc(size_t a, size_t b) { if (fail_now()) return NULL; void *p = __libc_calloc(a, b); if (p) live++; return p; }
void *realloc(void *q, size_t n) { if (fail_now()) return NULL; void *p = __libc_realloc(q, n); if (p && !q) live++; return p; }
void free(void *p) { if (p) live--; __libc_free(p); }
static char body[16384], head[256];
static int scenario(long k, long *nalloc, int quiet) {
    long before = live;
    htp_cfg_t *cfg = htp_config_create();
    htp_config_set_server_personality(cfg, HTP_SERVER_GENERIC);
    htp_config_register_multipart_parser(cfg);
    htp_connp_t *connp = htp_connp_create(cfg);
    htp_connp_open(connp, "1.1.1.1", 1000, "2.2.2.2", 80, NULL);
    htp_connp_req_data(connp, NULL, head, strlen(head));
    seen = 0; countdown = k;
    int rc = htp_connp_req_data(connp, NULL, body, strlen(body));
    countdown = -1; *nalloc = seen;
    htp_connp_close(connp, NULL);
    htp_connp_destroy_all(connp);
    htp_config_destroy(cfg);
    if (live != before) { if (!quiet) printf("k=%ld (body rc=%d): %ld allocations still live after htp_connp_destroy_all + htp_config_destroy\n", k, rc, live - before); return 1; }
    return 0;
}
int main(void) {
    size_t o = 0;
    for (int i = 0; i < 66; i++) o += sprintf(body + o, "--X\r\nContent-Disposition: form-data; name=\"p%d\"\r\n\r\n%d\r\n", i, i);
    o += sprintf(body + o, "--X--\r\n");
    sprintf(head, "POST / HTTP/1.1\r\nHost: a\r\nContent-Type: multipart/form-data; boundary=X\r\nContent-Length: %zu\r\n\r\n", o);
    long n = 0; int bad = 0, shown = 0;
    scenario(0, &n, 0);
    printf("parsing the body performs %ld allocations\n", n);
    for (long k = 1; k <= n; k++) { long m; int b = scenario(k, &m, shown >= 5); if (b) shown++; bad += b; }
    if (bad) { printf("DEFECT: %d of %ld single allocation failures leave memory allocated after teardown\n", bad, n); return 1; }
    printf("ok\n");
    return 0;
}
