#include <stdio.h>
#include <string.h>
#include "htp/htp.h"
static int cb(htp_tx_t *tx){ printf("REQUEST_COMPLETE: message_len=%ld entity_len=%ld\n", (long)tx->request_message_len, (long)tx->request_entity_len); return HTP_OK; }
static int body(htp_tx_data_t *d){ printf("BODY_DATA len=%zu\n", d->len); return HTP_OK; }
int main(void){
  htp_cfg_t *cfg = htp_config_create(); htp_config_set_server_personality(cfg, HTP_SERVER_GENERIC);
  htp_config_register_request_complete(cfg, cb); htp_config_register_request_body_data(cfg, body);
  htp_connp_t *c = htp_connp_create(cfg); htp_connp_open(c, "1.1.1.1", 1, "2.2.2.2", 80, NULL);
  const char *r = "GET / HTTP/1.1\r\nHost: a\r\n\r\nunexpected body bytes\r\nGET /2 HTTP/1.1\r\nHost: a\r\n\r\n";
  int rc = htp_connp_req_data(c, NULL, r, strlen(r)); printf("rc=%d\n", rc);
  htp_connp_close(c, NULL); htp_connp_destroy_all(c); htp_config_destroy(cfg); return 0; }
