/* C03 candidate (segmentation, response side), found while putting htp_connp_RES_LINE under contract (loop invariant "a CR read so far is followed by a visible LF").
 * htp_response.c:1025-1033: a CR ends the status line when the NEXT BYTE IS VISIBLE and is not LF (out_next_byte = LF); when the CR is the last byte of the chunk the state
 * returns DATA_BUFFER, and on re-entry the first byte of the next chunk is simply copied (the pending CR is forgotten), so the line continues up to the next LF.
 * Stream "HTTP/1.1 200 OK\rContent-Length: 3\r\n\r\nabc": whole => response line "HTTP/1.1 200 OK", 1 header; cut right after the CR (offset 16) => response line
 * "HTTP/1.1 200 OK\rContent-Length: 3", 0 headers (the Content-Length header is swallowed by the status line).  A bare CR as a line end is not well-formed HTTP/1.1,
 * so this is outside the letter of C03's quantifier; the parser does accept it as a line end when it can see the next byte.
 * build: gcc -g -fsanitize=address,undefined -I/repo -I/repo/htp findings/c03_res_line_bare_cr_cut.c /repo/htp/[a-z]*.c /repo/htp/lzma/[A-Za-z]*.c -lz ; exit 1 = a cut changes the report */
#include <stdio.h>
#include <string.h>
#include <stdlib.h>
#include "htp.h"
#include "htp_private.h"

static const char REQ[] = "GET /a HTTP/1.1\r\nHost: x\r\n\r\n";
static const char RES[] = "HTTP/1.1 200 OK\rContent-Length: 3\r\n\r\nabc";
static size_t body_n; static char body[256];
static int on_body(htp_tx_data_t *d) { if (d->data != NULL && body_n + d->len < sizeof(body)) { memcpy(body + body_n, d->data, d->len); body_n += d->len; } return HTP_OK; }

static void run(size_t cut, char *out, size_t outsz) {
    htp_cfg_t *cfg = htp_config_create();
    htp_config_register_response_body_data(cfg, on_body);
    htp_connp_t *connp = htp_connp_create(cfg);
    htp_connp_open(connp, "1.1.1.1", 1, "2.2.2.2", 80, NULL);
    htp_connp_req_data(connp, NULL, REQ, strlen(REQ));
    size_t n = strlen(RES); body_n = 0;
    if (cut == 0 || cut >= n) htp_connp_res_data(connp, NULL, RES, n);
    else { htp_connp_res_data(connp, NULL, RES, cut); htp_connp_res_data(connp, NULL, RES + cut, n - cut); }
    htp_connp_close(connp, NULL);
    int ntx = (int) htp_list_size(connp->conn->transactions);
    htp_tx_t *tx = ntx > 0 ? htp_list_get(connp->conn->transactions, 0) : NULL;
    body[body_n] = 0;
    for (size_t i = 0; i < body_n; i++) if (body[i] == '\r' || body[i] == '\n') body[i] = '.';
    char rl[128]; rl[0]=0; if (tx && tx->response_line) { size_t l=bstr_len(tx->response_line); if (l>127) l=127; memcpy(rl,bstr_ptr(tx->response_line),l); rl[l]=0; for (size_t i=0;i<l;i++) if (rl[i]==13||rl[i]==10) rl[i]=46; }
    snprintf(out, outsz, "tx=%d status0=%d line=[%s] nhdr=%d body=[%s]", ntx, tx ? tx->response_status_number : -9, rl, tx ? (int) htp_table_size(tx->response_headers) : -1, body);
    htp_connp_destroy_all(connp);
    htp_config_destroy(cfg);
}

int main(void) {
    char whole[512], seg[512]; int bad = 0;
    run(0, whole, sizeof(whole));
    printf("whole : %s\n", whole);
    for (size_t cut = 1; cut < strlen(RES); cut++) {
        run(cut, seg, sizeof(seg));
        if (strcmp(whole, seg) != 0) { bad++; printf("cut %2zu: %s\n", cut, seg); }
    }
    printf("%d of %zu single cuts change the reported transactions\n", bad, strlen(RES) - 1);
    return bad != 0;
}
