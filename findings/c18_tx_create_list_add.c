/* C18 / C04 / C01: htp_tx_create() ignores the result of htp_list_add(tx->conn->transactions, tx) (htp_transaction.c:106).
 * When the connection's transaction list is full (16 slots initially) the append has to grow it; if that one allocation fails the new transaction is
 * still handed out and becomes connp->in_tx, but it is NOT in the connection's list:
 *   - tx->index == htp_list_size(transactions), i.e. an index that designates no element (pairing by index, C04: the response to this request
 *     is matched against a slot that does not hold it - the next successful append even puts ANOTHER transaction at that index);
 *   - htp_connp_destroy_all() / htp_conn_destroy() destroy the transactions that are in the list, so this one is never destroyed: the record, its URI
 *     record, three tables and everything parsed into it stay allocated after the parser and the configuration are gone (C01 teardown, C18 "destroying
 *     the parser afterwards is clean").
 * build: gcc -g -I/repo -I/repo/htp findings/c18_tx_create_list_add.c /repo/htp/*.c /repo/htp/lzma/*.c -lz      (interposes malloc: no sanitizer)
 * The program sends 17 pipelined requests; while the 17th is parsed it fails the k-th allocation, for every k, then tears everything down.
 * exit 0: for every k the request transaction is in the connection's list at its index and nothing stays allocated; exit 1 + message otherwise. */
#include <stdio.h>
#include <stdlib.h>
#include <string.h>
#include "htp.h"
#include "htp_private.h"
extern void *__libc_malloc(size_t); extern void *__libc_calloc(size_t, size_t); extern void *__libc_realloc(void *, size_t); extern void __libc_free(void *);
static long countdown = -1, seen, live;
static int fail_now(void) { seen++; if (countdown > 0 && --countdown == 0) return 1; return 0; }
void *malloc(size_t n) { if (fail_now()) return NULL; void *p = __libc_malloc(n); if (p) live++; return p; }
void *calloc(size_t a, size_t b) { if (fail_now()) return NULL; void *p = __libc_calloc(a, b); if (p) live++; return p; }
void *realloc(void *q, size_t n) { if (fail_now()) return NULL; void *p = __libc_realloc(q, n); if (p && !q) live++; return p; }
void free(void *p) { if (p) live--; __libc_free(p); }
static htp_tx_t *last_tx;
static int on_request_line(htp_tx_t *tx) { last_tx = tx; return HTP_OK; }
static int scenario(long k, long *nalloc) {
    int bad = 0;
    long before = live;
    htp_cfg_t *cfg = htp_config_create();
    htp_config_set_server_personality(cfg, HTP_SERVER_GENERIC);
    htp_config_register_request_line(cfg, on_request_line);
    htp_connp_t *connp = htp_connp_create(cfg);
    htp_connp_open(connp, "1.1.1.1", 1000, "2.2.2.2", 80, NULL);
    const char *rq = "GET / HTTP/1.1\r\nHost: a\r\n\r\n";
    for (int i = 0; i < 16; i++) htp_connp_req_data(connp, NULL, rq, strlen(rq));
    last_tx = NULL; seen = 0; countdown = k;
    int rc = htp_connp_req_data(connp, NULL, rq, strlen(rq));            /* 17th request: the list (16 slots) must grow */
    countdown = -1; *nalloc = seen;
    htp_tx_t *tx = last_tx;                                               /* the transaction the callbacks of the 17th request saw */
    htp_conn_t *conn = htp_connp_get_connection(connp);
    size_t n = htp_list_size(conn->transactions);
    /* every transaction the parser ever handed out must sit in the list at its own index */
    for (size_t i = 0; i < n; i++) { htp_tx_t *t = htp_list_get(conn->transactions, i); if (t != NULL && t->index != i) bad |= 1; }
    if (tx != NULL && rc != HTP_STREAM_ERROR && (tx->index >= n || htp_list_get(conn->transactions, tx->index) != tx)) {
        printf("k=%ld rc=%d: current request transaction has index %zu but the connection holds %zu transactions and does not contain it\n", k, rc, tx->index, n);
        bad |= 2;
    }
    htp_connp_close(connp, NULL);
    htp_connp_destroy_all(connp);
    htp_config_destroy(cfg);
    if (live != before) { printf("k=%ld: %ld allocations still live after htp_connp_destroy_all + htp_config_destroy\n", k, live - before); bad |= 4; }
    return bad;
}
int main(void) {
    long n = 0; int bad = 0;
    scenario(0, &n);
    printf("the 17th request performs %ld allocations\n", n);
    for (long k = 1; k <= n; k++) { long m; bad |= scenario(k, &m); }
    if (bad) { printf("DEFECT (mask %d): a transaction outside the connection's list / leaked after teardown\n", bad); return 1; }
    printf("ok: every single allocation failure survived cleanly\n");
    return 0;
}
