#include <stdio.h>
#include <string.h>
#include "htp/htp.h"
static void run(const char *resp, size_t cut, char *out, size_t outsz) {
  htp_cfg_t *cfg = htp_config_create(); htp_config_set_server_personality(cfg, HTP_SERVER_GENERIC);
  htp_connp_t *c = htp_connp_create(cfg); htp_connp_open(c, "1.1.1.1", 1, "2.2.2.2", 80, NULL);
  const char *req = "GET / HTTP/1.1\r\nHost: a\r\n\r\n"; htp_connp_req_data(c, NULL, req, strlen(req));
  size_t n = strlen(resp);
  if (cut == 0 || cut >= n) htp_connp_res_data(c, NULL, resp, n);
  else { htp_connp_res_data(c, NULL, resp, cut); htp_connp_res_data(c, NULL, resp + cut, n - cut); }
  htp_connp_close(c, NULL);
  htp_tx_t *tx = htp_list_get(htp_connp_get_connection(c)->transactions, 0);
  size_t o = snprintf(out, outsz, "n=%zu flags=%llx st=%d el=%ld |", htp_table_size(tx->response_headers), (unsigned long long) tx->flags, tx->response_status_number, (long) tx->response_entity_len);
  for (size_t i = 0; i < htp_table_size(tx->response_headers); i++) { htp_header_t *h = htp_table_get_index(tx->response_headers, i, NULL);
    o += snprintf(out + o, outsz - o, "%.*s=%.*s;", (int) bstr_len(h->name), bstr_ptr(h->name), (int) bstr_len(h->value), bstr_ptr(h->value)); }
  htp_connp_destroy_all(c); htp_config_destroy(cfg);
}
int main(void) {
  const char *rs[] = { "HTTP/1.1 200 OK\r\nX-A: b\r\n c\r\nContent-Length: 3\r\n\r\nabc",
                       "HTTP/1.1 200 OK\nX-A: b\n\tc\nX-B: d\nContent-Length: 0\n\n",
                       "HTTP/1.1 200 OK\r\nX-A: b\r\nX-A: c\r\nTransfer-Encoding: chunked\r\n\r\n3\r\nabc\r\n0\r\n\r\n" };
  int bad = 0;
  for (int r = 0; r < 3; r++) { char w[512], s[512]; run(rs[r], 0, w, sizeof w);
    for (size_t cut = 1; cut < strlen(rs[r]); cut++) { run(rs[r], cut, s, sizeof s); if (strcmp(w, s)) { bad++; printf("resp %d cut %zu:\n  whole %s\n  split %s\n", r, cut, w, s); } } }
  printf("differences: %d\n", bad); return bad != 0; }
