/* C18 finding mpart_params — double free of multipart text-part names/values owned by both the multipart parser and the transaction
 *
 * Build (from anywhere):
 *   gcc -g -fsanitize=address,undefined -I/repo -I/repo/htp -Wl,--wrap=malloc,--wrap=calloc,--wrap=realloc,--wrap=strdup \
 *       /verif/findings/c18_mpart_params.c /repo/htp/*.c /repo/htp/lzma/*.c -lz -o /var/tmp/c18_mpart_params
 * Run:  /var/tmp/c18_mpart_params      (exit status != 0 and an AddressSanitizer report = defect present;
 *                                       "sweep complete, no memory error" and exit 0 = fixed)
 *
 * What it does: the library's allocator calls are wrapped; for k = 1, 2, 3, ... the scenario below is run once with
 * exactly the k-th allocation after the arming point failing (one single allocation failure per run, as C18 states),
 * then parser and configuration are destroyed.  The sweep ends when a run needed fewer than k allocations.
 *
 * htp_ch_multipart_callback_request_body_data (htp/htp_content_handlers.c, loop over body->parts at end of body): every TEXT
 * part's name/value pointers are copied into a new htp_param_t in tx->request_params; the parser is told that it no
 * longer owns them (gave_up_data = 1) only AFTER the loop.  If the calloc of a later htp_param_t (or htp_tx_req_add_param)
 * fails, the function returns HTP_ERROR with gave_up_data == 0 and the earlier parts shared: htp_tx_destroy_incomplete
 * frees them through htp_mpartp_destroy -> htp_mpart_part_destroy (htp/htp_multipart.c:493-494) and again in its parameter
 * loop (htp/htp_transaction.c:165-166).  Reached from the wire: a multipart/form-data body with two or more text parts
 * under memory pressure, with the multipart parser registered.  Same pattern as finding c18_urlenc_params.
 * Proof unit: none (found by the native sweep while writing the C18 units; the urlencoded twin is unit c18_urlenc_body).
 * Proposed minimal fix: set `tx->request_mpartp->gave_up_data = 1;` before each of the two `return HTP_ERROR;` inside that
 * loop (the names/values of parts not yet moved then leak instead of the moved ones being freed twice), or roll the moved
 * parameters back.
 */
#include <stdio.h>
#include <stdlib.h>
#include <string.h>
#include "htp/htp.h"

static long g_count, g_fail_at = -1;
static int g_armed;
void *__real_malloc(size_t); void *__real_calloc(size_t, size_t); void *__real_realloc(void *, size_t); char *__real_strdup(const char *);
#define FAIL_NOW() (g_armed && ++g_count == g_fail_at)
void *__wrap_malloc(size_t n) { if (FAIL_NOW()) return NULL; return __real_malloc(n); }
void *__wrap_calloc(size_t a, size_t b) { if (FAIL_NOW()) return NULL; return __real_calloc(a, b); }
void *__wrap_realloc(void *p, size_t n) { if (FAIL_NOW()) return NULL; return __real_realloc(p, n); }
char *__wrap_strdup(const char *s) { if (FAIL_NOW()) return NULL; return __real_strdup(s); }

static const char REQ[] = "POST /m HTTP/1.1\r\nHost: h\r\nContent-Type: multipart/form-data; boundary=BB\r\nContent-Length: 173\r\n\r\n--BB\r\nContent-Disposition: form-data; name=\"f1\"\r\n\r\nv1\r\n--BB\r\nContent-Disposition: form-data; name=\"f2\"\r\n\r\nv2\r\n--BB\r\nContent-Disposition: form-data; name=\"f3\"\r\n\r\nv3\r\n--BB--\r\n";
static void run(void) {
  htp_cfg_t *cfg = htp_config_create();
  if (cfg == NULL) return;
  htp_config_set_server_personality(cfg, HTP_SERVER_APACHE_2);
  htp_config_register_multipart_parser(cfg);
  htp_connp_t *connp = htp_connp_create(cfg);
  if (connp != NULL) {
    htp_connp_open(connp, "10.0.0.1", 1234, "10.0.0.2", 80, NULL);
    g_armed = 1;                                   /* arming point: only allocations made while processing the stream fail */
    int rc = htp_connp_req_data(connp, NULL, REQ, sizeof(REQ) - 1);
    g_armed = 0;
    fprintf(stderr, "  htp_connp_req_data -> %d (%s)\n", rc, rc == HTP_STREAM_ERROR ? "HTP_STREAM_ERROR" : "not an error");
    htp_connp_close(connp, NULL);
    htp_connp_destroy_all(connp);                  /* the documented teardown */
  }
  htp_config_destroy(cfg);
}

int main(int argc, char **argv) {
  long k0 = argc > 1 ? atol(argv[1]) : 1;
  for (long k = k0; ; k++) {
    fprintf(stderr, "c18_mpart_params: failing allocation #%ld after the arming point\n", k);
    g_count = 0; g_fail_at = k; g_armed = 0;
    run();
    g_armed = 0;
    if (g_count < k) break;
  }
  fprintf(stderr, "c18_mpart_params: sweep complete, no memory error\n");
  return 0;
}
