/* C01: use after free on a documented call history.
 * htp_connection_parser.h: "htp_connp_destroy: Destroys the connection parser and its data structures, leaving all the data (connection,
 * transactions, etc) intact."  The transactions that are left intact keep tx->connp pointing at the freed parser; destroying one of them afterwards
 * through the public htp_tx_destroy() runs htp_tx_destroy_incomplete() -> htp_connp_tx_remove(tx->connp, tx), which reads (and, if the stale
 * memory happens to hold the transaction's address, writes) connp->in_tx / connp->out_tx inside the freed parser object.
 * build: gcc -g -fsanitize=address,undefined -I/repo -I/repo/htp findings/c01_connp_destroy_dangling_tx.c /repo/htp/*.c /repo/htp/lzma/*.c -lz
 * expected on a correct library: exit 0 without a sanitizer report.  Observed: AddressSanitizer heap-use-after-free in htp_connp_tx_remove. */
#include <stdio.h>
#include <string.h>
#include "htp.h"
#include "htp_private.h"
int main(void) {
    htp_cfg_t *cfg = htp_config_create();
    htp_config_set_server_personality(cfg, HTP_SERVER_GENERIC);
    htp_connp_t *connp = htp_connp_create(cfg);
    htp_connp_open(connp, "1.1.1.1", 1000, "2.2.2.2", 80, NULL);
    const char *rq = "GET / HTTP/1.1\r\nHost: a\r\n\r\n";
    const char *rs = "HTTP/1.1 200 OK\r\nContent-Length: 1\r\n\r\nx";
    htp_connp_req_data(connp, NULL, rq, strlen(rq));
    htp_connp_res_data(connp, NULL, rs, strlen(rs));
    htp_conn_t *conn = htp_connp_get_connection(connp);
    htp_tx_t *tx = htp_list_get(conn->transactions, 0);
    printf("transaction complete: %d\n", htp_tx_is_complete(tx));
    htp_connp_destroy(connp);                 /* documented: connection and transactions stay intact */
    int rc = htp_tx_destroy(tx);              /* public destructor of a complete transaction */
    printf("htp_tx_destroy after htp_connp_destroy: rc=%d\n", rc);
    htp_conn_destroy(conn);                   /* (private; the public API offers no way to release the connection that was left intact) */
    htp_config_destroy(cfg);
    return 0;
}
