/* C01 / C10: a per-transaction RESPONSE body hook is never released.
 * htp_tx_register_response_body_data() (public API, htp_transaction.c) allocates tx->hook_response_body_data (hook record, its list, one
 * callback record) exactly like htp_tx_register_request_body_data() allocates tx->hook_request_body_data, but htp_tx_destroy_incomplete()
 * only calls htp_hook_destroy(tx->hook_request_body_data): the response-side hook stays allocated after htp_tx_destroy(), after
 * htp_connp_destroy_all() and after htp_config_destroy().  With one registration per transaction (a RESPONSE_HEADERS callback that wants the
 * body of THIS transaction - the documented use) the memory held by the process grows linearly with the number of transactions.
 * build: gcc -g -fsanitize=address,undefined -I/repo -I/repo/htp findings/c01_tx_response_hook_leak.c /repo/htp/*.c /repo/htp/lzma/*.c -lz
 * The program counts live allocations itself (malloc/calloc/realloc/free interposed), so it does not depend on LeakSanitizer.
 * exit 0: nothing allocated during the run is still live after everything was destroyed; exit 1 + message otherwise. */
#include <stdio.h>
#include <stdlib.h>
#include <string.h>
#include "htp.h"
#include "htp_private.h"
static long live_request_variant, live_response_variant;
static int body_cb(htp_tx_data_t *d) { return HTP_OK; }
static int which;                                   /* 0: register a request-body hook, 1: a response-body hook */
static int on_response_headers(htp_tx_t *tx) {
    if (which == 0) htp_tx_register_request_body_data(tx, body_cb); else htp_tx_register_response_body_data(tx, body_cb);
    return HTP_OK;
}
/* live-allocation accounting: malloc / calloc / realloc / free interposed (only in the build without ASan) */
extern void *__libc_malloc(size_t); extern void *__libc_calloc(size_t, size_t); extern void *__libc_realloc(void *, size_t); extern void __libc_free(void *);
static long live;
#ifndef __SANITIZE_ADDRESS__
void *malloc(size_t n) { void *p = __libc_malloc(n); if (p) live++; return p; }
void *calloc(size_t a, size_t b) { void *p = __libc_calloc(a, b); if (p) live++; return p; }
void *realloc(void *q, size_t n) { void *p = __libc_realloc(q, n); if (p && !q) live++; return p; }
void free(void *p) { if (p) live--; __libc_free(p); }
#endif
static long run(int variant, int ntx) {
    which = variant;
    long before = live;
    htp_cfg_t *cfg = htp_config_create();
    htp_config_set_server_personality(cfg, HTP_SERVER_GENERIC);
    htp_config_register_response_headers(cfg, on_response_headers);
    htp_connp_t *connp = htp_connp_create(cfg);
    htp_connp_open(connp, "1.1.1.1", 1000, "2.2.2.2", 80, NULL);
    const char *rq = "GET / HTTP/1.1\r\nHost: a\r\n\r\n";
    const char *rs = "HTTP/1.1 200 OK\r\nContent-Length: 1\r\n\r\nx";
    for (int i = 0; i < ntx; i++) {
        htp_connp_req_data(connp, NULL, rq, strlen(rq));
        htp_connp_res_data(connp, NULL, rs, strlen(rs));
    }
    htp_connp_close(connp, NULL);
    htp_connp_destroy_all(connp);
    htp_config_destroy(cfg);
    return live - before;
}
int main(void) {
    live_request_variant = run(0, 3);
    live_response_variant = run(1, 3);
    printf("live allocations after teardown: request-body hook variant %ld, response-body hook variant %ld\n", live_request_variant, live_response_variant);
#ifdef __SANITIZE_ADDRESS__
    printf("(built with ASan: counts are not taken; rely on the LeakSanitizer report at exit)\n");
    return 0;
#else
    if (live_request_variant != 0 || live_response_variant != 0) { printf("LEAK: memory allocated by the library is still live after htp_connp_destroy_all + htp_config_destroy\n"); return 1; }
    return 0;
#endif
}
