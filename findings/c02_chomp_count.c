/* O4 / candidate F2 (C02 body fidelity, C06 accounting): htp_chomp returns a CLASS (0 nothing, 1 lone LF / lone CR, 2 CR LF -- of the
 * LEFTMOST removed terminator), not the number of removed bytes (unit ref_chomp_line_predicates).  htp_response.c:1086-1102 uses it
 * as a byte count when a first response line that does not look like a status line is handed to the body:
 *     int chomp_result = htp_chomp(data, &len);  ...  htp_tx_res_process_body_data_ex(connp->out_tx, data, len + chomp_result);
 * A line ending in CR CR LF loses 3 bytes to htp_chomp but only 1 is given back: the body callback sees "abc\r" instead of
 * "abc\r\r\n" -- two bytes that were on the wire are never reported.
 * build: gcc -g -fsanitize=address,undefined -I/repo -I/repo/htp findings/c02_chomp_count.c /repo/htp/*.c /repo/htp/lzma/*.c -lz */
#include <stdio.h>
#include <string.h>
#include "htp/htp.h"
static size_t total;
static int body(htp_tx_data_t *d) {
    if (d->data == NULL) return HTP_OK;
    printf("RESPONSE_BODY_DATA len=%zu: ", d->len);
    for (size_t i = 0; i < d->len; i++) printf(d->data[i] >= 32 && d->data[i] < 127 ? "%c" : "\\x%02x", d->data[i]);
    printf("\n"); total += d->len; return HTP_OK;
}
int main(void) {
    htp_cfg_t *cfg = htp_config_create(); htp_config_set_server_personality(cfg, HTP_SERVER_GENERIC);
    htp_config_register_response_body_data(cfg, body);
    htp_connp_t *c = htp_connp_create(cfg); htp_connp_open(c, "1.1.1.1", 1, "2.2.2.2", 80, NULL);
    const char *rq = "GET / HTTP/1.1\r\nHost: a\r\n\r\n";
    const char *rs = "abc\r\r\nrest-of-body";
    htp_connp_req_data(c, NULL, rq, strlen(rq));
    htp_connp_res_data(c, NULL, rs, strlen(rs));
    htp_connp_close(c, NULL);
    printf("bytes on the wire: %zu, bytes reported as body: %zu\n", strlen(rs), total);
    htp_connp_destroy_all(c); htp_config_destroy(cfg); return total == strlen(rs) ? 0 : 1; }
