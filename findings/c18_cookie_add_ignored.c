/* C18 / C01: htp_parse_single_cookie_v0() ignores the result of htp_table_addn(tx->request_cookies, name, value) (htp_cookies.c:77).
 * The cookie table is created with room for 4 cookies; from the 5th cookie on the insertion has to grow the table.  If that allocation fails the two
 * freshly allocated strings (name, value) are owned by nobody: the function still returns HTP_OK (the cookie is silently dropped, which C18 allows as
 * "degrades"), but the strings are never freed - they stay allocated after htp_connp_destroy_all() and htp_config_destroy().
 * build: gcc -g -I/repo -I/repo/htp findings/c18_cookie_add_ignored.c /repo/htp/*.c /repo/htp/lzma/*.c -lz        (interposes malloc: no sanitizer)
 * The program parses one request with five cookies and fails the k-th allocation of that call, for every k.
 * exit 0: nothing is live after teardown for every k; exit 1 + message otherwise. */
#include <stdio.h>
#include <stdlib.h>
#include <string.h>
#include "htp.h"
extern void *__libc_malloc(size_t); extern void *__libc_calloc(size_t, size_t); extern void *__libc_realloc(void *, size_t); extern void __libc_free(void *);
static long countdown = -1, seen, live;
static int fail_now(void) { seen++; if (countdown > 0 && --countdown == 0) return 1; return 0; }
void *malloc(size_t n) { if (fail_now()) return NULL; void *p = __libc_malloc(n); if (p) live++; return p; }
void *calloc(size_t a, size_t b) { if (fail_now()) return NULL; void *p = __libc_calloc(a, b); if (p) live++; return p; }
void *realloc(void *q, size_t n) { if (fail_now()) return NULL; void *p = __libc_realloc(q, n); if (p && !q) live++; return p; }
void free(void *p) { if (p) live--; __libc_free(p); }
static int scenario(long k, long *nalloc) {
    long before = live;
    htp_cfg_t *cfg = htp_config_create();
    htp_config_set_server_personality(cfg, HTP_SERVER_GENERIC);
    htp_connp_t *connp = htp_connp_create(cfg);
    htp_connp_open(connp, "1.1.1.1", 1000, "2.2.2.2", 80, NULL);
    const char *rq = "GET / HTTP/1.1\r\nHost: a\r\nCookie: a=1; b=2; c=3; d=4; e=5\r\n\r\n";
    seen = 0; countdown = k;
    int rc = htp_connp_req_data(connp, NULL, rq, strlen(rq));
    countdown = -1; *nalloc = seen;
    htp_connp_close(connp, NULL);
    htp_connp_destroy_all(connp);
    htp_config_destroy(cfg);
    if (live != before) { printf("k=%ld (request data rc=%d): %ld allocations still live after htp_connp_destroy_all + htp_config_destroy\n", k, rc, live - before); return 1; }
    return 0;
}
int main(void) {
    long n = 0; int bad = 0;
    scenario(0, &n);
    printf("the request performs %ld allocations\n", n);
    for (long k = 1; k <= n; k++) { long m; bad |= scenario(k, &m); }
    if (bad) { printf("DEFECT: strings leaked after an allocation failure\n"); return 1; }
    printf("ok\n");
    return 0;
}
