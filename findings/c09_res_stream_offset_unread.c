/* Observation (C09 bookkeeping, low severity), found while putting htp_connp_RES_FINALIZE under contract (contracts/sm_resline.h):
 * the probe of the line that follows a response copies bytes with OUT_COPY_BYTE_OR_RETURN, which advances out_stream_offset, and then UN-READS the line
 * (htp_response.c:1186-1197: read / consume offsets go back, the buffer is cut back) WITHOUT taking out_stream_offset back.  RES_LINE reads the same
 * bytes again, so the private stream offset counts every status line of a pipelined response twice: 86 bytes offered, out_stream_offset == 110 below
 * (the 24-byte line "HTTP/1.1 404 Not Found\r\n" is counted twice).  conn->out_data_counter (the public counter) is correct; out_stream_offset has no
 * reader outside htp_response.c in this tree, so nothing observable depends on it today.  The RES_FINALIZE contract therefore states
 * "stream offset += bytes read" only for the DATA_BUFFER and unexpected-body outcomes, not for the un-read outcome.
 * build: gcc -g -fsanitize=address,undefined -I/repo -I/repo/htp findings/c09_res_stream_offset_unread.c /repo/htp/[a-z]*.c /repo/htp/lzma/[A-Za-z]*.c -lz ; exit 1 = over-count */
#include <stdio.h>
#include <string.h>
#include "htp.h"
#include "htp_private.h"
static const char REQ[] = "GET /a HTTP/1.1\r\nHost: x\r\n\r\nGET /b HTTP/1.1\r\nHost: x\r\n\r\n";
static const char RES[] = "HTTP/1.1 200 OK\r\nContent-Length: 3\r\n\r\nabcHTTP/1.1 404 Not Found\r\nContent-Length: 0\r\n\r\n";
int main(void) {
    htp_cfg_t *cfg = htp_config_create(); htp_connp_t *c = htp_connp_create(cfg);
    htp_connp_open(c, "1.1.1.1", 1, "2.2.2.2", 80, NULL);
    htp_connp_req_data(c, NULL, REQ, strlen(REQ));
    htp_connp_res_data(c, NULL, RES, strlen(RES));
    printf("bytes offered %zu, out_stream_offset %lld, out_data_counter %lld\n", strlen(RES), (long long) c->out_stream_offset, (long long) c->conn->out_data_counter);
    int bad = c->out_stream_offset != (int64_t) strlen(RES);
    htp_connp_close(c, NULL); htp_connp_destroy_all(c); htp_config_destroy(cfg); return bad; }
