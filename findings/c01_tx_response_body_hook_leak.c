/* C01 (clean teardown): a per-transaction RESPONSE_BODY_DATA hook registered through the public
 * htp_tx_register_response_body_data() is never freed by htp_tx_destroy_incomplete() (the request-side twin is).
 * Build: gcc -fsanitize=address -I/repo -I/repo/htp this.c /repo/htp/*.c /repo/htp/lzma/*.c -lz && ./a.out
 * Before the fix LeakSanitizer reports htp_hook_create <- htp_hook_register <- htp_tx_register_response_body_data (exit 23);
 * after the fix the run is clean (exit 0).  First pointed out by two independent breaker agents (round 4). */
#include <string.h>
#include "htp/htp.h"
static int cb_body(htp_tx_data_t *d) { (void) d; return HTP_OK; }
static int cb_headers(htp_tx_t *tx) { htp_tx_register_response_body_data(tx, cb_body); htp_tx_register_request_body_data(tx, cb_body); return HTP_OK; }
int main(void) {
    htp_cfg_t *cfg = htp_config_create();
    htp_config_set_server_personality(cfg, HTP_SERVER_GENERIC);
    htp_config_register_response_headers(cfg, cb_headers);
    htp_connp_t *connp = htp_connp_create(cfg);
    htp_connp_open(connp, "127.0.0.1", 1, "127.0.0.1", 80, NULL);
    const char *rq = "GET / HTTP/1.1\r\nHost: a\r\n\r\n", *rs = "HTTP/1.1 200 OK\r\nContent-Length: 2\r\n\r\nok";
    htp_connp_req_data(connp, NULL, rq, strlen(rq));
    htp_connp_res_data(connp, NULL, rs, strlen(rs));
    htp_connp_close(connp, NULL);
    htp_connp_destroy_all(connp);
    htp_config_destroy(cfg);
    return 0;
}
