/* F1 (C02 / C01): htp_parse_response_header_generic on a header line that is EMPTY after htp_chomp
 * (len == 0, or only CR / LF bytes): no colon => name_end = value_start = 0, value_end = len = 0, then
 *     prev = value_end - 1;                                   // SIZE_MAX
 *     while ((prev > value_start) && (htp_is_lws(data[prev])))   // evaluates data[SIZE_MAX] == data[-1]
 * (htp_response_generic.c:225-226).  One byte BEFORE the buffer is read; if that byte is SP or HT the loop keeps walking
 * backwards and value_end wraps, so bstr_dup_mem is asked for ~SIZE_MAX bytes.
 *
 * build:  gcc -g -fsanitize=address,undefined -I/repo -I/repo/htp findings/c02_resp_header_len0.c /repo/htp/*.c /repo/htp/lzma/*.c -lz -o /var/tmp/x && /var/tmp/x
 *
 * Part 1: through the stream API.  The response header block contains the line "\n" followed by a line starting with CR:
 *         "\n\r" leaves an empty pending header (connp->out_header, length 0), which is parsed when the next line arrives.
 *         The wrapper below prints "process_response_header(len=0)", i.e. the parser IS entered with an empty line.
 *         clang UBSan (clang -g -fsanitize=address,undefined ...): "htp_response_generic.c:226:48: runtime error: addition of
 *         unsigned offset to 0x... overflowed to 0x..." (gcc's UBSan treats the offset as signed and stays silent).
 *         The byte read is the last byte of the bstr header in front of the data (realptr == NULL => 0), so ASan stays silent
 *         on this path and the loop stops after one read.
 * Part 2: direct call with a heap buffer of one byte and len == 0 (and with "\r\n", len == 2): ASan heap-buffer-overflow READ
 *         of size 1, one byte to the left of the region.
 */
#include <stdio.h>
#include <stdlib.h>
#include <string.h>
#include "htp/htp.h"
#include "htp/htp_private.h"

static int (*orig_process)(htp_connp_t *, unsigned char *, size_t);
static int wrap_process(htp_connp_t *c, unsigned char *data, size_t len) {
    printf("process_response_header(len=%zu)\n", len); fflush(stdout);
    return orig_process(c, data, len);
}

int main(int argc, char **argv) {
    htp_cfg_t *cfg = htp_config_create();
    htp_config_set_server_personality(cfg, HTP_SERVER_GENERIC);
    orig_process = cfg->process_response_header; cfg->process_response_header = wrap_process;
    htp_connp_t *c = htp_connp_create(cfg);
    htp_connp_open(c, "1.1.1.1", 1, "2.2.2.2", 80, NULL);
    const char *rq = "GET / HTTP/1.1\r\nHost: a\r\n\r\n";
    const char *rs = "HTTP/1.1 200 OK\r\n\n\rX-A: b\r\nContent-Length: 0\r\n\r\n";
    printf("part 1: stream API\n"); fflush(stdout);
    htp_connp_req_data(c, NULL, rq, strlen(rq));
    int rc = htp_connp_res_data(c, NULL, rs, strlen(rs));
    printf("res_data rc=%d\n", rc); fflush(stdout);

    if (argc > 1) {          /* part 2 aborts under ASan; run with any argument */
        printf("part 2: direct call, len == 0, heap buffer\n"); fflush(stdout);
        htp_tx_t *tx = htp_list_get(c->conn->transactions, 0);
        c->out_tx = tx;
        htp_header_t h; memset(&h, 0, sizeof(h));
        unsigned char *buf = malloc(1);
        buf[0] = 'x';
        rc = htp_parse_response_header_generic(c, &h, buf, 0);
        printf("direct rc=%d\n", rc);
        free(buf);
    }
    htp_connp_close(c, NULL); htp_connp_destroy_all(c); htp_config_destroy(cfg);
    return 0;
}
