/* C18: htp_config_copy() under allocation failure.  The copy starts as a shallow memcpy of the original; when the copy of the k-th hook fails,
 * htp_config_destroy(copy) also destroys the hooks that were NOT yet copied - they are still the ORIGINAL's hook objects.  The original configuration
 * is left with dangling hook pointers: use after free when it is used, double free when it is destroyed.
 * build: gcc -g -I/repo -I/repo/htp findings/c18_config_copy.c /repo/htp/*.c /repo/htp/lzma/*.c -lz
 * (no sanitizer: the program interposes malloc itself; glibc aborts on the double free)
 * exit 0: every single allocation failure inside htp_config_copy is survived. */
#include <stdio.h>
#include <stdlib.h>
#include <sys/wait.h>
#include <unistd.h>
#include "htp.h"
extern void *__libc_malloc(size_t); extern void *__libc_calloc(size_t, size_t); extern void *__libc_realloc(void *, size_t);
static long countdown = -1, seen = 0;
static int fail_now(void) { seen++; if (countdown > 0 && --countdown == 0) return 1; return 0; }
void *malloc(size_t n) { return fail_now() ? NULL : __libc_malloc(n); }
void *calloc(size_t a, size_t b) { return fail_now() ? NULL : __libc_calloc(a, b); }
void *realloc(void *p, size_t n) { return fail_now() ? NULL : __libc_realloc(p, n); }
static int cb(htp_tx_t *tx) { return HTP_OK; }
static int scenario(long k) {
    htp_cfg_t *cfg = htp_config_create();
    htp_config_register_request_start(cfg, cb);
    htp_config_register_request_line(cfg, cb);
    htp_config_register_response_complete(cfg, cb);
    seen = 0; countdown = k;
    htp_cfg_t *copy = htp_config_copy(cfg);
    countdown = -1;
    long n = seen;
    htp_config_destroy(copy);
    htp_config_destroy(cfg);          /* the original must still be intact */
    return (int) n;
}
int main(void) {
    int n = scenario(-1), bad = 0;
    printf("fault-free htp_config_copy: %d allocations\n", n);
    for (long k = 1; k <= n; k++) {
        pid_t p = fork();
        if (p == 0) { scenario(k); _exit(0); }
        int st; waitpid(p, &st, 0);
        if (!(WIFEXITED(st) && WEXITSTATUS(st) == 0)) { bad++; printf("k=%ld: not survived (status 0x%x)\n", k, st); }
    }
    printf("%d of %d injected failures not survived\n", bad, n);
    return bad != 0;
}
