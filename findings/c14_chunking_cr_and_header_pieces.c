/* C14: part data must not depend on chunking: all single cuts of a multipart body whose value contains CR CR */
#include <stdio.h>
#include <string.h>
#include "htp/htp_private.h"
static void run(const char *body, size_t n, size_t cut, char *out, size_t outsz) {
  htp_cfg_t *cfg = htp_config_create(); htp_mpartp_t *p = htp_mpartp_create(cfg, bstr_dup_c("b"), 0);
  if (cut == 0 || cut >= n) htp_mpartp_parse(p, body, n); else { htp_mpartp_parse(p, body, cut); htp_mpartp_parse(p, body + cut, n - cut); }
  htp_mpartp_finalize(p); htp_multipart_t *m = htp_mpartp_get_multipart(p); size_t o = 0; out[0] = 0;
  for (size_t i = 0; i < htp_list_size(m->parts); i++) { htp_multipart_part_t *pt = htp_list_get(m->parts, i);
    o += snprintf(out + o, outsz - o, "[t%d ", pt->type); if (pt->value) for (size_t k = 0; k < bstr_len(pt->value); k++) o += snprintf(out + o, outsz - o, "%02x", bstr_ptr(pt->value)[k]); o += snprintf(out + o, outsz - o, "]"); }
  snprintf(out + o, outsz - o, " flags=%llx", (unsigned long long) m->flags);
  htp_mpartp_destroy(p); htp_config_destroy(cfg); }
int main(void) {
  const char *bodies[] = { "--b\r\nContent-Disposition: form-data; name=\"f\"\r\n\r\na\r\rc\r\n--b--\r\n",
                           "--b\r\nContent-Disposition: form-data; name=\"f\"\r\n\r\na\r\r\n--b--\r\n",
                           "--b\r\nContent-Disposition: form-data; name=\"f\"\r\n\r\n\r\r\r\n--b\r\nContent-Disposition: form-data; name=\"g\"\r\n\r\nx-y\r\n--b--\r\n" };
  int bad = 0;
  for (int b = 0; b < 3; b++) { size_t n = strlen(bodies[b]); char w[1024], s[1024]; run(bodies[b], n, 0, w, sizeof w);
    for (size_t cut = 1; cut < n; cut++) { run(bodies[b], n, cut, s, sizeof s); if (strcmp(w, s)) { bad++; printf("body %d cut %zu:\n  whole %s\n  split %s\n", b, cut, w, s); } } }
  printf("differences: %d\n", bad); return bad != 0; }
