/* C18 finding auth_basic — double free of tx->request_auth_username after a failed password allocation
 *
 * Build (from anywhere):
 *   gcc -g -fsanitize=address,undefined -I/repo -I/repo/htp -Wl,--wrap=malloc,--wrap=calloc,--wrap=realloc,--wrap=strdup \
 *       /verif/findings/c18_auth_basic.c /repo/htp/*.c /repo/htp/lzma/*.c -lz -o /var/tmp/c18_auth_basic
 * Run:  /var/tmp/c18_auth_basic          (exit status != 0 and an AddressSanitizer report = defect present;
 *                                       "sweep complete, no memory error" and exit 0 = fixed)
 *
 * What it does: the library's allocator calls are wrapped; for k = 1, 2, 3, ... the scenario below is run once with
 * exactly the k-th allocation after the arming point failing (one single allocation failure per run, as C18 states),
 * then parser and configuration are destroyed.  The sweep ends when a run needed fewer than k allocations.
 *
 * htp_parse_authorization_basic (htp/htp_parsers.c:152-157): when bstr_dup_ex for the password fails, the user name is
 * freed with bstr_free(connp->in_tx->request_auth_username) but the field keeps the stale pointer;
 * htp_tx_destroy_incomplete (htp/htp_transaction.c:138) frees it again.  Reached from the wire: any request with an
 * "Authorization: Basic <base64 of user:pass>" header under memory pressure (cfg->parse_request_auth is on by default).
 * Proof unit: c18_auth_basic (units/c18_alloc.py), macro KNOWN_F_C18_AUTH_BASIC.
 * Proposed minimal fix: add `connp->in_tx->request_auth_username = NULL;` after that bstr_free (htp_parsers.c:155).
 */
#include <stdio.h>
#include <stdlib.h>
#include <string.h>
#include "htp/htp.h"

static long g_count, g_fail_at = -1;
static int g_armed;
void *__real_malloc(size_t); void *__real_calloc(size_t, size_t); void *__real_realloc(void *, size_t); char *__real_strdup(const char *);
#define FAIL_NOW() (g_armed && ++g_count == g_fail_at)
void *__wrap_malloc(size_t n) { if (FAIL_NOW()) return NULL; return __real_malloc(n); }
void *__wrap_calloc(size_t a, size_t b) { if (FAIL_NOW()) return NULL; return __real_calloc(a, b); }
void *__wrap_realloc(void *p, size_t n) { if (FAIL_NOW()) return NULL; return __real_realloc(p, n); }
char *__wrap_strdup(const char *s) { if (FAIL_NOW()) return NULL; return __real_strdup(s); }

static const char REQ[] = "GET / HTTP/1.1\r\nHost: h\r\nAuthorization: Basic dXNlcjpwYXNz\r\n\r\n";
static void run(void) {
  htp_cfg_t *cfg = htp_config_create();
  if (cfg == NULL) return;
  htp_config_set_server_personality(cfg, HTP_SERVER_APACHE_2);
  htp_connp_t *connp = htp_connp_create(cfg);
  if (connp != NULL) {
    htp_connp_open(connp, "10.0.0.1", 1234, "10.0.0.2", 80, NULL);
    g_armed = 1;                                   /* arming point: only allocations made while processing the stream fail */
    int rc = htp_connp_req_data(connp, NULL, REQ, sizeof(REQ) - 1);
    g_armed = 0;
    fprintf(stderr, "  htp_connp_req_data -> %d (%s)\n", rc, rc == HTP_STREAM_ERROR ? "HTP_STREAM_ERROR" : "not an error");
    htp_connp_close(connp, NULL);
    htp_connp_destroy_all(connp);                  /* the documented teardown */
  }
  htp_config_destroy(cfg);
}

int main(int argc, char **argv) {
  long k0 = argc > 1 ? atol(argv[1]) : 1;
  for (long k = k0; ; k++) {
    fprintf(stderr, "c18_auth_basic: failing allocation #%ld after the arming point\n", k);
    g_count = 0; g_fail_at = k; g_armed = 0;
    run();
    g_armed = 0;
    if (g_count < k) break;
  }
  fprintf(stderr, "c18_auth_basic: sweep complete, no memory error\n");
  return 0;
}
