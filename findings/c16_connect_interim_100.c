/* C16: "After a CONNECT request the request direction consumes nothing beyond that request until the response has been seen".
 * An interim "100 Continue" whose header block is cut between the status line and the blank line was taken for the ANSWER to the
 * CONNECT (response_progress is HEADERS, status 100 -> "not 2xx" -> refused): the request side resumed and consumed the client's
 * tunnel bytes as HTTP before the real answer arrived.  With the blank line in the same call the progress is reset to LINE and
 * the request side keeps waiting - so the outcome depended on chunk geometry.
 * Build: gcc -I/repo -I/repo/htp this.c /repo/htp/*.c /repo/htp/lzma/*.c -lz && ./a.out   (exit 0 = request side stays suspended for both cuts)
 * First pointed out by an independent breaker agent (round 4). */
#include <stdio.h>
#include <string.h>
#include "htp/htp.h"
static int run(int split) {
    htp_cfg_t *cfg = htp_config_create(); htp_config_set_server_personality(cfg, HTP_SERVER_GENERIC);
    htp_connp_t *c = htp_connp_create(cfg); htp_connp_open(c, "1.1.1.1", 1, "2.2.2.2", 80, NULL);
    const char *head = "CONNECT a.example:443 HTTP/1.1\r\nHost: a.example\r\n\r\n"; const char tls[] = "\x16\x03\x01\x00\x05hello";
    int r1 = htp_connp_req_data(c, NULL, head, strlen(head));
    int r2 = htp_connp_req_data(c, NULL, tls, sizeof(tls) - 1); size_t c2 = htp_connp_req_data_consumed(c);
    if (split) { const char *a = "HTTP/1.1 100 Continue\r\n"; htp_connp_res_data(c, NULL, a, strlen(a)); }
    else { const char *a = "HTTP/1.1 100 Continue\r\n\r\n"; htp_connp_res_data(c, NULL, a, strlen(a)); }
    /* the caller retries the suspended request bytes (documented DATA_OTHER hand-over) */
    int r3 = htp_connp_req_data(c, NULL, tls + c2, sizeof(tls) - 1 - c2); size_t c3 = htp_connp_req_data_consumed(c);
    printf("split=%d: head rc=%d, tunnel bytes rc=%d consumed=%zu; after the interim 100: rc=%d consumed=%zu (%s)\n", split, r1, r2, c2, r3, c3,
           (r3 == HTP_STREAM_DATA_OTHER && c3 == 0) ? "still suspended" : "RESUMED before the answer");
    int bad = !(r3 == HTP_STREAM_DATA_OTHER && c3 == 0);
    htp_connp_destroy_all(c); htp_config_destroy(cfg); return bad;
}
int main(void) { int b0 = run(0), b1 = run(1); return (b0 || b1) ? 1 : 0; }
