/* C07 finding: after the bomb check has fired, every further body chunk re-delivers a stale 8 KiB decompressor buffer
 * to the RESPONSE_BODY_DATA hooks, so the bytes delivered for one message exceed max(limit, 2048 x compressed length)
 * by an UNBOUNDED amount (8192 per later chunk), not by "at most one output buffer".
 *
 * Mechanism (htp/htp_decompressors.c, htp/htp_transaction.c at the pinned commit):
 *   - htp_tx_res_process_body_data_decompressor_callback returns HTP_ERROR (bomb);
 *   - htp_gzip_decompressor_decompress ends zlib (zlib_initialized = 0) and returns, leaving stream.avail_out == 0;
 *   - htp_tx_res_process_body_data_ex IGNORES that return value and reports HTP_OK, so parsing goes on;
 *   - on the next chunk the inflate loop first sees avail_out == 0, hands the (stale) buffer to the callback
 *     (hooks run, entity_len += 8192), and only then notices the error again.  With two layers the stale buffer of the
 *     OUTER layer is delivered, i.e. the hooks receive still-compressed bytes of the inner layer as body data.
 *
 * A single deflate layer cannot exceed ratio 2048 (deflate tops out near 1032:1), so the response is "gzip, gzip"
 * (the default response_decompression_layer_limit is 2).  The compressed body is generated at run time.
 *
 * build: gcc -g -fsanitize=address,undefined -I/repo -I/repo/htp c07_stale_buffer_redelivery.c /repo/htp/[a-z]*.c /repo/htp/lzma/[A-Z]*.c -lz
 * run:   ./a.out [bomb_limit [tail_chunks]]          (defaults: 16384, 64)
 */
#include <stdio.h>
#include <stdlib.h>
#include <string.h>
#include <zlib.h>
#include "htp/htp.h"
#include "htp/htp_private.h"

#define BUF 8192
static long limit = 16384;
static long delivered, delivered_after_error, calls_after_error, bomb_logs, max_excess, first_excess_call = -1, ncalls;
static long delivered_at_first_error = -1;
static int stale_b0 = -1, stale_b1 = -1, stale_nonzero;

static int on_log(htp_log_t *l) {
    if (strstr(l->msg, "Compression bomb: decompressed") != NULL) {
        if (bomb_logs == 0) delivered_at_first_error = delivered;
        bomb_logs++;
    }
    return HTP_OK;
}

static int on_body(htp_tx_data_t *d) {
    ncalls++;
    delivered += (long) d->len;
    if (bomb_logs > 0) {
        delivered_after_error += (long) d->len; if (d->len) calls_after_error++;
        if (stale_b0 < 0 && d->len >= 2) { stale_b0 = d->data[0]; stale_b1 = d->data[1]; }
        for (size_t i = 0; i < d->len; i++) if (d->data[i] != 0) { stale_nonzero = 1; break; }   /* the payload is all zero bytes */
    }
    long msg = (long) d->tx->response_message_len;          /* compressed bytes seen so far, as the code counts them */
    long bound = limit > 2048 * msg ? limit : 2048 * msg;
    long excess = delivered - (bound + BUF);                /* > 0  <=>  statement of C07 violated */
    if (excess > 0 && first_excess_call < 0) first_excess_call = ncalls;
    if (excess > max_excess) max_excess = excess;
    return HTP_OK;
}

static unsigned char *gz(const unsigned char *in, size_t n, size_t *out_len) {
    z_stream s; memset(&s, 0, sizeof(s));
    if (deflateInit2(&s, 9, Z_DEFLATED, 15 + 16, 9, Z_DEFAULT_STRATEGY) != Z_OK) exit(2);
    size_t cap = deflateBound(&s, n) + 64;
    unsigned char *out = malloc(cap);
    s.next_in = (unsigned char *) in; s.avail_in = (uInt) n; s.next_out = out; s.avail_out = (uInt) cap;
    if (deflate(&s, Z_FINISH) != Z_STREAM_END) exit(2);
    *out_len = s.total_out; deflateEnd(&s);
    return out;
}

int main(int argc, char **argv) {
    if (argc > 1) limit = atol(argv[1]);
    int tail = argc > 2 ? atoi(argv[2]) : 64;
    size_t n0 = 64u << 20, n1, n2;
    unsigned char *zeros = calloc(1, n0);
    unsigned char *inner = gz(zeros, n0, &n1);
    unsigned char *outer = gz(inner, n1, &n2);
    printf("payload %zu bytes -> inner gzip %zu -> outer gzip %zu (overall ratio %zu:1)\n", n0, n1, n2, n0 / n2);
    if ((size_t) tail + 16 > n2) tail = (int) n2 - 16;

    htp_cfg_t *cfg = htp_config_create();
    htp_config_set_server_personality(cfg, HTP_SERVER_GENERIC);
    htp_config_set_compression_bomb_limit(cfg, (size_t) limit);
    htp_config_register_response_body_data(cfg, on_body);
    htp_config_register_log(cfg, on_log);
    htp_connp_t *c = htp_connp_create(cfg);
    htp_connp_open(c, "1.1.1.1", 1, "2.2.2.2", 80, NULL);
    const char *rq = "GET / HTTP/1.1\r\nHost: a\r\n\r\n";
    htp_connp_req_data(c, NULL, rq, strlen(rq));
    char hdr[256];
    int hl = snprintf(hdr, sizeof(hdr), "HTTP/1.1 200 OK\r\nContent-Encoding: gzip, gzip\r\nContent-Length: %zu\r\n\r\n", n2);
    int rc = htp_connp_res_data(c, NULL, hdr, (size_t) hl);
    /* first piece: everything except the last `tail` bytes; then one byte per call */
    size_t first = n2 - (size_t) tail;
    rc = htp_connp_res_data(c, NULL, outer, first);
    printf("after first piece (%zu bytes): rc=%d delivered=%ld bomb_logs=%ld\n", first, rc, delivered, bomb_logs);
    long d0 = delivered, l0 = bomb_logs;
    int last_rc = rc;
    for (size_t i = first; i < n2; i++) {
        unsigned char b = outer[i];                     /* separate 1-byte object: ASan would see any over-read */
        last_rc = htp_connp_res_data(c, NULL, &b, 1);
    }
    printf("after %d further 1-byte pieces: rc=%d delivered=%ld (+%ld) bomb_logs=%ld (+%ld)\n", tail, last_rc, delivered, delivered - d0, bomb_logs, bomb_logs - l0);
    htp_tx_t *tx = htp_list_get(c->conn->transactions, 0);
    printf("tx: response_message_len=%ld response_entity_len=%ld\n", (long) tx->response_message_len, (long) tx->response_entity_len);
    printf("delivered when the first bomb error was logged : %ld\n", delivered_at_first_error);
    printf("delivered to hooks AFTER the first bomb error  : %ld bytes in %ld non-empty callbacks\n", delivered_after_error, calls_after_error);
    printf("bound = max(limit=%ld, 2048*message_len) + %d   : largest excess over it = %ld bytes (first exceeded at callback #%ld)\n", limit, BUF, max_excess, first_excess_call);
    printf("first two bytes of the first block delivered after the error: %02x %02x; non-zero bytes seen in a payload of zeros: %s\n", stale_b0, stale_b1,
           stale_nonzero ? "YES (hooks received still-compressed inner-layer bytes)" : "no");
    int bad = delivered_after_error > 0;
    printf("%s\n", bad ? (max_excess > 0 ? "FINDING CONFIRMED: data delivered after the bomb error, C07 bound exceeded by more than one buffer"
                                         : "FINDING CONFIRMED (re-delivery after the error), bound itself not exceeded with this chunking")
                       : "not reproduced");
    htp_connp_close(c, NULL); htp_connp_destroy_all(c); htp_config_destroy(cfg);
    free(zeros); free(inner); free(outer);
    return bad ? 1 : 0;
}
