/* C18 finding conn_open — double free of conn->client_addr after a failed server_addr copy
 *
 * Build (from anywhere):
 *   gcc -g -fsanitize=address,undefined -I/repo -I/repo/htp -Wl,--wrap=malloc,--wrap=calloc,--wrap=realloc,--wrap=strdup \
 *       /verif/findings/c18_conn_open.c /repo/htp/*.c /repo/htp/lzma/*.c -lz -o /var/tmp/c18_conn_open
 * Run:  /var/tmp/c18_conn_open          (exit status != 0 and an AddressSanitizer report = defect present;
 *                                       "sweep complete, no memory error" and exit 0 = fixed)
 *
 * What it does: the library's allocator calls are wrapped; for k = 1, 2, 3, ... the scenario below is run once with
 * exactly the k-th allocation after the arming point failing (one single allocation failure per run, as C18 states),
 * then parser and configuration are destroyed.  The sweep ends when a run needed fewer than k allocations.
 *
 * htp_conn_open (htp/htp_connection.c:127-135): when strdup(server_addr) fails, conn->client_addr is freed but not
 * reset; htp_conn_destroy (htp/htp_connection.c:108-110) frees it again.  Reached through the public API:
 * htp_connp_open(connp, client, port, server, port, ts) under memory pressure, then htp_connp_destroy_all.
 * Proof unit: c18_conn_open (units/c18_alloc.py), macro KNOWN_F_C18_CONN_OPEN.
 * Proposed minimal fix: add `conn->client_addr = NULL;` after `free(conn->client_addr);` (htp_connection.c:131).
 */
#include <stdio.h>
#include <stdlib.h>
#include <string.h>
#include "htp/htp.h"

static long g_count, g_fail_at = -1;
static int g_armed;
void *__real_malloc(size_t); void *__real_calloc(size_t, size_t); void *__real_realloc(void *, size_t); char *__real_strdup(const char *);
#define FAIL_NOW() (g_armed && ++g_count == g_fail_at)
void *__wrap_malloc(size_t n) { if (FAIL_NOW()) return NULL; return __real_malloc(n); }
void *__wrap_calloc(size_t a, size_t b) { if (FAIL_NOW()) return NULL; return __real_calloc(a, b); }
void *__wrap_realloc(void *p, size_t n) { if (FAIL_NOW()) return NULL; return __real_realloc(p, n); }
char *__wrap_strdup(const char *s) { if (FAIL_NOW()) return NULL; return __real_strdup(s); }

static void run(void) {
  htp_cfg_t *cfg = htp_config_create();
  if (cfg == NULL) return;
  htp_connp_t *connp = htp_connp_create(cfg);
  if (connp != NULL) {
    g_armed = 1;                                   /* arming point: the two address copies of htp_conn_open */
    htp_connp_open(connp, "10.0.0.1", 1234, "10.0.0.2", 80, NULL);
    g_armed = 0;
    htp_connp_destroy_all(connp);                  /* the documented teardown */
  }
  htp_config_destroy(cfg);
}

int main(int argc, char **argv) {
  long k0 = argc > 1 ? atol(argv[1]) : 1;
  for (long k = k0; ; k++) {
    fprintf(stderr, "c18_conn_open: failing allocation #%ld after the arming point\n", k);
    g_count = 0; g_fail_at = k; g_armed = 0;
    run();
    g_armed = 0;
    if (g_count < k) break;
  }
  fprintf(stderr, "c18_conn_open: sweep complete, no memory error\n");
  return 0;
}
