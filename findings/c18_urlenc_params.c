/* C18 finding urlenc_params — double free of parameter names/values owned by both the urlencoded parser and the transaction
 *
 * Build (from anywhere):
 *   gcc -g -fsanitize=address,undefined -I/repo -I/repo/htp -Wl,--wrap=malloc,--wrap=calloc,--wrap=realloc,--wrap=strdup \
 *       /verif/findings/c18_urlenc_params.c /repo/htp/*.c /repo/htp/lzma/*.c -lz -o /var/tmp/c18_urlenc_params
 * Run:  /var/tmp/c18_urlenc_params          (exit status != 0 and an AddressSanitizer report = defect present;
 *                                       "sweep complete, no memory error" and exit 0 = fixed)
 *
 * What it does: the library's allocator calls are wrapped; for k = 1, 2, 3, ... the scenario below is run once with
 * exactly the k-th allocation after the arming point failing (one single allocation failure per run, as C18 states),
 * then parser and configuration are destroyed.  The sweep ends when a run needed fewer than k allocations.
 *
 * htp_ch_urlencoded_callback_request_line / ..._request_body_data (htp/htp_content_handlers.c:77-95 and 150-168): the
 * loop that moves the parsed parameters into tx->request_params stores the SAME name/value bstr pointers in a new
 * htp_param_t; ownership only passes when the whole loop has finished (htp_table_destroy_ex + params = NULL).  If the
 * calloc of a later htp_param_t (or htp_tx_req_add_param's table growth) fails, the function returns HTP_ERROR with
 * the earlier parameters in BOTH tables: htp_tx_destroy_incomplete then frees every name and value twice, once through
 * htp_urlenp_destroy (htp/htp_urlencoded.c:221 and htp_table_clear, htp/htp_table.c:135) and once through the
 * parameter loop (htp/htp_transaction.c:165-166).  Reached from the wire: a query string or urlencoded body with two
 * or more parameters under memory pressure, with the urlencoded parser registered (htp_config_register_urlencoded_parser).
 * Proof unit: c18_urlenc_query / c18_urlenc_body (units/c18_alloc.py), macro KNOWN_F_C18_URLENC_PARAMS.
 * Proposed minimal fix: on the two error exits inside each loop, first hand the already shared strings over, i.e. run the three
 * lines that follow the loop (htp_table_destroy_ex(urlenp->params); urlenp->params = NULL; and for the query parser
 * htp_urlenp_destroy + NULL) before `return HTP_ERROR;` — the not yet moved pairs then leak instead of being freed
 * twice; a leak-free variant moves the pairs one by one (htp_table_... pop) or counts the moved pairs and frees the rest.
 */
#include <stdio.h>
#include <stdlib.h>
#include <string.h>
#include "htp/htp.h"

static long g_count, g_fail_at = -1;
static int g_armed;
void *__real_malloc(size_t); void *__real_calloc(size_t, size_t); void *__real_realloc(void *, size_t); char *__real_strdup(const char *);
#define FAIL_NOW() (g_armed && ++g_count == g_fail_at)
void *__wrap_malloc(size_t n) { if (FAIL_NOW()) return NULL; return __real_malloc(n); }
void *__wrap_calloc(size_t a, size_t b) { if (FAIL_NOW()) return NULL; return __real_calloc(a, b); }
void *__wrap_realloc(void *p, size_t n) { if (FAIL_NOW()) return NULL; return __real_realloc(p, n); }
char *__wrap_strdup(const char *s) { if (FAIL_NOW()) return NULL; return __real_strdup(s); }

static const char REQ[] = "GET /a?x=1&y=2&z=3 HTTP/1.1\r\nHost: h\r\n\r\n";
static void run(void) {
  htp_cfg_t *cfg = htp_config_create();
  if (cfg == NULL) return;
  htp_config_set_server_personality(cfg, HTP_SERVER_APACHE_2);
  htp_config_register_urlencoded_parser(cfg);
  htp_connp_t *connp = htp_connp_create(cfg);
  if (connp != NULL) {
    htp_connp_open(connp, "10.0.0.1", 1234, "10.0.0.2", 80, NULL);
    g_armed = 1;                                   /* arming point: only allocations made while processing the stream fail */
    int rc = htp_connp_req_data(connp, NULL, REQ, sizeof(REQ) - 1);
    g_armed = 0;
    fprintf(stderr, "  htp_connp_req_data -> %d (%s)\n", rc, rc == HTP_STREAM_ERROR ? "HTP_STREAM_ERROR" : "not an error");
    htp_connp_close(connp, NULL);
    htp_connp_destroy_all(connp);                  /* the documented teardown */
  }
  htp_config_destroy(cfg);
}

int main(int argc, char **argv) {
  long k0 = argc > 1 ? atol(argv[1]) : 1;
  for (long k = k0; ; k++) {
    fprintf(stderr, "c18_urlenc_params: failing allocation #%ld after the arming point\n", k);
    g_count = 0; g_fail_at = k; g_armed = 0;
    run();
    g_armed = 0;
    if (g_count < k) break;
  }
  fprintf(stderr, "c18_urlenc_params: sweep complete, no memory error\n");
  return 0;
}
