/* C09: "Once a direction has reported ERROR or STOP every later call for that direction reports the same state and runs no parsing callbacks."
 * htp_connp_req_close() and htp_connp_close() (htp_connection_parser.c:46-75) overwrite every stream status except HTP_STREAM_ERROR with
 * HTP_STREAM_CLOSED - also HTP_STREAM_STOP - and then call htp_connp_req_data(connp, ts, NULL, 0) / htp_connp_res_data(...).  The drivers test for
 * STOP only through connp->in_status / out_status, so after a callback asked the parser to STOP, closing the connection runs the state machine -
 * and the user's callbacks - again on the transaction that was stopped.
 * build: gcc -g -fsanitize=address,undefined -I/repo -I/repo/htp findings/c09_close_after_stop.c /repo/htp/*.c /repo/htp/lzma/*.c -lz
 * exit 0: no callback runs after the direction reported STOP; exit 1 + message otherwise. */
#include <stdio.h>
#include <string.h>
#include "htp.h"
static int stopped, after_stop, events;
static int count(const char *what) { events++; if (stopped) { after_stop++; printf("  callback after STOP: %s\n", what); } return HTP_OK; }
static int on_request_line(htp_tx_t *tx) { count("REQUEST_LINE"); return HTP_OK; }
static int on_request_headers(htp_tx_t *tx) { count("REQUEST_HEADERS"); if (!stopped) { stopped = 1; return HTP_STOP; } return HTP_OK; }
static int on_request_body(htp_tx_data_t *d) { count("REQUEST_BODY_DATA"); return HTP_OK; }
static int on_request_complete(htp_tx_t *tx) { count("REQUEST_COMPLETE"); return HTP_OK; }
static int on_tx_complete(htp_tx_t *tx) { count("TRANSACTION_COMPLETE"); return HTP_OK; }
int main(void) {
    htp_cfg_t *cfg = htp_config_create();
    htp_config_set_server_personality(cfg, HTP_SERVER_GENERIC);
    htp_config_register_request_line(cfg, on_request_line);
    htp_config_register_request_headers(cfg, on_request_headers);
    htp_config_register_request_body_data(cfg, on_request_body);
    htp_config_register_request_complete(cfg, on_request_complete);
    htp_config_register_transaction_complete(cfg, on_tx_complete);
    htp_connp_t *connp = htp_connp_create(cfg);
    htp_connp_open(connp, "1.1.1.1", 1000, "2.2.2.2", 80, NULL);
    const char *rq = "POST / HTTP/1.1\r\nHost: a\r\nContent-Length: 3\r\n\r\nabc";
    int rc = htp_connp_req_data(connp, NULL, rq, strlen(rq));
    printf("request data: rc=%d (HTP_STREAM_STOP=%d), callbacks so far %d\n", rc, HTP_STREAM_STOP, events);
    rc = htp_connp_req_data(connp, NULL, "x", 1);
    printf("more data after STOP: rc=%d, callbacks after STOP %d\n", rc, after_stop);
    htp_connp_req_close(connp, NULL);                                     /* a later call for the same direction */
    printf("after htp_connp_req_close: callbacks after STOP %d\n", after_stop);
    rc = htp_connp_req_data(connp, NULL, "x", 1);
    printf("data after close: rc=%d (no longer STOP?)\n", rc);
    htp_connp_destroy_all(connp);
    htp_config_destroy(cfg);
    if (after_stop) { printf("DEFECT: %d parsing callback(s) ran after the request direction reported HTP_STREAM_STOP\n", after_stop); return 1; }
    return 0;
}
