"""Proof-unit runner: real /repo sources -> goto-cc -> goto-instrument (dfcc contracts) -> cbmc.

A *unit* is a dict (see U() below).  Everything is rebuilt from /repo's current working tree
in a scratch directory under /var/tmp on every run; nothing is cached.
"""
import json
import os
import re
import resource
import shutil
import subprocess
import sys
import tempfile
import time

HERE = os.path.dirname(os.path.abspath(__file__))
VERIF = os.path.dirname(HERE)
REPO = os.environ.get('VERIF_REPO', '/repo')
sys.path.insert(0, HERE)
import annotate  # noqa: E402

GOTO_CC_FLAGS = ['-D__NO_CTYPE', '-D_GNU_SOURCE', '-DHTP_VERIF_CBMC', '-std=gnu99',
                 '-I' + REPO, '-I' + REPO + '/htp', '-I' + VERIF + '/contracts', '-I' + VERIF + '/spec']

# Safety obligations generated for every unit (C01 lives here).
BASE_CHECKS = ['--bounds-check', '--pointer-check', '--pointer-overflow-check',
               '--signed-overflow-check', '--unsigned-overflow-check', '--conversion-check',
               '--div-by-zero-check', '--undefined-shift-check', '--pointer-primitive-check',
               '--malloc-may-fail', '--malloc-fail-null']

CANARY = 'VACUITY_CANARY'


def U(name, props, kind, src, harness, enforce=None, contract=None, replace=(), loops=None,
      link=(), pre='', flags_add=(), flags_del=(), unwind=None, defs=None, timeout=(240, 900),
      min_obl=1, note='', bound=None, assumes=(), expect_loops_closed=True, post='',
      replay=None, objbits=None, unwindset=None, nocanary=False, contracts_inc=(),
      thorough_only=False, solver=None, sub=None, pre_instrument=None):
    """Declare a proof unit.

    kind     'contract'  dfcc-enforced contract on a real function, every loop closed by a loop
                         contract (or the function is loop-free)  -> counted as proved
             'lemma'     plain harness (no enforced contract) that is loop-free or whose loops
                         are all closed by contracts / constant bounds with unwinding assertions
                         that are complete for the full input domain -> counted as proved
             'bounded'   anything that needs --unwind over a truncated input domain -> reported
                         under bounded_units, never counted as proved
    src      list of files under REPO/htp included verbatim (after loop annotation) in one TU
    link     further REPO/htp files compiled unmodified as separate TUs
    enforce  name of the real function whose contract is enforced; contract = name of the
             contract-carrying declaration (default contract_<enforce>)
    replace  callees replaced by their contract: 'g' (-> contract_g) or 'g/contract_name'
    loops    {source_file: {function: {'count': n, ordinal: {assigns, inv[], dec}}}}
    defs     {'quick': {MACRO: val}, 'thorough': {...}} -> -D flags
    sub      free text: which sub-claim of the property this unit carries
    """
    return dict(name=name, props=list(props), kind=kind, src=list(src), harness=harness,
                enforce=enforce, contract=contract or (('contract_' + enforce) if enforce else None),
                replace=list(replace), loops=loops or {}, link=list(link), pre=pre,
                flags_add=list(flags_add), flags_del=list(flags_del), unwind=unwind,
                defs=defs or {}, timeout=timeout, min_obl=min_obl, note=note, bound=bound,
                assumes=list(assumes), post=post, replay=replay, objbits=objbits,
                unwindset=unwindset, nocanary=nocanary, contracts_inc=list(contracts_inc),
                thorough_only=thorough_only, solver=solver, sub=sub or '', pre_instrument=pre_instrument)


class Undecided(Exception):
    pass


def _limit():
    # 28 GB address space per tool process
    resource.setrlimit(resource.RLIMIT_AS, (28 << 30, 28 << 30))
    os.setsid()


def _run(cmd, cwd, timeout, log):
    t0 = time.time()
    with open(log, 'w') as lf:
        lf.write('$ ' + ' '.join(cmd) + '\n')
        lf.flush()
        try:
            p = subprocess.Popen(cmd, cwd=cwd, stdout=subprocess.PIPE, stderr=lf, preexec_fn=_limit)
            try:
                out, _ = p.communicate(timeout=timeout)
            except subprocess.TimeoutExpired:
                try:
                    os.killpg(p.pid, 9)
                except Exception:
                    pass
                p.wait()
                return None, b'', time.time() - t0
        except OSError as e:
            raise Undecided('cannot run %s: %s' % (cmd[0], e))
    return p.returncode, out, time.time() - t0


def build_tu(unit, tier, work):
    """Write the wrapper translation unit for `unit` into `work`; return its path."""
    lines = []
    defs = dict(unit['defs'].get('quick', {}))
    if tier == 'thorough':
        defs.update(unit['defs'].get('thorough', {}))
    for k, v in defs.items():
        lines.append('#define %s %s' % (k, v))
    lines.append('#include "vcommon_pre.h"')
    if unit['pre']:
        lines.append(unit['pre'])
    for s in unit['src']:
        path = os.path.join(REPO, 'htp', s)
        try:
            text = open(path).read()
        except OSError as e:
            raise Undecided('missing source %s: %s' % (path, e))
        table = unit['loops'].get(s)
        if table:
            try:
                text = annotate.annotate(text, table)
            except annotate.AnnotateError as e:
                raise Undecided('annotator: %s: %s' % (s, e))
        dst = os.path.join(work, 'src_' + s)
        with open(dst, 'w') as f:
            f.write('#line 1 "%s"\n' % path)
            f.write(text)
        lines.append('#include "%s"' % dst)
    lines.append('#include "vcommon.h"')
    for c in unit['contracts_inc']:
        lines.append('#include "%s"' % c)
    if unit['post']:
        lines.append(unit['post'])
    lines.append(unit['harness'])
    entry = 'h_' + re.sub(r'[^A-Za-z0-9_]', '_', unit['name'])
    lines.append('#ifdef VNATIVE')
    lines.append('void %s(void) { HARNESS(); }' % entry)
    lines.append('#else')
    lines.append('void %s(void) { v_havoc_ghosts(); HARNESS(); __CPROVER_assert(g_canary == 0, "VACUITY_CANARY ghosts are havocked"); }' % entry)
    lines.append('#endif')
    tu = os.path.join(work, 'tu.c')
    with open(tu, 'w') as f:
        f.write('\n'.join(lines) + '\n')
    return tu, defs


def cbmc_flags(unit):
    flags = [f for f in BASE_CHECKS if f not in unit['flags_del']]
    flags += unit['flags_add']
    if unit['unwind'] is not None:
        flags += ['--unwind', str(unit['unwind']), '--unwinding-assertions']
    if unit['unwindset']:
        flags += ['--unwindset', unit['unwindset'], '--unwinding-assertions']
    flags += ['--object-bits', str(unit['objbits'] or 10)]
    if unit['solver']:
        flags += unit['solver'].split()
    return flags


def run_unit(unit, tier, keep=False, verbose=False):
    """Returns a result dict: status in {'ok','fail','undecided'}."""
    t0 = time.time()
    work = tempfile.mkdtemp(prefix='vf.', dir='/var/tmp')
    res = dict(unit=unit['name'], kind=unit['kind'], tier=tier, status='undecided', reason='',
               obligations=0, discharged=0, failed=[], solver_s=0.0, wall_s=0.0, cmd='',
               enforce=unit['enforce'], replaced=[r.split('/')[0] for r in unit['replace']],
               bound=unit['bound'], sub=unit['sub'], defs={}, loops_declared=0, samples=[])
    try:
        tu, defs = build_tu(unit, tier, work)
        res['defs'] = defs
        entry = 'h_' + re.sub(r'[^A-Za-z0-9_]', '_', unit['name'])
        a_gb = os.path.join(work, 'a.gb')
        # unit timeouts were measured on an idle 16-core box; the check harness is 2-3x slower and runs units in parallel
        tmo = int(unit['timeout'][1 if tier == 'thorough' else 0] * float(os.environ.get('VERIF_TIMEOUT_SCALE', '4')))
        # 1. compile
        cmd = ['goto-cc'] + GOTO_CC_FLAGS + ['-DHARNESS=hbody', '--function', entry, tu]
        for l in unit['link']:
            cmd.append(os.path.join(REPO, 'htp', l))
        cmd += ['-o', a_gb]
        rc, out, _ = _run(cmd, work, 300, os.path.join(work, 'cc.log'))
        if rc != 0:
            raise Undecided('goto-cc failed: ' + _tail(os.path.join(work, 'cc.log')))
        # 1b. optional goto-instrument pass before contracts (e.g. --restrict-function-pointer)
        if unit.get('pre_instrument'):
            a2 = os.path.join(work, 'a2.gb')
            rc, out, _ = _run(['goto-instrument'] + list(unit['pre_instrument']) + [a_gb, a2], work, 300, os.path.join(work, 'gi0.log'))
            if rc != 0:
                raise Undecided('goto-instrument (pre) failed: ' + _tail(os.path.join(work, 'gi0.log')))
            a_gb = a2
        # 2. contracts
        nloops = sum(len([k for k in f if k != 'count']) for t in unit['loops'].values() for f in t.values())
        res['loops_declared'] = nloops
        b_gb = a_gb
        if unit['enforce'] or unit['replace'] or nloops:
            b_gb = os.path.join(work, 'b.gb')
            cmd = ['goto-instrument', '--dfcc', entry]
            if unit['enforce']:
                cmd += ['--enforce-contract', '%s/%s' % (unit['enforce'], unit['contract'])]
            for r in unit['replace']:
                if '/' not in r:
                    r = '%s/contract_%s' % (r, r)
                cmd += ['--replace-call-with-contract', r]
            if nloops:
                cmd += ['--apply-loop-contracts']
            cmd += [a_gb, b_gb]
            rc, out, _ = _run(cmd, work, 600, os.path.join(work, 'gi.log'))
            if rc != 0:
                raise Undecided('goto-instrument failed: ' + _tail(os.path.join(work, 'gi.log')))
            if nloops:
                rc2, out2, _ = _run(['goto-instrument', '--show-loops', b_gb], work, 120, os.path.join(work, 'loops.log'))
                left = re.findall(r'^Loop ([A-Za-z0-9_$]+)\.\d+:', (out2 or b'').decode('utf-8', 'replace'), flags=re.M)
                declared = set(f for t in unit['loops'].values() for f in t)
                bad = [l for l in left if l in declared or l.replace('_wrapped_for_contract_checking', '') in declared]
                if bad:
                    raise Undecided('loop contract not applied: loops remain in %s after instrumentation' % sorted(set(bad)))
        # 3. solve
        cmd = ['cbmc', '--json-ui', '--trace', '--trace-hex', '--drop-unused-functions'] + cbmc_flags(unit) + [b_gb]
        res['cmd'] = ' '.join(['goto-cc ... --function', entry, '&&', 'goto-instrument --dfcc', entry,
                               ('--enforce-contract %s/%s' % (unit['enforce'], unit['contract'])) if unit['enforce'] else '',
                               ' '.join('--replace-call-with-contract ' + r for r in unit['replace']),
                               '--apply-loop-contracts' if nloops else '', '&&'] + cmd[:-1] + ['b.gb'])
        rc, out, dt = _run(cmd, work, tmo, os.path.join(work, 'cbmc.log'))
        res['solver_s'] = round(dt, 2)
        if rc is None:
            raise Undecided('cbmc timeout after %ds' % tmo)
        try:
            msgs = json.loads(out.decode('utf-8', 'replace'))
        except Exception:
            raise Undecided('cbmc output not JSON (rc=%s): %s' % (rc, out[-400:].decode('utf-8', 'replace')))
        results = None
        texts = []
        for m in msgs:
            if isinstance(m, dict):
                if 'result' in m:
                    results = m['result']
                if 'messageText' in m:
                    texts.append(m['messageText'])
        alltext = '\n'.join(texts)
        for bad in ('ignoring forall', 'Parse Error', 'ignoring exists'):
            if bad in alltext:
                raise Undecided('cbmc log contains "%s"' % bad)
        if results is None:
            raise Undecided('cbmc produced no result (rc=%s): %s' % (rc, alltext[-600:]))
        canary_seen = False
        nobody = re.findall(r'no body for (?:function|callee) (\S+)', alltext)
        res['no_body'] = sorted(set(nobody))
        loop_obl = 0
        for r in results:
            desc = r.get('description', '')
            pname = r.get('property', '')
            if CANARY in desc:
                canary_seen = True
                if r['status'] != 'FAILURE':
                    raise Undecided('vacuity canary not reachable (status %s): contradictory precondition?' % r['status'])
                continue
            res['obligations'] += 1
            if 'loop invariant' in desc or 'loop variant' in desc or 'decreases' in desc or 'loop_invariant' in pname \
                    or '_wrapped_for_contract_checking.' in pname:  # for(;;) loops lose their source location
                loop_obl += 1
            if r['status'] == 'SUCCESS':
                res['discharged'] += 1
            else:
                loc = r.get('sourceLocation', {})
                res['failed'].append(dict(property=pname, description=desc, status=r['status'],
                                          file=loc.get('file', ''), function=loc.get('function', ''),
                                          line=loc.get('line', ''), trace=_trace_inputs(r.get('trace', [])),
                                          vin_init=_vin(r.get('trace', []), entry),
                                          malloc_pattern=_mpat(r.get('trace', []))))
        res['loop_obligations'] = loop_obl
        if not unit['nocanary'] and not canary_seen:
            raise Undecided('harness has no vacuity canary')
        if res['obligations'] < unit['min_obl']:
            raise Undecided('only %d obligations generated, expected >= %d (contract dropped?)'
                            % (res['obligations'], unit['min_obl']))
        if nloops and loop_obl < 2 * nloops:
            raise Undecided('%d loop contracts declared but only %d loop obligations generated' % (nloops, loop_obl))
        ok = [r for r in results if r['status'] == 'SUCCESS' and CANARY not in r.get('description', '')]
        for r in ok[:: max(1, len(ok) // 3)][:3]:
            res['samples'].append('%s: %s' % (r.get('property', ''), r.get('description', '')))
        res['status'] = 'fail' if res['failed'] else 'ok'
    except Undecided as e:
        res['status'] = 'undecided'
        res['reason'] = str(e)
    finally:
        res['wall_s'] = round(time.time() - t0, 2)
        if keep:
            res['work'] = work
        else:
            shutil.rmtree(work, ignore_errors=True)
    return res


def _vin(trace, entry):
    import vreplay
    return vreplay.vin_from_trace(trace, entry)


def _mpat(trace):
    import vreplay
    return vreplay.malloc_pattern(trace)


def _tail(path, n=4):
    try:
        ls = [l for l in open(path, errors='replace').read().strip().splitlines() if not l.startswith('$ ')]
        return ' | '.join(l.strip()[:200] for l in ls[-n:])
    except OSError:
        return ''


_NOISE = {'set', 'ptr', 'size', 'idx', 'reference', 'candidate', 'write_set_to_link', 'write_set_postconditions',
          'write_set_to_check', 'elem', 'object_id', 'nof_elems', 'max_elems', 'ctx', 'lambda', 'may_fail', 'is_fresh_elem'}


def _trace_inputs(trace, limit=400):
    """Condense a CBMC json trace to the assignments that matter for a replay."""
    out = []
    for st in trace:
        if st.get('stepType') != 'assignment':
            continue
        if st.get('hidden'):
            continue
        lhs = st.get('lhs', '')
        if lhs.startswith('__') or 'tmp_' in lhs or lhs.startswith('return_value') or lhs.startswith('goto_symex$$'):
            continue
        if lhs in _NOISE or st.get('sourceLocation', {}).get('function', '').startswith('__CPROVER_contracts'):
            continue
        v = st.get('value', {})
        val = v.get('data', v.get('name', ''))
        loc = st.get('sourceLocation', {})
        out.append(dict(lhs=lhs, value=val, fn=loc.get('function', ''), line=loc.get('line', '')))
    if len(out) > limit:
        out = out[:limit // 2] + [dict(lhs='...', value='%d steps elided' % (len(out) - limit))] + out[-limit // 2:]
    return out
