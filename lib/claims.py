"""What is claimed per property (source of MANIFEST.json)."""

TRUST = ('Trusted: cbmc 6.11.0 (goto-cc front end, dfcc contract instrumentation, symbolic execution, MiniSat), its C library '
         'models (malloc/free/realloc/memcpy/ctype in the C locale via -D__NO_CTYPE), the wrapper-TU convention (real '
         '/repo/htp/*.c #included verbatim; loop-contract clauses inserted by lib/annotate.py with strip(annotate(x))==x checked '
         'on every run), x86-64 LP64, bit-precise machine arithmetic. Assumed (replaced, never enforced) contracts and per-unit '
         'bounds are listed in the evidence file of every run. ')

CLAIMS = {
    'C17': dict(
        text=('Contracts enforced by CBMC/dfcc on the real functions of bstr.c, htp_list.c, htp_table.c and the numeric parsers: '
              'for every argument value and every string length (symbolic, up to VCAP) the compare/prefix/search/trim primitives '
              'satisfy the universally quantified part of their mathematical meaning (ghost witness index), lists and tables '
              'keep their ring/multimap invariant and view laws, numeric parsers never wrap. Existential parts (sign of the FIRST '
              'difference, exact decimal value) are decided by bounded reference-equality units (all strings up to N bytes) which '
              'are labelled bounded in evidence and not counted as proved.'),
        design='4/C17', technique='CBMC code contracts (dfcc) with loop invariants on the real C functions; bounded reference equality for existential facts',
        note=TRUST),
}

CLAIMS.update({
    'C13': dict(
        text=('URI splitting: the partition / re-join law, the "/"-rule and equality with an independent RFC 3986 reference are decided by BOUNDED units on the '
              'real htp_parse_uri / htp_parse_hostport (all targets up to N bytes over all byte values, every allocation-failure pattern; labelled bounded, '
              'not counted as proved); the port rule (1..65535 else -1 and invalid) is proved unboundedly by the htp_parse_port / integer-parser contracts. '
              'Known finding F-C13-IPV6 (junk after an IP literal is dropped) is carved out by an exact predicate and re-confirmed by a probe run.'),
        design='4/C13', technique='CBMC bounded reference equality on the real splitter (stand-in: the dfcc contract on htp_parse_uri does not close); dfcc contracts for the port rule',
        note=TRUST + 'C13: CBMC has no memchr model; a textbook first-occurrence model is supplied. bstr_dup_mem modelled in the splitter units (checked against the real function by c13_dup_model_lemma).'),
    'C06': dict(
        text=('Per-call accounting contracts enforced on every body state of both directions (identity, chunk data, chunk trailer line, chunk-size line, close-delimited) '
              'and on the two body sinks: bytes delivered to callbacks == bytes consumed == -delta(bytes owed) == delta(message length) == delta(stream offset), delivered range is '
              'exactly [read, read+n) of the chunk, body ends exactly when nothing is owed, end marker on completion; proved from an arbitrary well-formed parser state, '
              'i.e. for every call history. Content equality over a whole multi-call body is the composition of the per-call range equalities (paper argument).'),
        design='4/C06', technique='CBMC code contracts (dfcc) on the real state functions with ghost-logging stubs for callees',
        note=TRUST),
    'C09': dict(
        text=('The two stream drivers htp_connp_req_data / htp_connp_res_data are enforced against the API contract: documented stream states only; DATA => whole chunk consumed; '
              'DATA_OTHER => strictly fewer and resumable at the reported count; STOP/ERROR sticky with zero state-function calls and nothing touched; TUNNEL short-circuit; byte counters += len; '
              'with every state function replaced by one shared state contract that each state function under contract is enforced against. Liveness (no endless DATA_OTHER ping-pong) and '
              'termination of the driver loop are NOT decided.'),
        design='4/C09', technique='CBMC code contracts (dfcc): driver against shared state contract via restricted function-pointer dispatch; loop invariant on for(;;)',
        note=TRUST + 'C09: state functions not yet under contract (REQ_LINE, REQ_HEADERS, REQ_PROTOCOL, RES_LINE, RES_HEADERS, RES_FINALIZE, RES_BODY_DETERMINE) are ASSUMED to meet the shared contract; callbacks return OK/DECLINED/STOP/ERROR.'),
    'C10': dict(
        text=('Hard field limit: htp_connp_req_buffer/res_buffer checked on the real functions (lemma units, sizes enumerated): OK => buffered size + pending header <= limit and bytes preserved; '
              'over the limit => ERROR with the buffer untouched (never truncation). Transaction count: htp_connp_tx_create refuses beyond max_tx so size <= max_tx+1 is invariant; '
              'htp_connp_tx_freed removes exactly the leading NULL slots. Steady-state heap over 10^4 transactions is the composition (paper).'),
        design='4/C10', technique='CBMC lemma harnesses on the real buffer functions; dfcc contracts on transaction bookkeeping',
        note=TRUST),
    'C16': dict(
        text=('CONNECT handling per state: REQ_CONNECT_CHECK suspends with DATA_OTHER and cannot move the cursor (frame), WAIT_RESPONSE changes nothing until the response line is seen, '
              'PROBE_DATA never discards pending bytes and ends in normal completion or TUNNEL on both sides; drivers short-circuit in TUNNEL with zero state calls. '
              'Interleaving-level scenarios are the composition of these per-state contracts.'),
        design='4/C16', technique='CBMC code contracts (dfcc) on the CONNECT states and drivers',
        note=TRUST),
    'C04': dict(
        text=('Pairing: RES_IDLE attaches a starting response to the transaction at position out_next_tx_index and advances the index by one, creating a fresh transaction (appended last) when no '
              'request waits there; REQ_IDLE / htp_connp_tx_create append new requests last with index = old size; PIPELINED set iff size > out_next_tx_index; tx_freed keeps index and list aligned. '
              '"Transaction i holds request i and response i" is arithmetic over these post-conditions (paper).'),
        design='4/C04', technique='CBMC code contracts (dfcc) with a witness slot over the transaction list',
        note=TRUST),
})

CLAIMS.update({
    'C05': dict(
        text=('Every transaction transition function (request start/line/headers/complete(_partial), response start/line/complete_ex, finalize, destroy, is_complete) is enforced against a '
              'contract over an event log kept by the replaced hook runner: hooks fire in protocol order within each transition, each at most once per call, a refusal is returned at once; '
              'progress only grows; REQUEST_/RESPONSE_COMPLETE are guarded by entry progress (at most once over any history); TRANSACTION_COMPLETE only with both sides complete; on success the '
              'direction is detached. Known finding F-C05-TXCOMPLETE-TWICE (the property file\'s F4) is carved out and re-confirmed by a probe run. Whole-trace order ACROSS transition functions '
              'and the 100-continue restart live in state functions not under contract here.'),
        design='4/C05', technique='CBMC code contracts (dfcc) with an event-logging stub for htp_hook_run_all (sequence numbers, per-hook counters)',
        note=TRUST + 'C05: htp_tx_state_response_headers not under contract (does not close); put_file == NULL assumed in the request-complete units; user callbacks return OK/DECLINED/STOP/ERROR and do not re-enter the parser.'),
    'C12': dict(
        text=('Inductive contracts (fixed capacity WCAP, whole decoder configuration symbolic) on htp_normalize_uri_path_inplace, htp_decode_path_inplace, htp_urldecode_inplace_ex, '
              'htp_utf8_decode_path_inplace, htp_utf8_validate_path, x2c and the UTF-8 DFA step: memory safety, in-place discipline (never reads a byte it overwrote), len\' <= len, flags only grow, '
              'termination; full-domain lemma for %u decoding over the real best-fit map. Equality with an independent reference pipeline, exact flag sets ("raised exactly when"), idempotence and '
              'dot-segment freedom are decided by BOUNDED units (all paths up to N bytes over all byte values x fully symbolic configuration), labelled bounded. Three known findings carved out and re-confirmed by probes.'),
        design='4/C12', technique='CBMC code contracts (dfcc) with loop invariants on the in-place decoders; bounded reference equality with native replay',
        note=TRUST + 'C12: best-fit map scans assumed via callee contracts backed by the real-map lemma; htp_normalize_parsed_uri, htp_normalize_hostname_inplace not under contract.'),
})

CLAIMS.update({
    'C11': dict(
        text=('The static htp_tx_process_request_headers is enforced against the property statement written as a decision table over the answers of its (replaced) callees: T-E/C-L presence, chunked token, '
              'cl->flags, protocol, target host vs Host field; indicators only grow, none is raised without its trigger, IDENTITY framing comes with a non-negative length. Producers: '
              'htp_process_request_header_generic (REPEATED on the stored header, repetition cap 64, C-L never merged, merge = old ", " new), htp_parse_header_hostport (invalid => HTP_HOSTH_INVALID), '
              'htp_header_has_token (safety, unbounded) plus a BOUNDED equality with an independent token reference (case / whitespace clause). Three known findings (folded C-L never flagged; REPEATED C-L with '
              'non-chunked T-E; unparseable C-L with chunked T-E) are carved out and re-confirmed on every run. The response twin (RES_BODY_DETERMINE) is not under contract.'),
        design='4/C11', technique='CBMC code contracts (dfcc) with prophecy-ghost stubs for callees; bounded reference equality for the token search',
        note=TRUST + 'C11: htp_validate_hostname and htp_parse_hostport not under contract (the hostport wrapper is proved over a stubbed validator); segmentation independence is C03.'),
    'C15': dict(
        text=('htp_urlenp_parse_partial is enforced (unbounded, do-while closed by invariants) against the tiling law over the log of piece-handler calls: pieces tile the input exactly on the separator '
              'and the first "=", the state follows KEY-(=)->VALUE-(&)->KEY, only the last call carries -1; htp_urlenp_add_field_piece is enforced against the emission transition table (pair exactly for a '
              'finished value, a key ended by the separator, a final non-empty key; final empty piece dropped; decode after split). Equality with the reference rule and chunking invariance over string '
              'CONTENTS are decided by BOUNDED units on the real parser+builder+table (N = 2 quick), labelled bounded.'),
        design='4/C15', technique='CBMC code contracts (dfcc) with a call-logging stub and witness indices; bounded reference equality with native replay',
        note=TRUST + 'C15: decoder replaced by a stub in the contract units (decoding is C12); bounded N is tiny because the real builder/list heap code is expensive in CBMC.'),
})

CLAIMS.update({
    'C03': dict(
        text=('Segmentation invariance is decomposed into sufficient conditions, each machine-checked where a contract can carry it: L1 buffering is transparent (htp_connp_req/res_buffer on the real code: '
              'buffered and appended bytes are preserved in order, consumer catches up); L2 every look-ahead that is under contract defers when the byte is not in the chunk - chunk-size lines '
              '(DATA_BUFFER with nothing decided or counted), body states (consumption = min(owed, available), independent of chunk geometry), and the header-folding look-ahead of REQ_HEADERS / RES_HEADERS '
              '(bounded unit on the real state function: a header line ending exactly at the chunk end is kept pending). L3 (no other dependence on chunk geometry) is a manual audit. The two-run relational '
              'claim over the whole pipeline is not a contract and is not decided. One genuine violation found this way was repaired (response folding at a chunk boundary).'),
        design='4/C03', technique='CBMC lemma / bounded harnesses on the real buffer and header state functions; dfcc contracts on the chunk-size and body states',
        note=TRUST + 'C03: look-ahead sites NOT under any unit: RES LF-CR line ending, next_no_lf, RES_LINE, REQ_PROTOCOL HTTP/0.9 probe, response chunk-length probe (all affect malformed or non-folded input only, by reading). L3 unchecked.'),
    'C19': dict(
        text=('Frame conditions: every function enforced by a dfcc contract in the parser, transaction, decoder and urlencoded layers is proved (assigns-clause checking on every assignment) to write nothing outside '
              'its frame, and a mechanical scan shows that no assigns clause names the shared configuration, a hook list or a static table: all mutable parse state is reachable from the connection parser. '
              'Call-by-call interleaving on one thread is then independence by construction. Freedom from data races under threads follows on paper (disjoint write sets, shared reads only); CBMC contracts have no '
              'thread model and no schedule is explored.'),
        design='4/C19', technique='dfcc frame (assigns) obligations of all enforced contracts + syntactic scan of the assigns clauses',
        note=TRUST + 'C19: functions not under contract are outside the frame claim; thread schedules are not explored.'),
    'C01': dict(
        text=('Union of the safety obligations (bounds, pointer validity, pointer overflow, signed/unsigned overflow, conversion, shift, division, double free, invalid free; leaks where the harness owns everything) and of the '
              'termination obligations (decreases clauses) of every unit of every other property, under well-formedness preconditions that the callers\' post-conditions establish; allocation may fail everywhere. '
              'Scope = the functions under contract listed in evidence; the rest of htp/*.c is NOT verified (line-oriented state functions, RES_BODY_DETERMINE, transcoder, file extraction, LZMA/zlib internals, debug printers). '
              'Callbacks that destroy the transaction they are called for are outside the callback assumption.'),
        design='4/C01', technique='CBMC safety and termination obligations of all contract / lemma units (dfcc), bounded units reported separately',
        note=TRUST),
})

CLAIMS.update({
    'C02': dict(
        text=('Scoped to the extractors. BOUNDED units run the real request-line, status-line, request/response header-line, cookie, content-type, quoted-string, chomp / line-predicate and method-table '
              'code on every input up to N bytes over all byte values (every allocation-failure pattern) and check a reference-free re-join walk (reported components are byte-identical sub-ranges in wire order, '
              'separated by whitespace / the colon only, nothing dropped or invented), the exact split of RFC 7230 well-formed lines, and equality with an independent reference. Unbounded dfcc contracts: '
              'htp_chomp, the line predicates, htp_parse_response_header_generic (two provenance-checked copies; every byte outside the two ranges is ":" or whitespace), header merge = old ", " new on both '
              'sides, htp_parse_protocol full domain. Case-insensitive first-match lookup and wire order are C17\'s table contracts. The end-to-end "grammar sentence => transaction" composition is not machine-checked.'),
        design='4/C02', technique='CBMC bounded reference equality with native replay on the real extractors; dfcc contracts with a provenance-logging bstr_dup_mem stub',
        note=TRUST + 'C02: htp_parse_request_line_generic_ex / htp_parse_request_header_generic / htp_parse_response_line_generic have bounded units only; htp_parse_authorization* not covered; bstr_dup_mem modelled in bounded units (checked by c13_dup_model_lemma); no memchr model in CBMC.'),
    'C07': dict(
        text=('Containment only. The two decompressor sink callbacks are enforced against the bomb inequality taken from the statement (OK only if entity_len <= limit or entity_len <= 2048 x message_len; entity_len += exactly '
              'what the hooks see). htp_gzip_decompressor_decompress (one layer, restart heuristics exhausted, every zlib/LZMA stub behaviour, inductive loop contract with variant): every delivery is <= 8192 bytes of the '
              'layer\'s own buffer, or the untouched input, or the empty marker; no delivery after a refused one; NO non-empty delivery on a dead stream (holds since the fix recorded in known_findings); object invariant '
              're-established. Restart function: at most 3 re-entries. Factory and header probe under contract. Layer limits: BOUNDED unit on the real chain construction. Faithfulness of inflate/LZMA output is a statement '
              'about external code and is NOT claimed.'),
        design='4/C07', technique='CBMC code contracts (dfcc) with frame stubs for zlib/LZMA and a call-site-checking sink stub; bounded harness for the layer chain',
        note=TRUST + 'C07: zlib/LZMA assumed to stay inside their buffers and to make progress on Z_OK/SZ_OK; restart re-entry and two-layer recursion inside one call are not mechanised (composition on paper, notes/c07.md).'),
    'C14': dict(
        text=('Scoped. Per call of htp_mpartp_parse + htp_martp_process_aside from EVERY well-formed matcher state (so for every call history), BOUNDED by chunk length (3 bytes without / 2 bytes with stored pieces; '
              'thorough 4 / 3): memory safety with exact-size heap chunks, every range handed to the part handlers lies inside the chunk or a stored piece and never wraps, exact byte conservation '
              '(every chunk byte is handed out, stored, the set-aside CR, or a delimiter byte), well-formedness again on return. Two chunking defects found this way are repaired in /repo. '
              'NOT decided: part contents / Content-Disposition values beyond conservation, parts -> parameters, end-to-end chunking invariance.'),
        category='model_checking', design='4/C14', technique='CBMC bounded per-call harness from an arbitrary well-formed state (goto-based matcher has no loop-contract form), native replay',
        note=TRUST + 'C14: the unit compiles a line-preserving control-flow rewrite of htp_mpartp_parse (each goto STATE_SWITCH -> flag + jump to the loop end; aborts as UNDECIDED if a pattern does not fire) and a model of the boundary_pieces builder; bstr_builder_append_mem on boundary_pieces assumed not to fail (KNOWN_F_C14_APPEND_FAIL, allocation failure only).'),
})

CLAIMS.update({
    'C18': dict(
        text=('Two layers. (1) EVERY unit of every property runs with every malloc/calloc/realloc/strdup allowed to fail independently, so each NULL branch of each function under contract is explored in all '
              'combinations and the post-condition (well-formedness included) must hold on the error return too. (2) Ownership lemma units "call f ; then the REAL teardown that later runs" with all allocation-failure '
              'patterns, double-free / use-after-free / invalid-free obligations and a leak check where the harness owns everything: authorization (basic), hostport (CONNECT and Host header), connection open/close, '
              'multipart Content-Disposition, urlencoded body parameters (real htp_tx_destroy_incomplete), list/table add families, header producers (both directions), decompressor chain. Seven double-free / '
              'use-after-free defects found this way are repaired in /repo. This is stronger per function (all failure patterns) and weaker globally (no whole-run k-th-allocation enumeration) than the statement\'s quantifier.'),
        design='4/C18', technique='CBMC lemma harnesses (f ; real teardown) under --malloc-may-fail with double-free/UAF/leak obligations; allocation failure enabled in all contract units',
        note=TRUST + 'C18: no units for htp_tx_create;destroy (symex does not finish), hooks, config copy, connp create/destroy, digest auth; leaks under allocation failure are not violations of C18 as stated and are recorded as observations.'),
})


# ---- session 3 (2026-09-28): what changed in the claims (appended sentences; stale notes replaced) -------------------------------------------------
def _amend(pid, more=None, note=None, technique=None):
    c = CLAIMS[pid]
    if more:
        c['text'] = c['text'] + ' ' + more
    if note is not None:
        c['note'] = TRUST + note
    if technique:
        c['technique'] = technique


_amend('C09', more=('Since session 3 the line-oriented states REQ_LINE (+ REQ_LINE_complete), REQ_PROTOCOL, REQ_HEADERS, RES_LINE (three exhaustive cases), RES_HEADERS and RES_FINALIZE are ENFORCED against '
                    'contracts that contain the shared state contract; htp_connp_req_close is enforced with the driver replaced by its proved contract (a direction in ERROR or STOP stays there when the stream is closed - a defect found by this unit is repaired).'),
       note='C09: EVERY state function of both directions is now enforced against a contract that contains the shared state contract (no state function is assumed any more); callbacks return OK/DECLINED/STOP/ERROR; RES_LINE assumes a closed stream offers no data (needed for termination) and the generic line parser.')
_amend('C03', more=('Session 3: REQ_LINE, REQ_HEADERS, RES_LINE, RES_FINALIZE are under dfcc contract with the L2 clause "incomplete line => DATA_BUFFER, chunk exhausted, no LF among the bytes read, nothing decided (no helper ran; state, buffer, flags unchanged)"; '
                    'the consolidation relation the line states assume is enforced on the real htp_connp_req/res_consolidate_data.'),
       note='C03: the two-run relational claim is not decided; L3 is a manual audit. Probes that depend on chunk geometry for input OUTSIDE the quantifier (not well-formed exchanges): REQ_PROTOCOL protocol-less request line followed by headers, RES_LINE junk-line probe, bare CR ending a status line - native reproducers under findings/c03_*.c, recorded as observations in DESIGN 13, not claimed and not findings.')
_amend('C05', more=('Session 3: htp_tx_state_response_headers is enforced (RESPONSE_HEADERS exactly once after the raw-data flush, refusal returned at once, progress untouched) with its Content-Encoding loop unwound over header values <= 8 bytes (bounded); '
                    'REQ_HEADERS guarantees progress TRAILER before a closed-stream re-entry of the header transition (REQUEST_HEADERS at most once); RES_BODY_DETERMINE carries the 100-continue restart.'),
       note='C05: put_file == NULL assumed in the request-complete units; user callbacks return OK/DECLINED/STOP/ERROR and do not re-enter the parser; cross-function trace order is the composition of the per-transition contracts (paper).')
_amend('C07', more='Session 3: the layer limits, coding classification and chain shape are post-conditions of the REAL htp_tx_state_response_headers (bounded in the header value length only); both body sinks with a content coding in force and the token scanner are under contract.')
_amend('C13', more=('Session 3: the splitter itself is now under dfcc contract with every loop closed by a loop contract (nothing unwound): htp_parse_uri for targets up to VCAP = 32 / 64 bytes (inductive(CAP)): order and adjacency chain of the 8 components, '
                    'last component ends where the trailing spaces begin, "/"-rule; htp_parse_hostport for any length up to 64 / 1024 (first-colon, IPv6 bracket, invalid flag, port through the proved integer contract); htp_parse_uri_hostport. '
                    'The bounded reference units stay for the existential facts (exact values).'),
       technique='CBMC code contracts (dfcc) with loop contracts on the real splitter (htp_parse_uri inductive(CAP), htp_parse_hostport any length); bounded reference equality with native replay for exact values; dfcc contracts for the port rule',
       note='C13: CBMC has no memchr model; a contract with a first-occurrence witness is supplied. F-C13-IPV6 is carved out of the adjacency law by the exact predicate U_JUNK / ipv6_junk_after_bracket and re-confirmed by a probe run.')
_amend('C02', more=('Session 3: htp_parse_request_header_generic, htp_parse_request_line_generic_ex, htp_parse_response_line_generic, htp_parse_single_cookie_v0, htp_parse_cookies_v0, htp_parse_ct_header and htp_parse_authorization_digest are under UNBOUNDED dfcc contracts '
                    '(any line length up to VCAP, every loop closed): each reported component is a logged duplication whose source range lies inside the line, in order; by witness index every byte outside the ranges is a delimiter / white space; flag rules of the request header.'),
       note='C02: htp_extract_quoted_string_as_bstr has a bounded unit only (its contract does not leave SSA conversion); existential facts (first colon, exact split) stay with the bounded reference units; Digest user name = first occurrence of username= (observation, see DESIGN 13).')
_amend('C18', more=('Session 3: life-cycle lemma units on the real code: connp create / open / close / destroy / destroy_all (also mid-stream and "destroy the parser, keep the data"), tx create ; destroy with everything a transaction can own, conn destroy, config create ; destroy, '
                    'urlencoded / multipart parser create ; destroy, multipart hand-over; one use-after-free on a documented history found and repaired.'),
       note='C18: leaks or dropped items under allocation failure (htp_tx_create / cookie / multipart part push / hand-over ignore a failed insertion) are NOT violations of C18 as stated; the clauses are not claimed on those paths (macros KNOWN_F_C18_* in units/c18_life.py, KNOWN_F_C02_COOKIE_ADDN) and they are recorded as observations.')
_amend('C19', more=('Session 3: (a) the C type checker decides "no store through a configuration lvalue" for EVERY function of the tree: the sources are type-checked with `typedef const struct htp_cfg_t htp_cfg_t;` (every htp/*.c except htp_config.c; 0 errors on the unchanged tree); '
                    '(b) htp_mpart_part_destroy is enforced with close() replaced by a stub whose precondition is false: a descriptor number is released only where the upload ends, never twice by one parser (interference through the process descriptor table).'),
       technique='dfcc frame (assigns) obligations of all enforced contracts + syntactic scan of the assigns clauses + static-storage scan (gcc -c, nm) + const-typedef type check of the configuration',
       note='C19: thread schedules are not explored (no thread model in CBMC contracts); umask() around mkstemp is process-wide (observation); stores through casts / memcpy and objects the configuration only points to are outside the const scan.')
_amend('C01', more=('Session 3: the quick tier runs every unit of every property except the five that need more than 150 s alone (REQ_HEADERS, RES_HEADERS, two RES_LINE cases, the unbounded URI splitter: they run in the quick tier of C09 / C03 / C10 / C13 and in the thorough tier of C01). New teardown units: per-transaction body hooks, connp / conn / tx / config life cycle; three genuine defects found by units on the unchanged tree are repaired (response-body hook leak, parser destroy left transactions dangling, close un-sticking STOP).'),
       note='C01 scope = the functions under contract listed in evidence; NOT verified: transcoder / iconv, file extraction I/O, LZMA/zlib internals, the real htp_log (vsnprintf), debug printers; callbacks that destroy the transaction they are called for.')
_amend('C16', more='Session 3: the WAIT_RESPONSE post-condition is now taken from the property (the request side stays suspended until the status line of a FINAL response has been seen; an interim 100 Continue is not the answer) - the defect this exposed is repaired.')
_amend('C04', more='Session 3: htp_conn_remove_tx is additionally checked by a loop-structure-independent unit (capacity 4, every ring position, stale tx->index); htp_connp_tx_remove serves C04.')
_amend('C10', more='Session 3: REQ_HEADERS under dfcc contract asserts the folded-header cap at every append in every iteration (pending length unbounded); RES_HEADERS under dfcc contract asserts the same cap at every append; its fold decision is a bounded unit.')
_amend('C06', more='Session 3: RES_FINALIZE (unexpected body delivered once and counted; next response un-read exactly), REQ_LINE / REQ_HEADERS ("consumed exactly once") and the coded body sinks are under contract.')

NOT_YET = 'not yet built in this session (planned in DESIGN.md section 4); no check is registered, so nothing is claimed'
NA = {
    'C08': 'amortised cost over a whole stream is not program state expressible at a function boundary; per-loop variants are proved and reported under C01 (DESIGN.md section 5)',
}
ALL = ['C%02d' % i for i in range(1, 20)]


def manifest():
    checks = []
    for pid in ALL:
        if pid not in CLAIMS:
            continue
        c = CLAIMS[pid]
        checks.append(dict(
            property_id=pid,
            quick_cmd='./bin/vcheck %s --tier quick' % pid,
            thorough_cmd='./bin/vcheck %s --tier thorough' % pid,
            evidence_file='/verif/evidence/%s.json' % pid,
            replay_cmd_template='./bin/vcheck --replay {path}',
            engine='vcheck',
            level_claimed=dict(category=c.get('category', 'proof'), text=c['text'], design_ref=c['design']),
            level_note=c['note'],
            technique=c['technique']))
    na = []
    for pid in ALL:
        if pid in CLAIMS:
            continue
        na.append(dict(property_id=pid, reason=NA.get(pid, NOT_YET)))
    return dict(
        version=1,
        setup_cmd='true',
        hooks=dict(guard='HTP_VERIF', enable='no source hook exists: contracts are separate declarations in /verif/contracts, loop clauses are inserted into a scratch copy on every run, ghost state lives in replaced-callee contracts',
                   baseline_off_cmd='make -C /repo -j8 >/dev/null 2>&1; make -C /repo/test check',
                   source_commits=[], add_only=True),
        engines=[dict(name='vcheck', path='/verif/bin/vcheck', serves_properties=[c['property_id'] for c in checks],
                      kind_free_text='python3 runner: wrapper TU around the real sources -> goto-cc -> goto-instrument --dfcc (enforce/replace contracts, loop contracts) -> cbmc; evidence and replay writer')],
        checks=checks,
        not_applicable=na,
        notes='Family: contract-based deductive verification of the real C code with CBMC 6.11 code contracts. See DESIGN.md.')


# ---- later additions (units built after the first registration), applied to the assembled texts --------------------------------
def _amend(pid, old, new, field='text'):
    t = CLAIMS[pid][field]
    assert old in t, (pid, old[:50])
    CLAIMS[pid][field] = t.replace(old, new, 1)


_amend('C03', 'L3 (no other dependence on chunk geometry) is a manual audit.',
       'Also bounded on the real state functions: a header line cut between CR and LF asks for buffering with nothing consumed (both directions), and the end-of-response probe of RES_FINALIZE '
       '+ the real consolidation conserve the probed line (delivered ++ buffered ++ unconsumed == pending on entry: the next status line reaches RES_LINE exactly once wherever the chunk boundary falls; '
       'a second genuine violation - a pipelined status line doubled when cut - was found and repaired here). L3 (no other dependence on chunk geometry) is a manual audit.')
_amend('C19', 'all mutable parse state is reachable from the connection parser.',
       'all mutable parse state is reachable from the connection parser. A second mechanical fact is taken from the COMPILED objects of the current tree on every run (gcc -c + nm over every htp/*.c and '
       'htp/lzma/*.c): the library has no writable object with static storage duration (file-scope or block-scope static) other than two initialised tables that no store targets - so a parser cannot keep '
       'state outside the objects reachable from its connection parser, also in functions that are not under contract.')
_amend('C19', 'syntactic scan of the assigns clauses', 'syntactic scan of the assigns clauses + static-storage scan of the compiled objects (gcc -c, nm)', 'technique')
_amend('C14', 'NOT decided: part contents / Content-Disposition values beyond conservation, parts -> parameters, end-to-end chunking invariance.',
       'The set-aside copy may fail (then: error reported, matcher well-formed, no candidate left open). End of body: htp_mpartp_finalize from every such state hands out everything that was set aside, also when '
       'no part object exists yet. Content-Disposition: the reported name / file name is byte-for-byte the quoted string that was sent (escape pairs; BOUNDED: every tail of up to 4 / 6 bytes after name=" / '
       'filename="); after the hand-over of the strings to the transaction every further callback invocation is refused (dfcc contract, unbounded). Five defects found by these units are repaired in /repo. '
       'NOT decided: part contents beyond conservation, the parts -> parameters map, end-to-end chunking invariance.')
_amend('C16', 'Interleaving-level scenarios are the composition of these per-state contracts.',
       'Response side (htp_connp_RES_BODY_DETERMINE, enforced): CONNECT + 2xx finalises the response with both stream states untouched (the request side probes the tunnel), a refused CONNECT unblocks the '
       'request side (and stops at the end of the transaction unless 407), 101 without T-E / C-L puts both directions into TUNNEL, and the stream states are written nowhere else. '
       'Interleaving-level scenarios are the composition of these per-state contracts.')
_amend('C11', 'The response twin (RES_BODY_DETERMINE) is not under contract.',
       'The response twin htp_connp_RES_BODY_DETERMINE is enforced against the same kind of decision table (chunked T-E + C-L => smuggling flag and chunked framing; REPEATED C-L => flag; negative C-L => error; '
       'flags only grow). Host syntax: htp_validate_hostname equals an independent reference on every non-IP-literal name up to 7 / 10 bytes (BOUNDED; the 63-byte label limit needs longer names: not covered).')
_amend('C02', 'Case-insensitive first-match lookup and wire order',
       'Basic credentials: user-id = bytes before the FIRST colon of the decoded text, password = the rest (BOUNDED: decoded texts up to 6 / 10 bytes, base64 decoder replaced by a stand-in). '
       'Case-insensitive first-match lookup and wire order')
_amend('C06', 'Content equality over a whole multi-call body',
       'The framing decisions that lead into the body states are enforced too (REQ_BODY_DETERMINE, RES_BODY_DETERMINE: identity framing enters the body state with bytes owed == Content-Length > 0, exactly what '
       'the body state requires). Content equality over a whole multi-call body')
_amend('C01', 'line-oriented state functions, RES_BODY_DETERMINE, transcoder', 'line-oriented state functions, transcoder')
_amend('C05', 'Whole-trace order ACROSS transition functions and the 100-continue restart live in state functions not under contract here.',
       'The documented 100-continue restart is enforced on htp_connp_RES_BODY_DETERMINE (every header released once, table cleared, progress back to LINE, counter + 1, the headers transition NOT run; on every '
       'other path progress never decreases); REQ_IDLE / RES_IDLE (a response is attached to the next transaction in arrival order and the index always advances) and htp_connp_tx_remove (a destroyed '
       'transaction is detached from BOTH directions) carry "no callback after transaction-complete". Whole-trace order ACROSS transition functions is carried only by these per-function contracts.')
_amend('C10', 'Steady-state heap over 10^4 transactions is the composition (paper).',
       'Caps on assembled headers: repeated fields - counter <= 64 and the newcomer dropped beyond it (request and response producers, dfcc contracts); folded lines - on the real REQ_HEADERS / RES_HEADERS, with a '
       'pending header of ANY length (unbounded symbolic size), a continuation line is appended iff the pending length is below HTP_MAX_HEADER_FOLDED, so an assembled header never exceeds cap - 1 + one line '
       '(BOUNDED in the length of the continuation line only: 4 / 6 bytes; response side: continuation lines without a colon). Steady-state heap over 10^4 transactions is the composition (paper).')
