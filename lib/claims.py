"""What is claimed per property (source of MANIFEST.json)."""

TRUST = ('Trusted: cbmc 6.11.0 (goto-cc front end, dfcc contract instrumentation, symbolic execution, MiniSat), its C library '
         'models (malloc/free/realloc/memcpy/memchr/ctype in the C locale via -D__NO_CTYPE), the wrapper-TU convention (real '
         '/repo/htp/*.c #included verbatim; loop-contract clauses inserted by lib/annotate.py with strip(annotate(x))==x checked '
         'on every run), x86-64 LP64, bit-precise machine arithmetic. Assumed (replaced, never enforced) contracts and per-unit '
         'bounds are listed in the evidence file of every run. ')

CLAIMS = {
    'C17': dict(
        text=('Contracts enforced by CBMC/dfcc on the real functions of bstr.c, htp_list.c, htp_table.c and the numeric parsers: '
              'for every argument value and every string length (symbolic, up to VCAP) the compare/prefix/search/trim primitives '
              'satisfy the universally quantified part of their mathematical meaning (ghost witness index), lists and tables '
              'keep their ring/multimap invariant and view laws, numeric parsers never wrap. Existential parts (sign of the FIRST '
              'difference, exact decimal value) are decided by bounded reference-equality units (all strings up to N bytes) which '
              'are labelled bounded in evidence and not counted as proved.'),
        design='4/C17', technique='CBMC code contracts (dfcc) with loop invariants on the real C functions; bounded reference equality for existential facts',
        note=TRUST),
}

NOT_YET = 'not yet built in this session (planned in DESIGN.md section 4); no check is registered, so nothing is claimed'
NA = {
    'C08': 'amortised cost over a whole stream is not program state expressible at a function boundary; per-loop variants are proved and reported under C01 (DESIGN.md section 5)',
}
ALL = ['C%02d' % i for i in range(1, 20)]


def manifest():
    checks = []
    for pid in ALL:
        if pid not in CLAIMS:
            continue
        c = CLAIMS[pid]
        checks.append(dict(
            property_id=pid,
            quick_cmd='./bin/vcheck %s --tier quick' % pid,
            thorough_cmd='./bin/vcheck %s --tier thorough' % pid,
            evidence_file='/verif/evidence/%s.json' % pid,
            replay_cmd_template='./bin/vcheck --replay {path}',
            engine='vcheck',
            level_claimed=dict(category='proof', text=c['text'], design_ref=c['design']),
            level_note=c['note'],
            technique=c['technique']))
    na = []
    for pid in ALL:
        if pid in CLAIMS:
            continue
        na.append(dict(property_id=pid, reason=NA.get(pid, NOT_YET)))
    return dict(
        version=1,
        setup_cmd='true',
        hooks=dict(guard='HTP_VERIF', enable='no source hook exists: contracts are separate declarations in /verif/contracts, loop clauses are inserted into a scratch copy on every run, ghost state lives in replaced-callee contracts',
                   baseline_off_cmd='make -C /repo -j8 >/dev/null 2>&1; make -C /repo/test check',
                   source_commits=[], add_only=True),
        engines=[dict(name='vcheck', path='/verif/bin/vcheck', serves_properties=[c['property_id'] for c in checks],
                      kind_free_text='python3 runner: wrapper TU around the real sources -> goto-cc -> goto-instrument --dfcc (enforce/replace contracts, loop contracts) -> cbmc; evidence and replay writer')],
        checks=checks,
        not_applicable=na,
        notes='Family: contract-based deductive verification of the real C code with CBMC 6.11 code contracts. See DESIGN.md.')
