"""vcheck command line: run the proof units of one property, write evidence, report verdict."""
import argparse
import concurrent.futures as cf
import glob
import importlib.util
import json
import os
import re
import sys
import time

import vrun

VERIF = vrun.VERIF
TRUSTED_BASE = [
    'cbmc 6.11.0 front end (goto-cc), dfcc contract instrumentation (goto-instrument), symbolic execution and MiniSat back end',
    "CBMC's C library models (malloc/free/realloc/calloc/memcpy/memcmp/strlen/ctype via -D__NO_CTYPE, C locale)",
    'wrapper-TU convention: the real /repo/htp/*.c file is #included verbatim; loop-contract clauses are inserted by lib/annotate.py and strip(annotate(x))==x is checked on every run',
    'x86-64 LP64 data model; machine arithmetic is bit-precise (no mathematical-integer idealisation)',
]


C19_FILES = ('sm_req.py', 'sm_res.py', 'sm_tx.py', 'c05_life.py', 'c10_limits.py', 'c11_flags.py', 'c12_path.py', 'c15_urlen.py', 'c07_decomp.py', 'c02_extract.py')


def frame_scan():
    """C19 supporting fact: no assigns clause in /verif/contracts names the shared configuration, a hook list or a static table."""
    bad, n = [], 0
    for path in sorted(glob.glob(os.path.join(VERIF, 'contracts', '*.h'))):
        txt = open(path).read()
        for m in re.finditer(r'__CPROVER_assigns\(', txt):
            i, depth = m.end(), 1
            while depth and i < len(txt):
                depth += {'(': 1, ')': -1}.get(txt[i], 0)
                i += 1
            clause = txt[m.end():i - 1]
            n += 1
            if re.search(r'\bcfg\s*->|->\s*cfg\s*->|\*\s*cfg\b|object_whole\([^)]*cfg[^)]*\)|bestfit|decoder_cfgs|utf8d|hook_[a-z_]+->|htp_base64', clause):
                bad.append('%s: %s' % (os.path.basename(path), ' '.join(clause.split())[:160]))
    return n, bad


# C19 supporting fact, taken from the COMPILED objects of the current tree: writable objects with static storage duration.
# A parser that keeps state in a file-scope or block-scope `static` shares it with every other parser of the process (and races on it):
# no contract frame can see that, because frames only speak about the functions under contract.  The allow-list is the complete set on the
# pinned tree (two initialised tables that no store in the library targets, checked by the regexes next to them).
C19_STATIC_ALLOW = {
    ('htp_config', 'bestfit_1252'): r'bestfit_1252\s*\[[^\]]*\]\s*(=\s*[^={\s]|\+\+|--|[-+|&^]=)',
    ('htp_decompressors', 'lzma_Alloc'): r'lzma_Alloc\s*(\.\s*\w+\s*)?(=\s*[^={\s])',
}


# peak resident memory of the heavy units in GB (measured by the builders / the coordinator; everything else is below 2 GB)
MEM_GB = {'htp_connp_req_data': 13, 'htp_connp_res_data': 13, 'htp_connp_RES_LINE_blank': 10, 'htp_connp_RES_LINE_body': 10, 'htp_connp_RES_LINE_status': 10,
          'htp_connp_REQ_HEADERS': 8, 'htp_connp_RES_HEADERS': 8, 'htp_connp_RES_FINALIZE': 6, 'htp_parse_uri_unb': 8, 'htp_connp_RES_BODY_DETERMINE': 6, 'htp_connp_REQ_FINALIZE': 4,
          'htp_connp_REQ_CONNECT_PROBE_DATA': 4, 'htp_tx_state_response_headers': 6, 'htp_tx_state_response_headers_12': 8, 'htp_parse_hostport': 4}


def statics_scan():
    import subprocess, tempfile, shutil
    repo = os.environ.get('VERIF_REPO', '/repo')
    d = tempfile.mkdtemp(prefix='vnm.', dir='/var/tmp')
    found, errs, nfiles = [], [], 0
    try:
        for src in sorted(glob.glob(os.path.join(repo, 'htp', '*.c')) + glob.glob(os.path.join(repo, 'htp', 'lzma', '*.c'))):
            nfiles += 1
            obj = os.path.join(d, os.path.basename(src)[:-2] + '.o')
            r = subprocess.run(['gcc', '-c', '-O0', '-fno-common', '-w', '-I' + repo, '-I' + os.path.join(repo, 'htp'), src, '-o', obj], capture_output=True, text=True)
            if r.returncode != 0:
                errs.append('%s: %s' % (os.path.basename(src), r.stderr.strip().splitlines()[-1] if r.stderr.strip() else 'gcc failed'))
                continue
            for line in subprocess.run(['nm', obj], capture_output=True, text=True).stdout.splitlines():
                f = line.split()
                if len(f) >= 3 and f[-2] in 'bBdDcCsSgG':
                    found.append((os.path.basename(src)[:-2], f[-1], f[-2]))
    finally:
        shutil.rmtree(d, ignore_errors=True)
    bad = []
    for o, sym, t in found:
        base = re.sub(r'\.\d+$', '', sym)
        if (o, base) not in C19_STATIC_ALLOW or base != sym:
            bad.append('%s.c: writable object with static storage duration `%s` (nm type %s): state shared by every parser in the process' % (o, sym, t))
    for (o, sym), rx in C19_STATIC_ALLOW.items():
        try:
            txt = open(os.path.join(repo, 'htp', o + '.c')).read()
        except OSError:
            continue
        m = re.search(rx, txt)
        if m:
            bad.append('%s.c: a store targets the static table `%s`: %s' % (o, sym, ' '.join(m.group(0).split())[:80]))
    return nfiles, found, bad, errs


def cfg_const_scan():
    """C19 'the shared configuration is never written during parsing', decided by the C type checker for every function of the tree, under contract or not:
    the sources and headers of the current tree are copied to a scratch directory, the ONE typedef `typedef struct htp_cfg_t htp_cfg_t;` is made
    `typedef const struct ...`, and every htp/*.c except htp_config.c (the configuration API itself) is type-checked with gcc -fsyntax-only.  A store through any
    htp_cfg_t lvalue (cfg->x = .., connp->cfg->decoder_cfgs[i].y |= ..) is then an 'assignment of member in read-only object' error.  Not covered: stores through
    casts / memcpy, and objects the configuration only points to (hook lists) - those are under the frame obligations of the contract units."""
    import subprocess, tempfile, shutil
    repo = os.environ.get('VERIF_REPO', '/repo')
    d = tempfile.mkdtemp(prefix='vcc.', dir='/var/tmp')
    bad, errs, nfiles = [], [], 0
    try:
        os.makedirs(os.path.join(d, 'htp', 'lzma'))
        for pat, dst in (('*.h', ''), ('htp/*.[ch]', 'htp'), ('htp/lzma/*.[ch]', 'htp/lzma')):
            for f in glob.glob(os.path.join(repo, pat)):
                shutil.copy(f, os.path.join(d, dst))
        core = os.path.join(d, 'htp', 'htp_core.h')
        txt = open(core).read()
        new = re.sub(r'typedef\s+struct\s+htp_cfg_t\s+htp_cfg_t\s*;', 'typedef const struct htp_cfg_t htp_cfg_t;', txt)
        if new == txt:
            return 0, [], ['htp_core.h: the typedef of htp_cfg_t was not found (must-fire rewrite)']
        open(core, 'w').write(new)
        for src in sorted(glob.glob(os.path.join(d, 'htp', '*.c'))):
            if os.path.basename(src) == 'htp_config.c':
                continue
            nfiles += 1
            r = subprocess.run(['gcc', '-fsyntax-only', '-w', '-I' + d, '-I' + os.path.join(d, 'htp'), src], capture_output=True, text=True)
            for line in r.stderr.splitlines():
                if 'error' in line:
                    line = line.replace(d + '/', '')
                    (bad if 'read-only' in line else errs).append(line.strip())
    finally:
        shutil.rmtree(d, ignore_errors=True)
    return nfiles, bad, errs


def load_units():
    units = []
    for path in sorted(glob.glob(os.path.join(VERIF, 'units', '*.py'))):
        if os.path.basename(path).startswith('wip_') and not os.environ.get('VERIF_WIP'):
            continue        # work in progress (a builder is still writing it): loaded only on request
        spec = importlib.util.spec_from_file_location('units_' + os.path.basename(path)[:-3], path)
        mod = importlib.util.module_from_spec(spec)
        spec.loader.exec_module(mod)
        for u in getattr(mod, 'UNITS', []):
            u['file'] = os.path.basename(path)
            units.append(u)
    # C19 (frames): every enforced contract of the parser / transaction layer proves, through dfcc's assigns-clause checking,
    # that the function writes nothing outside its frame; none of these frames contains the shared configuration or a static table
    for u in units:
        if u['kind'] == 'contract' and u['enforce'] and u['file'] in C19_FILES and 'C19' not in u['props']:
            u['props'].append('C19')
    # the completion transitions carry C06's last clause (end-of-body marker before the completion callback)
    for u in units:
        if u['name'] in ('htp_tx_state_request_complete_partial', 'htp_tx_state_request_complete', 'htp_tx_state_response_complete_ex') and 'C06' not in u['props']:
            u['props'].append('C06')
    # the completion transitions also carry the hand-over protocol between the two directions (C09: DATA_OTHER is answered only while the other side
    # really waits for THIS transaction, else the two drivers would ping-pong) and the CONNECT hand-over (C16)
    for u in units:
        if u['name'] in ('htp_tx_state_request_complete', 'htp_tx_state_response_complete_ex'):
            for p in ('C09', 'C16'):
                if p not in u['props']:
                    u['props'].append(p)
    names = [u['name'] for u in units]
    dup = set(n for n in names if names.count(n) > 1)
    if dup:
        raise SystemExit('duplicate unit names: %s' % sorted(dup))
    return units


def load_known():
    try:
        return json.load(open(os.path.join(VERIF, 'known_findings.json')))
    except OSError:
        return {'findings': [], 'fixed': []}


def match_known(known, prop, unit, fail):
    for k in known.get('findings', []):
        if k.get('probe_defs') or k.get('probe_undef') or k.get('static_probe'):
            continue    # carved-out findings are matched only by their probe run, never against the regular unit
        if k.get('property') not in (prop, '*') and prop not in k.get('also', []):
            continue
        if k.get('unit') and k['unit'] != unit:
            continue
        if k.get('function') and k['function'] != fail.get('function'):
            continue
        if k.get('match') and not re.search(k['match'], fail.get('property', '') + ' ' + fail.get('description', '')):
            continue
        return k
    return None


def write_replay(prop, res, fail, native=None):
    d = os.path.join(VERIF, 'replay', prop)
    os.makedirs(d, exist_ok=True)
    fn = re.sub(r'[^A-Za-z0-9_.-]', '_', '%s.%s' % (res['unit'], fail['property']))[:150] + '.json'
    path = os.path.join(d, fn)
    body = dict(property=prop, unit=res['unit'], tier=res['tier'], failed_obligation=fail['property'],
                description=fail['description'], status=fail['status'],
                source=dict(file=fail['file'], function=fail['function'], line=fail['line']),
                checker_cmd=res['cmd'], defs=res['defs'],
                verifier_trace=fail['trace'], native_replay=native,
                how_to_replay='./bin/vcheck --replay %s' % path)
    with open(path, 'w') as f:
        json.dump(body, f, indent=1)
    return path


def main(argv):
    ap = argparse.ArgumentParser()
    ap.add_argument('prop', nargs='?')
    ap.add_argument('--tier', default=os.environ.get('VERIF_TIER', 'quick'), choices=['quick', 'thorough'])
    ap.add_argument('--unit', action='append')
    ap.add_argument('--keep', action='store_true')
    ap.add_argument('--list', action='store_true')
    ap.add_argument('--replay')
    ap.add_argument('-j', type=int, default=int(os.environ.get('VERIF_JOBS', '14')))
    ap.add_argument('-v', action='store_true')
    ap.add_argument('--no-evidence', action='store_true')
    ap.add_argument('--only-files', help='comma-separated /repo/htp file names: run only the units that compile one of them (used for seeded changes; implies --no-evidence)')
    a = ap.parse_args(argv)
    if a.only_files:
        a.no_evidence = True
    seed = int(os.environ.get('VERIF_SEED', '0') or 0)

    if a.replay:
        import vreplay
        return vreplay.replay(a.replay)

    units = load_units()
    if a.list:
        for u in units:
            print('%-46s %-9s %-18s %s' % (u['name'], u['kind'], ','.join(u['props']), u['sub']))
        return 0
    if a.unit:
        sel = [u for u in units if u['name'] in a.unit or any(re.fullmatch(p, u['name']) for p in a.unit)]
        if not sel:
            print('no such unit', a.unit)
            return 2
    else:
        if not a.prop:
            ap.error('property id or --unit required')
        sel = [u for u in units if a.prop in u['props']]
        if a.tier == 'quick':
            sel = [u for u in sel if not u['thorough_only']]
            # a unit that needs more than 5 minutes alone runs in the quick tier of the FIRST property it serves only (htp_connp_RES_HEADERS: C09,
            # htp_parse_uri_unb: C13); the other properties it is tagged with get it in their thorough tier
            try:
                tm0 = json.load(open(os.path.join(VERIF, 'lib', 'timings.json')))
            except OSError:
                tm0 = {}
            sel = [u for u in sel if tm0.get(u['name'], 0) <= 300 or u['props'][0] == a.prop]
            if a.prop == 'C01':
                # the union property re-runs every unit of every other property; its quick tier leaves out the handful that need more than 150 s
                # alone (lib/timings.json: the line-oriented state functions, the unbounded URI splitter, the deep reference units) - they run in the
                # quick tier of the property they were written for and in C01's thorough tier
                try:
                    tm1 = json.load(open(os.path.join(VERIF, 'lib', 'timings.json')))
                except OSError:
                    tm1 = {}
                sel = [u for u in sel if tm1.get(u['name'], 0) <= 150 or u['props'][0] == 'C01' or u['name'] in ('htp_connp_req_data', 'htp_connp_res_data')]
            if a.prop == 'C19':
                # the frame property re-runs contract units that other properties already run; its quick tier keeps the ones that finish
                # within a minute on the reference box (lib/timings.json, measured), the thorough tier runs all of them
                try:
                    tm = json.load(open(os.path.join(VERIF, 'lib', 'timings.json')))
                except OSError:
                    tm = {}
                sel = [u for u in sel if tm.get(u['name'], 0) <= 60 or u['props'][0] == 'C19' or u['name'] in ('htp_connp_req_data', 'htp_connp_res_data')]
    # longest first, so that the slow units do not end up alone at the tail of the run
    try:
        _tm = json.load(open(os.path.join(VERIF, 'lib', 'timings.json')))
    except OSError:
        _tm = {}
    sel.sort(key=lambda u: -_tm.get(u['name'], 30))
    if a.only_files:
        touched = set(a.only_files.split(','))

        def _touches(u):
            # conservative: sources may also arrive through a unit's `pre` text (mechanically normalised copies) - then the name shows up in the unit's text
            return bool(touched & set(list(u.get('src') or []) + list(u.get('link') or []))) or not u.get('src') or any(t in repr(u) for t in touched)
        sel = [u for u in sel if _touches(u)]
    prop = a.prop or (sel[0]['props'][0] if sel else '?')
    t0 = time.time()
    # known findings that are carved out of a unit by a macro are re-confirmed on every run: the same unit is run once more
    # with the carve-out disabled (probe); a failed obligation matching the finding prints KNOWN-FINDING, anything else in the
    # probe run is ignored (the carved unit itself still checks everything outside the recorded input class).
    known = load_known()
    probes = []
    if a.prop:
        import copy
        byname = {u['name']: u for u in units}
        for k in known.get('findings', []):
            if k.get('property') != a.prop or not (k.get('probe_defs') or k.get('probe_undef')) or k.get('unit') not in byname:
                continue
            pu = copy.deepcopy(byname[k['unit']])
            pu['name'] = '%s#probe:%s' % (k['unit'], k['id'])
            for tier in ('quick', 'thorough'):
                pu['defs'].setdefault(tier, {})
            pu['defs']['quick'].update(k.get('probe_defs') or {})
            for tier in ('quick', 'thorough'):
                for nm in k.get('probe_undef', []):
                    pu['defs'][tier].pop(nm, None)
            pu['probe_of'] = k
            pu['min_obl'] = 1
            probes.append(pu)
        if a.only_files:
            probes = [u for u in probes if _touches(u)]
        sel = sel + probes
    results = []
    # memory-aware admission: the heavy units (drivers, the RES_LINE cases, REQ_HEADERS, the unbounded URI splitter) need 8-13 GB each; started
    # together they exceed the box.  A unit is admitted only while the sum of the estimates of the running units stays under the budget.
    import threading
    budget = float(os.environ.get('VERIF_MEM_GB', '40'))
    cond, used = threading.Condition(), [0.0]

    def _run_admitted(u):
        w = min(float(MEM_GB.get(u['name'].split('#')[0], 13 if u.get('objbits') == 12 else 1.5)), budget)
        with cond:
            while used[0] + w > budget and used[0] > 0:
                cond.wait()
            used[0] += w
        try:
            return vrun.run_unit(u, a.tier, a.keep, a.v)
        finally:
            with cond:
                used[0] -= w
                cond.notify_all()
    with cf.ThreadPoolExecutor(max_workers=a.j) as ex:
        futs = {ex.submit(_run_admitted, u): u for u in sel}
        for f in cf.as_completed(futs):
            r = f.result()
            results.append(r)
            tag = {'ok': 'ok  ', 'fail': 'FAIL', 'undecided': 'UNDECIDED'}[r['status']]
            print('[%s] %-46s %-8s obl=%d/%d solver=%.1fs %s' % (
                tag, r['unit'], r['kind'], r['discharged'], r['obligations'], r['solver_s'], r['reason']), flush=True)
            if r['status'] == 'fail' and (a.v or a.unit):
                for fl in r['failed'][:12]:
                    print('       FAILED %s @%s:%s: %s' % (fl['property'], fl['function'], fl['line'], fl['description']))
            if a.keep and 'work' in r:
                print('       work dir:', r['work'])
    results.sort(key=lambda r: r['unit'])
    violations = []
    known_hit = []
    # findings that no obligation can express (something is ABSENT from the code) are re-confirmed by a syntactic probe
    if a.prop:
        import glob as _glob
        for k in known.get('findings', []):
            sp = k.get('static_probe')
            if k.get('property') != a.prop or not sp:
                continue
            txt = ''.join(open(f, errors='replace').read() for f in sorted(_glob.glob(os.path.join(vrun.REPO, sp['files']))))
            if not re.search(sp['absent_regex'], txt):
                known_hit.append((k, dict(unit='static_probe'), dict(property='static_probe', description='')))
            else:
                print('NOTE: known finding %s no longer reproduces (syntactic probe): remove it from known_findings.json' % k['id'])
    probe_results = [r for r in results if '#probe:' in r['unit']]
    results = [r for r in results if '#probe:' not in r['unit']]
    for r in probe_results:
        k = [u for u in probes if u['name'] == r['unit']][0]['probe_of']
        hit = [fl for fl in r['failed'] if re.search(k.get('match', '.'), fl.get('property', '') + ' ' + fl.get('description', ''))]
        if hit:
            known_hit.append((k, r, hit[0]))
        elif r['status'] == 'undecided':
            print('NOTE: probe for known finding %s undecided (%s); finding not re-confirmed in this run' % (k['id'], r['reason']))
        else:
            print('NOTE: known finding %s no longer reproduces (probe unit passed): remove it from known_findings.json' % k['id'])
    undecided = [r for r in results if r['status'] == 'undecided']
    sel = [u for u in sel if '#probe:' not in u['name']]
    import vreplay
    for r in results:
        if r['status'] != 'fail':
            continue
        u = [x for x in sel if x['name'] == r['unit']][0]
        for fl in r['failed']:
            k = match_known(known, prop, r['unit'], fl)
            if k:
                known_hit.append((k, r, fl))
                continue
        news = [fl for fl in r['failed'] if not match_known(known, prop, r['unit'], fl)]
        if news:
            # one replay file per unit: first failed obligation is the headline, all are listed
            native = vreplay.concretise(u, r, news, a.tier)
            path = write_replay(prop, r, news[0], native)
            if len(news) > 1:
                body = json.load(open(path))
                body['other_failed_obligations'] = [dict(property=x['property'], description=x['description'],
                                                         function=x['function'], line=x['line']) for x in news[1:]]
                json.dump(body, open(path, 'w'), indent=1)
            violations.append((r, news, path, native))
    seen = set()
    for k, r, fl in known_hit:
        if k['id'] in seen:
            continue
        seen.add(k['id'])
        print('KNOWN-FINDING: property=%s %s' % (prop, k['what']))
    for r, news, path, native in violations:
        suffix = '' if (native and native.get('confirmed')) else ' no-failing-input-found'
        print('VIOLATION property=%s replay=%s unit=%s obligation=%s%s' % (prop, path, r['unit'], news[0]['property'], suffix))
        # keep the VIOLATION line format exact for the harness as well:
        print('VIOLATION property=%s replay=%s%s' % (prop, path, suffix))
    frame_note = None
    if a.prop == 'C19':
        n_assigns, bad = frame_scan()
        frame_note = dict(assigns_clauses_scanned=n_assigns, clauses_naming_shared_configuration=bad)
        print('C19 frame scan: %d assigns clauses in contracts/*.h, %d name the shared configuration / a static table' % (n_assigns, len(bad)))
        for b in bad:
            print('VIOLATION property=C19 replay=%s frame-scan: %s no-failing-input-found' % (os.path.join(VERIF, 'contracts'), b))
        if bad:
            violations.append((dict(unit='frame_scan'), [dict(property='frame_scan')], '', None))
        nfiles, found, sbad, serrs = statics_scan()
        frame_note.update(static_storage_scan=dict(files_compiled=nfiles, writable_static_objects=['%s.c:%s' % (o, s_) for o, s_, _ in found], not_allowed=sbad, compile_errors=serrs,
                                                   method='gcc -c -O0 -fno-common of every htp/*.c and htp/lzma/*.c of the current tree, nm: symbols in .data/.bss/common; allow-list = the two initialised tables of the pinned tree, plus a regex scan for stores into them'))
        print('C19 static storage scan: %d files compiled, %d writable static objects, %d not allowed' % (nfiles, len(found), len(sbad)))
        for i, b in enumerate(sbad):
            rp = os.path.join(VERIF, 'replay', 'C19'); os.makedirs(rp, exist_ok=True)
            rf = os.path.join(rp, 'static_storage.%d.json' % i)
            with open(rf, 'w') as f:
                json.dump(dict(property='C19', unit='static_storage_scan', failed_obligation='no writable static storage outside the allow-list', description=b,
                               verifier_output=b, how_to_replay='./bin/vcheck C19  (static storage scan: gcc -c + nm on the current tree)'), f, indent=1)
            print('VIOLATION property=C19 replay=%s static-storage: %s no-failing-input-found' % (rf, b))
            print('VIOLATION property=C19 replay=%s no-failing-input-found' % rf)
        if sbad:
            violations.append((dict(unit='static_storage_scan'), [dict(property='static_storage_scan')], '', None))
        for e in serrs:
            undecided.append(dict(unit='static_storage_scan', reason='cannot compile ' + e))
        cfiles, cbad, cerrs = cfg_const_scan()
        frame_note.update(cfg_const_scan=dict(files_type_checked=cfiles, stores_through_the_configuration=cbad, other_errors=cerrs,
                                              method='copy of the current tree with `typedef const struct htp_cfg_t htp_cfg_t;`, gcc -fsyntax-only of every htp/*.c except htp_config.c: a store through a configuration lvalue is a type error'))
        print('C19 configuration const scan: %d files type-checked with a read-only htp_cfg_t, %d stores through the configuration' % (cfiles, len(cbad)))
        for i, b in enumerate(cbad):
            rp = os.path.join(VERIF, 'replay', 'C19'); os.makedirs(rp, exist_ok=True)
            rf = os.path.join(rp, 'cfg_const.%d.json' % i)
            with open(rf, 'w') as f:
                json.dump(dict(property='C19', unit='cfg_const_scan', failed_obligation='no store through an htp_cfg_t lvalue outside htp_config.c', description=b,
                               verifier_output=b, how_to_replay='./bin/vcheck C19  (configuration const scan: gcc -fsyntax-only with a read-only htp_cfg_t)'), f, indent=1)
            print('VIOLATION property=C19 replay=%s cfg-const: %s no-failing-input-found' % (rf, b))
            print('VIOLATION property=C19 replay=%s no-failing-input-found' % rf)
        if cbad:
            violations.append((dict(unit='cfg_const_scan'), [dict(property='cfg_const_scan')], '', None))
        for e in cerrs:
            undecided.append(dict(unit='cfg_const_scan', reason=e))
    for r in undecided:
        print('UNDECIDED property=%s unit=%s: %s' % (prop, r['unit'], r['reason']))
    if not a.no_evidence and a.prop:
        write_evidence(prop, a.tier, seed, sel, results, violations, known_hit, time.time() - t0, frame_note)
    proved = [r for r in results if r['kind'] != 'bounded']
    print('%s %s: %d units (%d proof, %d bounded), %d/%d obligations discharged, %d violations, %d known, %d undecided, %.1fs' % (
        prop, a.tier, len(results), len(proved), len(results) - len(proved),
        sum(r['discharged'] for r in results), sum(r['obligations'] for r in results),
        len(violations), len(seen), len(undecided), time.time() - t0))
    if violations:
        return 1
    if undecided:
        return 2
    return 0


def _level(prop, proved):
    """evidence level = the category claimed in MANIFEST.json (lib/claims.py), never higher than what ran: without a single proof obligation it is model_checking"""
    try:
        import claims
        cat = claims.CLAIMS.get(prop, {}).get('category') or 'proof'
    except Exception:
        cat = 'proof'
    return cat if sum(r['obligations'] for r in proved) > 0 else 'model_checking'


def write_evidence(prop, tier, seed, units, results, violations, known_hit, wall, extra=None):
    proved = [r for r in results if r['kind'] != 'bounded']
    bounded = [r for r in results if r['kind'] == 'bounded']
    enforced = sorted(set(r['enforce'] for r in results if r['enforce']))
    enforced_any = set(enforced)
    # a replaced contract is "assumed" unless some unit (of any property) enforces it
    all_units = load_units()
    enforced_global = set(u['enforce'] for u in all_units if u['enforce'])
    replaced = sorted(set(x for r in results for x in r['replaced']))
    assumed = [x for x in replaced if x not in enforced_global]
    assumptions = []
    for u in units:
        for s in u['assumes']:
            if s not in assumptions:
                assumptions.append(s)
    samples = []
    for r in results:
        for s in r['samples'][:1]:
            samples.append('%s :: %s' % (r['unit'], s))
    cmd = next((r['cmd'] for r in results if r['cmd']), 'cbmc')
    known_n = sum(1 for _ in known_hit)
    ev = dict(
        property_id=prop, tier=tier, seed=seed, level=_level(prop, proved),
        coverage=dict(
            obligations=sum(r['obligations'] for r in proved),
            discharged=sum(r['discharged'] for r in proved),
            # generic counts (also the only ones that apply when a property has bounded units only): one case = one unit =
            # one complete symbolic exploration of that unit's stated input domain by CBMC
            evaluations=sum(r['obligations'] for r in results),
            distinct_nontrivial=sum(1 for r in results if r['status'] == 'ok' and r['obligations'] >= 1),
            rule='a case is a proof unit (one CBMC run over the whole stated input domain of that unit: all argument values, all parser states admitted by its precondition, all allocation-failure patterns); it counts when all its obligations are discharged and it generated at least one; evaluations = obligations checked in all units of this run',
            checker_cmd=cmd,
            trusted_base=TRUSTED_BASE,
            samples=samples[:40],
            functions_under_contract=enforced,
            units=[dict(unit=r['unit'], kind=r['kind'], status=r['status'], sub_claim=r['sub'], enforce=r['enforce'],
                        replaced=r['replaced'], params=r['defs'], obligations=r['obligations'],
                        discharged=r['discharged'], loop_contracts=r['loops_declared'],
                        loop_obligations=r.get('loop_obligations', 0), back_end='cbmc/MiniSat',
                        solver_s=r['solver_s'], reason=r['reason']) for r in proved],
            bounded_units=[dict(unit=r['unit'], bound=r['bound'], status=r['status'], sub_claim=r['sub'], params=r['defs'],
                                obligations=r['obligations'], discharged=r['discharged'], solver_s=r['solver_s'],
                                reason=r['reason']) for r in bounded],
            assumed_contracts=assumed,
            replaced_and_enforced_elsewhere=[x for x in replaced if x in enforced_global],
            known_findings_hit=sorted(set(k['id'] for k, _, _ in known_hit)),
            known_finding_obligations=known_n,
            undecided_units=[r['unit'] for r in results if r['status'] == 'undecided'],
            solver_seconds_total=round(sum(r['solver_s'] for r in results), 1),
            explanation='obligations/discharged count only units of kind contract/lemma (every loop closed by a loop contract, or loop-free over the full input domain); bounded_units are reported separately and are not proofs',
        ),
        assumptions=assumptions + ['assumed (replaced, never enforced) contracts: ' + (', '.join(assumed) or 'none')],
        wall_s=round(wall, 1),
        violations=len(violations),
    )
    if extra:
        ev['coverage']['frame_scan'] = extra
    os.makedirs(os.path.join(VERIF, 'evidence'), exist_ok=True)
    with open(os.path.join(VERIF, 'evidence', prop + '.json'), 'w') as f:
        json.dump(ev, f, indent=1)
