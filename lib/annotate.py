"""Mechanical loop-contract annotator for C sources.

Takes the text of a real /repo source file and a table
    { function_name : { loop_ordinal : clauses_text } }
and returns the same text with `clauses_text` inserted *after the closing parenthesis of
the loop header* of the ordinal-th loop (in source order, counting `for`, `while`, `do`)
of that function.  For `do { } while (c);` loops the clauses go right after the `do`
keyword, which is where CBMC 6.11 expects them.

Nothing else is changed; in particular no newline is inserted, so line numbers in CBMC's
source locations are those of the real file.  `strip()` removes every
__CPROVER_assigns/loop_invariant/decreases(...) clause again with an independent scanner;
the runner aborts (exit 2) unless strip(annotate(x)) == x.

The scanner understands comments, string/char literals and preprocessor lines; it does not
expand macros (no libhtp loop is produced by a macro).
"""
import re


class AnnotateError(Exception):
    pass


_ident = re.compile(r'[A-Za-z_][A-Za-z0-9_]*')


def _tokens(src):
    """Yield (kind, text, start, end) for identifiers and single punctuation characters,
    skipping whitespace, comments, literals and preprocessor lines."""
    i, n = 0, len(src)
    bol = True
    while i < n:
        c = src[i]
        if c == '\n':
            bol = True
            i += 1
            continue
        if c in ' \t\r\f\v':
            i += 1
            continue
        if c == '/' and i + 1 < n and src[i + 1] == '*':
            j = src.find('*/', i + 2)
            if j < 0:
                raise AnnotateError('unterminated comment')
            i = j + 2
            continue
        if c == '/' and i + 1 < n and src[i + 1] == '/':
            j = src.find('\n', i)
            i = n if j < 0 else j
            continue
        if c == '#' and bol:
            # preprocessor line, honour backslash continuation
            while i < n:
                j = src.find('\n', i)
                if j < 0:
                    i = n
                    break
                if src[j - 1] == '\\':
                    i = j + 1
                    continue
                i = j
                break
            continue
        bol = False
        if c == '"' or c == "'":
            j = i + 1
            while j < n and src[j] != c:
                if src[j] == '\\':
                    j += 1
                j += 1
            i = j + 1
            continue
        m = _ident.match(src, i)
        if m:
            yield ('id', m.group(0), i, m.end())
            i = m.end()
            continue
        yield ('p', c, i, i + 1)
        i += 1


def _match(toks, k, open_c, close_c):
    """toks[k] is open_c; return index of the matching close_c."""
    depth = 0
    for j in range(k, len(toks)):
        t = toks[j][1]
        if toks[j][0] == 'p':
            if t == open_c:
                depth += 1
            elif t == close_c:
                depth -= 1
                if depth == 0:
                    return j
    raise AnnotateError('unbalanced %s' % open_c)


def function_bodies(src):
    """Return {name: (tok_index_open_brace, tok_index_close_brace)}, plus the token list."""
    toks = list(_tokens(src))
    out = {}
    depth = 0
    k = 0
    while k < len(toks):
        kind, t, s, e = toks[k]
        if kind == 'p' and t == '{':
            depth += 1
        elif kind == 'p' and t == '}':
            depth -= 1
        elif depth == 0 and kind == 'id' and k + 1 < len(toks) and toks[k + 1][1] == '(':
            try:
                close = _match(toks, k + 1, '(', ')')
            except AnnotateError:
                k += 1
                continue
            if close + 1 < len(toks) and toks[close + 1][1] == '{':
                ob = close + 1
                cb = _match(toks, ob, '{', '}')
                out[t] = (ob, cb)
                k = cb + 1
                continue
        k += 1
    return out, toks


def loops_of(src, fname):
    """Return list of insertion offsets (into src), one per loop of `fname` in source order."""
    bodies, toks = function_bodies(src)
    if fname not in bodies:
        raise AnnotateError('function %s not found' % fname)
    ob, cb = bodies[fname]
    loops = []          # (order_key, insertion_offset)
    tails = set()       # token indexes of `while` that close a do-loop
    k = ob
    while k <= cb:
        kind, t, s, e = toks[k]
        if kind == 'id' and t in ('for', 'while') and k not in tails:
            if toks[k + 1][1] != '(':
                raise AnnotateError('%s: loop keyword without (' % fname)
            close = _match(toks, k + 1, '(', ')')
            loops.append((s, toks[close][3]))
        elif kind == 'id' and t == 'do':
            if toks[k + 1][1] != '{':
                raise AnnotateError('%s: do without braces' % fname)
            body_end = _match(toks, k + 1, '{', '}')
            w = body_end + 1
            if toks[w][1] != 'while' or toks[w + 1][1] != '(':
                raise AnnotateError('%s: do without trailing while' % fname)
            _match(toks, w + 1, '(', ')')
            tails.add(w)
            # CBMC 6.11 wants do-while clauses right after the `do` keyword
            loops.append((s, e))
        k += 1
    loops.sort()
    return [ins for _, ins in loops]


def clause_text(spec):
    """spec: dict(assigns=str|None, inv=[str], dec=str|None) -> text to insert."""
    parts = []
    if spec.get('assigns') is not None:
        parts.append('__CPROVER_assigns(%s)' % spec['assigns'])
    for inv in spec.get('inv', []):
        parts.append('__CPROVER_loop_invariant(%s)' % inv)
    if spec.get('dec') is not None:
        parts.append('__CPROVER_decreases(%s)' % spec['dec'])
    txt = ' ' + ' '.join(parts) + ' '
    if '\n' in txt:
        txt = ' '.join(txt.split()) .join([' ', ' '])
    return txt


def annotate(src, table):
    """table: {fname: {'count': n_expected_loops (optional), ordinal: spec, ...}}"""
    inserts = []
    for fname, loops in table.items():
        offs = loops_of(src, fname)
        expected = loops.get('count')
        if expected is not None and expected != len(offs):
            raise AnnotateError('%s: expected %d loops, found %d' % (fname, expected, len(offs)))
        for ordinal, spec in loops.items():
            if ordinal == 'count':
                continue
            if ordinal >= len(offs):
                raise AnnotateError('%s: no loop #%d (has %d)' % (fname, ordinal, len(offs)))
            inserts.append((offs[ordinal], clause_text(spec)))
    inserts.sort(reverse=True)
    out = src
    for off, txt in inserts:
        out = out[:off] + txt + out[off:]
    if strip(out) != src:
        raise AnnotateError('strip(annotate(x)) != x')
    return out


_clause = re.compile(r' ?__CPROVER_(assigns|loop_invariant|decreases)\(')


def strip(src):
    """Independent remover of loop-contract clauses (balanced parentheses)."""
    out = []
    i = 0
    while True:
        m = _clause.search(src, i)
        if not m:
            out.append(src[i:])
            break
        out.append(src[i:m.start()])
        j = m.end()
        depth = 1
        while depth:
            ch = src[j]
            if ch == '(':
                depth += 1
            elif ch == ')':
                depth -= 1
            elif ch == '"' or ch == "'":
                q = ch
                j += 1
                while src[j] != q:
                    if src[j] == '\\':
                        j += 1
                    j += 1
            j += 1
        # clause_text pads one blank on each side of the whole group; remove a trailing
        # blank only when it was the last clause of a group
        if src[j:j + 1] == ' ' and not _clause.match(src, j):
            j += 1
        i = j
    return ''.join(out)


if __name__ == '__main__':
    import sys
    s = open(sys.argv[1]).read()
    b, _ = function_bodies(s)
    for f in b:
        print(f, len(loops_of(s, f)))
