"""Native replay of verifier counterexamples against the real code.

Units whose harness takes its whole input as `VIN(struct_typedef)` (one nondet struct called
`in`) are replayable: the counterexample is the C initialiser of that struct, taken from the
verifier's trace.  The *same* wrapper TU is recompiled from /repo's current tree with gcc
-fsanitize=address,undefined and contracts/vnative.h, which turns __CPROVER_assert into a run-time
check and makes every contract clause vanish.  A native failure (assert or sanitizer report)
confirms the violation on the real code.
"""
import json
import os
import re
import shutil
import subprocess
import tempfile

import vrun


def c_init(v):
    """CBMC json value -> C initialiser text."""
    n = v.get('name')
    if n == 'struct':
        parts = []
        for m in v.get('members', []):
            if m['name'].startswith('$pad'):
                continue
            parts.append('.%s = %s' % (m['name'], c_init(m['value'])))
        return '{ ' + ', '.join(parts) + ' }'
    if n == 'array':
        els = sorted(v.get('elements', []), key=lambda e: e['index'])
        return '{ ' + ', '.join(c_init(e['value']) for e in els) + ' }'
    if n == 'union':
        return '{ .%s = %s }' % (v['member']['name'], c_init(v['member']['value'])) if 'member' in v else '{0}'
    if n == 'integer' or n == 'boolean':
        b = v.get('binary')
        if b is None:
            return '1' if v.get('data') in ('TRUE', 'true', '1') else '0'
        x = int(b, 2)
        t = v.get('type', '')
        if ('signed' in t and 'unsigned' not in t) or t in ('char', 'int', 'long', 'short') or t.startswith('int'):
            w = v.get('width', len(b))
            if x >= 1 << (w - 1):
                x -= 1 << w
            if x == -(1 << 63):
                return '(-9223372036854775807L-1)'
            return '%dL' % x if w > 32 else '%d' % x
        return '%dUL' % x if v.get('width', 0) > 32 else '%dU' % x
    if n == 'pointer':
        return '0'
    if n == 'float':
        return v.get('data', '0')
    return '0'


def _val(v):
    """scalar CBMC json value -> C literal (None if not scalar)"""
    if v.get('name') in ('integer', 'boolean', 'pointer', 'float'):
        return c_init(v)
    return None


def vin_from_trace(full_trace, entry):
    """C statements that rebuild the harness input struct `in` from the trace.

    CBMC 6.11 reports the nondet struct field-wise (in.a[0l], in.la, in.cf.x ...), in function hbody;
    a whole-struct step, when present and not hidden, is used first and the field-wise steps override it."""
    stmts = {}
    order = []
    whole = None
    for st in full_trace:
        if st.get('stepType') != 'assignment':
            continue
        lhs = st.get('lhs', '')
        fn = st.get('sourceLocation', {}).get('function', '')
        if fn not in (entry, 'hbody'):
            continue
        v = st.get('value', {})
        if lhs == 'in' and v.get('name') == 'struct' and not st.get('hidden'):
            whole = c_init(v)
            continue
        if lhs.startswith('in.') or lhs.startswith('in['):
            lit = _val(v)
            if lit is None:
                continue
            c_lhs = re.sub(r'\[(\d+)[a-zA-Z]*\]', r'[\1]', lhs)
            if '$' in c_lhs:
                continue
            if c_lhs not in stmts:
                order.append(c_lhs)
            stmts[c_lhs] = lit
    if not stmts and whole is None:
        return None
    out = []
    if whole is not None:
        out.append('in = (__typeof__(in)) %s;' % whole)
    out += ['%s = %s;' % (k, stmts[k]) for k in order]
    return ' '.join(out)


def malloc_pattern(full_trace):
    """sequence of allocation outcomes (1 = fails) in call order, from CBMC's malloc/calloc/realloc models"""
    pat = []
    for st in full_trace:
        if st.get('stepType') == 'assignment' and 'should_malloc_fail' in st.get('lhs', ''):
            d = st.get('value', {}).get('data', '')
            pat.append(1 if d in ('TRUE', 'true', '1') else 0)
    return pat


def native_run(unit, tier, vin_init, mpat=None, keepdir=None):
    work = tempfile.mkdtemp(prefix='vn.', dir='/var/tmp')
    try:
        tu, defs = vrun.build_tu(unit, tier, work)
        entry = 'h_' + re.sub(r'[^A-Za-z0-9_]', '_', unit['name'])
        exe = os.path.join(work, 'replay')
        init_h = os.path.join(work, 'vin_init.h')
        with open(init_h, 'w') as f:
            f.write('#define VIN_ASSIGN %s\n' % vin_init)
            f.write('#define VMALLOC_PATTERN { %s }\n' % ', '.join(str(x) for x in (mpat or [])) if mpat else '')
        import glob
        base = ['gcc', '-g', '-O0', '-fsanitize=address,undefined', '-fno-sanitize-recover=undefined', '-D_GNU_SOURCE', '-std=gnu99', '-w',
                '-I' + vrun.REPO, '-I' + vrun.REPO + '/htp', '-I' + vrun.REPO + '/htp/lzma', '-I' + vrun.VERIF + '/contracts', '-I' + vrun.VERIF + '/spec']
        # the rest of the library, from the current tree, so that every symbol resolves (sources that the TU #includes are left out)
        others = [f for f in sorted(glob.glob(os.path.join(vrun.REPO, 'htp', '*.c')) + glob.glob(os.path.join(vrun.REPO, 'htp', 'lzma', '*.c')))
                  if os.path.basename(f) not in unit['src']]
        cmd = base + ['-DHARNESS=hbody', '-DVENTRY=' + entry, '-include', init_h, '-include', os.path.join(vrun.VERIF, 'contracts', 'vnative.h'),
                      '-c', tu, '-o', os.path.join(work, 'tu.o')]
        p = subprocess.run(cmd, cwd=work, stdout=subprocess.PIPE, stderr=subprocess.STDOUT, timeout=300)
        if p.returncode != 0:
            return dict(confirmed=False, built=False, output=p.stdout.decode('utf-8', 'replace')[-3000:])
        cmd = base + [os.path.join(work, 'tu.o')] + others + ['-o', exe, '-lz']
        p = subprocess.run(cmd, cwd=work, stdout=subprocess.PIPE, stderr=subprocess.STDOUT, timeout=300)
        if p.returncode != 0:
            return dict(confirmed=False, built=False, output=p.stdout.decode('utf-8', 'replace')[-3000:])
        env = dict(os.environ, ASAN_OPTIONS='detect_leaks=1:abort_on_error=0', UBSAN_OPTIONS='print_stacktrace=1')
        try:
            r = subprocess.run([exe], cwd=work, stdout=subprocess.PIPE, stderr=subprocess.STDOUT, timeout=60, env=env)
            out = r.stdout.decode('utf-8', 'replace')
            rc = r.returncode
        except subprocess.TimeoutExpired:
            out, rc = 'native replay timed out', -1
        confirmed = rc not in (0, 3)
        return dict(confirmed=confirmed, built=True, exit_code=rc, output=out[-4000:], vin_init=vin_init,
                    cmd=' '.join(cmd).replace(work, '<scratch>'))
    finally:
        shutil.rmtree(work, ignore_errors=True)


def concretise(unit, res, fails, tier):
    if unit.get('replay') != 'vin':
        return None
    for fl in fails:
        init = fl.get('vin_init')
        if init:
            nat = native_run(unit, tier, init, fl.get('malloc_pattern'))
            nat['from_obligation'] = fl['property']
            if nat.get('confirmed'):
                return nat
            last = nat
    return locals().get('last')


def replay(path):
    body = json.load(open(path))
    print('property=%s unit=%s failed obligation: %s (%s)' % (body['property'], body['unit'],
                                                             body['failed_obligation'], body['description']))
    import vmain
    units = {u['name']: u for u in vmain.load_units()}
    u = units.get(body['unit'])
    nat = body.get('native_replay')
    if u is not None and nat and nat.get('vin_init'):
        r = native_run(u, body.get('tier', 'quick'), nat['vin_init'])
        print(r.get('output', ''))
        if r.get('confirmed'):
            print('REPLAY: violation reproduced natively on the real code')
            return 1
        print('REPLAY: not reproduced (exit code %s)' % r.get('exit_code'))
        return 0
    if u is None:
        print('unit no longer exists')
        return 2
    # no concrete input: re-run the unit; the obligation either still fails or not
    r = vrun.run_unit(u, body.get('tier', 'quick'))
    bad = [f for f in r['failed'] if f['property'] == body['failed_obligation']]
    print('re-ran unit %s: status %s, %d failed obligations%s' % (u['name'], r['status'], len(r['failed']),
                                                                 ' (same obligation fails)' if bad else ''))
    for f in r['failed'][:10]:
        print('  FAILED %s: %s' % (f['property'], f['description']))
    if r['status'] == 'fail':
        return 1
    return 0 if r['status'] == 'ok' else 2
