/* Independent executable references for the bstr primitives (written from the abstract meaning in
 * the property statement and bstr.h's doc comments, not from bstr.c). Used by bounded units only. */
#ifndef STR_REF_H
#define STR_REF_H
#include <stddef.h>
#include <stdint.h>

static int ref_low(int c) { return (c >= 'A' && c <= 'Z') ? c + 32 : c; }
static int ref_sign(int x) { return x < 0 ? -1 : (x > 0 ? 1 : 0); }

/* lexicographic order on unsigned bytes, shorter string first on a common prefix */
static int ref_cmp(const unsigned char *a, size_t la, const unsigned char *b, size_t lb, int nocase) {
    size_t n = la < lb ? la : lb;
    for (size_t i = 0; i < n; i++) {
        int x = nocase ? ref_low(a[i]) : a[i], y = nocase ? ref_low(b[i]) : b[i];
        if (x != y) return x < y ? -1 : 1;
    }
    return la == lb ? 0 : (la < lb ? -1 : 1);
}

/* NUL-skipping variant: compare (a with every NUL removed) against b, case-insensitively */
static int ref_cmp_norzero(const unsigned char *a, size_t la, const unsigned char *b, size_t lb) {
    unsigned char t[64]; size_t n = 0;
    for (size_t i = 0; i < la; i++) if (a[i] != 0) t[n++] = a[i];
    return ref_cmp(t, n, b, lb, 1);
}

/* first index at which needle occurs; -1 if none */
static int ref_index_of(const unsigned char *a, size_t la, const unsigned char *b, size_t lb, int nocase) {
    for (size_t i = 0; i + lb <= la; i++) {
        size_t j = 0;
        while (j < lb && (nocase ? ref_low(a[i + j]) == ref_low(b[j]) : a[i + j] == b[j])) j++;
        if (j == lb) return (int) i;
    }
    return -1;
}

/* NUL-skipping search: first index i with a[i] != 0 such that the NUL-stripped suffix starting at i begins
 * (case-insensitively) with the needle */
static int ref_index_of_norzero(const unsigned char *a, size_t la, const unsigned char *b, size_t lb) {
    for (size_t i = 0; i < la; i++) {
        if (a[i] == 0) continue;
        size_t j = 0;
        for (size_t k = i; k < la && j < lb; k++) {
            if (a[k] == 0) continue;
            if (ref_low(a[k]) != ref_low(b[j])) break;
            j++;
        }
        if (j == lb) return (int) i;
    }
    return -1;
}

static int ref_begins_with(const unsigned char *h, size_t lh, const unsigned char *n, size_t ln, int nocase) {
    if (ln > lh) return 0;
    return ref_cmp(h, ln, n, ln, nocase) == 0;
}

static int ref_chr(const unsigned char *a, size_t la, int c) { for (size_t i = 0; i < la; i++) if (a[i] == c) return (int) i; return -1; }
static int ref_rchr(const unsigned char *a, size_t la, int c) { for (size_t i = la; i > 0; i--) if (a[i - 1] == c) return (int) (i - 1); return -1; }

static int ref_isspace(int c) { return c == ' ' || c == '\t' || c == '\n' || c == '\v' || c == '\f' || c == '\r'; }

/* value of the leading digit run in `base` (10 or 16).
 * returns -1: no leading digit; -2: value exceeds INT64_MAX; else the value. *end = index of first non-digit.
 * "Exceeds INT64_MAX" is decided on the digit STRING (length / lexicographic comparison with the
 * digits of INT64_MAX after removing leading zeros), i.e. without any arithmetic that could itself
 * wrap; the value is then accumulated in uint64, which cannot wrap for a string that fits. */
static int ref_digit(int c, int base) {
    int d;
    if (c >= '0' && c <= '9') d = c - '0';
    else if (c >= 'a' && c <= 'z') d = c - 'a' + 10;
    else if (c >= 'A' && c <= 'Z') d = c - 'A' + 10;
    else return -1;
    return d < base ? d : -1;
}
static int64_t ref_pint(const unsigned char *a, size_t la, int base, size_t *end) {
    static const unsigned char max10[19] = {9,2,2,3,3,7,2,0,3,6,8,5,4,7,7,5,8,0,7};
    static const unsigned char max16[16] = {7,15,15,15,15,15,15,15,15,15,15,15,15,15,15,15};
    const unsigned char *mx = base == 10 ? max10 : max16;
    size_t nmx = base == 10 ? 19 : 16;
    size_t n = 0;
    while (n < la && ref_digit(a[n], base) >= 0) n++;
    *end = n;
    if (n == 0) return -1;
    size_t z = 0;
    while (z < n && ref_digit(a[z], base) == 0) z++;
    size_t sig = n - z;
    if (sig > nmx) return -2;
    if (sig == nmx) {
        for (size_t i = 0; i < nmx; i++) {
            int d = ref_digit(a[z + i], base);
            if (d > mx[i]) return -2;
            if (d < mx[i]) break;
        }
    }
    uint64_t v = 0;
    for (size_t i = z; i < n; i++) v = v * (uint64_t) base + (uint64_t) ref_digit(a[i], base);
    return (int64_t) v;
}
#endif
