/* Independent reference for htp_header_has_token (C11: "regardless of letter case and surrounding white space").
 * Written from the documented semantics, not from the code:
 *   "The header value is a list of comma-separated tokens (with additional spaces)";
 *   "Tells if a header value (haystack) contains a token (needle).  This is done with a caseless comparison";
 *   the needle is a lower-case constant.
 * So: split the value at every ',' ; strip white space (libhtp's htp_is_space set: SP HT LF VT FF CR) from both ends
 * of each element; the value has the token iff some element equals the needle under ASCII case folding.
 * Returns 1 / 0. */
#ifndef TOKEN_REF_H
#define TOKEN_REF_H
#include <stddef.h>
static int ref_tok_isspace(unsigned char c) { return c == 0x20 || (c >= 0x09 && c <= 0x0d); }
static unsigned char ref_tok_fold(unsigned char c) { return (c >= 'A' && c <= 'Z') ? (unsigned char) (c + ('a' - 'A')) : c; }
static int ref_tok_elem_is(const unsigned char *v, size_t a, size_t b, const unsigned char *tok, size_t tl) {
    while (a < b && ref_tok_isspace(v[a])) a++;
    while (b > a && ref_tok_isspace(v[b - 1])) b--;
    if (b - a != tl) return 0;
    for (size_t k = 0; k < tl; k++) if (ref_tok_fold(v[a + k]) != tok[k]) return 0;
    return 1;
}
static int ref_header_has_token(const unsigned char *v, size_t n, const unsigned char *tok) {
    size_t tl = 0;
    while (tok[tl] != 0) tl++;
    size_t start = 0;
    for (size_t i = 0; i <= n; i++) {
        if (i == n || v[i] == ',') {
            if (ref_tok_elem_is(v, start, i, tok, tl)) return 1;
            start = i + 1;
        }
    }
    return 0;
}

/* Independent reference for a Content-Length value (htp_parse_content_length's documentation:
 * "Parses Content-Length string (positive decimal number).  White space is allowed before and after the number."
 * "@return Content-Length as a number, or -1 on error"): LWS* 1*DIGIT LWS*  -> the number, anything else -> negative. */
static long long ref_content_length(const unsigned char *v, size_t n) {
    size_t a = 0, b = n;
    while (a < b && (v[a] == ' ' || v[a] == '\t')) a++;
    while (b > a && (v[b - 1] == ' ' || v[b - 1] == '\t')) b--;
    if (a == b) return -1;
    long long r = 0;
    for (size_t k = a; k < b; k++) {
        if (v[k] < '0' || v[k] > '9') return -1;
        r = r * 10 + (v[k] - '0');
    }
    return r;
}
#endif
