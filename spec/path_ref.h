/* Independent executable reference of the documented path pipeline (property C12).
 *
 * Sources: htp_config.h setter comments (decoder switches), htp_core.h flag comments, RFC 3986
 * section 5.2.4 (dot-segment removal), RFC 3629 / Unicode table 3-7 (UTF-8 well-formedness, relaxed
 * to admit overlong forms because the documentation says "overlong characters will be decoded"),
 * and the behaviour pinned by the project's tests (test_utils.cpp: DecodingTest.*, Util.NormalizeUriPath).
 * It is NOT a copy of htp_util.c: it works out of place (separate output buffer), classifies every
 * escape first and applies the switches afterwards, decodes UTF-8 by byte-range tables instead of
 * a DFA, and implements 5.2.4 literally on an input buffer / output buffer pair.
 *
 * Every place where the documentation is silent and the reference had to pick a behaviour is
 * marked CHOICE(n) and listed in /verif/notes/c12.md.  Every place where the documentation (or
 * the property statement) says one thing and the code on the unchanged tree does another is
 * guarded by a KNOWN_F_C12_* macro: when the macro is defined the reference mirrors the code (so the
 * unit passes and exactly that case is carved out); when it is undefined the reference follows the
 * documentation and the unit fails with a natively replayable input.
 *
 * Used by bounded units only (kind='bounded'); nothing here is trusted by a proof unit.
 */
#ifndef PATH_REF_H
#define PATH_REF_H
#include <stddef.h>
#include <stdint.h>

/* anomaly indicators; numerically equal to the HTP_PATH_* / HTP_URLEN_* bits (checked by the harness) */
#define RF_PATH_ENCODED_NUL        0x000004000ULL
#define RF_PATH_RAW_NUL            0x000008000ULL
#define RF_PATH_INVALID_ENCODING   0x000010000ULL
#define RF_PATH_OVERLONG_U         0x000040000ULL
#define RF_PATH_ENCODED_SEPARATOR  0x000080000ULL
#define RF_PATH_UTF8_VALID         0x000100000ULL
#define RF_PATH_UTF8_INVALID       0x000200000ULL
#define RF_PATH_UTF8_OVERLONG      0x000400000ULL
#define RF_PATH_HALF_FULL_RANGE    0x000800000ULL
#define RF_URLEN_ENCODED_NUL       0x008000000ULL
#define RF_URLEN_INVALID_ENCODING  0x010000000ULL
#define RF_URLEN_OVERLONG_U        0x020000000ULL
#define RF_URLEN_HALF_FULL_RANGE   0x040000000ULL
#define RF_URLEN_RAW_NUL           0x080000000ULL

/* invalid-encoding handling (htp_url_encoding_handling_t) and reactions (htp_unwanted_t) */
#define RF_PRESERVE_PERCENT 0
#define RF_REMOVE_PERCENT   1
#define RF_PROCESS_INVALID  2
#define RF_IGNORE           0

/* scalar mirror of htp_decoder_cfg_t (so that the whole decoder configuration is one nondet input) */
typedef struct {
    int backslash_convert_slashes, convert_lowercase, path_separators_compress, path_separators_decode;
    int plusspace_decode, path_separators_encoded_unwanted;
    int nul_raw_terminates, nul_raw_unwanted, control_chars_unwanted;
    int u_encoding_decode, u_encoding_unwanted, url_encoding_invalid_handling, url_encoding_invalid_unwanted;
    int nul_encoded_terminates, nul_encoded_unwanted;
    int utf8_invalid_unwanted, utf8_convert_bestfit;
    unsigned char bestfit_replacement_byte;
} ref_cfg_t;

/* result side channel: indicator set and the status the server is expected to answer with
 * ("last anomaly wins", see CHOICE(7)) */
typedef struct { uint64_t flags; int status; } ref_fx_t;

static void rf_react(ref_fx_t *fx, int unwanted) { if (unwanted != RF_IGNORE) fx->status = unwanted; }

static int rf_ishex(unsigned char c) { return (c >= '0' && c <= '9') || (c >= 'a' && c <= 'f') || (c >= 'A' && c <= 'F'); }
static unsigned char rf_lower(unsigned char c) { return (c >= 'A' && c <= 'Z') ? (unsigned char) (c + 32) : c; }

/* Value of one "hex digit" byte, modulo 256.  For real hex digits this is the digit value.  For any
 * other byte the documentation only says invalid encodings are "decoded" (PROCESS_INVALID); the
 * project's tests pin "%}9" -> 'i' and "%u00}9" -> 'i', i.e. the classic Apache formula
 * (letters: (c & 0xDF) - 'A' + 10, everything below 'A': c - '0'), evaluated modulo 256.  CHOICE(1). */
static unsigned rf_nibble(unsigned char c) {
    if (c >= '0' && c <= '9') return (unsigned) (c - '0');
    if (c >= 'a' && c <= 'f') return (unsigned) (c - 'a') + 10u;
    if (c >= 'A' && c <= 'F') return (unsigned) (c - 'A') + 10u;
    if (c >= 'A') return ((unsigned) (c & 0xDF) + 256u - 'A' + 10u) & 0xFFu;
    return ((unsigned) c + 256u - '0') & 0xFFu;
}
static unsigned char rf_hexbyte(const unsigned char *p) { return (unsigned char) ((rf_nibble(p[0]) * 16u + rf_nibble(p[1])) & 0xFFu); }

/* best-fit map: list of (hi, lo, byte) triples terminated by hi == lo == 0 (htp_config_set_bestfit_map);
 * the first matching triple decides, no match yields the replacement byte */
static unsigned char rf_bestfit(const unsigned char *map, unsigned char hi, unsigned char lo, unsigned char repl) {
    size_t i = 0;
    while (!(map[i] == 0 && map[i + 1] == 0)) {
        if (map[i] == hi && map[i + 1] == lo) return map[i + 2];
        i += 3;
    }
    return repl;
}

/* ---------------------------------------------------------------------------------------------
 * 1. Path decoder (percent and %u decoding, NUL handling, separators, lower-casing).
 * ------------------------------------------------------------------------------------------- */

/* %uHHHH in the path context: the four bytes at p (already known to be present) */
static unsigned char rf_u_path(const ref_cfg_t *cf, const unsigned char *map, const unsigned char *p, ref_fx_t *fx) {
    unsigned char hi = rf_hexbyte(p), lo = rf_hexbyte(p + 2), r;
    if (hi == 0) {
        /* a %u escape that only carries one byte is the overlong form */
        fx->flags |= RF_PATH_OVERLONG_U;
        r = lo;
    } else {
        /* htp_core.h: "Range U+FF00 - U+FFEF detected." */
#ifdef KNOWN_F_C12_HALFFULL_FFF0
        if (hi == 0xFF) fx->flags |= RF_PATH_HALF_FULL_RANGE;            /* code also flags U+FFF0..U+FFFF */
#else
        if (hi == 0xFF && lo <= 0xEF) fx->flags |= RF_PATH_HALF_FULL_RANGE;
#endif
        rf_react(fx, cf->u_encoding_unwanted);
        r = rf_bestfit(map, hi, lo, cf->bestfit_replacement_byte);
    }
    /* an escape that yields a separator is an encoded separator.  For %u escapes only the indicator
     * is documented/pinned; they are always decoded and do not trigger path_separators_encoded_unwanted
     * (only IIS understands %u and IIS decodes separators).  CHOICE(4). */
    if (r == '/' || (cf->backslash_convert_slashes && r == '\\')) fx->flags |= RF_PATH_ENCODED_SEPARATOR;
    return r;
}

/* returns the length written to out (out has room for n bytes) */
static size_t ref_decode_path(const ref_cfg_t *cf, const unsigned char *map, const unsigned char *in, size_t n,
                              unsigned char *out, ref_fx_t *fx) {
    size_t i = 0, o = 0;
    int last_was_sep = 0;
    while (i < n) {
        unsigned char b = in[i];
        int emit = 1;
        if (b == '%') {
            size_t after = n - i - 1;                /* bytes that follow the percent sign */
            /* classify the construct first */
            int is_u = 0, well_formed = 0, can_process = 0;
            if (after < 2) {
                /* too short to be any escape (tests: "/%a", "/%H", "/%"): invalid, nothing to decode.  A "%u"
                 * that ends the string is therefore not looked at as a %u escape.  CHOICE(2). */
            } else if (cf->u_encoding_decode && (in[i + 1] == 'u' || in[i + 1] == 'U')) {
                is_u = 1;
                can_process = (after >= 5);          /* four bytes are there; they may still not be hex digits */
                well_formed = can_process && rf_ishex(in[i + 2]) && rf_ishex(in[i + 3]) && rf_ishex(in[i + 4]) && rf_ishex(in[i + 5]);
            } else {
                can_process = 1;
                well_formed = rf_ishex(in[i + 1]) && rf_ishex(in[i + 2]);
            }
            if (is_u) rf_react(fx, cf->u_encoding_unwanted);
            if (!well_formed) {
                fx->flags |= RF_PATH_INVALID_ENCODING;
                rf_react(fx, cf->url_encoding_invalid_unwanted);
            }
            if (well_formed || (cf->url_encoding_invalid_handling == RF_PROCESS_INVALID && can_process)) {
                /* decode.  For an invalid escape ("Decode invalid URL encodings") the lenient digit formula applies
                 * and the result is plain data: it is not examined for NUL/separator (htp_util.c says so explicitly
                 * for separators).  CHOICE(3). */
                if (is_u) {
                    b = rf_u_path(cf, map, in + i + 2, fx);
                    i += 6;
                    if (well_formed && b == 0) {
                        fx->flags |= RF_PATH_ENCODED_NUL;
                        rf_react(fx, cf->nul_encoded_unwanted);
#ifndef KNOWN_F_C12_U_NUL_NOTERM
                        /* htp_config_set_nul_encoded_terminates: an encoded NUL ends the path */
                        if (cf->nul_encoded_terminates) return o;
#endif
                    }
                } else {
                    unsigned char v = rf_hexbyte(in + i + 1);
                    if (well_formed && v == 0) {
                        fx->flags |= RF_PATH_ENCODED_NUL;
                        rf_react(fx, cf->nul_encoded_unwanted);
                        if (cf->nul_encoded_terminates) return o;
                    }
                    if (well_formed && (v == '/' || (cf->backslash_convert_slashes && v == '\\'))) {
                        fx->flags |= RF_PATH_ENCODED_SEPARATOR;
                        rf_react(fx, cf->path_separators_encoded_unwanted);
                        if (cf->path_separators_decode) { b = v; i += 3; }
                        else { i += 1; }             /* "/one%2ftwo" stays as it is: the '%' is an ordinary byte */
                    } else {
                        b = v;
                        i += 3;
                    }
                }
            } else if (cf->url_encoding_invalid_handling == RF_REMOVE_PERCENT) {
                i += 1; emit = 0;                    /* the percent sign disappears, what follows is ordinary data */
            } else {
                i += 1;                              /* the percent sign stays */
            }
        } else {
            if (b == 0) {
#ifndef KNOWN_F_C12_RAW_NUL
                fx->flags |= RF_PATH_RAW_NUL;        /* property: raw NUL indicator raised exactly when a raw NUL occurs */
#endif
                rf_react(fx, cf->nul_raw_unwanted);
                if (cf->nul_raw_terminates) return o;
            }
            i += 1;
        }
        if (!emit) continue;
        /* the byte that goes to the output */
        if (b < 0x20) rf_react(fx, cf->control_chars_unwanted);     /* CHOICE(5): applies to the decoded byte */
        if (b == '\\' && cf->backslash_convert_slashes) b = '/';
        if (cf->convert_lowercase) b = rf_lower(b);
        if (cf->path_separators_compress && b == '/' && last_was_sep) continue;
        last_was_sep = (b == '/');
        out[o++] = b;
    }
    return o;
}

/* ---------------------------------------------------------------------------------------------
 * 2. UTF-8 stage.  convert != 0: best-fit conversion to single bytes (output written, may shrink);
 *    convert == 0: validation only (out is not written; returns n).
 *    Well-formedness = Unicode table 3-7 with the lower bounds of E0/F0 second bytes and C0/C1 leads
 *    relaxed (overlong forms are accepted and flagged), surrogates and > U+10FFFF rejected.
 *    An ill-formed sequence is the maximal prefix that could still have become a character; it yields
 *    ONE replacement byte and decoding resumes AT the byte that broke it (test InvalidUtf8: F1 2E -> "?.").
 * ------------------------------------------------------------------------------------------- */
static size_t ref_utf8_path(const ref_cfg_t *cf, const unsigned char *map, int convert, const unsigned char *in, size_t n,
                            unsigned char *out, ref_fx_t *fx) {
    size_t i = 0, o = 0;
    int seen_multibyte = 0;
    while (i < n) {
        unsigned char b = in[i];
        size_t need;
        uint32_t cp = 0;
        unsigned char second_max = 0xBF;
        if (b < 0x80) { if (convert) out[o++] = b; i += 1; continue; }
        if (b >= 0xC0 && b <= 0xDF) { need = 1; cp = b & 0x1Fu; }
        else if (b >= 0xE0 && b <= 0xEF) { need = 2; cp = b & 0x0Fu; if (b == 0xED) second_max = 0x9F; }
        else if (b >= 0xF0 && b <= 0xF4) { need = 3; cp = b & 0x07u; if (b == 0xF4) second_max = 0x8F; }
        else need = 0;                               /* 80..BF and F5..FF cannot start a character */
        size_t k = 1;
        int broken = (need == 0), truncated = 0;
        while (!broken && k <= need) {
            if (i + k >= n) { truncated = 1; break; }
            unsigned char c = in[i + k];
            if (c < 0x80 || c > (k == 1 ? second_max : 0xBF)) { broken = 1; break; }
            cp = (cp << 6) | (c & 0x3Fu);
            k += 1;
        }
        if (truncated) {
#ifdef KNOWN_F_C12_UTF8_TRUNCATED_TAIL
            /* code: a character cut off by the end of the path vanishes without any indicator */
            break;
#else
            broken = 1;                              /* ill-formed like any other incomplete sequence */
#endif
        }
        if (broken) {
            fx->flags |= RF_PATH_UTF8_INVALID;
            if (convert) {
                rf_react(fx, cf->utf8_invalid_unwanted);   /* CHOICE(6): reaction only when the path is treated as UTF-8 */
                out[o++] = cf->bestfit_replacement_byte;
            }
            /* where decoding resumes: the converting decoder re-reads the byte that broke the sequence (test InvalidUtf8);
             * the validating pass consumes it together with the broken sequence.  CHOICE(8): the documentation says
             * nothing about re-synchronisation; the two real functions differ and the reference follows each. */
            i += (need == 0) ? 1 : (truncated ? n - i : (convert ? k : k + 1));
            continue;
        }
        seen_multibyte = 1;
        if ((need == 1 && cp < 0x80) || (need == 2 && cp < 0x800) || (need == 3 && cp < 0x10000)) fx->flags |= RF_PATH_UTF8_OVERLONG;
#ifdef KNOWN_F_C12_HALFFULL_FFF0
        if (convert ? (cp >= 0xFF00 && cp <= 0xFFEF) : (cp >= 0xFF00 && cp <= 0xFFFF)) fx->flags |= RF_PATH_HALF_FULL_RANGE;
#else
        if (cp >= 0xFF00 && cp <= 0xFFEF) fx->flags |= RF_PATH_HALF_FULL_RANGE;
#endif
        if (convert) {
            if (cp < 0x100) out[o++] = (unsigned char) cp;
            else if (cp > 0xFFFF) out[o++] = cf->bestfit_replacement_byte;
            else out[o++] = rf_bestfit(map, (unsigned char) (cp >> 8), (unsigned char) (cp & 0xFF), cf->bestfit_replacement_byte);
        }
        i += need + 1;
    }
    /* htp_core.h: "At least one valid UTF-8 character and no invalid ones." */
    if (seen_multibyte && !(fx->flags & RF_PATH_UTF8_INVALID)) fx->flags |= RF_PATH_UTF8_VALID;
    return convert ? o : n;
}

/* ---------------------------------------------------------------------------------------------
 * 3. RFC 3986 section 5.2.4, literally, on a scratch copy of the input ("input buffer" = w[s..n)),
 *    plus the project's exception: when rule 2B/2C has just replaced a dot-segment by "/" and that
 *    "/" is all that is left of the input buffer, it is dropped instead of being moved to the
 *    output (tests: "one/." -> "one", "one/.." -> "", "one/../" -> "").
 * ------------------------------------------------------------------------------------------- */
/* scratch capacity: the harness bound N when there is one (keeps the verifier's arrays small) */
#ifndef RF_NMAX
#ifdef N
#define RF_NMAX N
#else
#define RF_NMAX 64
#endif
#endif
static size_t ref_remove_dot_segments(const unsigned char *in, size_t n, unsigned char *out) {
    unsigned char w[RF_NMAX + 1];
    size_t s = 0, o = 0;
    int leftover = 0;                                /* w[s] is a "/" that rule B or C put there */
    for (size_t i = 0; i < n; i++) w[i] = in[i];
#define RF_REM (n - s)
#define RF_IS(k, ch) (s + (k) < n && w[s + (k)] == (ch))
    while (RF_REM > 0) {
        if (leftover && RF_REM == 1) break;          /* the exception */
        /* A */
        if (RF_IS(0, '.') && RF_IS(1, '.') && RF_IS(2, '/')) { s += 3; continue; }
        if (RF_IS(0, '.') && RF_IS(1, '/')) { s += 2; continue; }
        /* B */
        if (RF_IS(0, '/') && RF_IS(1, '.') && RF_IS(2, '/')) { s += 2; leftover = 1; continue; }
        if (RF_REM == 2 && RF_IS(0, '/') && RF_IS(1, '.')) { s += 1; w[s] = '/'; leftover = 1; continue; }
        /* C */
        if ((RF_IS(0, '/') && RF_IS(1, '.') && RF_IS(2, '.') && RF_IS(3, '/')) ||
            (RF_REM == 3 && RF_IS(0, '/') && RF_IS(1, '.') && RF_IS(2, '.'))) {
            if (RF_REM == 3) { s += 2; w[s] = '/'; } else s += 3;
            leftover = 1;
            while (o > 0 && out[o - 1] != '/') o--;  /* remove the last segment ... */
            if (o > 0) o--;                          /* ... and its preceding "/" (if any) */
            continue;
        }
        /* D */
        if ((RF_REM == 1 && RF_IS(0, '.')) || (RF_REM == 2 && RF_IS(0, '.') && RF_IS(1, '.'))) { s = n; continue; }
        /* E */
        out[o++] = w[s++];                           /* the initial "/" (if any) or the first character */
        while (s < n && w[s] != '/') out[o++] = w[s++];
        leftover = 0;
    }
#undef RF_REM
#undef RF_IS
    return o;
}

/* a "." or ".." path segment anywhere in p[0..n) (segments are the pieces between "/") */
static int ref_has_dot_segment(const unsigned char *p, size_t n) {
    size_t start = 0;
    for (size_t i = 0; i <= n; i++) {
        if (i == n || p[i] == '/') {
            size_t l = i - start;
            if (l == 1 && p[start] == '.') return 1;
            if (l == 2 && p[start] == '.' && p[start + 1] == '.') return 1;
            start = i + 1;
        }
    }
    return 0;
}

/* ---------------------------------------------------------------------------------------------
 * 4. Generic URL decoder (htp_urldecode_inplace_ex; contexts URLENCODED and URL_PATH).
 *    Same escape grammar as the path decoder; no separator / case / control handling; '+' may
 *    become a space; EVERY zero byte produced from a "%" construct counts as an encoded NUL.
 * ------------------------------------------------------------------------------------------- */
static unsigned char rf_u_generic(const ref_cfg_t *cf, const unsigned char *map, const unsigned char *p, ref_fx_t *fx) {
    unsigned char hi = rf_hexbyte(p), lo = rf_hexbyte(p + 2);
    if (hi == 0) { fx->flags |= RF_URLEN_OVERLONG_U; return lo; }
    if (hi == 0xFF && lo <= 0xEF) fx->flags |= RF_URLEN_HALF_FULL_RANGE;
    return rf_bestfit(map, hi, lo, cf->bestfit_replacement_byte);
}

static size_t ref_urldecode(const ref_cfg_t *cf, const unsigned char *map, const unsigned char *in, size_t n,
                            unsigned char *out, ref_fx_t *fx) {
    size_t i = 0, o = 0;
    while (i < n) {
        unsigned char b = in[i];
        if (b == '%') {
            size_t after = n - i - 1;
            int is_u = 0, well_formed = 0, can_process = 0;
            if (after < 2) {
                /* too short for any escape */
            } else if (cf->u_encoding_decode && (in[i + 1] == 'u' || in[i + 1] == 'U')) {
                is_u = 1;
                can_process = (after >= 5);
                well_formed = can_process && rf_ishex(in[i + 2]) && rf_ishex(in[i + 3]) && rf_ishex(in[i + 4]) && rf_ishex(in[i + 5]);
            } else {
                can_process = 1;
                well_formed = rf_ishex(in[i + 1]) && rf_ishex(in[i + 2]);
            }
            if (is_u) rf_react(fx, cf->u_encoding_unwanted);
            if (!well_formed) {
                fx->flags |= RF_URLEN_INVALID_ENCODING;
                rf_react(fx, cf->url_encoding_invalid_unwanted);
            }
            if (well_formed || (cf->url_encoding_invalid_handling == RF_PROCESS_INVALID && can_process)) {
                if (is_u) { b = rf_u_generic(cf, map, in + i + 2, fx); i += 6; }
                else { b = rf_hexbyte(in + i + 1); i += 3; }
            } else if (cf->url_encoding_invalid_handling == RF_REMOVE_PERCENT) {
                i += 1;
                continue;                            /* the percent sign disappears */
            } else {
                i += 1;                              /* the percent sign stays */
            }
            if (b == 0) {                            /* whatever the escape was, a zero byte out of it is an encoded NUL */
                rf_react(fx, cf->nul_encoded_unwanted);
                fx->flags |= RF_URLEN_ENCODED_NUL;
                if (cf->nul_encoded_terminates) return o;
            }
            out[o++] = b;
        } else if (b == '+') {
            out[o++] = cf->plusspace_decode ? (unsigned char) ' ' : b;
            i += 1;
        } else {
            if (b == 0) {
                rf_react(fx, cf->nul_raw_unwanted);
                fx->flags |= RF_URLEN_RAW_NUL;
                if (cf->nul_raw_terminates) return o;
            }
            out[o++] = b;
            i += 1;
        }
    }
    return o;
}
#endif
