/* Independent executable reference for the multipart (C14) units.  Written from the documented meaning
 * (RFC 2046 framing as described in htp_multipart.h / the property statement), not from htp_multipart.c.
 *
 *   delimiter            = line-end "--" boundary          (line-end = CRLF or LF; none before the very first one)
 *   close delimiter      = delimiter "--"
 *   a delimiter line runs up to and including the next LF; part data starts right after it
 *   part data            = every byte between the LF ending a delimiter line and the line-end that
 *                          introduces the next delimiter, byte for byte
 */
#ifndef MPART_REF_H
#define MPART_REF_H
#include <stddef.h>

#define REF_CAND_UNDECIDED 0
#define REF_CAND_MATCH     1
#define REF_CAND_REFUTED   2

/* A delimiter candidate has already matched the first `bmp` bytes of the full delimiter string
 * bnd[0..bl) (= CR LF '-' '-' boundary).  What do the next n input bytes c[0..n) decide? */
static int ref_candidate(const unsigned char *bnd, size_t bl, size_t bmp, const unsigned char *c, size_t n) {
    for (size_t i = 0; i <= n; i++) {
        if (bmp + i >= bl) return REF_CAND_MATCH;        /* completed by c[0 .. bl-bmp) */
        if (i == n) break;
        if (c[i] != bnd[bmp + i]) return REF_CAND_REFUTED;
    }
    return REF_CAND_UNDECIDED;
}

/* Length of the line end (0, 1 = LF, 2 = CRLF) that terminates d[0..n). */
static size_t ref_line_end_len(const unsigned char *d, size_t n) {
    if (n >= 1 && d[n - 1] == '\n') return (n >= 2 && d[n - 2] == '\r') ? 2 : 1;
    return 0;
}

/* Does the delimiter "--" b (one boundary byte b), introduced by a line end, occur in d[0..n) followed by more data?
 * (used to decide whether a payload may be cut by the framing; the delimiter needs LF '-' '-' b) */
static int ref_has_delim1(const unsigned char *d, size_t n, unsigned char b) {
    for (size_t i = 0; i + 4 <= n; i++)
        if (d[i] == '\n' && d[i + 1] == '-' && d[i + 2] == '-' && d[i + 3] == b) return 1;
    return 0;
}
#endif

/* ---- Content-Disposition parameter value (C14: "names/filenames incl. escaped quotes") -------------------------------------
 * Independent reference, from the documented rule ("Allow " and \ to be escaped"): the value is a quoted string; inside it a
 * backslash followed by '"' or '\' is an escape pair standing for that second byte; any other backslash is an ordinary byte;
 * the first '"' that is not the second byte of an escape pair closes the value.
 * t[0..n) = the bytes right after the opening quote.  Returns the offset of the closing quote (and the decoded content in out /
 * *outlen), or n when the string is not closed. */
#ifndef MPART_REF_CD
#define MPART_REF_CD
static size_t ref_cd_quoted(const unsigned char *t, size_t n, unsigned char *out, size_t *outlen) {
    size_t i = 0, o = 0;
    while (i < n) {
        if (t[i] == '"') { *outlen = o; return i; }
        if (t[i] == '\\' && i + 1 < n && (t[i + 1] == '"' || t[i + 1] == '\\')) { out[o++] = t[i + 1]; i += 2; continue; }
        out[o++] = t[i]; i++;
    }
    *outlen = o;
    return n;
}
#endif
