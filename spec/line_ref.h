/* Independent executable references for the line-level extractors (property C02, scoped to the extractors).
 *
 * Written from RFC 7230 (3.1.1 request-line, 3.1.2 status-line, 3.2 header fields, 3.2.6 token, 3.5 robustness),
 * RFC 6265 4.2.1 (Cookie header), RFC 7231 3.1.1.1 (media type) and the permissive deviations that libhtp DOCUMENTS
 * (doc comments / in-line comments of the extractors, htp_config.h).  Not copied from the code: every reference is a
 * composition of "first / last position with predicate" finders over an immutable array, the real extractors are
 * single-pass cursors.  Used by bounded units only (units/c02_extract.py).
 *
 * Deviations from the RFC grammar that the references implement, each with its source:
 *  L1  request line: white space = the C-locale isspace set (SP HT LF VT FF CR) between the three words, any number
 *      (RFC 7230 3.5 allows it; comment "Apache uses isspace(), which is even more permitting, so that's what we use").
 *  L2  request line: leading white space is skipped ("IIS allows this"); when cfg->requestline_leading_whitespace_unwanted
 *      is not HTP_UNWANTED_IGNORE the method is reported WITH the leading white space and the configured status is the
 *      expected response status (comment "reset mstart so that we copy the whitespace into the method").
 *  L3  request line, allow_space_uri == 0: "The URI ends with the first whitespace", where whitespace means SP (0x20);
 *      only when the rest of the line has no SP at all does any other isspace byte end the URI ("even though RFC's allow
 *      only SP (0x20), many implementations allow other delimiters, like tab").
 *  L4  request line, allow_space_uri == 1: trailing white space of the line is ignored, "The URI ends with the last
 *      whitespace" = the last SP before the last word; without such an SP the last other isspace byte; without any, the
 *      URI is the rest of the line.
 *      TWO CHOICES IN L4 ARE TAKEN FROM THE CODE, NOT FROM A DOCUMENT (see notes/c02.md, observations O1/O2):
 *      (a) no delimiter at all: the URI runs to the end of the line INCLUDING trailing white space;
 *      (b) retry with non-SP delimiters: the search for the last isspace byte starts at the end of the line, i.e. it does
 *          NOT ignore trailing white space.  Both concern lines that are not well-formed; the re-join law holds for them.
 *  L5  request line: nothing after the method, or nothing after the URI => HTTP/0.9 (is_protocol_0_9, HTP_PROTOCOL_0_9).
 *  L6  request line, nul_terminates: "The line ends with the first NUL byte."
 *  L7  the protocol "continues until the end of the line" (trailing white space included); its number is that of
 *      htp_parse_protocol: exactly "HTTP/0.9", "HTTP/1.0", "HTTP/1.1" ("very strict approach"), anything else INVALID.
 *  S1  status line: isspace-delimited words, leading white space ignored; message "stretches until the end of the line".
 *  H1  header line: all trailing CR / LF are removed first (htp_chomp: "Remove all line terminators (LF, CR or CRLF)").
 *  H2  request header: a NUL before the first colon counts as "colon missing" (the scan stops at NUL).
 *  H3  request header without colon: HTP_FIELD_UNPARSEABLE, "a header with an empty name, with the value equal to the
 *      entire input string" (no trimming).  Response header without colon: UNPARSEABLE and INVALID, empty name, value =
 *      the line with LWS trimmed on both sides.
 *  H4  empty name (colon first): HTP_FIELD_INVALID.  LWS between name and colon: removed, HTP_FIELD_INVALID
 *      (response: "Ignore unprintable after field-name" = the isspace set instead of LWS).
 *      Name not a token (RFC 7230 tchar): HTP_FIELD_INVALID.  The transaction-level flag is set once with the header flag.
 *  H5  value = after the colon, LWS (SP HT) trimmed on both sides (RFC 7230 OWS).
 *  K1  cookies (v0): pairs separated by ';', isspace before a pair ignored, name = up to the first '=', value = the rest
 *      (empty without '='), "Ignore a nameless cookie", empty pairs ignored.
 *  T1  content type: "the same approach PHP 5.4.3 uses": the media type ends at the first ';', ',' or SP; lower-cased.
 *  Q1  quoted string: opening '"', closing = first unescaped '"', backslash escapes the next byte ("only handling
 *      escaped double quotes" = the backslash is dropped, the next byte taken literally); a backslash that is the very last
 *      byte is an ordinary byte; DECLINED without opening or closing quote or on empty input.
 */
#ifndef LINE_REF_H
#define LINE_REF_H
#include <stddef.h>
#include <stdint.h>

/* ---- character classes (RFC 7230 / C locale) ---------------------------------------------------------------------- */
static int lr_isspace(unsigned char c) { return c == 0x20 || (c >= 0x09 && c <= 0x0d); }
static int lr_islws(unsigned char c) { return c == 0x20 || c == 0x09; }
/* RFC 7230 3.2.6: tchar = "!" / "#" / "$" / "%" / "&" / "'" / "*" / "+" / "-" / "." / "^" / "_" / "`" / "|" / "~" / DIGIT / ALPHA */
static int lr_istchar(unsigned char c) {
    if (c >= '0' && c <= '9') return 1;
    if (c >= 'a' && c <= 'z') return 1;
    if (c >= 'A' && c <= 'Z') return 1;
    return c == '!' || c == '#' || c == '$' || c == '%' || c == '&' || c == '\'' || c == '*' || c == '+' || c == '-' ||
           c == '.' || c == '^' || c == '_' || c == '`' || c == '|' || c == '~';
}
static unsigned char lr_lower(unsigned char c) { return (c >= 'A' && c <= 'Z') ? (unsigned char) (c + 32) : c; }

/* ---- finders --------------------------------------------------------------------------------------------------------- */
/* first index in [from, to) whose byte is (want_space ? isspace : not isspace); `to` if none */
static size_t lr_first_space(const unsigned char *a, size_t from, size_t to, int want_space) {
    for (size_t i = from; i < to; i++) if ((lr_isspace(a[i]) != 0) == (want_space != 0)) return i;
    return to;
}
static size_t lr_first_byte(const unsigned char *a, size_t from, size_t to, unsigned char c) {
    for (size_t i = from; i < to; i++) if (a[i] == c) return i;
    return to;
}
/* last index in [from, to) with the property, `to` if none (to is never a valid answer) */
static size_t lr_last_byte(const unsigned char *a, size_t from, size_t to, unsigned char c) {
    for (size_t i = to; i > from; i--) if (a[i - 1] == c) return i - 1;
    return to;
}
static size_t lr_last_space(const unsigned char *a, size_t from, size_t to) {
    for (size_t i = to; i > from; i--) if (lr_isspace(a[i - 1])) return i - 1;
    return to;
}
/* length of a[0..n) without its trailing bytes of a class */
static size_t lr_rtrim_space(const unsigned char *a, size_t from, size_t n) { while (n > from && lr_isspace(a[n - 1])) n--; return n; }
static size_t lr_rtrim_lws(const unsigned char *a, size_t from, size_t n) { while (n > from && lr_islws(a[n - 1])) n--; return n; }
static size_t lr_ltrim_lws(const unsigned char *a, size_t from, size_t n) { while (from < n && lr_islws(a[from])) from++; return from; }

/* ---- protocol, method, status ----------------------------------------------------------------------------------------- */
#define LR_PROTOCOL_INVALID (-2)
#define LR_PROTOCOL_0_9 9
#define LR_PROTOCOL_1_0 100
#define LR_PROTOCOL_1_1 101
static int lr_bytes_eq(const unsigned char *a, size_t n, const char *lit) {
    size_t i = 0;
    for (; i < n; i++) { if (lit[i] == 0 || a[i] != (unsigned char) lit[i]) return 0; }
    return lit[i] == 0;
}
static int lr_protocol(const unsigned char *a, size_t n) {
    if (lr_bytes_eq(a, n, "HTTP/1.1")) return LR_PROTOCOL_1_1;
    if (lr_bytes_eq(a, n, "HTTP/1.0")) return LR_PROTOCOL_1_0;
    if (lr_bytes_eq(a, n, "HTTP/0.9")) return LR_PROTOCOL_0_9;
    return LR_PROTOCOL_INVALID;
}
/* the method registry of htp_core.h (enum htp_method_t): name -> number, case-sensitive (RFC 7230 3.1.1), 0 = unknown */
static const struct { const char *name; int number; } lr_methods[] = {
    { "HEAD", 1 }, { "GET", 2 }, { "PUT", 3 }, { "POST", 4 }, { "DELETE", 5 }, { "CONNECT", 6 }, { "OPTIONS", 7 }, { "TRACE", 8 },
    { "PATCH", 9 }, { "PROPFIND", 10 }, { "PROPPATCH", 11 }, { "MKCOL", 12 }, { "COPY", 13 }, { "MOVE", 14 }, { "LOCK", 15 },
    { "UNLOCK", 16 }, { "VERSION-CONTROL", 17 }, { "CHECKOUT", 18 }, { "UNCHECKOUT", 19 }, { "CHECKIN", 20 }, { "UPDATE", 21 },
    { "LABEL", 22 }, { "REPORT", 23 }, { "MKWORKSPACE", 24 }, { "MKACTIVITY", 25 }, { "BASELINE-CONTROL", 26 }, { "MERGE", 27 },
    { "INVALID", 28 } };
#define LR_NMETHODS 28
static int lr_method_number(const unsigned char *a, size_t n) {
    for (int k = 0; k < LR_NMETHODS; k++) if (lr_bytes_eq(a, n, lr_methods[k].name)) return lr_methods[k].number;
    return 0;
}
/* status text: digits only (LWS* digits LWS* in general; a status word has no white space), decimal value in 100..999, else -1.
 * No arithmetic on long digit strings: strip leading zeros, exactly three digits must remain. */
static int lr_status(const unsigned char *a, size_t n) {
    size_t s = lr_ltrim_lws(a, 0, n), e = lr_rtrim_lws(a, s, n);
    if (s == e) return -1;
    for (size_t i = s; i < e; i++) if (!(a[i] >= '0' && a[i] <= '9')) return -1;
    while (s < e && a[s] == '0') s++;
    if (e - s != 3) return -1;
    return (a[s] - '0') * 100 + (a[s + 1] - '0') * 10 + (a[s + 2] - '0');
}

/* ---- request line ------------------------------------------------------------------------------------------------------ */
typedef struct {
    size_t mo, ml;              /* method (always reported) */
    int has_u; size_t uo, ul;   /* request-target */
    int has_p; size_t po, pl;   /* protocol text */
    int is09;                   /* HTTP/0.9: no protocol on the line */
    int protocol;               /* LR_PROTOCOL_* */
    int lead;                   /* line had leading white space */
} lr_reqline_t;

static void lr_request_line(const unsigned char *a, size_t n, int nul_terminates, int allow_space_uri, int lead_unwanted, lr_reqline_t *r) {
    r->has_u = r->has_p = 0; r->uo = r->ul = r->po = r->pl = 0; r->is09 = 0; r->protocol = LR_PROTOCOL_INVALID;
    if (nul_terminates) n = lr_first_byte(a, 0, n, 0);                                   /* L6 */
    size_t w1 = lr_first_space(a, 0, n, 0);                                              /* first word starts here (L2) */
    size_t w1e = lr_first_space(a, w1, n, 1);
    r->lead = (w1 > 0);
    r->mo = (w1 > 0 && lead_unwanted != 0) ? 0 : w1; r->ml = w1e - r->mo;
    size_t u = lr_first_space(a, w1e, n, 0);                                             /* second word starts here (L1) */
    if (u == n) { r->is09 = 1; r->protocol = LR_PROTOCOL_0_9; return; }                  /* L5 */
    size_t ue;
    if (!allow_space_uri) {                                                              /* L3 */
        ue = lr_first_byte(a, u, n, 0x20);
        if (ue == n) ue = lr_first_space(a, u, n, 1);
    } else {                                                                             /* L4 */
        size_t t = lr_rtrim_space(a, u + 1, n);          /* end of the last word */
        size_t sp = lr_last_byte(a, u + 1, t, 0x20);
        if (sp != t) ue = sp;
        else if (lr_last_space(a, u + 1, t) != t) ue = lr_last_space(a, u + 1, n);      /* L4(b): search from the end of the LINE */
        else ue = n;                                                                     /* L4(a) */
    }
    r->has_u = 1; r->uo = u; r->ul = ue - u;
    size_t p = lr_first_space(a, ue, n, 0);
    if (p == n) { r->is09 = 1; r->protocol = LR_PROTOCOL_0_9; return; }                  /* L5 */
    r->has_p = 1; r->po = p; r->pl = n - p;                                              /* L7 */
    r->protocol = lr_protocol(a + p, n - p);
}

/* RFC 7230 3.1.1, strict: method SP request-target SP HTTP-version, method = token, no white space inside the words */
static int lr_request_line_wellformed(const unsigned char *a, size_t n, size_t *sp1, size_t *sp2) {
    size_t s1 = lr_first_byte(a, 0, n, 0x20);
    if (s1 == 0 || s1 == n) return 0;
    size_t s2 = lr_first_byte(a, s1 + 1, n, 0x20);
    if (s2 == s1 + 1 || s2 >= n - 1 || s2 == n) return 0;
    for (size_t i = 0; i < n; i++) {
        if (i == s1 || i == s2) continue;
        if (lr_isspace(a[i]) || a[i] == 0) return 0;
        if (i < s1 && !lr_istchar(a[i])) return 0;
    }
    *sp1 = s1; *sp2 = s2;
    return 1;
}

/* ---- status line --------------------------------------------------------------------------------------------------------- */
typedef struct { int has_p, has_s, has_m; size_t po, pl, so, sl, mo, ml; int protocol; int status; } lr_resline_t;
static void lr_response_line(const unsigned char *a, size_t n, lr_resline_t *r) {
    r->has_p = r->has_s = r->has_m = 0; r->po = r->pl = r->so = r->sl = r->mo = r->ml = 0;
    r->protocol = LR_PROTOCOL_INVALID; r->status = -1;
    size_t p = lr_first_space(a, 0, n, 0);
    if (p == n) return;
    size_t pe = lr_first_space(a, p, n, 1);
    r->has_p = 1; r->po = p; r->pl = pe - p; r->protocol = lr_protocol(a + p, pe - p);
    size_t s = lr_first_space(a, pe, n, 0);
    if (s == n) return;
    size_t se = lr_first_space(a, s, n, 1);
    r->has_s = 1; r->so = s; r->sl = se - s; r->status = lr_status(a + s, se - s);
    size_t m = lr_first_space(a, se, n, 0);
    if (m == n) return;
    r->has_m = 1; r->mo = m; r->ml = n - m;
}

/* ---- header line ------------------------------------------------------------------------------------------------------------ */
#define LR_FIELD_UNPARSEABLE 0x4ULL
#define LR_FIELD_INVALID 0x8ULL
static size_t lr_chomp(const unsigned char *a, size_t n) { while (n > 0 && (a[n - 1] == '\r' || a[n - 1] == '\n')) n--; return n; }   /* H1 */
typedef struct { size_t no, nl, vo, vl; uint64_t flags; } lr_header_t;
static void lr_header(const unsigned char *a, size_t n, int is_response, lr_header_t *r) {
    r->flags = 0; r->no = 0; r->nl = 0;
    n = lr_chomp(a, n);
    size_t colon = lr_first_byte(a, 0, n, ':');
    if (!is_response) { size_t nul = lr_first_byte(a, 0, n, 0); if (nul < colon) colon = n; }     /* H2 */
    if (colon == n) {                                                                              /* H3 */
        if (!is_response) { r->flags = LR_FIELD_UNPARSEABLE; r->vo = 0; r->vl = n; return; }
        r->flags = LR_FIELD_UNPARSEABLE | LR_FIELD_INVALID;
        r->vo = lr_ltrim_lws(a, 0, n); r->vl = lr_rtrim_lws(a, r->vo, n) - r->vo;
        return;
    }
    size_t ne = is_response ? lr_rtrim_space(a, 0, colon) : lr_rtrim_lws(a, 0, colon);           /* H4 */
    if (ne != colon || colon == 0) r->flags |= LR_FIELD_INVALID;
    for (size_t i = 0; i < ne; i++) if (!lr_istchar(a[i])) r->flags |= LR_FIELD_INVALID;
    r->nl = ne;
    r->vo = lr_ltrim_lws(a, colon + 1, n); r->vl = lr_rtrim_lws(a, r->vo, n) - r->vo;            /* H5 */
}

/* ---- cookies (v0) ------------------------------------------------------------------------------------------------------------ */
/* the next reported cookie at or after position *p (an offset at which a ';'-separated piece starts); returns 0 when there is none.
 * On success *p is the start of the piece after it. */
static int lr_next_cookie(const unsigned char *a, size_t n, size_t *p, size_t *no, size_t *nl, size_t *vo, size_t *vl) {
    while (*p < n) {                                        /* split on ';' first, then look inside each piece */
        size_t e = lr_first_byte(a, *p, n, ';');
        size_t s = lr_first_space(a, *p, e, 0);             /* K1: white space before the pair is ignored */
        *p = e + 1;
        if (s < e) {                                        /* empty / all-white-space pieces are ignored */
            size_t eq = lr_first_byte(a, s, e, '=');
            if (eq != s) {                                  /* nameless pairs are ignored */
                *no = s; *nl = eq - s;
                if (eq == e) { *vo = e; *vl = 0; } else { *vo = eq + 1; *vl = e - eq - 1; }
                return 1;
            }
        }
    }
    return 0;
}

/* ---- content type --------------------------------------------------------------------------------------------------------------- */
static size_t lr_ct_len(const unsigned char *a, size_t n) {                                      /* T1 */
    size_t e = lr_first_byte(a, 0, n, ';'), c = lr_first_byte(a, 0, n, ','), s = lr_first_byte(a, 0, n, 0x20);
    if (c < e) e = c;
    if (s < e) e = s;
    return e;
}

/* ---- quoted string ----------------------------------------------------------------------------------------------------------------- */
/* returns 1 (OK) / 0 (declined); out[0..*outlen) = unescaped content, *close = index of the closing quote */
static int lr_quoted(const unsigned char *a, size_t n, unsigned char *out, size_t *outlen, size_t *close) {
    *outlen = 0; *close = 0;
    if (n < 2 || a[0] != '"') return 0;
    size_t i = 1, o = 0;
    for (;;) {
        if (i >= n) return 0;                                /* no closing quote */
        if (a[i] == '"') break;
        if (a[i] == '\\' && i + 1 < n) { out[o++] = a[i + 1]; i += 2; }
        else out[o++] = a[i++];
    }
    *outlen = o; *close = i;
    return 1;
}
#endif
