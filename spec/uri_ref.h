/* Independent executable reference for the request-target splitter (property C13).
 *
 * Written from RFC 3986 section 3 / appendix B
 *      URI = [ scheme ":" ] [ "//" authority ] path [ "?" query ] [ "#" fragment ]
 *      authority = [ userinfo "@" ] host [ ":" port ],  userinfo = user [ ":" password ],
 *      host = IP-literal "[" ... "]" | reg-name
 * plus the deviations that libhtp DOCUMENTS for its lenient splitter (comments of htp_parse_uri,
 * htp_parse_hostport and htp.h), not from the index arithmetic of the code:
 *   D1  trailing 0x20 bytes of the target are not part of any component;
 *   D2  a target that begins with '/' has no scheme and no authority; otherwise everything before
 *       the FIRST ':' is the scheme (no character-class restriction, may be empty); a target
 *       without ':' has no scheme and is "an invalid path";
 *   D3  an authority is only looked for after a scheme: exactly two slashes followed by at least
 *       one further byte that is not a slash ("one, three or more slashes, and it's a path");
 *   D4  userinfo ends at the FIRST '@' of the authority, user/password split at its FIRST ':';
 *   D5  an unterminated '[' literal makes the whole host[:port] text the host name.
 * The reference works "outside-in" (fragment, query, hierarchical part, authority, host) with a
 * first-occurrence finder, i.e. not in the left-to-right cursor style of the implementation.
 *
 * Used by bounded units only (units/c13_uri.py).
 */
#ifndef URI_REF_H
#define URI_REF_H
#include <stddef.h>
#include <stdint.h>
#include "str_ref.h"

/* The defect class recorded as known finding F-C13-IPV6 is carved out by default; compile with
 * -DC13_NO_KNOWN_IPV6 to see the partition check fail on the unchanged tree. */
#ifndef C13_NO_KNOWN_IPV6
#define KNOWN_F_C13_IPV6 1
#endif

enum { RU_SCHEME, RU_USER, RU_PASS, RU_HOST, RU_PORT, RU_PATH, RU_QUERY, RU_FRAG, RU_N };

typedef struct {
    size_t n;              /* length of the target without trailing spaces */
    int has[RU_N];         /* component reported? */
    size_t off[RU_N];      /* offset of the component in the target */
    size_t len[RU_N];      /* its length */
    int junk_after_ipv6;   /* bytes between the ']' of an IP literal and the ':' / end of the authority */
} ref_uri_t;

/* first index i in [from, to) with a[i] == c; `to` if there is none */
static size_t ref_first(const unsigned char *a, size_t from, size_t to, int c) {
    size_t i = from;
    while (i < to && a[i] != c) i++;
    return i;
}

static void ref_set(ref_uri_t *r, int which, size_t from, size_t to) {
    r->has[which] = 1; r->off[which] = from; r->len[which] = to - from;
}

static void ref_uri_split(const unsigned char *a, size_t la, ref_uri_t *r) {
    for (int i = 0; i < RU_N; i++) { r->has[i] = 0; r->off[i] = 0; r->len[i] = 0; }
    r->junk_after_ipv6 = 0;
    /* D1 */
    size_t n = la;
    while (n > 0 && a[n - 1] == ' ') n--;
    r->n = n;
    if (n == 0) return;

    /* D2: scheme */
    size_t s = 0;
    int scheme = 0;
    if (a[0] != '/') {
        size_t c = ref_first(a, 0, n, ':');
        if (c < n) { ref_set(r, RU_SCHEME, 0, c); s = c + 1; scheme = 1; }
    }
    /* fragment: after the first '#' of the rest; query: after the first '?' before it */
    size_t h = ref_first(a, s, n, '#');
    if (h < n) ref_set(r, RU_FRAG, h + 1, n);
    size_t q = ref_first(a, s, h, '?');
    if (q < h) ref_set(r, RU_QUERY, q + 1, h);
    size_t e = q;                      /* hierarchical part = [s, e) */

    /* D3: authority */
    size_t p = s;                      /* start of the path */
    if (scheme && s + 2 < n && a[s] == '/' && a[s + 1] == '/' && a[s + 2] != '/') {   /* hence e >= s + 2 */
        size_t as = s + 2, ae = ref_first(a, as, e, '/');
        p = ae;
        /* D4: userinfo */
        size_t hs = as;
        size_t at = ref_first(a, as, ae, '@');
        if (at < ae) {
            size_t c = ref_first(a, as, at, ':');
            ref_set(r, RU_USER, as, c);
            if (c < at) ref_set(r, RU_PASS, c + 1, at);
            hs = at + 1;
        }
        /* host [ ":" port ] = [hs, ae) */
        if (hs < ae && a[hs] == '[') {
            size_t rb = ref_first(a, hs, ae, ']');
            if (rb == ae) {
                ref_set(r, RU_HOST, hs, ae);                 /* D5 */
            } else {
                ref_set(r, RU_HOST, hs, rb + 1);
                size_t c = ref_first(a, rb + 1, ae, ':');
                if (c < ae) ref_set(r, RU_PORT, c + 1, ae);
                /* RFC 3986: an IP literal is followed by ':' port or by the end of the authority.
                 * Anything else is outside the grammar; libhtp reports neither as host nor as port. */
                if (rb + 1 < ae && a[rb + 1] != ':') r->junk_after_ipv6 = 1;
            }
        } else {
            size_t c = ref_first(a, hs, ae, ':');
            ref_set(r, RU_HOST, hs, c);
            if (c < ae) ref_set(r, RU_PORT, c + 1, ae);
        }
    }
    ref_set(r, RU_PATH, p, e);
}

/* Known finding F-C13-IPV6: the exact class of targets for which bytes are dropped. */
static int ipv6_junk_after_bracket(const unsigned char *a, size_t la) {
    ref_uri_t r;
    ref_uri_split(a, la, &r);
    return r.junk_after_ipv6;
}

/* ---- host[:port] text of a Host header / authority (htp_parse_hostport) --------------------------
 * Documented: "an authority string, which consists of a hostname with an optional port number;
 * username and password are not allowed and will not be handled"; hostname NULL if invalid; port text
 * NULL if not provided; port number -1 if not present or invalid; invalid set if any part is invalid.
 * Surrounding whitespace is not part of the authority; white space between host and ':' is ignored;
 * a host name given without a port is reported in lower case. */
typedef struct {
    int has_host; size_t host_off, host_len; int host_lowered;
    int has_port; size_t port_off, port_len;
    int port_number; int invalid;
} ref_hostport_t;

/* port text -> number: optional blanks/tabs, decimal digits, optional blanks/tabs; 1..65535; else -1 */
static int ref_port_number(const unsigned char *a, size_t la) {
    size_t s = 0, e = la, end;
    while (s < e && (a[s] == ' ' || a[s] == '\t')) s++;
    while (e > s && (a[e - 1] == ' ' || a[e - 1] == '\t')) e--;
    if (s == e) return -1;
    int64_t v = ref_pint(a + s, e - s, 10, &end);
    if (v < 0 || end != e - s) return -1;
    if (v < 1 || v > 65535) return -1;
    return (int) v;
}

static void ref_hostport(const unsigned char *a, size_t la, ref_hostport_t *r) {
    r->has_host = r->has_port = r->host_lowered = 0;
    r->host_off = r->host_len = r->port_off = r->port_len = 0;
    r->port_number = -1; r->invalid = 0;
    size_t s = 0, e = la;
    while (s < e && ref_isspace(a[s])) s++;
    while (e > s && ref_isspace(a[e - 1])) e--;
    if (s == e) { r->invalid = 1; return; }
    if (a[s] == '[') {
        size_t rb = ref_first(a, s, e, ']');
        if (rb == e) { r->invalid = 1; return; }
        r->has_host = 1; r->host_off = s; r->host_len = rb + 1 - s;
        if (rb + 1 == e) return;
        if (a[rb + 1] != ':') { r->invalid = 1; return; }
        r->has_port = 1; r->port_off = rb + 2; r->port_len = e - (rb + 2);
    } else {
        size_t c = ref_first(a, s, e, ':');
        size_t he = c;
        if (c < e) while (he > s && ref_isspace(a[he - 1])) he--;
        r->has_host = 1; r->host_off = s; r->host_len = he - s;
        if (c == e) { r->host_lowered = 1; return; }
        r->has_port = 1; r->port_off = c + 1; r->port_len = e - (c + 1);
    }
    r->port_number = ref_port_number(a + r->port_off, r->port_len);
    if (r->port_number == -1) r->invalid = 1;
}
#endif
