/* Independent reference for htp_validate_hostname, non-IP-literal form (C11: "syntactically invalid hosts set the
 * corresponding invalid-host indicator").  Written from the documented rule, not from the code:
 *   a host name is 1..255 bytes; it is a sequence of labels separated by single dots; a label is 1..63 bytes out of
 *   letters, digits, '-' and (tolerated, documented in the source comment) '_'; one trailing dot (root label) is
 *   accepted; a leading dot, two dots in a row, an empty label or any other byte make it invalid.
 * Formulated over the whole string by classification (no scanning state machine like the code's):
 *   valid  <=>  1 <= n <= 255  and  every byte is label-char or '.'  and  s[0] != '.'  and  no ".." anywhere
 *               and every maximal run of label-chars has length <= 63. */
#ifndef HOST_REF_H
#define HOST_REF_H
#include <stddef.h>
static int ref_host_labelchar(unsigned char c) {
    return (c >= 'a' && c <= 'z') || (c >= 'A' && c <= 'Z') || (c >= '0' && c <= '9') || c == '-' || c == '_';
}
static int ref_validate_hostname(const unsigned char *s, size_t n) {
    if (n == 0 || n > 255) return 0;
    if (s[0] == '.') return 0;
    size_t run = 0;
    for (size_t i = 0; i < n; i++) {
        if (s[i] == '.') {
            if (i + 1 < n && s[i + 1] == '.') return 0;
            run = 0;
        } else {
            if (!ref_host_labelchar(s[i])) return 0;
            run++;
            if (run > 63) return 0;
        }
    }
    return 1;
}
#endif
