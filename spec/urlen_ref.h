/* Independent executable reference for property C15, written from the property statement
 * (properties.jsonl), not from htp_urlencoded.c:
 *
 *   "split on '&', split each piece at its first '=', drop only a final empty piece, then
 *    percent/plus-decode name and value per configuration - in order, including empty names
 *    and values."
 *
 * The reference works on the WHOLE body (it has no notion of chunks), so equality with the real
 * streaming parser for some chunking is at the same time the chunking-invariance statement.
 * Results are offsets into the input (no allocation, no copy): pair i is
 *   name  = s[ns .. ns+nl)      value = s[vs .. vs+vl)
 * Decoding is a separate step applied to each name and value AFTER the split (ref_urlen_decoded
 * users pass the decoder they want to compare against).  Used by bounded units only.
 */
#ifndef URLEN_REF_H
#define URLEN_REF_H
#include <stddef.h>

typedef struct { size_t ns, nl, vs, vl; } ref_pair_t;

/* returns the number of pairs written to out[] (at most max; a body of n bytes has at most n pairs) */
static size_t ref_urlen_split(const unsigned char *s, size_t n, unsigned char sep, ref_pair_t *out, size_t max) {
    size_t cnt = 0, start = 0;
    for (;;) {
        /* the piece runs up to the next separator or the end of the body */
        size_t end = start;
        while (end < n && s[end] != sep) end++;
        int final_piece = (end == n);
        /* drop ONLY a final empty piece: empty pieces elsewhere ("a&&b", "&a") are pairs ("", "") */
        if (!(final_piece && end == start) && cnt < max) {
            /* split at the FIRST '=': later '=' belong to the value; no '=' means an empty value */
            size_t eq = start;
            while (eq < end && s[eq] != '=') eq++;
            out[cnt].ns = start;
            out[cnt].nl = eq - start;
            if (eq < end) { out[cnt].vs = eq + 1; out[cnt].vl = end - (eq + 1); }
            else { out[cnt].vs = end; out[cnt].vl = 0; }
            cnt++;
        }
        if (final_piece) break;
        start = end + 1;
    }
    return cnt;
}

#endif
