from vrun import U

UNITS = []
RO = {'quick': {'VCAP': 1024}, 'thorough': {'VCAP': 65536}}
INC = ['c17_bstr.h']
IDX = {'quick': {'VCAP': 1024, 'NEEDLE_MAX': 8}, 'thorough': {'VCAP': 65536, 'NEEDLE_MAX': 20}}
A = ['string lengths <= VCAP (symbolic); objects are fresh and disjoint']


def ro(name, harness, loops, min_obl=20, sub='', assumes=A, enforce=None, defs=RO, **kw):
    enforce = enforce or name
    UNITS.append(U(name=name, props=['C17', 'C01'], kind='contract', src=['bstr.c'], enforce=enforce,
                   contracts_inc=INC, loops={'bstr.c': {enforce: loops}} if loops else {}, harness=harness,
                   defs=defs, min_obl=min_obl, sub=sub, assumes=assumes, **kw))


CMP_INV = lambda eq: dict(assigns='p1, p2', inv=['p1 == p2', 'p1 <= len1', 'p1 <= len2', '(gk < p1) ==> (%s)' % eq], dec='len1 - p1')
H4 = 'void HARNESS(void) { const void *a, *b; size_t la, lb; %s(a, la, b, lb); CANARY(); }'

ro('bstr_util_cmp_mem', H4 % 'bstr_util_cmp_mem', {'count': 1, 0: CMP_INV('data1[gk] == data2[gk]')},
   sub='compare: range, equality iff same bytes and length, any difference or length mismatch => non-zero, first-byte and empty-string sign rules')
ro('bstr_util_cmp_mem_nocase', H4 % 'bstr_util_cmp_mem_nocase', {'count': 1, 0: CMP_INV('LOW(data1[gk]) == LOW(data2[gk])')},
   sub='case-insensitive compare (ASCII fold), same facts')
ro('bstr_util_cmp_mem_nocasenorzero', H4 % 'bstr_util_cmp_mem_nocasenorzero', {'count': 2,
   0: dict(assigns='p1, p2', inv=['p2 <= p1', 'p1 <= len1', 'p2 <= len2',
                                  '(len1 > 0 && len2 > 0 && data1[0] != 0) ==> (p1 == p2 || p1 >= 1)',
                                  '(p1 > 0 && data1[0] != 0) ==> (p2 > 0 && LOW(data1[0]) == LOW(data2[0]))'],
           dec='len1 - p1'),
   1: dict(assigns='p1', inv=['p1 <= len1'], dec='len1 - p1')},
   sub='NUL-skipping compare: safety, range, first-byte and length rules')

BW = lambda eq: {'count': 1, 0: dict(assigns='pos', inv=['pos <= len', 'pos <= hlen', '(gk < pos) ==> (%s)' % eq], dec='len - pos')}
HB = 'void HARNESS(void) { const bstr *h; const void *d; size_t l; %s(h, d, l); CANARY(); }'
ro('bstr_begins_with_mem', HB % 'bstr_begins_with_mem', BW('hdata[gk] == data[gk]'), sub='prefix test: 1 iff needle is a prefix')
ro('bstr_begins_with_mem_nocase', HB % 'bstr_begins_with_mem_nocase', BW('LOW(hdata[gk]) == LOW(data[gk])'), sub='case-insensitive prefix test')

HC = 'void HARNESS(void) { const bstr *b; int c; %s(b, c); CANARY(); }'
ro('bstr_chr', HC % 'bstr_chr', {'count': 1, 0: dict(assigns='i', inv=['i <= len', '(gk < i) ==> (data[gk] != c)'], dec='len - i')},
   sub='first occurrence of a byte')
ro('bstr_rchr', HC % 'bstr_rchr', {'count': 1, 0: dict(assigns='i', inv=['i <= len', '(gk >= i && gk < len) ==> (data[gk] != c)'], dec='i')},
   sub='last occurrence of a byte')
HP = 'void HARNESS(void) { const bstr *b; size_t p; %s(b, p); CANARY(); }'
ro('bstr_char_at', HP % 'bstr_char_at', None, min_obl=8, sub='indexed read or -1')
ro('bstr_char_at_end', HP % 'bstr_char_at_end', None, min_obl=8, sub='indexed read from the end or -1')


def idx(eq):
    return {'count': 2,
            0: dict(assigns='i, j', inv=['i <= len1', '(gj < i) ==> NOMATCH(%s, data1, len1, data2, len2, gj)' % eq], dec='len1 - i'),
            1: dict(assigns='j, k', inv=['j <= len2', 'k == i + j', 'k <= len1', 'i < len1',
                                         '(gk < j) ==> %s(data1[i + gk], data2[gk])' % eq], dec='len2 - j')}


ro('bstr_util_mem_index_of_mem', H4 % 'bstr_util_mem_index_of_mem', idx('EQ_EXACT'), timeout=(400, 1200), defs=IDX,
   sub='substring search: hit is a match, no earlier position matches (needle <= 20 bytes, haystack symbolic length)',
   assumes=A + ['needle length 1..20 (longest literal any call site passes is 20); empty needle not claimed', 'haystack <= INT_MAX (int return type)'])
ro('bstr_util_mem_index_of_mem_nocase', H4 % 'bstr_util_mem_index_of_mem_nocase', idx('EQ_NOCASE'), timeout=(400, 1200), defs=IDX,
   sub='case-insensitive substring search, same facts',
   assumes=A + ['needle length 1..20; empty needle not claimed', 'haystack <= INT_MAX (int return type)'])
ro('bstr_util_mem_index_of_mem_nocasenorzero', H4 % 'bstr_util_mem_index_of_mem_nocasenorzero', {'count': 2,
   0: dict(assigns='i, j', inv=['i <= len1'], dec='len1 - i'),
   1: dict(assigns='j, k', inv=['j <= len2', 'k >= i', 'k <= len1', 'i < len1', 'k - i >= j',
                                '(k > i) ==> (j >= 1 && UPP(data1[i]) == UPP(data2[0]))', 'data1[i] != 0'], dec='len1 - k')},
   flags_del=[], sub='NUL-skipping search: safety, hit starts at a non-NUL byte equal (case-folded) to the needle head')

ro('bstr_util_mem_trim', 'void HARNESS(void) { unsigned char **d; size_t *l; bstr_util_mem_trim(d, l); CANARY(); }', {'count': 2,
   0: dict(assigns='pos', inv=['pos <= l', '(gk < pos) ==> ISSP(d[gk])'], dec='l - pos'),
   1: dict(assigns='l', inv=['l <= g_trim_oldlen - pos', 'pos <= g_trim_oldlen',
                             '(pos < g_trim_oldlen) ==> !ISSP(d[0])',
                             '(gk >= pos + l && gk < g_trim_oldlen) ==> ISSP(d[gk - pos])'], dec='l')},
   sub='trim: result is a sub-range, ends are not whitespace, everything removed is whitespace')

ro('bstr_util_mem_to_pint', 'void HARNESS(void) { const void *d; size_t l; int base; size_t *ll; bstr_util_mem_to_pint(d, l, base, ll); CANARY(); }',
   {'count': 1, 0: dict(assigns='i, rval, tflag, *lastlen',
                        inv=['i <= len', 'tflag == 0 || tflag == 1', 'rval >= 0', '(tflag == 0) ==> (i == 0 && rval == 0)',
                             '(i > 0) == (tflag == 1)', '(i >= 2) ==> ISDIG(data[1], base)', '(gk < i) ==> ISDIG(data[gk], base)',
                             '*lastlen == (i == 0 ? 0 : i - 1)',
                             '(i == 1) ==> rval == DIGVAL(data[0])'],
                        dec='len - i')},
   timeout=(900, 1800),
   sub='positive integer parser: no signed wrap on any input of any length (safety obligations on rval*base+d), result >= -2, -1 iff no leading digit, digit-run delimiting by *lastlen, single digit exact',
   assumes=A + ['base in {10,16} (the only bases any call site passes)'])
