from vrun import U

UNITS = []

# --------------------------------------------------------------------------------------------------
# (1) scanner: htp_urlenp_parse_partial, piece handler replaced by the call-logging stub
# --------------------------------------------------------------------------------------------------
SEP = 'urlenp->argument_separator'
ST = 'urlenp->_state'
PP_INV = [
    'pos <= len', 'startpos <= pos', 'g_fp_n <= pos',
    '(pos > 0) ==> (%s == C15_KEY || %s == C15_VALUE)' % (ST, ST),
    # link between the parser's locals and the call log
    '(g_fp_n == 0) ==> (startpos == 0 && %s == g_fp_state0)' % ST,
    '(g_fp_n > 0) ==> (g_fp_last_c != -1 && g_fp_last_end < len && startpos == g_fp_last_end + 1 && %s == C15_NEXT(%s, g_fp_last_c))' % (ST, SEP),
    # the piece under construction contains no delimiter of the current state
    '(startpos <= gj && gj < pos) ==> !C15_DELIM(%s, %s, g_fp_bj)' % (ST, SEP),
    # every logged call obeys the tiling law and was terminated by a delimiter
    '(gk < g_fp_n) ==> (FP_WIT_OK(data, len, g_fp_state0, %s) && g_fp_wit_c != -1)' % SEP,
]
UNITS.append(U(
    name='htp_urlenp_parse_partial', props=['C15', 'C01'], kind='contract', src=['htp_urlencoded.c'],
    enforce='htp_urlenp_parse_partial', replace=['htp_urlenp_add_field_piece/contract_fp_log'],
    contracts_inc=['c15_urlen.h'],
    loops={'htp_urlencoded.c': {'htp_urlenp_parse_partial': {'count': 1, 0: dict(
        assigns='pos, startpos, c, urlenp->_state, urlenp->_name, FP_LOG_ASSIGNS', inv=PP_INV, dec='len - pos')}}},
    harness='void HARNESS(void) { htp_urlenp_t *u; const void *d; size_t l; htp_urlenp_parse_partial(u, d, l); CANARY(); }',
    defs={'quick': {'VCAP': 1024}, 'thorough': {'VCAP': 65536}}, min_obl=40,
    sub='scanner tiles every chunk exactly: successive piece-handler calls (start,end,c) start at 0 / right after the previous delimiter, '
        'end at the FIRST "&" (or "=" while scanning a key), report that byte, last call is (.., len, -1); _state follows KEY -(=)-> VALUE -(&)-> KEY; '
        'any entry state, any separator byte, any chunk length (unbounded, inductive)',
    assumes=['chunk length <= VCAP (symbolic), chunk is a fresh read-only object or NULL',
             'htp_urlenp_add_field_piece replaced by a logging stub whose frame is {urlenp->_name, call log}; the real frame is proved by unit htp_urlenp_add_field_piece',
             'the call log speaks about one chunk; composition over chunks is by the entry-state parameter (any _state) and is checked end-to-end only by the bounded units']))

# --------------------------------------------------------------------------------------------------
# (2) piece handler: htp_urlenp_add_field_piece (static), loop-free once its callees are stubs
# --------------------------------------------------------------------------------------------------
FP_REPLACE = ['bstr_builder_size/contract_c15_bb_size', 'bstr_builder_append_mem/contract_c15_bb_append_mem',
              'bstr_builder_to_str/contract_c15_bb_to_str', 'bstr_builder_clear/contract_c15_bb_clear',
              'bstr_dup_mem/contract_c15_dup_mem', 'bstr_dup_c/contract_c15_dup_c', 'bstr_free/contract_c15_bstr_free',
              'htp_tx_urldecode_params_inplace/contract_c15_decode', 'htp_table_addn/contract_c15_table_addn']
FP_ASSUMES = [
    'builder, allocation, table and decoder callees replaced by counting stubs; every allocating stub may return NULL / HTP_ERROR; string CONTENTS are not modelled (identity and ownership only): contents are the bounded units',
    'entry: _state in {KEY, VALUE}; parser invariant (_name != NULL only in VALUE state); piece = range [startpos,endpos) of a fresh chunk with endpos <= VCAP, or data == NULL with (0,0)',
    'after finalize (_complete == 1) the only call is (NULL, 0, 0, -1), which is what htp_urlenp_finalize does',
    'decoder htp_tx_urldecode_params_inplace replaced by a no-op stub that only logs its argument (decoder = property C12)']
FP_H = 'void HARNESS(void) { htp_urlenp_t *u; const unsigned char *d; size_t s, e; int c; htp_urlenp_add_field_piece(u, d, s, e, c); CANARY(); }'
UNITS.append(U(
    name='htp_urlenp_add_field_piece', props=['C15', 'C01', 'C18'], kind='contract', src=['htp_urlencoded.c'],
    enforce='htp_urlenp_add_field_piece', replace=FP_REPLACE, contracts_inc=['c15_urlen.h'], harness=FP_H, objbits=12,
    defs={'quick': {'VCAP': 1024}, 'thorough': {'VCAP': 65536}}, min_obl=60,
    sub='piece handler transition table over (state, last_char, complete, piece empty, builder empty, key remembered): a pair is reported exactly for a finished value, '
        'a key finished by the separator (even empty) and a final non-empty key; final empty piece dropped; unfinished pieces only buffered; pair = (key, value-or-""), '
        'decoded after the split; frame = {_name}; every string owned exactly once on every allocation-failure path (table insert assumed to adopt)',
    assumes=FP_ASSUMES + ['ownership clause counts a call of htp_table_addn as adoption even if it returns HTP_ERROR; the strict variant is unit htp_urlenp_add_field_piece_oom']))
import os as _os
# informational only: leak-freedom under allocation failure is stricter than C18/C01 as stated (they name double free / use after free);
# the unit documents two genuine OOM leaks (notes/c15.md) and is run on request: C15_OOM=1 ./bin/vcheck --unit htp_urlenp_add_field_piece_oom
if _os.environ.get('C15_OOM'):
  UNITS.append(U(
    name='htp_urlenp_add_field_piece_oom', props=['C18'], kind='contract', src=['htp_urlencoded.c'],
    enforce='htp_urlenp_add_field_piece', replace=FP_REPLACE, contracts_inc=['c15_urlen.h'], harness=FP_H, objbits=12,
    defs={'quick': {'VCAP': 1024, 'C15_STRICT_OOM': 1}, 'thorough': {'VCAP': 65536}}, min_obl=60,
    sub='same contract, strict about allocation failure: a refused table insert adopts nothing (strings must be freed), and the parser invariant '
        '(_name == NULL whenever the scanner moves to KEY) survives a failed field assembly',
    note='FAILS on the unchanged tree by design: two genuine allocation-failure leaks (ignored htp_table_addn result; early return before _name = NULL), native LSan demo in notes/c15.md',
    assumes=FP_ASSUMES))

# --------------------------------------------------------------------------------------------------
# (3) bounded reference equality: the REAL parser (create / parse_partial / finalize / table / builder)
#     against spec/urlen_ref.h, for every body of <= N bytes (all 256 byte values), fed
#       whole | with one symbolic cut | byte by byte
# --------------------------------------------------------------------------------------------------
# CBMC cost model (measured, see notes/c15.md): heap objects of SYMBOLIC size and memcpy of SYMBOLIC length
# send the array theory into a memory explosion (>25 GB at N=2).  The two models below remove exactly that:
# malloc returns an object of the next constant size class >= the request, memcpy is the byte loop.
# Both vanish in native replay (real allocator + ASan).
HEAP_MODEL = r"""
#ifndef VNATIVE
void *malloc(size_t n) {
  void *r;
  if (n <= 64) r = __CPROVER_allocate(64, 0);
  else if (n <= 128) r = __CPROVER_allocate(128, 0);
  else if (n <= 512) r = __CPROVER_allocate(512, 0);
  else { __CPROVER_assert(0, "allocation larger than the modelled size classes"); __CPROVER_assume(0); }
  __CPROVER_bool record_may_leak;
  __CPROVER_memory_leak = record_may_leak ? r : __CPROVER_memory_leak;
  return r;
}
void *memcpy(void *d, const void *s, size_t n) { for (size_t i = 0; i < n; i++) ((unsigned char *) d)[i] = ((const unsigned char *) s)[i]; return d; }
#endif
"""
REF_COMMON = HEAP_MODEL + r"""
/* decode_url_encoding == 0 in these units: the decoder must not be reached (native replay links the real one) */
#ifndef VNATIVE
htp_status_t htp_tx_urldecode_params_inplace(htp_tx_t *tx, bstr *input) { VASSERT(0, "decoder not called when decode_url_encoding == 0"); return HTP_OK; }
#endif
typedef struct { unsigned char a[N]; size_t la; size_t cut; } vin_t;
static void c15_compare(htp_urlenp_t *u, const unsigned char *a, size_t la) {
  ref_pair_t rp[N + 1];
  size_t rn = ref_urlen_split(a, la, '&', rp, N + 1);
  size_t n = htp_table_size(u->params);
  VASSERT(n == rn, "number of reported pairs equals the reference");
  for (size_t i = 0; i < n && i < rn; i++) {
    bstr *k = NULL; bstr *v = htp_table_get_index(u->params, i, &k);
    VASSERT(k != NULL && v != NULL, "pair has a name and a value string");
    if (k == NULL || v == NULL) continue;
    VASSERT(bstr_len(k) == rp[i].nl, "name length equals the reference (in order)");
    VASSERT(bstr_len(v) == rp[i].vl, "value length equals the reference (in order)");
    for (size_t j = 0; j < rp[i].nl && j < bstr_len(k); j++) VASSERT(bstr_ptr(k)[j] == a[rp[i].ns + j], "name bytes equal the reference");
    for (size_t j = 0; j < rp[i].vl && j < bstr_len(v); j++) VASSERT(bstr_ptr(v)[j] == a[rp[i].vs + j], "value bytes equal the reference");
  }
}
"""
REF_FEED = {
    'cutall': None,
    'whole': 'VASSERT(htp_urlenp_parse_partial(u, a, la) == HTP_OK, "parse_partial OK");',
    'cut': 'VASSERT(htp_urlenp_parse_partial(u, a, cut) == HTP_OK, "first chunk OK");\n'
           '  VASSERT(htp_urlenp_parse_partial(u, a + cut, la - cut) == HTP_OK, "second chunk OK");',
    'bytewise': 'for (size_t i = 0; i < la; i++) VASSERT(htp_urlenp_parse_partial(u, a + i, 1) == HTP_OK, "1-byte chunk OK");',
}
REF_FEED['cutall'] = REF_FEED['cut']
# Body length and cut position are ENUMERATED as constants (one inlined run per (len, cut)): with a symbolic length every
# loop iteration of the scanner may be the last one, the builder state becomes symbolic everywhere and symex alone takes
# minutes at N=3; with constant lengths the same N=3 run takes seconds.  The bytes stay symbolic (all 256 values).
REF_H = REF_COMMON + r"""
static void run_case(const unsigned char *a, size_t la, size_t cut) {
  htp_urlenp_t *u = htp_urlenp_create(NULL);
  VASSUME(u != NULL);
  u->decode_url_encoding = 0;
  %s
  VASSERT(htp_urlenp_finalize(u) == HTP_OK, "finalize OK");
  VASSERT(u->_name == NULL && bstr_builder_size(u->_bb) == 0, "nothing left pending after finalize");
  c15_compare(u, a, la);
  htp_urlenp_destroy(u);
}
#define CASE(L, C) if (in.la == (L) && in.cut == (C)) run_case(in.a, (L), (C));
void HARNESS(void) { VIN(vin_t);
  VASSUME(in.la <= N && in.cut <= in.la);
  %s
  CANARY(); }"""


def cases(mode, n):
    if mode == 'cut':       # interior cuts only: both chunks non-empty
        return ' '.join('CASE(%d, %d)' % (l, c) for l in range(n + 1) for c in range(1, l)) + ' VASSUME(in.cut > 0 && in.cut < in.la);'
    if mode == 'cutall':    # every cut position 0..len, including empty first / second chunk
        return ' '.join('CASE(%d, %d)' % (l, c) for l in range(n + 1) for c in range(l + 1))
    return 'VASSUME(in.cut == 0); ' + ' '.join('CASE(%d, 0)' % l for l in range(n + 1))


REF_LINK = ['bstr.c', 'bstr_builder.c', 'htp_table.c', 'htp_list.c']
REF_ASSUMES = ['bounded: every body of length <= N over all 256 byte values; separator "&" (the default), decode_url_encoding = 0 (decoder = property C12)',
               'no allocation failure in these units (--no-malloc-may-fail; under allocation failure pieces are dropped by design; see the _oom units)',
               'parser built by the real htp_urlenp_create(NULL): tx is only used by the decoder',
               'CBMC heap model: malloc returns an object of the next size class (64/128/512 bytes) >= the request and memcpy is a byte loop (symbolic-size objects are intractable); '
               'an out-of-bounds access inside the slack of a size class is not seen by these units; native replay uses the real allocator under ASan']
BLOOPS = 'bstr_builder_to_str.0:%d,bstr_builder_to_str.1:%d,bstr_builder_clear.0:%d,bstr_builder_destroy.0:%d'


def refunit(mode, n, thorough_only, pieces, timeout):
    UNITS.append(U(
        name='ref_urlen_%s_n%d' % (mode, n), props=['C15'], kind='bounded', src=['htp_urlencoded.c'], link=REF_LINK, replay='vin',
        contracts_inc=['urlen_ref.h'], harness=REF_H % (REF_FEED[mode], cases(mode, n)), defs={'quick': {'N': n}},
        flags_add=['--unwind', str(n + 3), '--no-malloc-may-fail', '--memory-leak-check'],
        unwindset=BLOOPS % ((pieces + 1,) * 4),
        flags_del=['--unsigned-overflow-check', '--malloc-may-fail', '--malloc-fail-null'], objbits=12,
        timeout=(timeout, timeout), thorough_only=thorough_only,
        bound='all bodies of length <= %d, all byte values, fed %s' % (n,
              {'whole': 'in one call', 'cut': 'in two non-empty chunks, every interior cut position', 'cutall': 'in two calls with every cut position 0..len (empty chunks included)',
               'bytewise': 'one byte per call'}[mode]),
        sub='real streaming parser + real builder/table == reference split rule (pair count, order, name/value lengths and bytes, empty names and values, final empty piece dropped); '
            'feeding mode: %s; teardown clean (no leak, no double free)' % mode,
        assumes=REF_ASSUMES))


# quick tier: N=2 (every body of <= 2 bytes over all byte values x feeding mode; measured 76 s / ~60 s / 89 s);
# thorough adds N=3/4 (measured: whole 290 s / 760 s) and every cut position including empty chunks (N=2: 317 s)
refunit('whole', 2, False, 1, 600)
refunit('cut', 2, False, 2, 600)
refunit('bytewise', 2, False, 2, 600)
refunit('cutall', 2, True, 2, 1500)
refunit('whole', 3, True, 1, 1500)
refunit('whole', 4, True, 1, 3000)
refunit('cut', 3, True, 2, 3000)
refunit('bytewise', 3, True, 3, 3000)
