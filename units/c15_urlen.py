from vrun import U

UNITS = []

# --------------------------------------------------------------------------------------------------
# (1) scanner: htp_urlenp_parse_partial, piece handler replaced by the call-logging stub
# --------------------------------------------------------------------------------------------------
SEP = 'urlenp->argument_separator'
ST = 'urlenp->_state'
PP_INV = [
    'pos <= len', 'startpos <= pos', 'g_fp_n <= pos',
    '(pos > 0) ==> (%s == C15_KEY || %s == C15_VALUE)' % (ST, ST),
    # link between the parser's locals and the call log
    '(g_fp_n == 0) ==> (startpos == 0 && %s == g_fp_state0)' % ST,
    '(g_fp_n > 0) ==> (g_fp_last_c != -1 && g_fp_last_end < len && startpos == g_fp_last_end + 1 && %s == C15_NEXT(%s, g_fp_last_c))' % (ST, SEP),
    # the piece under construction contains no delimiter of the current state
    '(startpos <= gj && gj < pos) ==> !C15_DELIM(%s, %s, data[gj])' % (ST, SEP),
    # every logged call obeys the tiling law and was terminated by a delimiter
    '(gk < g_fp_n) ==> (FP_WIT_OK(data, len, g_fp_state0, %s) && g_fp_wit_c != -1)' % SEP,
]
UNITS.append(U(
    name='htp_urlenp_parse_partial', props=['C15', 'C01'], kind='contract', src=['htp_urlencoded.c'],
    enforce='htp_urlenp_parse_partial', replace=['htp_urlenp_add_field_piece/contract_fp_log'],
    contracts_inc=['c15_urlen.h'],
    loops={'htp_urlencoded.c': {'htp_urlenp_parse_partial': {'count': 1, 0: dict(
        assigns='pos, startpos, c, urlenp->_state, urlenp->_name, FP_LOG_ASSIGNS', inv=PP_INV, dec='len - pos')}}},
    harness='void HARNESS(void) { htp_urlenp_t *u; const void *d; size_t l; htp_urlenp_parse_partial(u, d, l); CANARY(); }',
    defs={'quick': {'VCAP': 1024}, 'thorough': {'VCAP': 65536}}, min_obl=40,
    sub='scanner tiles every chunk exactly: successive piece-handler calls (start,end,c) start at 0 / right after the previous delimiter, '
        'end at the FIRST "&" (or "=" while scanning a key), report that byte, last call is (.., len, -1); _state follows KEY -(=)-> VALUE -(&)-> KEY; '
        'any entry state, any separator byte, any chunk length (unbounded, inductive)',
    assumes=['chunk length <= VCAP (symbolic), chunk is a fresh read-only object or NULL',
             'htp_urlenp_add_field_piece replaced by a logging stub whose frame is {urlenp->_name, call log}; the real frame is proved by unit htp_urlenp_add_field_piece',
             'the call log speaks about one chunk; composition over chunks is by the entry-state parameter (any _state) and is checked end-to-end only by the bounded units']))
