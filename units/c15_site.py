"""C15 / C12 - the decoder call sites: which configuration, which decoding context, whose flags."""
from vrun import U

UNITS = []
for _fn, _ctx in (('htp_tx_urldecode_params_inplace', 'URLENCODED (parameters of the query string and of the urlencoded body)'), ('htp_tx_urldecode_uri_inplace', 'URL_PATH (user, password, host name of the target)')):
    UNITS.append(U(name=_fn, props=['C15', 'C12', 'C19', 'C01'], kind='contract', src=['htp_util.c'], enforce=_fn,
                   replace=['htp_urldecode_inplace_ex/contract_c15_site_urldecode_ex'], contracts_inc=['c15_site.h'],
                   harness='void HARNESS(void) { htp_tx_t *t; bstr *b; %s(t, b); CANARY(); }' % _fn, defs={'quick': {}}, min_obl=10,
                   sub='the decoder is entered exactly once with the configuration of THIS transaction (tx->cfg; a transaction may have its own through htp_tx_set_config, tx->connp->cfg is left unrelated), '
                       'in the context %s, on the caller\'s string, reporting into this transaction\'s flags and expected status; flags only grow; the decoder\'s answer is returned' % _ctx,
                   assumes=['htp_urldecode_inplace_ex replaced by a logging stub (the decoder itself: units htp_urldecode_inplace_ex and the C12 reference units)']))
