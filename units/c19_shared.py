"""C19 - no state leaks between connections: process-wide resources that parsers sharing a configuration could interfere through.
(The configuration itself: frame obligations of the contract units + the const-typedef scan in lib/vmain.py; static storage: the nm scan.)"""
from vrun import U

UNITS = []

UNITS.append(U(name='c19_mpart_part_destroy_no_close', props=['C19', 'C01'], kind='contract', src=['htp_multipart.c'], enforce='htp_mpart_part_destroy',
               replace=['close/contract_never_close', 'unlink/contract_c19_unlink', 'bstr_free/contract_c19_bstr_free_null', 'htp_table_size/contract_c19_never_table_size',
                        'htp_table_get_index/contract_c19_never_table_get_index', 'htp_table_destroy/contract_c19_never_table_destroy'], contracts_inc=['c19_shared.h'],
               loops={'htp_multipart.c': {'htp_mpart_part_destroy': {'count': 1, 0: dict(assigns='i, h', inv=['i <= n'], dec='n - i')}}},
               harness='void HARNESS(void) { htp_multipart_part_t *p; int g; htp_mpart_part_destroy(p, g); CANARY(); }', defs={'quick': {}}, min_obl=20,
               sub='htp_mpart_part_destroy on a FILE part (finished or cut short, any descriptor value): the descriptor is never handed to close() here - it is released where the upload ends '
                   '(htp_mpart_part_finalize_data), so no descriptor NUMBER is released twice by one parser and no other connection\'s file can be closed through a recycled number; '
                   'part, file record and temp name freed once; frame: nothing else written',
               assumes=['close() replaced by a stub whose precondition is FALSE (any call is a violation), unlink() by a frame stub', 'part without name / value / content type / headers (header loop closed by a loop contract but not entered)',
                        'NOT demanded: that the descriptor of a part cut short is closed at all (the unchanged library never closes it: a descriptor leak, outside the listed properties)']))
