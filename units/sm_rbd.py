from vrun import U

# Response framing decision (htp_connp_RES_BODY_DETERMINE) under contract: contracts/sm_rbd.h, ghosts GHOSTS_SM_RBD in contracts/ghost_sm.h.
UNITS = []
D = {'quick': {'CHUNK_CAP': 4096, 'RBD_VALCAP': 16}, 'thorough': {'CHUNK_CAP': 1048576, 'RBD_VALCAP': 32}}
R = ['htp_table_get_c', 'htp_parse_content_length', 'bstr_index_of_c_nocasenorzero', 'bstr_cmp_c_nocase', 'bstr_index_of_c_nocase', 'bstr_dup_lower',
     'bstr_adjust_len', 'htp_is_space', 'htp_table_size', 'htp_table_get_index', 'bstr_free', 'free', 'htp_table_clear', 'htp_tx_state_response_headers']
A = ['chunk length <= CHUNK_CAP (symbolic); stream offset and message length <= 2^62 on entry (shared cursor precondition CUR_OUT / TX_OUT of the state-machine layer); a real chunk (no gap)',
     'state facts on entry: out_state == RES_BODY_DETERMINE, out_status not STOP/ERROR, a response transaction is attached with tx->connp == connp, '
     'response_progress == HTP_RESPONSE_HEADERS (the only transition into this state, htp_response.c:899-903, is taken under that test)',
     '0 <= tx->seen_100continue < INT_MAX on entry (an int counter incremented per interim response: at INT_MAX the increment is a signed overflow; not excluded by the code)',
     'every callee replaced by a stub that answers with an unconstrained prophecy ghost: htp_table_get_c (each of Content-Length, Transfer-Encoding, Content-Type among the response headers and '
     'Expect among the request headers present or absent independently; the stub insists on the right table), htp_parse_content_length (any value in the range its own unit proves: >= -2, -1001, -1003; '
     'modelled as a deterministic function of the header value: the same answer at both call sites), bstr_index_of_c_nocasenorzero / bstr_index_of_c_nocase / bstr_cmp_c_nocase (any int, one ghost per call site; '
     'the stubs insist on the right header value and needle), bstr_dup_lower (NULL or a fresh string of the same length), bstr_adjust_len, htp_is_space (exact), htp_log',
     'header values are inline bstrs of capacity RBD_VALCAP (16 quick / 32 thorough)',
     '100-continue release loop: htp_table_size (any size_t, NOT bounded), htp_table_get_index (a fresh live header per call with live, distinct name and value strings), bstr_free, htp_table_clear '
     'replaced by call-logging stubs that also check the protocol at every call site (index == number of headers fetched so far; a string is released only if it belongs to the header fetched last, '
     'that header is still live and the string was not released before; the next fetch and the clear only after header, name and value of every earlier fetch were released)',
     'free() is REPLACED by a logging stub as well (argument must be the header fetched last, is_freeable, not released yet): CBMC 6.11 dfcc creates loop write sets with allow_deallocate = false, '
     'so the built-in free fails "ptr is freeable" inside any loop closed by a loop contract, whatever it is handed; consequence: the header object is not actually deallocated in the model, '
     'so a use of h AFTER free(h) inside this function would not be seen (there is none: free(h) is the last statement of the loop body)',
     'htp_tx_state_response_headers replaced by a stub with the frame of the real function (content-coding fields of tx, out_decompressor, out_data_receiver_hook, out_current_receiver_offset; '
     'as in its written contract in c05_life.h) and any result in {OK, STOP, ERROR}: RESPONSE_HEADERS callbacks are assumed not to write out_state, the stream states, the framing fields or tx->flags, '
     'and to return OK/DECLINED/STOP/ERROR only',
     'out_current_receiver_offset IS in the frame (the real transition flushes the raw-data receiver); the read / consume / stream offsets and the chunk pointer and length are not']

UNITS.append(U(name='htp_connp_RES_BODY_DETERMINE', props=['C16', 'C06', 'C11', 'C05', 'C09', 'C01'], kind='contract', src=['htp_response.c'],
               enforce='htp_connp_RES_BODY_DETERMINE', replace=['%s/contract_rbd_%s' % (f, f) for f in R] + ['htp_log'], contracts_inc=['sm_rbd.h'],
               loops={'htp_response.c': {'htp_connp_RES_BODY_DETERMINE': {'count': 2,
                   # release of every stored header before the restart
                   0: dict(assigns='i, h, g_rbd_getidx_n, g_rbd_relname_n, g_rbd_relval_n, g_rbd_hfree_n, g_rbd_last_h, g_rbd_last_name, g_rbd_last_value',
                           inv=['i <= n', 'n == g_rbd_hn', 'g_rbd_getidx_n == i', 'g_rbd_relname_n == i', 'g_rbd_relval_n == i', 'g_rbd_hfree_n == i', 'g_rbd_tclear_n == 0'],
                           dec='n - i'),
                   # content-type parameter scan
                   1: dict(assigns='newlen, connp->out_tx->response_content_type->len',
                           inv=['newlen <= len', 'connp->out_tx->response_content_type->len <= len'],
                           dec='len - newlen')}}},
               harness='void HARNESS(void) { htp_connp_t *c; htp_connp_RES_BODY_DETERMINE(c); CANARY(); }',
               defs=D, min_obl=100, timeout=(300, 900), solver='--sat-solver cadical',
               sub='response framing decision as a table over (request method, status, T-E / C-L / C-T / Expect present, parser answers): '
                   'C16 accepted CONNECT => wrap up and wait, stream states untouched; refused CONNECT => request side unblocked (+ stop at tx end unless 407); 101 without T-E/C-L => both directions TUNNEL; '
                   'out_status written nowhere else. C06/C11: HEAD and bodiless 1xx/204/304 => NO_BODY + FINALIZE; chunked T-E => CHUNKED_LENGTH, C-L next to it => SMUGGLING; else C-L => IDENTITY with '
                   'out_content_length == out_body_data_left == response_content_length == parsed value, > 0 => CL_KNOWN (exactly its entry requirement), == 0 => FINALIZE, < 0 => ERROR, repeated C-L => SMUGGLING; '
                   'else multipart/byteranges => ERROR, otherwise close-delimited with -1 owed; flags only grow and only SMUGGLING is raised. '
                   'C05: the 100-continue restart (every header fetched once; name, value and the header itself released once each; then the table cleared once, RES_LINE, progress LINE, counter +1, no RESPONSE_HEADERS) and nowhere else does progress move back. '
                   '4xx + Expect: 100-continue with the request body not started => in_state REQ_FINALIZE, in_state unchanged otherwise. C09: shared state contract, cursor not in the frame; both loops terminate',
               assumes=A))
