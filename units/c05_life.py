"""C05 - transaction lifecycle: the htp_tx_state_* transitions, htp_tx_finalize, htp_tx_is_complete, htp_tx_destroy
enforced against contracts/c05_life.h with htp_hook_run_all replaced by an event-logging stub (notes/c05.md)."""
import os
from vrun import U

UNITS = []
INC = ['c05_life.h']
P = ['C05', 'C01']
A = ['htp_hook_run_all replaced by a logging stub: user callbacks are outside the proof, return any of OK/STOP/ERROR (DECLINED is folded into OK by the real runner) and do not write parser or transaction state',
     'every hook slot of the configuration holds a registered hook (ten distinct non-NULL identities); an empty (NULL) slot delivers nothing and satisfies order / at-most-once trivially',
     'history counters g_cnt_* < 4 on entry (no wrap within one call); progress indicators within their enumerations (0..5)']
HOOK = 'htp_hook_run_all/contract_c05_hook_run_all'
RFCLR = 'htp_connp_req_receiver_finalize_clear/contract_c05_req_fclr'
SFCLR = 'htp_connp_res_receiver_finalize_clear/contract_c05_res_fclr'
RSINK = 'htp_tx_req_process_body_data_ex/contract_c05_req_sink'
SSINK = 'htp_tx_res_process_body_data_ex/contract_c05_res_sink'
DESTROY = 'htp_tx_destroy_incomplete/contract_c05_destroy_incomplete'
A_FCLR = 'receiver finalisation (htp_connp_re[qs]_receiver_finalize_clear, raw header/trailer data callbacks) replaced by a logging stub: any of OK/STOP/ERROR, clears the receiver'
A_SINK = 'body sink replaced by a logging stub (OK or ERROR, call and arguments logged in the same event sequence); the sinks themselves are enforced by units htp_tx_re[qs]_process_body_data_ex (C06)'
A_DESTROY = 'htp_tx_destroy_incomplete replaced by a stub that frees the transaction and detaches it from in_tx/out_tx (htp_connp_tx_remove); teardown itself is C01/C18'
A_PUT = 'no PUT file pending (connp->put_file == NULL): the cleanup branch (bstr_free + free) blows up the SAT encoding (> 240 s) and belongs to teardown (C18)'
A_SITE_IN = 'call-site fact: the parser calls this function with tx == connp->in_tx (htp_request.c:360,867,890,915,1084; htp_response.c:1214); hybrid-mode user calls are not covered'
A_SITE_OUT = 'call-site fact: the parser calls this function with tx == connp->out_tx (htp_response.c:1142,1165,1185,1349); hybrid-mode user calls are not covered'


def tx(fn, sub, replace=(), assumes=(), args='t', decl='htp_tx_t *t;', **kw):
    UNITS.append(U(name=fn, props=P, kind='contract', src=['htp_transaction.c'], enforce=fn, replace=list(replace), contracts_inc=INC,
                   harness='void HARNESS(void) { %s %s(%s); CANARY(); }' % (decl, fn, args), min_obl=30, sub=sub,
                   assumes=A + list(assumes), **kw))


tx('htp_tx_state_request_start', 'REQUEST_START is the only event, exactly once, for this tx; progress NOT_STARTED/LINE -> LINE on OK, untouched on refusal; refusal returned',
   [HOOK], [A_SITE_IN, 'request_progress <= LINE on entry (REQ_IDLE calls it right after creating the transaction)'])
tx('htp_tx_state_request_line', 'URI_NORMALIZE then REQUEST_LINE, each at most once, LINE only after NORMALIZE succeeded; refusal returned at once; progress untouched',
   [HOOK, 'htp_parse_uri_hostport/contract_c05_parse_uri_hostport', 'htp_parse_uri/contract_c05_parse_uri', 'htp_uri_alloc',
    'htp_normalize_parsed_uri/contract_c05_normalize_parsed_uri', 'htp_validate_hostname/contract_c05_validate_hostname'],
   [A_SITE_IN, 'URI parsing / normalisation replaced by frame-only stubs (C12, C13 carry them)'])
tx('htp_tx_state_request_headers', 'headers phase: header post-processing (ends with REQUEST_HEADERS) once, never the trailer hook; trailer phase: REQUEST_TRAILER once then receiver flush; before the request line: refused, nothing delivered; progress untouched',
   [HOOK, RFCLR, 'htp_tx_process_request_headers/contract_c05_prh', 'htp_log'],
   [A_SITE_IN, A_FCLR, 'htp_tx_process_request_headers replaced by a frame-only logging stub (no progress / in_tx / out_tx assignment in htp_transaction.c:361-590; C11 carries its content)'])
tx('htp_tx_state_request_complete_partial', 'end-of-body marker (NULL,0) to the sink BEFORE REQUEST_COMPLETE, then receiver flush; refusal at any step returned at once; REQUEST_COMPLETE delivered => progress COMPLETE',
   [HOOK, RSINK, RFCLR], [A_SINK, A_FCLR, 'entered with request_progress != COMPLETE (its only caller htp_tx_state_request_complete guards it)', A_PUT], link=['bstr.c'])
tx('htp_tx_state_request_complete', 'REQUEST_COMPLETE (and the end marker) delivered iff progress was not COMPLETE on entry => at most once over any history; OK => in_tx == NULL and request side idle; TRANSACTION_COMPLETE only when both sides complete, after REQUEST_COMPLETE, then destruction only with tx_auto_destroy; given INV_RES the delivered transaction is attached to neither side (K)',
   [HOOK, RSINK, RFCLR, DESTROY], [A_SITE_IN, A_SINK, A_FCLR, A_DESTROY, A_PUT,
                                   'INV_RES on entry: a response-complete transaction is not attached as out_tx. NOT re-established by htp_tx_state_response_complete_ex on its DATA_OTHER return: known finding F4 (notes/c05.md)'],
   link=['bstr.c'])
tx('htp_tx_finalize', 'TRANSACTION_COMPLETE runs iff both progress indicators are COMPLETE, first and once; refusal returned, nothing destroyed; htp_tx_destroy only after a successful callback and only with cfg->tx_auto_destroy; otherwise nothing changes',
   [HOOK, DESTROY], [A_DESTROY])
tx('htp_tx_destroy', 'the public destructor refuses an incomplete transaction (ERROR, nothing touched) and destroys a complete one exactly once', [DESTROY], [A_DESTROY])
UNITS.append(U(name='htp_tx_is_complete', props=P, kind='contract', src=['htp_transaction.c'], enforce='htp_tx_is_complete', contracts_inc=INC,
               harness='void HARNESS(void) { htp_tx_t *t; htp_tx_is_complete(t); CANARY(); }', min_obl=5,
               sub='complete == both progress indicators are COMPLETE (-1 for NULL); reads only', assumes=[]))
tx('htp_tx_state_response_start', 'transaction attached as out_tx before RESPONSE_START, which is the only event, exactly once; progress NOT_STARTED/LINE -> LINE (BODY after HTTP/0.9) on OK, untouched on refusal',
   [HOOK, 'htp_log'], ['response_progress <= LINE on entry (RES_IDLE calls it for the transaction it has just picked)'])
tx('htp_tx_state_response_line', 'RESPONSE_LINE is the only event, exactly once, its result is returned; progress untouched', [HOOK, 'htp_log'])
tx('htp_tx_state_response_complete_ex', 'RESPONSE_COMPLETE (and the end marker) delivered iff progress was not COMPLETE on entry => at most once over any history; the two DATA_OTHER yields happen before finalisation and leave out_tx attached; OK => out_tx == NULL and RES_IDLE; TRANSACTION_COMPLETE only when both sides complete, after RESPONSE_COMPLETE, refusal returned; given INV_REQ the delivered transaction is attached to neither side (K)',
   [HOOK, SSINK, SFCLR, DESTROY], [A_SITE_OUT, A_SINK, A_FCLR, A_DESTROY,
                                   'KNOWN_F_C05_TXCOMPLETE_TWICE defined: INV_RES is claimed on return only for HTP_OK, not for HTP_DATA_OTHER (known finding F4, notes/c05.md); run with C05_STRICT=1 for the failing obligation'],
   args='t, h', decl='htp_tx_t *t; int h;')

# F4: the same contract without the weakening.  Not part of the default set: it FAILS on the unchanged tree
# (post-condition INV_RES for the return value HTP_DATA_OTHER, htp_transaction.c:1240 and 1248).
if os.environ.get('C05_STRICT'):
    u = dict(UNITS[-1])
    u['name'] = 'htp_tx_state_response_complete_ex_strict'
    u['defs'] = {'quick': {'C05_STRICT': 1}}
    u['sub'] = 'F4: INV_RES (response complete ==> detached from out_tx) after the DATA_OTHER yields - expected to FAIL'
    UNITS.append(u)

# NOT DELIVERED: htp_tx_state_response_headers.  With every callee stubbed and the Content-Encoding tokenizer loop unwound
# (layer limit 1..2) CBMC does not finish within 240 s (object_bits 12 needed, then SAT encoding blow-up in the
# decompressor-chain loop).  The contract is in c05_life.h; enable with C05_EXPERIMENTAL=1 to retry.
if os.environ.get('C05_EXPERIMENTAL'):
    tx('htp_tx_state_response_headers', 'raw header data flushed, then RESPONSE_HEADERS exactly once for this tx; refusal of either returned at once (no decompressor set-up after it); progress untouched',
       [HOOK, SFCLR, 'htp_log', 'htp_table_get_c/contract_c05_table_get_c', 'bstr_cmp_c_nocasenorzero/contract_c05_any_cmp_c',
        'bstr_util_mem_index_of_c_nocase/contract_c05_any_index_of', 'bstr_util_cmp_mem/contract_c05_any_cmp_mem',
        'htp_gzip_decompressor_create/contract_c05_decompressor_create', 'htp_tx_res_destroy_decompressors', 'get_token/contract_c05_get_token'],
       [A_FCLR, 'header lookup, string comparisons, tokenizer and decompressor creation replaced by frame-only stubs returning arbitrary values (C07 / C17 carry them)',
        'the Content-Encoding tokenizer loop is NOT closed by a loop contract (its heap-growing decompressor chain has no SAT-expressible invariant): it is unwound completely (4 iterations, unwinding assertion) under the precondition 1 <= cfg->response_decompression_layer_limit <= 2 (library default 2; 0 = unlimited excluded)'],
       unwindset='htp_tx_state_response_headers_wrapped_for_contract_checking.0:4', expect_loops_closed=False, objbits=12)
