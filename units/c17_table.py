from vrun import U

UNITS = []
D = {'quick': {'LCAP': 16}, 'thorough': {'LCAP': 128}}
A = ['table capacity (list max_size) <= LCAP slots, all ring positions symbolic',
     'key comparator replaced by a call-logging stub with arbitrary result: the first-match law is proved for every comparator; that the comparator is the case-insensitive compare is the bstr units']


def getu(fn, cmp, args, call):
    body = {'count': 1, 0: dict(
        assigns='i, CMP_LOG_ASSIGNS',
        inv=['n == table->list.current_size', 'n <= table->list.max_size', 'g_cmp_n <= n / 2', 'i == 2 * g_cmp_n', 'i <= n', '(g_cmp_n > 0) ==> (g_last_res != 0)',
             '(gk < g_cmp_n) ==> (g_wit_key == VIEW(TL(table), 2 * gk) && g_wit_res != 0)',
             '(g_cmp_n > 0) ==> (g_last_key == VIEW(TL(table), 2 * (g_cmp_n - 1)))'],
        dec='n - i')}
    # which comparison a getter uses is part of its meaning (htp_table_get_c must skip NUL bytes of stored keys: that is how a header name with an embedded NUL is still found):
    # the right comparator is replaced by the call-logging stub, every other bstr comparison by a stub that requires false
    others = [c for c in ('bstr_cmp_nocase', 'bstr_cmp_c_nocasenorzero', 'bstr_cmp_mem_nocase', 'bstr_cmp_c_nocase', 'bstr_cmp', 'bstr_cmp_c', 'bstr_cmp_mem') if c != cmp]
    keep = ' '.join('(void) &%s;' % c for c in [cmp] + others)
    UNITS.append(U(name=fn, props=['C17', 'C01'], kind='contract', src=['htp_table.c', 'htp_list.c'], enforce=fn,
                   replace=[cmp] + ['%s/contract_wrongcmp_%s' % (c, c) for c in others], contracts_inc=['c17_table.h'], loops={'htp_table.c': {fn: body}},
                   harness='void HARNESS(void) { %s %s; %s; CANARY(); }' % (keep, args, call), defs=D, min_obl=50, assumes=A + ['the getter\'s own comparator is %s; a call of any other bstr comparison fails a requires(false) stub' % cmp],
                   sub='lookup returns the element paired with the FIRST key for which the comparator returns 0, NULL if none (law over the comparator call log); real htp_list_array_get/size bodies included'))


getu('htp_table_get', 'bstr_cmp_nocase', 'const htp_table_t *t; const bstr *k', 'htp_table_get(t, k)')
getu('htp_table_get_c', 'bstr_cmp_c_nocasenorzero', 'const htp_table_t *t; const char *k', 'htp_table_get_c(t, k)')
getu('htp_table_get_mem', 'bstr_cmp_mem_nocase', 'const htp_table_t *t; const void *k; size_t n', 'htp_table_get_mem(t, k, n)')

UNITS.append(U(name='htp_table_get_index', props=['C17', 'C01'], kind='contract', src=['htp_table.c', 'htp_list.c'], enforce='htp_table_get_index',
               contracts_inc=['c17_table.h'], harness='void HARNESS(void) { const htp_table_t *t; size_t i; bstr **k; htp_table_get_index(t, i, k); CANARY(); }',
               defs=D, min_obl=30, assumes=A[:1], sub='indexed pair access in insertion order, NULL beyond the last pair'))
UNITS.append(U(name='htp_table_size', props=['C17', 'C01'], kind='contract', src=['htp_table.c', 'htp_list.c'], enforce='htp_table_size',
               contracts_inc=['c17_table.h'], harness='void HARNESS(void) { const htp_table_t *t; htp_table_size(t); CANARY(); }',
               defs=D, min_obl=10, assumes=A[:1], sub='size = number of pairs'))
TADD_H = '''
static void add_case(size_t first, size_t cs, int mode, const bstr *k, const void *e, int which) {
  htp_table_t *t = malloc(sizeof(*t)); if (t == NULL) return;
  htp_list_array_t *l = &t->list;
  l->elements = malloc(LMAX * sizeof(void *)); if (l->elements == NULL) { free(t); return; }
  void *init[LMAX]; for (int i = 0; i < LMAX; i++) l->elements[i] = init[i];
  l->first = first; l->current_size = cs; l->max_size = LMAX;
  l->last = LIST_POS(l, cs == LMAX ? 0 : cs);
  t->alloc_type = mode;
  void *o_view = VIEW(l, gk);
  htp_status_t rc = which == 0 ? htp_table_addn(t, k, e) : which == 1 ? htp_table_addk(t, k, e) : htp_table_add(t, k, e);
  enum htp_table_alloc_t want = which == 0 ? HTP_TABLE_KEYS_ADOPTED : which == 1 ? HTP_TABLE_KEYS_REFERENCED : HTP_TABLE_KEYS_COPIED;
  VASSERT(rc == HTP_OK || rc == HTP_ERROR, "add returns OK or ERROR");
  if (rc == HTP_OK) {
    VASSERT(ADD_POST_OK(t, cs, o_view, which == 2 ? NULL : k, e), "add OK: exactly one (key, element) pair appended at the end, earlier pairs untouched");
    VASSERT(t->alloc_type == want && (mode == HTP_TABLE_KEYS_ALLOC_UKNOWN || mode == (int) want), "key-ownership mode fixed by the first add");
    VASSERT(WF_LIST_FIELDS(l) && l->current_size % 2 == 0, "table invariant preserved");
    if (which == 2) { bstr *dk = VIEW(l, cs); VASSERT(dk != k && bstr_len(dk) == bstr_len(k), "htp_table_add stores a copy of the key"); free(dk); }
  } else {
    VASSERT(ADD_POST_ERR(t, cs, o_view), "failed add leaves the view unchanged (a failed second push pops the key again)");
    VASSERT(WF_LIST_FIELDS(l), "list invariant preserved on failure");
  }
  if (mode != HTP_TABLE_KEYS_ALLOC_UKNOWN && mode != (int) want) VASSERT(rc == HTP_ERROR && t->alloc_type == mode, "a table using another key mode refuses");
  free(l->elements); free(t);
}
#define C(f) if (first == (f)) { add_case((f), cs, mode, k, e, WHICH); }
void HARNESS(void) { size_t first, cs; int mode; const void *e;
  bstr *k = bstr_alloc(2); if (k == NULL) return; k->len = 2;
  VASSUME(first < LMAX && cs <= LMAX && cs % 2 == 0 && gk < LMAX && mode >= 0 && mode <= 3);
  CASES
  free(k);
  CANARY(); }'''
for _w, _fn in ((0, 'htp_table_addn'), (1, 'htp_table_addk'), (2, 'htp_table_add')):
  for _m, _t in ((2, 0), (4, 1)):
    UNITS.append(U(name='%s_cap%d' % (_fn, _m), props=['C17', 'C01', 'C18'], kind='lemma', src=['htp_table.c', 'htp_list.c', 'bstr.c'],
                   contracts_inc=['c17_table.h'], harness=TADD_H.replace('CASES', ' '.join('C(%d)' % f for f in range(_m))),
                   defs={'quick': {'LCAP': 64, 'LMAX': _m, 'WHICH': _w}}, min_obl=100, thorough_only=bool(_t), timeout=(400, 1200),
                   flags_add=['--unwind', str(2 * _m + 1), '--unwinding-assertions', '--memory-leak-check'],
                   sub='%s on the REAL code (real list push/pop): one pair appended at the end, earlier pairs untouched, failed second push pops the key, key-ownership modes mutually exclusive, no leak or double free under any allocation failure; list capacity %d, every head position enumerated' % (_fn, _m),
                   assumes=['list capacity and head position enumerated as constants (capacity 2; thorough adds 4): CBMC mis-models symbolic-length memcpy into pointer arrays']))

UNITS.append(U(name='htp_table_clear', props=['C17', 'C18', 'C01'], kind='contract', src=['htp_table.c', 'htp_list.c'], enforce='htp_table_clear',
               replace=['bstr_free/contract_c17log_bstr_free'], contracts_inc=['c17_table.h'],
               loops={'htp_table.c': {'htp_table_clear': {'count': 1, 0: dict(
                   assigns='i, key, g_cmp_n, g_last_key, g_last_res, g_wit_key, g_wit_res',
                   inv=['i % 2 == 0 && i <= n', 'g_cmp_n == i / 2', '(2 * gk < i) ==> g_wit_key == VIEW(&table->list, 2 * gk)'], dec='n - i')}}},
               harness='void HARNESS(void) { htp_table_t *t; htp_table_clear(t); CANARY(); }', defs=D, min_obl=30,
               sub='clearing: a table that owns its keys (copied / adopted) hands every key - and only keys, in pair order, one call per pair - to bstr_free; a referencing table frees nothing; '
                   'the table is empty afterwards and keeps storage and policy',
               assumes=A[:1] + ['bstr_free replaced by a call-logging stub (the release itself is free(); double-free obligations are in the C18 ownership units)']))
UNITS.append(U(name='htp_table_clear_ex', props=['C17', 'C18', 'C01'], kind='contract', src=['htp_table.c', 'htp_list.c'], enforce='htp_table_clear_ex', replace=['bstr_free/contract_c17log_bstr_free'],
               contracts_inc=['c17_table.h'], harness='void HARNESS(void) { htp_table_t *t; htp_table_clear_ex(t); CANARY(); }', defs=D, min_obl=10,
               sub='clear_ex empties the table and releases no key (the stub of bstr_free is not in the frame)', assumes=A[:1]))
