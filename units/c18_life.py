"""C18 / C01 / C10 / C02 - connection parser, connection and transaction LIFE CYCLE: creation ; use ; the REAL teardown.

Same method as units/c18_alloc.py: plain harnesses on the real functions, every malloc/calloc/realloc/strdup may fail
independently (--malloc-may-fail --malloc-fail-null), obligations = pointer checks of everything that runs (double free,
use after free, invalid free, NULL dereference) + --memory-leak-check (C01: "after the parser ... are destroyed no memory
allocated by the library remains reachable or leaked", C10: destroy frees all) + VASSERTs from the property text.
"""
import os
from vrun import U

UNITS = []
P = ['C18', 'C01', 'C10']
INC = ['c18_alloc.h', 'c18_life.h']
TXLINK = ['htp_transaction.c', 'htp_urlencoded.c', 'htp_table.c', 'htp_list.c', 'bstr.c', 'bstr_builder.c', 'htp_connection.c',
          'htp_util.c', 'htp_multipart.c', 'htp_hooks.c', 'htp_config.c', 'htp_decompressors.c']
CLINK = ['htp_connection.c', 'htp_list.c', 'htp_transaction.c', 'htp_decompressors.c', 'bstr.c']
A0 = 'every malloc/calloc/realloc/strdup may fail independently; the obligations are the pointer checks of every function that runs (creation AND the real teardown) plus the leak check at the end'


def lem(name, src, harness, sub, assumes, defs=None, unwind=8, leak=True, kind='lemma', props=P, **kw):
    d = {'quick': dict(defs or {})}
    fl = ['--unwind', str(unwind), '--unwinding-assertions'] + (['--memory-leak-check'] if leak else [])
    kw.setdefault('min_obl', 50)
    kw.setdefault('timeout', (300, 900))
    UNITS.append(U(name=name, props=props, kind=kind, src=src, contracts_inc=INC, harness=harness, defs=d,
                   flags_add=fl + list(kw.pop('flags_add', [])), sub=sub, assumes=[A0] + list(assumes), **kw))


# ======================================================================================================================
# 1. htp_connp_create ; [htp_connp_open] ; htp_connp_destroy_all
# ======================================================================================================================
NEVER_TX = ['--replace-calls', 'htp_tx_destroy_incomplete:life_never_tx_destroy']
CONNP_H = r'''
void life_never_tx_destroy(htp_tx_t *tx) { VASSERT(0, "a connection without transactions destroys no transaction"); }
void HARNESS(void) {
  static htp_cfg_t life_cfg; int lvl; life_cfg.log_level = lvl;     /* any log level: the refused second open may or may not leave a message */
  htp_connp_t *connp = htp_connp_create(&life_cfg);
  if (connp != NULL) {
    VASSERT(connp->cfg == &life_cfg && connp->conn != NULL, "created: configuration attached, connection present");
    VASSERT(connp->in_status == HTP_STREAM_NEW && connp->out_status == HTP_STREAM_NEW, "created: both streams NEW");
    VASSERT(connp->in_state == htp_connp_REQ_IDLE && connp->out_state == htp_connp_RES_IDLE, "created: both directions idle");
    VASSERT(connp->in_tx == NULL && connp->out_tx == NULL && connp->in_buf == NULL && connp->out_buf == NULL && connp->in_header == NULL && connp->out_header == NULL, "created: owns nothing else");
    VASSERT(htp_list_size(connp->conn->transactions) == 0 && htp_list_size(connp->conn->messages) == 0, "created: no transaction, no message");
    int do_open, twice; char ca[4], sa[4]; int has_c, has_s, has_ts, cp, sp; htp_time_t ts;
    ca[3] = 0; sa[3] = 0;
    if (do_open) {
      htp_connp_open(connp, has_c ? ca : NULL, cp, has_s ? sa : NULL, sp, has_ts ? &ts : NULL);
      VASSERT((connp->in_status == HTP_STREAM_OPEN) == (connp->out_status == HTP_STREAM_OPEN), "open: both streams or none");
      VASSERT(connp->in_status == HTP_STREAM_OPEN || connp->in_status == HTP_STREAM_NEW, "open: OPEN, or still NEW when an address copy failed");
      if (connp->in_status == HTP_STREAM_OPEN) VASSERT((connp->conn->client_addr != NULL) == (has_c != 0) && (connp->conn->server_addr != NULL) == (has_s != 0), "open: both addresses copied");
      if (connp->in_status == HTP_STREAM_NEW) VASSERT(connp->conn->client_addr == NULL && connp->conn->server_addr == NULL, "failed open: no address kept");
      if (twice) {                                            /* a second open: refused when open (logged), retried when the first one failed */
        char *c0 = connp->conn->client_addr, *s0 = connp->conn->server_addr; int was_open = connp->in_status == HTP_STREAM_OPEN;
        htp_connp_open(connp, has_c ? ca : NULL, cp, has_s ? sa : NULL, sp, has_ts ? &ts : NULL);
        if (was_open) VASSERT(connp->conn->client_addr == c0 && connp->conn->server_addr == s0 && connp->in_status == HTP_STREAM_OPEN, "second open of an open parser changes nothing");
      }
    }
#if LIFE_SPLIT_DESTROY
    { htp_conn_t *conn = connp->conn;                         /* htp_connp_destroy leaves the connection to the caller */
      htp_connp_destroy(connp);
      htp_conn_destroy(conn); }
#else
    htp_connp_destroy_all(connp);
#endif
  }
  CANARY(); }'''
CONNP_A = ['configuration: zero-initialised static object with an arbitrary log level; no hooks',
           'htp_log: stand-in with the same allocation pattern (record, message string, real htp_list_add into conn->messages, each may fail), no formatting, no hook_log callbacks (contracts/c18_life.h)',
           'addresses: NULL or any C string of <= 3 characters; ports, timestamp arbitrary',
           'real htp_connection.c, htp_list.c, htp_transaction.c + htp_decompressors.c (decompressor teardown) linked',
           'htp_tx_destroy_incomplete exchanged at its call sites by a stand-in that asserts false: the transaction list of a fresh connection is empty, the teardown loop body is unreachable (proved, not assumed)',
           'the parser has processed no data: no transaction, no buffered line, no decompressor (those are the other units of this file)']
lem('c18_connp_create_destroy_all', ['htp_connection_parser.c'], CONNP_H,
    'htp_connp_create ; [htp_connp_open [; htp_connp_open]] ; htp_connp_destroy_all: partial creation is undone, a failed open keeps no address, teardown frees connection, both lists, both address copies and the parser exactly once whichever allocation fails; nothing leaks',
    CONNP_A, defs={'LIFE_SPLIT_DESTROY': 0, 'LIFE_LOG_MODEL': 1}, link=CLINK, unwind=6, min_obl=60, pre_instrument=NEVER_TX)
lem('c18_connp_destroy_then_conn_destroy', ['htp_connection_parser.c'], CONNP_H,
    'htp_connp_create ; [htp_connp_open] ; htp_connp_destroy ; htp_conn_destroy: htp_connp_destroy does NOT free the connection (it stays live and is destroyed by its owner afterwards); together they free everything exactly once',
    CONNP_A, defs={'LIFE_SPLIT_DESTROY': 1, 'LIFE_LOG_MODEL': 1}, link=CLINK, unwind=6, min_obl=60, pre_instrument=NEVER_TX)

# ----------------------------------------------------------------------------------------------------------------------
# create ; open ; close ; destroy_all.  The two data drivers (proved separately against contracts/sm.h) are exchanged at the
# call sites of htp_connp_close by stand-ins that CHECK the close protocol and otherwise only move the stream status.
# ----------------------------------------------------------------------------------------------------------------------
CLOSE_H = r'''
void life_never_tx_destroy(htp_tx_t *tx) { VASSERT(0, "a connection without transactions destroys no transaction"); }
static int life_req_n, life_res_n; static const htp_time_t *life_ts;
int life_req_data_close(htp_connp_t *connp, const htp_time_t *timestamp, const void *data, size_t len) {
  VASSERT(data == NULL && len == 0, "close: request driver called with the empty chunk");
  VASSERT(connp->in_status == HTP_STREAM_CLOSED || connp->in_status == HTP_STREAM_ERROR, "close: request stream marked CLOSED (or left in ERROR) BEFORE the driver runs");
  VASSERT(life_req_n == 0 && life_res_n == 0 && timestamp == life_ts, "close: request driver first, once, with the caller's timestamp");
  life_req_n++; int s; VASSUME(s == HTP_STREAM_CLOSED || s == HTP_STREAM_ERROR || s == HTP_STREAM_DATA || s == HTP_STREAM_STOP); connp->in_status = s; return s; }
int life_res_data_close(htp_connp_t *connp, const htp_time_t *timestamp, const void *data, size_t len) {
  VASSERT(data == NULL && len == 0, "close: response driver called with the empty chunk");
  VASSERT(connp->out_status == HTP_STREAM_CLOSED || connp->out_status == HTP_STREAM_ERROR, "close: response stream marked CLOSED (or left in ERROR) BEFORE the driver runs");
  VASSERT(life_req_n == 1 && life_res_n == 0 && timestamp == life_ts, "close: response driver second, once, with the caller's timestamp");
  life_res_n++; int s; VASSUME(s == HTP_STREAM_CLOSED || s == HTP_STREAM_ERROR || s == HTP_STREAM_DATA || s == HTP_STREAM_STOP); connp->out_status = s; return s; }
void HARNESS(void) {
  static htp_cfg_t life_cfg; int lvl; life_cfg.log_level = lvl;
  htp_connp_t *connp = htp_connp_create(&life_cfg);
  if (connp != NULL) {
    int do_open, only_req; char ca[4], sa[4]; int has_c, has_s, has_ts, cp, sp; htp_time_t ts, ts2;
    ca[3] = 0; sa[3] = 0;
    if (do_open) htp_connp_open(connp, has_c ? ca : NULL, cp, has_s ? sa : NULL, sp, has_ts ? &ts : NULL);
    life_ts = has_ts ? &ts2 : NULL;
    if (only_req) {
      htp_connp_req_close(connp, life_ts);
      VASSERT(life_req_n == 1 && life_res_n == 0, "req_close: the request driver ran once, the response driver not at all");
    } else {
      htp_connp_close(connp, life_ts);
      VASSERT(life_req_n == 1 && life_res_n == 1, "close: each driver ran exactly once");
      if (has_ts) VASSERT(connp->conn->close_timestamp.tv_sec == ts2.tv_sec && connp->conn->close_timestamp.tv_usec == ts2.tv_usec, "close: the connection remembers when it was closed");
    }
    htp_connp_destroy_all(connp);
  }
  CANARY(); }'''
lem('c18_connp_open_close_destroy_all', ['htp_connection_parser.c'], CLOSE_H,
    'htp_connp_create ; [htp_connp_open] ; htp_connp_close | htp_connp_req_close ; htp_connp_destroy_all on a parser that saw no data (closing a NEW, never opened parser included): the stream(s) are marked CLOSED before the driver(s) run, '
    'request driver then response driver, each once, with the empty chunk and the caller\'s timestamp; the connection records the close time; teardown frees everything exactly once whichever allocation failed',
    ['configuration: zero-initialised static object with an arbitrary log level; no hooks; htp_log: allocation-pattern stand-in (contracts/c18_life.h)',
     'htp_connp_req_data / htp_connp_res_data exchanged at their call sites (goto-instrument --replace-calls) by stand-ins that assert the close protocol and set the stream status to an arbitrary documented value; '
     'what the real drivers do with an empty chunk on a CLOSED stream is the subject of the driver contracts (units htp_connp_req_data / htp_connp_res_data), their effect on owned memory is not modelled here',
     'no transaction exists (htp_tx_destroy_incomplete asserted unreachable)'],
    defs={'LIFE_LOG_MODEL': 1}, link=CLINK, unwind=6, min_obl=60,
    pre_instrument=NEVER_TX + ['--replace-calls', 'htp_connp_req_data:life_req_data_close', '--replace-calls', 'htp_connp_res_data:life_res_data_close'])

# ======================================================================================================================
# 2. a transaction that OWNS things ; the REAL htp_tx_destroy_incomplete
# ======================================================================================================================
# Raw objects first, one C18_NEED per object (see contracts/c18_alloc.h for why), then straight-line initialisation.
def _objs(spec):
    """spec: list of (ctype, name, alloc-expression).  Returns (declarations+NEEDs, CLEAN body)."""
    decl = ' '.join('%s%s = %s;' % (t, n, a) for t, n, a in spec)
    clean = ' '.join('free(%s);' % n for _, n, _ in spec)
    need = ' '.join('C18_NEED(%s, LIFE_CLEAN)' % n for _, n, _ in spec)
    return decl, clean, need


_B1 = 'C18_BSTR_RAW(1)'
TX_GROUPS = {
    # request / response line pieces and derived strings: 15 independent strings
    'LINE': ([('bstr *', 'b_%s' % f, _B1) for f in ('rl', 'rm', 'ru', 'rp', 'rct', 'rhn', 'au', 'ap', 'sl', 'sp', 'ss', 'sm', 'sct')],
             ' '.join('C18_BSTR_INIT(b_%s, 1, "x");' % f for f in ('rl', 'rm', 'ru', 'rp', 'rct', 'rhn', 'au', 'ap', 'sl', 'sp', 'ss', 'sm', 'sct')) +
             ' tx->request_line = b_rl; tx->request_method = b_rm; tx->request_uri = b_ru; tx->request_protocol = b_rp; tx->request_content_type = b_rct; tx->request_hostname = b_rhn;'
             ' tx->request_auth_username = b_au; tx->request_auth_password = b_ap; tx->response_line = b_sl; tx->response_protocol = b_sp; tx->response_status = b_ss; tx->response_message = b_sm; tx->response_content_type = b_sct;'),
    # both URI records, every component of the raw one, three of the normalised one
    'URI': ([('htp_uri_t *', 'u_raw', 'malloc(sizeof(htp_uri_t))'), ('htp_uri_t *', 'u_norm', 'malloc(sizeof(htp_uri_t))')] +
            [('bstr *', 'ur_%s' % f, _B1) for f in ('scheme', 'username', 'password', 'hostname', 'port', 'path', 'query', 'fragment')] +
            [('bstr *', 'un_%s' % f, _B1) for f in ('hostname', 'path', 'query')],
            '*u_raw = (htp_uri_t){0}; *u_norm = (htp_uri_t){0}; ' +
            ' '.join('C18_BSTR_INIT(ur_%s, 1, "u"); u_raw->%s = ur_%s;' % (f, f, f) for f in ('scheme', 'username', 'password', 'hostname', 'port', 'path', 'query', 'fragment')) +
            ' '.join('C18_BSTR_INIT(un_%s, 1, "n"); u_norm->%s = un_%s;' % (f, f, f) for f in ('hostname', 'path', 'query')) +
            ' u_norm->port_number = 80; tx->parsed_uri_raw = u_raw; tx->parsed_uri = u_norm;'),
    # one header in each header table (key copied by htp_table_add, record + name + value owned by the transaction)
    'HDRS': ([('htp_table_t *', 't_rq', 'malloc(sizeof(htp_table_t))'), ('void **', 'e_rq', 'C18_ELEMS_RAW(4)'), ('htp_header_t *', 'h_rq', 'malloc(sizeof(htp_header_t))'),
              ('bstr *', 'hn_rq', _B1), ('bstr *', 'hv_rq', _B1), ('bstr *', 'hk_rq', _B1),
              ('htp_table_t *', 't_rs', 'malloc(sizeof(htp_table_t))'), ('void **', 'e_rs', 'C18_ELEMS_RAW(4)'), ('htp_header_t *', 'h_rs', 'malloc(sizeof(htp_header_t))'),
              ('bstr *', 'hn_rs', _B1), ('bstr *', 'hv_rs', _B1), ('bstr *', 'hk_rs', _B1)],
             ' '.join('*h_%(d)s = (htp_header_t){0}; C18_BSTR_INIT(hn_%(d)s, 1, "h"); C18_BSTR_INIT(hv_%(d)s, 1, "v"); C18_BSTR_INIT(hk_%(d)s, 1, "h"); h_%(d)s->name = hn_%(d)s; h_%(d)s->value = hv_%(d)s; '
                      'C18_TABLE_INIT(t_%(d)s, e_%(d)s, 4); C18_TABLE_PUT(t_%(d)s, hk_%(d)s, h_%(d)s, HTP_TABLE_KEYS_COPIED);' % {'d': d} for d in ('rq', 'rs')) +
             ' tx->request_headers = t_rq; tx->response_headers = t_rs;'),
    # one parameter (key = the parameter's own name, referenced: htp_tx_req_add_param) and one cookie (key adopted: htp_parse_single_cookie_v0)
    'PARAMS': ([('htp_table_t *', 't_pa', 'malloc(sizeof(htp_table_t))'), ('void **', 'e_pa', 'C18_ELEMS_RAW(4)'), ('htp_param_t *', 'pa', 'malloc(sizeof(htp_param_t))'),
                ('bstr *', 'pn', _B1), ('bstr *', 'pv', _B1),
                ('htp_table_t *', 't_ck', 'malloc(sizeof(htp_table_t))'), ('void **', 'e_ck', 'C18_ELEMS_RAW(4)'), ('bstr *', 'ckn', _B1), ('bstr *', 'ckv', _B1)],
               '*pa = (htp_param_t){0}; C18_BSTR_INIT(pn, 1, "p"); C18_BSTR_INIT(pv, 1, "q"); pa->name = pn; pa->value = pv; pa->source = HTP_SOURCE_QUERY_STRING; '
               'C18_TABLE_INIT(t_pa, e_pa, 4); C18_TABLE_PUT(t_pa, pn, pa, HTP_TABLE_KEYS_REFERENCED); tx->request_params = t_pa; '
               'C18_BSTR_INIT(ckn, 1, "c"); C18_BSTR_INIT(ckv, 1, "d"); C18_TABLE_INIT(t_ck, e_ck, 4); C18_TABLE_PUT(t_ck, ckn, ckv, HTP_TABLE_KEYS_ADOPTED); tx->request_cookies = t_ck;'),
}


def tx_owned(groups):
    spec = [('htp_tx_t *', 'tx', 'malloc(sizeof(htp_tx_t))')]
    init = ''
    for g in groups:
        spec += TX_GROUPS[g][0]
        init += TX_GROUPS[g][1] + '\n  '
    decl, clean, need = _objs(spec)
    return r'''
static htp_connp_t life_connp; static htp_conn_t life_conn; static htp_cfg_t life_cfg; static htp_list_array_t life_txl; static void *life_txe[4]; static htp_tx_t life_other;
#define LIFE_CLEAN %(clean)s
static void tx_case(int complete, int via_public) {
  %(decl)s
  %(need)s
  *tx = (htp_tx_t){0};
  /* connection with three slots: an earlier transaction that is still alive, this one, and a slot emptied earlier */
  C18_LIST_INIT(&life_txl, life_txe, 4); C18_LIST_PUT(&life_txl, &life_other); C18_LIST_PUT(&life_txl, tx); C18_LIST_PUT(&life_txl, NULL);
  life_conn.transactions = &life_txl; life_connp.conn = &life_conn; life_connp.cfg = &life_cfg;
  life_connp.in_tx = tx; life_connp.out_tx = tx;                  /* current transaction of BOTH directions (early response / CONNECT hand-over) */
  tx->connp = &life_connp; tx->conn = &life_conn; tx->cfg = &life_cfg; tx->is_config_shared = HTP_CONFIG_SHARED; tx->index = 1;
  tx->request_progress = complete ? HTP_REQUEST_COMPLETE : HTP_REQUEST_HEADERS; tx->response_progress = complete ? HTP_RESPONSE_COMPLETE : HTP_RESPONSE_NOT_STARTED;
  %(init)s
  if (via_public) {
    htp_status_t rc = htp_tx_destroy(tx);                         /* refuses an incomplete transaction and must then leave it fully intact */
    VASSERT((rc == HTP_OK) == (complete != 0) && (rc == HTP_OK || rc == HTP_ERROR), "htp_tx_destroy: OK iff the transaction is complete");
    if (rc != HTP_OK) { VASSERT(life_txe[1] == (void *) tx && life_connp.in_tx == tx && life_connp.out_tx == tx, "refused: still attached"); htp_tx_destroy_incomplete(tx); }
  } else htp_tx_destroy_incomplete(tx);
  VASSERT(life_txe[1] == NULL && life_txe[0] == (void *) &life_other && life_txe[2] == NULL && life_txl.current_size == 3 && life_txl.first == 0, "the slot of the destroyed transaction - and only it - is emptied; the list keeps size and order");
  VASSERT(life_connp.in_tx == NULL && life_connp.out_tx == NULL, "neither direction refers to the destroyed transaction");
}
void HARNESS(void) { int complete, via_public; tx_case(complete, via_public); CANARY(); }''' % dict(decl=decl, clean=clean, need=need, init=init)


TX_A = ['transaction laid out field by field in the harness (malloc + zero + assignments, constant capacities), attached to a static connection whose transaction list holds [another live transaction, this one, an emptied slot] and to a static parser as the current transaction of both directions',
        'every owned string is a distinct 1-byte heap bstr, so any field freed twice or not at all is a double free / leak obligation',
        'request parsers (urlencoded: unit c18_urlenc_body; multipart), per-transaction hooks (unit c18_tx_hooks_teardown) and a private configuration are NULL / shared here',
        'real htp_transaction.c, htp_table.c, htp_list.c, bstr.c, htp_connection.c, htp_connection_parser.c, htp_util.c (htp_uri_free) linked; both entry points: htp_tx_destroy_incomplete directly, and the public htp_tx_destroy for complete / incomplete progress']
TXL2 = ['htp_urlencoded.c', 'htp_table.c', 'htp_list.c', 'bstr.c', 'bstr_builder.c', 'htp_connection.c', 'htp_connection_parser.c', 'htp_util.c', 'htp_multipart.c', 'htp_hooks.c', 'htp_config.c', 'htp_decompressors.c']
for nm, gs, what in (('all', ['LINE', 'URI', 'HDRS', 'PARAMS'], 'all 13 request / response strings, both URI records with their components, one header per header table, one parameter, one cookie'),):
    lem('c18_tx_owned_teardown_' + nm, ['htp_transaction.c'], tx_owned(gs),
        'htp_tx_destroy_incomplete / htp_tx_destroy on a transaction that owns ' + what + ': each owned object is freed exactly once (no double free, no leak), the public destructor refuses an incomplete transaction without touching it, '
        'the transaction is detached from the connection (its slot only) and from both directions of the parser', TX_A, link=TXL2, unwind=6, min_obl=200)

# ----------------------------------------------------------------------------------------------------------------------
# per-transaction hooks (registered from callbacks through the public API) and a PRIVATE configuration ; teardown
# ----------------------------------------------------------------------------------------------------------------------
TXHOOK_H = r'''
static htp_connp_t life_connp; static htp_conn_t life_conn; static htp_cfg_t life_cfg; static htp_list_array_t life_txl; static void *life_txe[4];
static int life_body_cb(htp_tx_data_t *d) { return HTP_OK; }
/* a hook with one registered callback, laid out as htp_hook_create + htp_hook_register lay it out (record, array list of capacity 4, one callback record) */
#define LIFE_HOOK_OBJS(x) htp_hook_t *x##_h = malloc(sizeof(htp_hook_t)); htp_list_array_t *x##_l = malloc(sizeof(htp_list_array_t)); void **x##_e = C18_ELEMS_RAW(4); htp_callback_t *x##_c = malloc(sizeof(htp_callback_t));
#define LIFE_HOOK_FREE(x) free(x##_h); free(x##_l); free(x##_e); free(x##_c);
#define LIFE_HOOK_NEED(x) C18_NEED(x##_h, LIFE_CLEAN) C18_NEED(x##_l, LIFE_CLEAN) C18_NEED(x##_e, LIFE_CLEAN) C18_NEED(x##_c, LIFE_CLEAN)
#define LIFE_HOOK_INIT(x) x##_c->fn = (htp_callback_fn_t) life_body_cb; C18_LIST_INIT(x##_l, x##_e, 4); C18_LIST_PUT(x##_l, x##_c); x##_h->callbacks = x##_l;
#define LIFE_CLEAN free(tx); free(mine); LIFE_HOOK_FREE(rq) LIFE_HOOK_FREE(rs) LIFE_HOOK_FREE(cf)
static void hooks_case(int has_req, int has_res, int private_cfg) {
  htp_tx_t *tx = malloc(sizeof(htp_tx_t)); htp_cfg_t *mine = malloc(sizeof(htp_cfg_t));
  LIFE_HOOK_OBJS(rq) LIFE_HOOK_OBJS(rs) LIFE_HOOK_OBJS(cf)
  C18_NEED(tx, LIFE_CLEAN) C18_NEED(mine, LIFE_CLEAN) LIFE_HOOK_NEED(rq) LIFE_HOOK_NEED(rs) LIFE_HOOK_NEED(cf)
  *tx = (htp_tx_t){0}; *mine = (htp_cfg_t){0};
  LIFE_HOOK_INIT(rq) LIFE_HOOK_INIT(rs) LIFE_HOOK_INIT(cf)
  C18_LIST_INIT(&life_txl, life_txe, 4); C18_LIST_PUT(&life_txl, tx);
  life_conn.transactions = &life_txl; life_connp.conn = &life_conn; life_connp.cfg = &life_cfg; life_connp.out_tx = tx;
  tx->connp = &life_connp; tx->conn = &life_conn; tx->cfg = &life_cfg; tx->is_config_shared = HTP_CONFIG_SHARED;
  /* what callbacks do through the public per-transaction API: htp_tx_set_config(tx, copy, HTP_CONFIG_PRIVATE), htp_tx_register_request_body_data, htp_tx_register_response_body_data */
  if (private_cfg) { mine->hook_response_body_data = cf_h; htp_tx_set_config(tx, mine, HTP_CONFIG_PRIVATE); VASSERT(tx->cfg == mine && tx->is_config_shared == HTP_CONFIG_PRIVATE, "private configuration installed"); }
  else { free(mine); LIFE_HOOK_FREE(cf) }
  if (has_req) tx->hook_request_body_data = rq_h; else { LIFE_HOOK_FREE(rq) }
#ifndef KNOWN_F_C01_TX_RES_HOOK_LEAK
  if (has_res) tx->hook_response_body_data = rs_h; else
#endif
  { LIFE_HOOK_FREE(rs) }
  htp_tx_destroy_incomplete(tx);
  VASSERT(life_txe[0] == NULL && life_connp.out_tx == NULL, "detached");
}
void HARNESS(void) { int a, b, p; hooks_case(a, b, p); CANARY(); }'''
lem('c18_tx_hooks_teardown', ['htp_transaction.c'], TXHOOK_H,
    'a transaction that owns a per-transaction request-body hook [, a response-body hook] [, a PRIVATE configuration with a hook of its own, installed through the real htp_tx_set_config] ; htp_tx_destroy_incomplete: hook records, their callback '
    'lists and callback records, and the private configuration are freed exactly once; nothing obtained through the per-transaction API outlives the transaction (C01: nothing leaked after teardown; C10: memory per completed transaction does not grow)',
    ['transaction zero-initialised and attached to a static connection / parser; shared configuration static; hooks laid out by the harness as htp_hook_create + one htp_hook_register lay them out (registration itself under allocation failure: unit c18_hook_register_copy_destroy; the real push after a real create does not bit-blast)',
     'finding c01_tx_response_hook_leak (findings/c01_tx_response_hook_leak.c: the RESPONSE-side per-transaction hook was never released) was repaired in /repo (029100f) while this unit was being written; '
     'the carve-out KNOWN_F_C01_TX_RES_HOOK_LEAK is INACTIVE (not defined), the unit checks both hooks and the mutant that removes the repair is killed',
     'real htp_hooks.c, htp_config.c, htp_list.c, htp_table.c, bstr.c linked; callback never runs'],
    defs={}, link=TXL2, unwind=6, min_obl=100)

# ----------------------------------------------------------------------------------------------------------------------
# htp_tx_create (REAL) on a connection whose transaction list is full or not ; REAL htp_tx_destroy_incomplete
# ----------------------------------------------------------------------------------------------------------------------
TXCREATE_H = r'''
static htp_connp_t life_connp; static htp_conn_t life_conn; static htp_cfg_t life_cfg; static htp_list_array_t life_txl; static htp_tx_t life_other, life_other2;
void life_null_urlenp(htp_urlenp_t *p) { VASSERT(p == NULL, "a new transaction has no urlencoded parser"); }
void life_null_mpartp(htp_mpartp_t *p) { VASSERT(p == NULL, "a new transaction has no multipart parser"); }
void life_null_hook(htp_hook_t *p) { VASSERT(p == NULL, "a new transaction has no hook of its own"); }
void life_null_cfg(htp_cfg_t *p) { VASSERT(0, "a new transaction shares the parser's configuration"); }
static void create_case(int full) {                               /* full is a constant at both call sites */
  void **el = C18_ELEMS_RAW(2);
  C18_NEED(el, ;)
  C18_LIST_INIT(&life_txl, el, 2); C18_LIST_PUT(&life_txl, &life_other); if (full) { C18_LIST_PUT(&life_txl, &life_other2); life_txl.last = 0; }
  life_conn.transactions = &life_txl; life_connp.conn = &life_conn; life_connp.cfg = &life_cfg;
  size_t n0 = full ? 2 : 1;
  htp_tx_t *tx = htp_tx_create(&life_connp);
  if (tx == NULL) {
    VASSERT(htp_list_size(&life_txl) == n0 && htp_list_get(&life_txl, 0) == (void *) &life_other, "NULL: nothing appended, the list is as it was");
  } else {
    /* C04 / C10 (what units htp_connp_tx_create, REQ_IDLE, RES_IDLE assume of this function): a transaction that is handed out IS the last element of the
     * connection's list and its index is its position - the response side pairs by that index, the connection teardown destroys what is in the list */
#ifndef KNOWN_F_C18_TX_CREATE_LIST_ADD
    VASSERT(htp_list_size(&life_txl) == n0 + 1 && htp_list_get(&life_txl, n0) == (void *) tx, "created: appended last to the connection's transaction list");
#else
    if (htp_list_size(&life_txl) == n0 + 1) VASSERT(htp_list_get(&life_txl, n0) == (void *) tx, "created: appended last to the connection's transaction list");
#endif
    VASSERT(tx->index == n0, "created: index = number of earlier transactions");
    VASSERT(htp_list_get(&life_txl, 0) == (void *) &life_other && (!full || htp_list_get(&life_txl, 1) == (void *) &life_other2), "earlier transactions keep their positions across the growth of the list");
    VASSERT(tx->connp == &life_connp && tx->conn == &life_conn && tx->cfg == &life_cfg && tx->is_config_shared == HTP_CONFIG_SHARED, "created: attached to parser, connection and the shared configuration");
    VASSERT(tx->request_progress == HTP_REQUEST_NOT_STARTED && tx->response_progress == HTP_RESPONSE_NOT_STARTED && tx->request_content_length == -1 && tx->response_content_length == -1 &&
            tx->request_protocol_number == HTP_PROTOCOL_UNKNOWN && tx->response_protocol_number == HTP_PROTOCOL_UNKNOWN && tx->response_status_number == HTP_STATUS_UNKNOWN, "created: nothing seen yet");
    VASSERT(tx->parsed_uri_raw != NULL && tx->request_headers != NULL && tx->request_params != NULL && tx->response_headers != NULL, "created: the containers every later stage relies on exist");
    VASSERT(htp_table_size(tx->request_headers) == 0 && htp_table_size(tx->request_params) == 0 && htp_table_size(tx->response_headers) == 0, "created: empty containers");
    htp_tx_destroy_incomplete(tx);
#ifndef KNOWN_F_C18_TX_CREATE_LIST_ADD
    VASSERT(htp_list_size(&life_txl) == n0 + 1 && htp_list_get(&life_txl, n0) == NULL, "destroyed: slot emptied, list keeps its size");
#endif
  }
  free(life_txl.elements);
}
void HARNESS(void) { int full; if (full) create_case(1); else create_case(0); CANARY(); }'''
NULLSUB = ['--replace-calls', 'htp_urlenp_destroy:life_null_urlenp', '--replace-calls', 'htp_mpartp_destroy:life_null_mpartp', '--replace-calls', 'htp_hook_destroy:life_null_hook',
           '--replace-calls', 'htp_config_destroy:life_null_cfg']
lem('c18_tx_create_destroy', ['htp_transaction.c'], TXCREATE_H,
    'REAL htp_tx_create ; REAL htp_tx_destroy_incomplete on a connection whose transaction list has room or is FULL (the append must grow it): whichever allocation fails (record, URI record, three tables and their arrays, growth of the list) '
    'creation either returns NULL with the list untouched and nothing leaked, or hands out a fresh transaction that is the LAST list element with index = its position (pairing, C04; max_tx accounting, C10) and whose teardown frees everything once',
    ['parser, connection, configuration: static objects; transaction list laid out by the harness with capacity 2 holding 1 or 2 earlier transactions (so both the no-growth and the growth path of the real htp_list_array_push run)',
     'htp_urlenp_destroy / htp_mpartp_destroy / htp_hook_destroy / htp_config_destroy exchanged at their call sites by stand-ins that assert their argument is NULL (proved: a new transaction owns no parser, hook or private configuration)',
     'real htp_table.c, htp_list.c, bstr.c, htp_util.c (htp_uri_alloc / htp_uri_free), htp_connection.c, htp_connection_parser.c linked',
     'OBSERVATION, NOT A FINDING (a leak / a dropped item under allocation failure: C18 demands no crash, corruption, double free or use after free - not leak-freedom; the clause is therefore not claimed on that path) c18_tx_create_list_add (findings/c18_tx_create_list_add.c, confirmed natively): htp_tx_create ignores a failed htp_list_add, the transaction is handed out although it is not in the list; '
     'with KNOWN_F_C18_TX_CREATE_LIST_ADD the membership clause is only claimed when the list did grow; probe = the same unit without the macro (fails "appended last" on the unchanged tree)'],
    defs={'KNOWN_F_C18_TX_CREATE_LIST_ADD': 1}, link=TXL2, unwind=6, min_obl=100, pre_instrument=NULLSUB)

# ======================================================================================================================
# 3. htp_conn_destroy on a connection that holds transactions (one slot already emptied), log messages and both addresses
# ======================================================================================================================
CONND_H = r'''
static htp_connp_t life_connp; static htp_cfg_t life_cfg;
#define LIFE_CLEAN free(conn); free(txl); free(txe); free(ml); free(me); free(tx1); free(tx2); free(l1); free(l2); free(m1); free(ca); free(sa); free(rl)
void HARNESS(void) {
  htp_conn_t *conn = malloc(sizeof(htp_conn_t)); htp_list_array_t *txl = malloc(sizeof(htp_list_array_t)); void **txe = C18_ELEMS_RAW(4);
  htp_list_array_t *ml = malloc(sizeof(htp_list_array_t)); void **me = C18_ELEMS_RAW(2);
  htp_tx_t *tx1 = malloc(sizeof(htp_tx_t)), *tx2 = malloc(sizeof(htp_tx_t)); htp_log_t *l1 = malloc(sizeof(htp_log_t)), *l2 = malloc(sizeof(htp_log_t));
  char *m1 = malloc(2), *ca = malloc(2), *sa = malloc(2); bstr *rl = C18_BSTR_RAW(1);
  C18_NEED(conn, LIFE_CLEAN) C18_NEED(txl, LIFE_CLEAN) C18_NEED(txe, LIFE_CLEAN) C18_NEED(ml, LIFE_CLEAN) C18_NEED(me, LIFE_CLEAN) C18_NEED(tx1, LIFE_CLEAN) C18_NEED(tx2, LIFE_CLEAN)
  C18_NEED(l1, LIFE_CLEAN) C18_NEED(l2, LIFE_CLEAN) C18_NEED(m1, LIFE_CLEAN) C18_NEED(ca, LIFE_CLEAN) C18_NEED(sa, LIFE_CLEAN) C18_NEED(rl, LIFE_CLEAN)
  *conn = (htp_conn_t){0}; *tx1 = (htp_tx_t){0}; *tx2 = (htp_tx_t){0}; *l1 = (htp_log_t){0}; *l2 = (htp_log_t){0};
  m1[0] = 'm'; m1[1] = 0; ca[0] = 'c'; ca[1] = 0; sa[0] = 's'; sa[1] = 0; C18_BSTR_INIT(rl, 1, "G");
  /* transactions: [tx1, emptied slot, tx2] in a ring buffer that starts at slot 1 (after htp_connp_tx_freed recycled a slot) */
  C18_LIST_INIT(txl, txe, 4); txl->first = 1; txl->last = 1; C18_LIST_PUT(txl, tx1); C18_LIST_PUT(txl, NULL); C18_LIST_PUT(txl, tx2); txl->last = 0;
  /* messages: one with text, one whose text could not be allocated (htp_log: msg = strdup(...) unchecked) */
  C18_LIST_INIT(ml, me, 2); C18_LIST_PUT(ml, l1); C18_LIST_PUT(ml, l2); ml->last = 0; l1->msg = m1; l2->msg = NULL; l1->connp = &life_connp; l1->tx = tx1;
  conn->transactions = txl; conn->messages = ml; int has_c, has_s;
  if (has_c) conn->client_addr = ca; else free(ca);
  if (has_s) conn->server_addr = sa; else free(sa);
  life_connp.conn = conn; life_connp.cfg = &life_cfg; life_connp.in_tx = tx2; life_connp.out_tx = tx1; life_connp.last_error = l1;
  tx1->connp = &life_connp; tx1->conn = conn; tx1->cfg = &life_cfg; tx1->is_config_shared = HTP_CONFIG_SHARED; tx1->index = 0; tx1->request_line = rl;
  tx2->connp = &life_connp; tx2->conn = conn; tx2->cfg = &life_cfg; tx2->is_config_shared = HTP_CONFIG_SHARED; tx2->index = 2;
  htp_conn_destroy(conn);
  VASSERT(life_connp.in_tx == NULL && life_connp.out_tx == NULL, "the parser refers to no destroyed transaction afterwards");
  CANARY(); }'''
lem('c18_conn_destroy_full', ['htp_connection.c'], CONND_H,
    'htp_conn_destroy (+ REAL htp_tx_destroy_incomplete per transaction) on a connection holding two transactions around an emptied slot (ring buffer not starting at 0), two log messages (one without text) and both addresses: '
    'every transaction is destroyed exactly once although each removes itself from the list being walked, messages, lists, addresses and the record are freed once, nothing leaks; the parser is left without dangling in_tx / out_tx',
    ['connection, lists (capacity 4 / 2), transactions (zero-initialised except attachment and one owned string), log records laid out by the harness; addresses optional',
     'what a transaction itself owns is unit c18_tx_owned_teardown_all; real htp_transaction.c, htp_list.c, htp_table.c, bstr.c, htp_connection_parser.c, htp_util.c linked'],
    defs={}, link=['htp_transaction.c'] + [x for x in TXL2 if x != 'htp_connection.c'], unwind=6, min_obl=100)

# ----------------------------------------------------------------------------------------------------------------------
# htp_connp_req_close under contract, the request driver REPLACED by its proved contract (contracts/sm.h)
# ----------------------------------------------------------------------------------------------------------------------
UNITS.append(U(name='htp_connp_req_close', props=['C09', 'C01', 'C05'], kind='contract', src=['htp_connection_parser.c'], enforce='htp_connp_req_close',
               replace=['htp_connp_req_data/contract_life_site_req_data'], contracts_inc=['sm.h', 'c18_life.h'],
               harness='void HARNESS(void) { htp_connp_t *c; const htp_time_t *t; htp_connp_req_close(c, t); CANARY(); }',
               defs={'quick': {'CHUNK_CAP': 4096, 'LIFE_CLOSE_CONTRACTS': 1}}, min_obl=20,
               sub='closing the request direction from ANY parser state the driver accepts: the driver is called inside its proved precondition with the empty chunk (so close-at-any-point inherits the driver\'s guarantees); '
                   'a direction in ERROR or STOP stays there and runs no state function and no transition (C09 sticky failure holds for the close call too); NULL parser is a no-op',
               assumes=['htp_connp_req_data replaced by contract_life_site_req_data = the requires and the frame of contract_htp_connp_req_data (enforced on the real driver by unit htp_connp_req_data) verbatim, and of its ensures the clauses that do not read through connp->conn (the proved frame havocs the whole parser object including that pointer, so the proved contract cannot be used for replacement as it stands)',
                        'finding c09_close_after_stop (findings/c09_close_after_stop.c: the close functions overwrote HTP_STREAM_STOP with CLOSED and ran the state machine and callbacks again) is FIXED in /repo; the macro KNOWN_F_C09_CLOSE_AFTER_STOP is no longer defined by any unit, so the sticky clause covers ERROR and STOP']))

# ======================================================================================================================
# 4. Digest authorization: htp_parse_authorization_digest under contract (any header length)
# ======================================================================================================================
UNITS.append(U(name='htp_parse_authorization_digest', props=['C01', 'C02', 'C18'], kind='contract', src=['htp_parsers.c'], enforce='htp_parse_authorization_digest',
               replace=['bstr_index_of_c/contract_life_site_index_of_c', 'htp_extract_quoted_string_as_bstr/contract_life_site_extract_quoted'], contracts_inc=['c18_life.h'],
               loops={'htp_parsers.c': {'htp_parse_authorization_digest': {'count': 1, 0: dict(
                   assigns='pos', inv=['pos <= len', 'pos >= (size_t) i + 9', '(gk >= (size_t) i + 9 && gk < pos) ==> ISSP(data[gk])'], dec='len - pos')}}},
               harness='void HARNESS(void) { htp_connp_t *c; htp_header_t *h; htp_parse_authorization_digest(c, h); CANARY(); }',
               defs={'quick': {'VCAP': 1024, 'LIFE_DIGEST_CONTRACTS': 1}, 'thorough': {'VCAP': 65536}}, min_obl=40,
               sub='Digest credentials for header values of ANY length (inline or wrapped string): every read is inside the value, the white-space scan terminates; the quoted-string extractor runs at most once, exactly on the rest of the value '
                   'beginning at the first double quote that follows "username=" and nothing but white space; without such a quote nothing is extracted, DECLINED is returned and the transaction\'s user name is untouched; '
                   'the extractor\'s verdict (OK / DECLINED / ERROR on allocation failure) is returned unchanged; frame = the user-name field only',
               assumes=['header value: any bytes, length <= VCAP (symbolic)',
                        'bstr_index_of_c replaced by a stub with the meaning "index of an occurrence of the 9-byte literal, or -1" (the search primitive bstr_util_mem_index_of_mem is under contract in C17; first-occurrence is the bounded unit ref_authorization_digest)',
                        'htp_extract_quoted_string_as_bstr replaced by a call-logging stub (requires a readable non-empty range and a writable out pointer; its own contract: units/c02_unb.py; reference: ref_extract_quoted_string)']))

# ----------------------------------------------------------------------------------------------------------------------
# dispatcher htp_parse_authorization + Digest, end to end against the reference quoted-string reader ; tx teardown of the credentials
# ----------------------------------------------------------------------------------------------------------------------
DG_H = r'''
typedef struct { unsigned char x; unsigned char t[N]; size_t lt; unsigned char scheme_case; } vin_t;
static struct { bstr b; unsigned char d[13]; } dg_key;
static struct { bstr b; unsigned char d[7 + 1 + 9 + N]; } dg_val;
static int dg_ws(unsigned char c) { return c == 0x20 || (c >= 0x09 && c <= 0x0d); }
void HARNESS(void) { VIN(vin_t);
  VASSUME(in.lt <= N);
  static htp_connp_t C; static htp_tx_t TX; static htp_header_t H; static htp_table_t T; static void *TE[4];
  /* request_headers = { "authorization": H }, as htp_table_add leaves it */
  memcpy(dg_key.d, "authorization", 13); dg_key.b.len = 13; dg_key.b.size = 13; dg_key.b.realptr = NULL;
  C18_TABLE_INIT(&T, TE, 4); C18_TABLE_PUT(&T, &dg_key.b, &H, HTP_TABLE_KEYS_COPIED);
  /* value = "Digest " ++ one arbitrary byte ++ "username=" ++ t   (all offsets constant) */
  const char *sch = (in.scheme_case & 1) ? "DIGEST " : "Digest ";
  for (size_t i = 0; i < 7; i++) dg_val.d[i] = sch[i];
  dg_val.d[7] = in.x;
  for (size_t i = 0; i < 9; i++) dg_val.d[8 + i] = "username="[i];
  for (size_t i = 0; i < N; i++) dg_val.d[17 + i] = in.t[i];
  size_t o = 17 + in.lt; dg_val.b.len = o; dg_val.b.size = 17 + N; dg_val.b.realptr = NULL;
  C.in_tx = &TX; TX.connp = &C; TX.request_headers = &T; H.name = &dg_key.b; H.value = &dg_val.b;
  int rc = htp_parse_authorization(&C);
  VASSERT(rc == HTP_OK || rc == HTP_DECLINED || rc == HTP_ERROR, "documented return codes");
  VASSERT(TX.request_auth_type == HTP_AUTH_DIGEST, "scheme recognised as Digest in either letter case");
  /* reference: white space, then an RFC 7230 quoted-string (spec/line_ref.h lr_quoted); user name = its unescaped content */
  size_t p = 0; for (size_t i = 0; i < N; i++) if (p == i && i < in.lt && dg_ws(in.t[i])) p++;
  unsigned char ro[N]; size_t rl = 0, rclose = 0;
  int ok = p < in.lt && lr_quoted(in.t + p, in.lt - p, ro, &rl, &rclose);
  VASSERT((rc == HTP_DECLINED) == !ok, "DECLINED iff username= is not followed (after white space) by a complete quoted string");
  VASSERT(TX.request_auth_password == NULL, "Digest reports no password");
  if (rc == HTP_OK) {
    bstr *u = TX.request_auth_username;
    VASSERT(u != NULL, "OK: user name reported");
    if (u != NULL) {
      VASSERT(bstr_len(u) == rl, "user name = the bytes between the quotes (length; one byte less per escape)");
      for (size_t i = 0; i < N; i++) if (i < rl && i < bstr_len(u)) VASSERT(bstr_ptr(u)[i] == ro[i], "user name bytes as sent");
    }
  } else VASSERT(TX.request_auth_username == NULL, "no user name reported unless OK");
  for (size_t i = 0; i < N; i++) VASSERT(dg_val.d[17 + i] == in.t[i], "header value not modified");
  VASSERT(dg_val.d[7] == in.x && dg_val.d[8] == 'u' && dg_val.d[16] == '=' && dg_val.b.len == o, "header value not modified (prefix, length)");
  /* what htp_tx_destroy_incomplete does with the two fields */
  bstr_free(TX.request_auth_username); bstr_free(TX.request_auth_password);
  TX.request_auth_username = NULL; TX.request_auth_password = NULL;
  CANARY(); }'''
UNITS.append(U(
    name='ref_authorization_digest', props=['C02', 'C18', 'C01'], kind='bounded', src=['htp_parsers.c', 'htp_util.c'], link=['bstr.c', 'htp_table.c', 'htp_list.c'], replay='vin',
    pre='#ifndef VNATIVE\n#define bstr_alloc c02_alloc_model\n#endif\n', contracts_inc=['line_ref.h', 'c02_extract.h', 'c18_alloc.h', 'c18_life.h'], harness=DG_H,
    defs={'quick': {'N': 5, 'C02_BOUNDED': 1, 'C02_DUP_MODEL': 1}, 'thorough': {'N': 9}},
    flags_add=['--unwind', '28', '--unwinding-assertions', '--memory-leak-check'], flags_del=['--unsigned-overflow-check'], timeout=(600, 3000),
    bound='header value "Digest " (either letter case) + one arbitrary byte + "username=" + every byte string of length 0..N (quick N=5, thorough N=9)',
    assumes=['the REAL dispatcher htp_parse_authorization (header looked up in a one-entry request header table through the real htp_table_get_c), the real Digest parser and the real quoted-string extractor run; bstr_alloc is modelled (constant capacity N)',
             'every allocation may fail: on ERROR nothing is reported; the credentials are then released the way htp_tx_destroy_incomplete releases them, leak check on',
             'the reference is spec/line_ref.h lr_quoted (RFC 7230 quoted-string: content up to the first unescaped double quote, backslash removed before an escaped byte) applied after optional white space',
             'a second "username=" inside the tail (first-occurrence rule) needs N >= 9 and is not in the quick bound'],
    sub='real htp_parse_authorization + htp_parse_authorization_digest: the reported user name is exactly the unescaped content of the quoted string that follows "username=" (white space allowed in between), DECLINED exactly when there is none, '
        'no password, scheme matched case-insensitively, header value unchanged; nothing reported unless OK; no leak / double free after the transaction teardown of the credentials under allocation failure'))

DISP_H = r'''
typedef struct { unsigned char a[N]; size_t la; unsigned char has; int rc_basic; int rc_digest; } vin_t;
static struct { bstr b; unsigned char d[13]; } dp_key;
static struct { bstr b; unsigned char d[N]; } dp_val;
static htp_header_t dp_H; static int dp_calls, dp_rc_basic, dp_rc_digest;
/* the scheme parsers are exchanged at their call sites: which one runs, on which header, and that the prefix test guarantees the length they rely on */
int life_sub_basic(htp_connp_t *connp, htp_header_t *h) { VASSERT(h == &dp_H && bstr_len(h->value) >= 5, "Basic parser: the Authorization header, at least the 5 scheme bytes it skips"); dp_calls += 1; return dp_rc_basic; }
int life_sub_digest(htp_connp_t *connp, htp_header_t *h) { VASSERT(h == &dp_H && bstr_len(h->value) >= 6, "Digest parser: the Authorization header, at least the 6 scheme bytes"); dp_calls += 16; return dp_rc_digest; }
static int dp_ws(unsigned char c) { return c == 0x20 || (c >= 0x09 && c <= 0x0d); }
static int dp_pfx(const unsigned char *a, size_t la, const char *s, size_t n) { if (la < n) return 0; for (size_t i = 0; i < n; i++) if ((a[i] | 0x20) != (unsigned char) s[i] || !((a[i] | 0x20) >= 'a' && (a[i] | 0x20) <= 'z')) return 0; return 1; }
void HARNESS(void) { VIN(vin_t);
  VASSUME(in.la <= N);
  static htp_connp_t C; static htp_tx_t TX; static htp_table_t T; static void *TE[4];
  memcpy(dp_key.d, "authorization", 13); dp_key.b.len = 13; dp_key.b.size = 13; dp_key.b.realptr = NULL;
  C18_TABLE_INIT(&T, TE, 4); if (in.has & 1) C18_TABLE_PUT(&T, &dp_key.b, &dp_H, HTP_TABLE_KEYS_COPIED);
  for (size_t i = 0; i < N; i++) dp_val.d[i] = in.a[i];
  dp_val.b.len = in.la; dp_val.b.size = N; dp_val.b.realptr = NULL;
  C.in_tx = &TX; TX.connp = &C; TX.request_headers = &T; dp_H.name = &dp_key.b; dp_H.value = &dp_val.b; TX.request_auth_type = 77;
  dp_calls = 0; dp_rc_basic = in.rc_basic; dp_rc_digest = in.rc_digest;
  int rc = htp_parse_authorization(&C);
  int is_basic = dp_pfx(in.a, in.la, "basic", 5), is_digest = dp_pfx(in.a, in.la, "digest", 6), is_bearer = dp_pfx(in.a, in.la, "bearer", 6);
  if (!(in.has & 1)) VASSERT(rc == HTP_OK && TX.request_auth_type == HTP_AUTH_NONE && dp_calls == 0, "no Authorization header: no credentials, type NONE, OK");
  else if (is_basic) VASSERT(TX.request_auth_type == HTP_AUTH_BASIC && dp_calls == 1 && rc == in.rc_basic, "Basic scheme (any letter case): the Basic parser decides, once");
  else if (is_digest) VASSERT(TX.request_auth_type == HTP_AUTH_DIGEST && dp_calls == 16 && rc == in.rc_digest, "Digest scheme (any letter case): the Digest parser decides, once");
  else if (is_bearer) {
    int blank = 1; for (size_t i = 6; i < N; i++) if (i < in.la && !dp_ws(in.a[i])) blank = 0;
    VASSERT(TX.request_auth_type == HTP_AUTH_BEARER && dp_calls == 0 && rc == (blank ? HTP_DECLINED : HTP_OK), "Bearer scheme: accepted iff a token follows the scheme");
  } else VASSERT(TX.request_auth_type == HTP_AUTH_UNRECOGNIZED && dp_calls == 0 && rc == HTP_OK, "any other scheme: type UNRECOGNIZED, OK, nothing parsed");
  VASSERT(TX.request_auth_username == NULL && TX.request_auth_password == NULL, "the dispatcher itself reports no credentials");
  for (size_t i = 0; i < N; i++) VASSERT(dp_val.d[i] == in.a[i], "header value not modified");
  CANARY(); }'''
UNITS.append(U(
    name='ref_authorization_dispatch', props=['C02', 'C01'], kind='bounded', src=['htp_parsers.c'], link=['bstr.c', 'htp_table.c', 'htp_list.c'],   # no native replay: the call-site exchange exists only in the goto program
    contracts_inc=['c18_alloc.h', 'c18_life.h'], harness=DISP_H, defs={'quick': {'N': 8}, 'thorough': {'N': 11}},
    flags_add=['--unwind', '16', '--unwinding-assertions'], flags_del=['--unsigned-overflow-check'], timeout=(300, 1500),
    pre_instrument=['--replace-calls', 'htp_parse_authorization_basic:life_sub_basic', '--replace-calls', 'htp_parse_authorization_digest:life_sub_digest'],
    bound='Authorization header absent, or present with every value of length 0..N (quick N=8, thorough N=11) over all byte values',
    assumes=['the Basic and Digest parsers are exchanged at their call sites by stand-ins that log the call, answer an arbitrary code and assert the minimum value length those parsers rely on (they index from 5 / 6 without a length test of their own); '
             'the real ones: units c18_auth_basic, ref_authorization_basic_split, htp_parse_authorization_digest, ref_authorization_digest',
             'header table laid out by the harness (one entry), looked up through the real htp_table_get_c; the Bearer parser is the real code',
             'reference: scheme = case-insensitive prefix of the value (the code documents no delimiter requirement after the scheme)'],
    sub='real htp_parse_authorization: authentication type and the parser that runs are determined by the scheme prefix in any letter case; without the header type NONE and OK; unknown scheme UNRECOGNIZED and OK; '
        'the scheme parsers are only entered with values at least as long as the scheme they skip (C01); Bearer accepted iff something other than white space follows'))

# ======================================================================================================================
# 5. htp_config_create ; [htp_config_set_server_personality] ; htp_config_destroy
# ======================================================================================================================
CFG_H = r'''
#define LIFE_PARSERS_SET(c) ((c)->parse_request_line != NULL && (c)->process_request_header != NULL && (c)->parse_response_line != NULL && (c)->process_response_header != NULL)
void HARNESS(void) {
  htp_cfg_t *cfg = htp_config_create();
  if (cfg != NULL) {
    /* the state machine calls through these four pointers without a NULL test (htp_request.c / htp_response.c): a configuration that exists must have them */
    VASSERT(LIFE_PARSERS_SET(cfg), "created: line and header parsers installed");
    VASSERT(cfg->server_personality == HTP_SERVER_MINIMAL, "created: MINIMAL personality");
    VASSERT(cfg->field_limit_hard == HTP_FIELD_LIMIT_HARD && cfg->field_limit_soft == HTP_FIELD_LIMIT_SOFT && cfg->field_limit_soft <= cfg->field_limit_hard, "created: documented field limits (C10)");
    VASSERT(cfg->hook_request_start == NULL && cfg->hook_request_line == NULL && cfg->hook_request_headers == NULL && cfg->hook_request_body_data == NULL && cfg->hook_response_body_data == NULL &&
            cfg->hook_transaction_complete == NULL && cfg->hook_log == NULL, "created: no callbacks");
    VASSERT(cfg->decoder_cfgs[HTP_DECODER_DEFAULTS].bestfit_map == bestfit_1252 && cfg->decoder_cfgs[HTP_DECODER_URL_PATH].bestfit_map == bestfit_1252 &&
            cfg->decoder_cfgs[HTP_DECODER_URLENCODED].bestfit_map == bestfit_1252, "created: every decoder context uses the static best-fit table (shared read-only, C19)");
    VASSERT(cfg->decoder_cfgs[HTP_DECODER_URLENCODED].plusspace_decode == 1 && cfg->decoder_cfgs[HTP_DECODER_URL_PATH].plusspace_decode == 0, "created: + means space only in urlencoded data");
    VASSERT(cfg->max_tx == 0 && cfg->tx_auto_destroy == 0, "created: no transaction limit, no automatic disposal");
    int set_p; enum htp_server_personality_t p;
    if (set_p) {
      int rc = htp_config_set_server_personality(cfg, p);
      VASSERT(rc == HTP_OK || rc == HTP_ERROR, "OK or ERROR");
      VASSERT(LIFE_PARSERS_SET(cfg), "whatever personality was asked for (known or not), the parsers stay installed");
      if (rc == HTP_OK) VASSERT(cfg->server_personality == p, "OK: personality recorded"); else VASSERT(cfg->server_personality == HTP_SERVER_MINIMAL, "ERROR: personality unchanged");
      VASSERT(cfg->decoder_cfgs[HTP_DECODER_URL_PATH].bestfit_map == bestfit_1252, "personalities never replace the best-fit table");
    }
    htp_config_destroy(cfg);
  }
  CANARY(); }'''
lem('c18_config_create_destroy', ['htp_config.c'], CFG_H,
    'htp_config_create ; [htp_config_set_server_personality(any value)] ; htp_config_destroy: one allocation, undone exactly once; a configuration that exists always has its four parser function pointers (the state machine calls them unchecked), '
    'the documented limits, no hooks, and points every decoder context at the static best-fit table; an unknown personality is refused and changes nothing',
    ['personality: any int value of the enum type; real htp_hooks.c, htp_list.c linked (every hook is NULL: htp_hook_destroy(NULL))',
     'registration of callbacks into a configuration and htp_config_copy: units c18_hook_register_copy_destroy, c18_config_copy'],
    props=['C18', 'C01', 'C10', 'C19'], defs={}, link=['htp_hooks.c', 'htp_list.c'], unwind=6, min_obl=50)

# ----------------------------------------------------------------------------------------------------------------------
# htp_connp_destroy_all on a parser that stopped in the middle of a message: buffered partial lines, pending folded headers, PUT file record
# ----------------------------------------------------------------------------------------------------------------------
CONNPO_H = r'''
static htp_cfg_t life_cfg;
#define LIFE_CLEAN free(connp); free(conn); free(txl); free(txe); free(ml); free(me); free(ib); free(ob); free(ih); free(oh); free(pf); free(pfn); free(tx)
void HARNESS(void) {
  htp_connp_t *connp = malloc(sizeof(htp_connp_t)); htp_conn_t *conn = malloc(sizeof(htp_conn_t));
  htp_list_array_t *txl = malloc(sizeof(htp_list_array_t)); void **txe = C18_ELEMS_RAW(2); htp_list_array_t *ml = malloc(sizeof(htp_list_array_t)); void **me = C18_ELEMS_RAW(2);
  unsigned char *ib = malloc(3), *ob = malloc(3); bstr *ih = C18_BSTR_RAW(1), *oh = C18_BSTR_RAW(1), *pfn = C18_BSTR_RAW(1); htp_file_t *pf = malloc(sizeof(htp_file_t)); htp_tx_t *tx = malloc(sizeof(htp_tx_t));
  C18_NEED(connp, LIFE_CLEAN) C18_NEED(conn, LIFE_CLEAN) C18_NEED(txl, LIFE_CLEAN) C18_NEED(txe, LIFE_CLEAN) C18_NEED(ml, LIFE_CLEAN) C18_NEED(me, LIFE_CLEAN) C18_NEED(ib, LIFE_CLEAN) C18_NEED(ob, LIFE_CLEAN)
  C18_NEED(ih, LIFE_CLEAN) C18_NEED(oh, LIFE_CLEAN) C18_NEED(pf, LIFE_CLEAN) C18_NEED(pfn, LIFE_CLEAN) C18_NEED(tx, LIFE_CLEAN)
  *connp = (htp_connp_t){0}; *conn = (htp_conn_t){0}; *pf = (htp_file_t){0}; *tx = (htp_tx_t){0};
  C18_BSTR_INIT(ih, 1, "a"); C18_BSTR_INIT(oh, 1, "b"); C18_BSTR_INIT(pfn, 1, "f");
  C18_LIST_INIT(txl, txe, 2); C18_LIST_PUT(txl, tx); C18_LIST_INIT(ml, me, 2); conn->transactions = txl; conn->messages = ml;
  connp->conn = conn; connp->cfg = &life_cfg; connp->in_tx = tx; connp->out_tx = tx;
  tx->connp = connp; tx->conn = conn; tx->cfg = &life_cfg; tx->is_config_shared = HTP_CONFIG_SHARED;
  int has_ib, has_ob, has_ih, has_oh, has_pf;
  if (has_ib) { connp->in_buf = ib; connp->in_buf_size = 3; } else free(ib);
  if (has_ob) { connp->out_buf = ob; connp->out_buf_size = 3; } else free(ob);
  if (has_ih) connp->in_header = ih; else free(ih);
  if (has_oh) connp->out_header = oh; else free(oh);
  if (has_pf) { pf->filename = pfn; pf->fd = -1; connp->put_file = pf; } else { free(pf); free(pfn); }
#if LIFE_KEEP_DATA
  /* htp_connection_parser.h: "htp_connp_destroy: Destroys the connection parser and its data structures, leaving all the data (connection, transactions, etc) intact" */
  tx->request_progress = HTP_REQUEST_COMPLETE; tx->response_progress = HTP_RESPONSE_COMPLETE;
  htp_connp_destroy(connp);
  VASSERT(__CPROVER_r_ok(conn, sizeof(*conn)) && __CPROVER_r_ok(tx, sizeof(*tx)) && conn->transactions == txl && txe[0] == (void *) tx, "connection and transaction are left intact");
  VASSERT(conn->messages == ml && __CPROVER_r_ok(ml, sizeof(*ml)) && __CPROVER_r_ok(txl, sizeof(*txl)) && __CPROVER_r_ok(me, 2 * sizeof(void *)) && __CPROVER_r_ok(txe, 2 * sizeof(void *)) && tx->conn == conn, "both lists of the connection are left intact");
#ifdef KNOWN_F_C01_CONNP_DESTROY_DANGLING
  tx->connp = NULL;            /* finding c01_connp_destroy_dangling_tx: the transactions keep pointing at the freed parser; harness-side detach */
#endif
  htp_status_t rc = htp_tx_destroy(tx);                          /* the public destructor of a complete transaction, used on the data that was left intact */
  VASSERT(rc == HTP_OK && txe[0] == NULL, "the complete transaction is destroyed and leaves its slot");
  htp_conn_destroy(conn);
#else
  htp_connp_destroy_all(connp);
#endif
  CANARY(); }'''
lem('c18_connp_destroy_all_midstream', ['htp_connection_parser.c'], CONNPO_H,
    'htp_connp_destroy_all on a parser abandoned in the middle of a message (C01: clean teardown at any point): any subset of {buffered partial request line, buffered partial response line, pending folded request header, pending folded response header, '
    'PUT file record with its name} plus one live transaction that is current in both directions: everything is freed exactly once, nothing leaks, the transaction is destroyed through the connection before the parser record goes away',
    ['parser, connection, both lists, one zero-initialised transaction laid out by the harness; no decompressor attached (their teardown: unit c07_chain)',
     'real htp_connection.c, htp_transaction.c (htp_tx_destroy_incomplete, decompressor teardown), htp_list.c, htp_table.c, bstr.c, htp_util.c linked'],
    defs={'LIFE_KEEP_DATA': 0}, link=['htp_transaction.c'] + [x for x in TXL2 if x != 'htp_connection_parser.c'], unwind=6, min_obl=100)
lem('c18_connp_destroy_keeps_data', ['htp_connection_parser.c'], CONNPO_H,
    'htp_connp_destroy ; htp_tx_destroy(a complete transaction of that connection) ; htp_conn_destroy - the documented history "destroy the parser, keep connection and transactions": the parser\'s own buffers are freed once, '
    'connection and transaction stay live and usable, the transaction can be destroyed afterwards without touching freed memory, nothing leaks',
    ['same hand-built parser state as c18_connp_destroy_all_midstream (any subset of buffered lines / pending headers / PUT record), one COMPLETE transaction',
     'finding c01_connp_destroy_dangling_tx (findings/c01_connp_destroy_dangling_tx.c, ASan heap-use-after-free: htp_connp_destroy left tx->connp of the surviving transactions pointing at the freed parser and '
     'htp_tx_destroy_incomplete dereferenced it) is FIXED in /repo; the harness-side detach KNOWN_F_C01_CONNP_DESTROY_DANGLING is no longer defined by any unit'],
    defs={'LIFE_KEEP_DATA': 1}, link=['htp_transaction.c'] + [x for x in TXL2 if x != 'htp_connection_parser.c'], unwind=6, min_obl=100)

# ----------------------------------------------------------------------------------------------------------------------
# one request cookie ; the cookie part of htp_tx_destroy_incomplete
# ----------------------------------------------------------------------------------------------------------------------
COOKIE_H = r'''
static htp_connp_t life_connp; static htp_tx_t life_tx;
#define LIFE_CLEAN free(t); free(e); free(n0); free(v0)
static void cookie_case(int full, const unsigned char *a, size_t la) {          /* full is a constant at the call sites */
  htp_table_t *t = malloc(sizeof(htp_table_t)); void **e = C18_ELEMS_RAW(2); bstr *n0 = C18_BSTR_RAW(1), *v0 = C18_BSTR_RAW(1);
  C18_NEED(t, LIFE_CLEAN) C18_NEED(e, LIFE_CLEAN) C18_NEED(n0, LIFE_CLEAN) C18_NEED(v0, LIFE_CLEAN)
  C18_BSTR_INIT(n0, 1, "a"); C18_BSTR_INIT(v0, 1, "1");
  C18_TABLE_INIT(t, e, 2);                                                        /* room for ONE cookie: a second one must grow the table */
  if (full) { C18_TABLE_PUT(t, n0, v0, HTP_TABLE_KEYS_ADOPTED); t->list.last = 0; } else { free(n0); free(v0); }
  life_connp.in_tx = &life_tx; life_tx.connp = &life_connp; life_tx.request_cookies = t;
  size_t before = htp_table_size(t);
  int rc = htp_parse_single_cookie_v0(&life_connp, (unsigned char *) a, la);
  VASSERT(rc == HTP_OK || rc == HTP_ERROR, "OK or ERROR");
  VASSERT(htp_table_size(t) == before || htp_table_size(t) == before + 1, "at most one cookie is added");
  if (rc == HTP_ERROR) VASSERT(htp_table_size(t) == before, "ERROR: nothing added");
  /* htp_tx_destroy_incomplete, cookie part */
  for (size_t i = 0, n = htp_table_size(life_tx.request_cookies); i < n; i++) bstr_free(htp_table_get_index(life_tx.request_cookies, i, NULL));
  htp_table_destroy(life_tx.request_cookies);
}
void HARNESS(void) { unsigned char a[3]; size_t la; int full; VASSUME(la <= 3);
#ifdef KNOWN_F_C18_COOKIE_ADD_IGNORED
  full = 0;                    /* finding c18_cookie_add_ignored: a failed growth of the table leaks name and value; only the no-growth insertion is claimed */
#endif
  if (full) cookie_case(1, a, la); else cookie_case(0, a, la);
  CANARY(); }'''
lem('c18_cookie_single', ['htp_cookies.c'], COOKIE_H,
    'htp_parse_single_cookie_v0 ; the cookie part of htp_tx_destroy_incomplete: name and value copies are owned by exactly one party on every path (released on a failed second copy, adopted by the table on success), ERROR adds nothing, nothing leaks',
    ['cookie text: every byte string of length 0..3 (name only, name=value, empty name, empty value); request_cookies laid out by the harness with capacity for one cookie',
     'bstr_dup_mem exchanged at its call sites by the fixed-capacity stand-in of contracts/c18_alloc.h (symbolic-size copies do not encode); real htp_table.c, htp_list.c, bstr.c otherwise',
     'OBSERVATION, NOT A FINDING (a leak / a dropped item under allocation failure: C18 demands no crash, corruption, double free or use after free - not leak-freedom; the clause is therefore not claimed on that path) c18_cookie_add_ignored (findings/c18_cookie_add_ignored.c, confirmed natively): the result of htp_table_addn is ignored, so when the table is full and its growth fails both strings leak; '
     'with KNOWN_F_C18_COOKIE_ADD_IGNORED only the insertion without growth is claimed; probe = the same unit without the macro (table already holding one cookie: fails the leak obligation on the unchanged tree)'],
    defs={'C18_DUPCAP': 4, 'KNOWN_F_C18_COOKIE_ADD_IGNORED': 1}, link=['bstr.c', 'htp_table.c', 'htp_list.c'], unwind=8, min_obl=50,
    pre_instrument=['--replace-calls', 'bstr_dup_mem:c18_bstr_dup_mem'])

# ======================================================================================================================
# 6. the two request-body parsers a transaction may own: create ; destroy (what htp_tx_destroy_incomplete calls)
# ======================================================================================================================
URLENP_H = r'''
static htp_tx_t life_tx;
void HARNESS(void) {
  htp_urlenp_t *u = htp_urlenp_create(&life_tx);
  if (u != NULL) {
    VASSERT(u->tx == &life_tx && u->argument_separator == '&' && u->decode_url_encoding == 1 && u->_state == HTP_URLENP_STATE_KEY, "created: documented defaults, attached to its transaction");
    VASSERT(u->params != NULL && htp_table_size(u->params) == 0 && u->_bb != NULL && bstr_builder_size(u->_bb) == 0 && u->_name == NULL && u->_complete == 0, "created: empty parameter table, empty piece buffer, nothing pending");
    htp_urlenp_destroy(u);
  }
  CANARY(); }'''
lem('c18_urlenp_create_destroy', ['htp_urlencoded.c'], URLENP_H,
    'htp_urlenp_create ; htp_urlenp_destroy: partial creation is undone whichever of the five allocations fails (record, table, its array, piece buffer, its list), the complete parser is released exactly once, nothing leaks; defaults as documented',
    ['real htp_table.c, htp_list.c, bstr.c, bstr_builder.c linked; the parser has parsed nothing (parsing + hand-over of parameters: units htp_urlenp_*, c18_urlenc_body)'],
    props=['C18', 'C01', 'C15'], defs={}, link=['htp_table.c', 'htp_list.c', 'bstr.c', 'bstr_builder.c'], unwind=6, min_obl=50)

MPARTP_H = r'''
static htp_cfg_t life_cfg;
void life_never_part_destroy(htp_multipart_part_t *part, int gave_up_data) { VASSERT(0, "a new multipart parser has no part"); }
void HARNESS(void) {
  bstr *b = C18_BSTR_RAW(3);
  C18_NEED(b, ;)
  C18_BSTR_INIT(b, 3, "aBc");
  int lim, xf; uint64_t flags; life_cfg.extract_request_files_limit = lim; life_cfg.extract_request_files = xf;
  htp_mpartp_t *p = htp_mpartp_create(&life_cfg, b, flags);
  if (p == NULL) {
    VASSERT(__CPROVER_r_ok(b, sizeof(bstr) + 3) && b->len == 3, "failure: the boundary string still belongs to the caller, untouched");
    bstr_free(b);                                              /* htp_ch_multipart_callback_request_headers: if (tx->request_mpartp == NULL) { bstr_free(boundary); return HTP_ERROR; } */
  } else {
    /* success: the parser took the boundary over (and released it); delimiter = CR LF "--" boundary, NUL-terminated, bytes as given */
    VASSERT(p->multipart.boundary != NULL && p->multipart.boundary_len == 7, "created: delimiter length = 4 + boundary length");
    VASSERT(p->multipart.boundary[0] == CR && p->multipart.boundary[1] == LF && p->multipart.boundary[2] == '-' && p->multipart.boundary[3] == '-' &&
            p->multipart.boundary[4] == 'a' && p->multipart.boundary[5] == 'B' && p->multipart.boundary[6] == 'c' && p->multipart.boundary[7] == 0, "created: delimiter = CRLF -- boundary, bytes unchanged, NUL-terminated");
    VASSERT(p->parser_state == STATE_BOUNDARY && p->boundary_match_pos == 2, "created: the first delimiter may come without the leading CRLF");
    VASSERT(p->multipart.flags == flags && p->cfg == &life_cfg && p->current_part == NULL && p->gave_up_data == 0 && p->multipart.boundary_count == 0, "created: flags as handed in, no part yet");
    VASSERT(p->multipart.parts != NULL && htp_list_size(p->multipart.parts) == 0 && p->boundary_pieces != NULL && p->part_data_pieces != NULL && p->part_header_pieces != NULL, "created: empty part list and piece buffers");
    VASSERT(p->extract_files == xf && p->extract_limit == (lim >= 0 ? lim : DEFAULT_FILE_EXTRACT_LIMIT), "created: extraction settings from the configuration");
    VASSERT(p->handle_data != NULL && p->handle_boundary != NULL, "created: both event handlers installed (called unchecked by the matcher)");
    htp_mpartp_destroy(p);
  }
  CANARY(); }'''
lem('c18_mpartp_create_destroy', ['htp_multipart.c'], MPARTP_H,
    'htp_mpartp_create ; htp_mpartp_destroy with a 3-byte boundary: whichever of the ten allocations fails, creation returns NULL with the boundary string still owned by the caller (who frees it: no double free, no leak) and every partial piece released; '
    'on success the boundary is taken over and released exactly once, the delimiter is CRLF "--" boundary (bytes unchanged, NUL-terminated), the matcher starts in the state that accepts a first delimiter without CRLF, and teardown frees everything once',
    ['boundary: the constant 3-byte string "aBc" in an exact-size heap bstr; flags, extraction settings arbitrary; configuration static',
     'htp_mpart_part_destroy exchanged at its call site by a stand-in that asserts it is unreachable (a new parser has no part; proved)',
     'real bstr_builder.c, htp_list.c, bstr.c, htp_table.c linked'],
    props=['C18', 'C01', 'C14'], defs={}, link=['htp_table.c', 'htp_list.c', 'bstr.c', 'bstr_builder.c'], unwind=6, min_obl=50,
    pre_instrument=['--replace-calls', 'htp_mpart_part_destroy:life_never_part_destroy'])

# ----------------------------------------------------------------------------------------------------------------------
# multipart body: text parts are handed to the transaction at end of body ; REAL htp_tx_destroy_incomplete
# ----------------------------------------------------------------------------------------------------------------------
MPH_H = r'''
static htp_cfg_t life_cfg; static htp_connp_t life_connp; static htp_conn_t life_conn; static htp_list_array_t life_txl; static void *life_txe[2];
htp_status_t life_finalize_done(htp_mpartp_t *parser) { VASSERT(__CPROVER_r_ok(parser, sizeof(*parser)), "finalize: live parser"); return HTP_OK; }
#define LIFE_CLEAN free(tx); free(tp); free(tpe); free(mp); free(pl); free(ple); free(p0); free(p1); free(n0); free(v0); free(n1); free(v1)
void HARNESS(void) {
  htp_tx_t *tx = malloc(sizeof(htp_tx_t)); htp_table_t *tp = malloc(sizeof(htp_table_t)); void **tpe = C18_ELEMS_RAW(2);       /* tx->request_params: room for ONE pair, the second add must grow */
  htp_mpartp_t *mp = malloc(sizeof(htp_mpartp_t)); htp_list_array_t *pl = malloc(sizeof(htp_list_array_t)); void **ple = C18_ELEMS_RAW(2);
  htp_multipart_part_t *p0 = malloc(sizeof(htp_multipart_part_t)), *p1 = malloc(sizeof(htp_multipart_part_t));
  bstr *n0 = C18_BSTR_RAW(1), *v0 = C18_BSTR_RAW(1), *n1 = C18_BSTR_RAW(1), *v1 = C18_BSTR_RAW(1);
  C18_NEED(tx, LIFE_CLEAN) C18_NEED(tp, LIFE_CLEAN) C18_NEED(tpe, LIFE_CLEAN) C18_NEED(mp, LIFE_CLEAN) C18_NEED(pl, LIFE_CLEAN) C18_NEED(ple, LIFE_CLEAN)
  C18_NEED(p0, LIFE_CLEAN) C18_NEED(p1, LIFE_CLEAN) C18_NEED(n0, LIFE_CLEAN) C18_NEED(v0, LIFE_CLEAN) C18_NEED(n1, LIFE_CLEAN) C18_NEED(v1, LIFE_CLEAN)
  *tx = (htp_tx_t){0}; *mp = (htp_mpartp_t){0}; *p0 = (htp_multipart_part_t){0}; *p1 = (htp_multipart_part_t){0};
  C18_BSTR_INIT(n0, 1, "a"); C18_BSTR_INIT(v0, 1, "1"); C18_BSTR_INIT(n1, 1, "b"); C18_BSTR_INIT(v1, 1, "2");
  C18_TABLE_INIT(tp, tpe, 2); C18_LIST_INIT(pl, ple, 2); C18_LIST_PUT(pl, p0); C18_LIST_PUT(pl, p1); pl->last = 0;
  p0->parser = mp; p0->type = MULTIPART_PART_TEXT; p0->name = n0; p0->value = v0;
  p1->parser = mp; p1->type = MULTIPART_PART_TEXT; p1->name = n1; p1->value = v1;
  mp->cfg = &life_cfg; mp->multipart.parts = pl;
  C18_LIST_INIT(&life_txl, life_txe, 2); C18_LIST_PUT(&life_txl, tx); life_conn.transactions = &life_txl; life_connp.conn = &life_conn; life_connp.cfg = &life_cfg; life_connp.in_tx = tx;
  tx->connp = &life_connp; tx->conn = &life_conn; tx->cfg = &life_cfg; tx->is_config_shared = HTP_CONFIG_SHARED; tx->request_params = tp; tx->request_mpartp = mp;
  htp_tx_data_t d; d.tx = tx; d.data = NULL; d.len = 0; d.is_last = 1;                                    /* end-of-body marker */
  htp_status_t rc = htp_ch_multipart_callback_request_body_data(&d);
  VASSERT(rc == HTP_OK || rc == HTP_ERROR, "OK or ERROR");
  if (rc == HTP_OK) VASSERT(mp->gave_up_data == 1 && htp_table_size(tx->request_params) == 2, "OK: both text parts became parameters, the parser gave their strings up");
  VASSERT(htp_table_size(tx->request_params) <= 2, "no part is handed over twice");
#ifdef KNOWN_F_C18_MPART_HANDOVER_LEAK
  /* finding c18_mpart_handover_leak: after a failure in the middle of the hand-over gave_up_data == 1 covers ALL text parts although only the first ones were
   * handed over: the others' strings are owned by nobody.  Harness-side repair = release the strings of the parts that did not become parameters. */
  if (rc == HTP_ERROR && mp->gave_up_data == 1) {
    size_t moved = htp_table_size(tx->request_params);
    if (moved < 1) { bstr_free(p0->name); bstr_free(p0->value); }
    if (moved < 2) { bstr_free(p1->name); bstr_free(p1->value); }
  }
#endif
  htp_tx_destroy_incomplete(tx);                                                                         /* REAL teardown: multipart parser with its parts, parameters, tables */
  CANARY(); }'''
lem('c18_mpart_body_handover', ['htp_content_handlers.c'], MPH_H,
    'htp_ch_multipart_callback_request_body_data at end of body with two text parts ; REAL htp_tx_destroy_incomplete (htp_mpartp_destroy + htp_mpart_part_destroy, parameter loop): every name / value string is freed exactly once whichever allocation fails '
    '(parameter record, growth of tx->request_params) - no double free; OK => both parts are parameters',
    ['transaction, multipart parser (two complete TEXT parts, no headers, no piece buffers) and parameter table (room for one pair: the second insertion grows it) laid out by the harness',
     'htp_mpartp_finalize exchanged at its call site by a stand-in that requires a live parser and returns OK (finalisation of the matcher: units c14_finalize*)',
     'OBSERVATION, NOT A FINDING (a leak / a dropped item under allocation failure: C18 demands no crash, corruption, double free or use after free - not leak-freedom; the clause is therefore not claimed on that path) c18_mpart_handover_leak (native sweep findings/c18_mpart_part_push_ignored.c, k = 728..795): after a failed calloc(param) / htp_tx_req_add_param in the middle of the loop gave_up_data = 1 stops the parser from freeing the strings of '
     'the parts that were NOT handed over: they leak. With KNOWN_F_C18_MPART_HANDOVER_LEAK the harness releases them; probe = the same unit without the macro (fails the leak obligation on the unchanged tree)',
     'real htp_transaction.c, htp_multipart.c, htp_table.c, htp_list.c, bstr.c, bstr_builder.c linked'],
    defs={'KNOWN_F_C18_MPART_HANDOVER_LEAK': 1}, link=['htp_transaction.c'] + TXL2, unwind=6, min_obl=100,
    pre_instrument=['--replace-calls', 'htp_mpartp_finalize:life_finalize_done'])

# ----------------------------------------------------------------------------------------------------------------------
# multipart: a new part is created when data arrives ; htp_mpartp_destroy
# ----------------------------------------------------------------------------------------------------------------------
MPP_H = r'''
static htp_cfg_t life_cfg; static int life_part_calls;
htp_status_t life_part_data(htp_multipart_part_t *part, const unsigned char *data, size_t len, int is_line) {
  VASSERT(__CPROVER_r_ok(part, sizeof(*part)) && part->parser != NULL && part->parser->current_part == part && len == 1, "the bytes go to the parser's current part");
#ifndef KNOWN_F_C18_MPART_PART_PUSH_IGNORED
  { htp_list_t *pl = part->parser->multipart.parts; size_t n = htp_list_size(pl);
    VASSERT(n >= 1 && htp_list_get(pl, n - 1) == (void *) part, "a part that receives data is the last element of the part list (so it is reported, and destroyed with the parser)"); }
#endif
  life_part_calls++; int rc; return rc ? HTP_OK : HTP_ERROR; }
#define LIFE_BB_OBJS(x) bstr_builder_t *x = malloc(sizeof(bstr_builder_t)); htp_list_array_t *x##_l = malloc(sizeof(htp_list_array_t)); void **x##_e = C18_ELEMS_RAW(2);
#define LIFE_BB_FREE(x) free(x); free(x##_l); free(x##_e);
#define LIFE_BB_NEED(x) C18_NEED(x, LIFE_CLEAN) C18_NEED(x##_l, LIFE_CLEAN) C18_NEED(x##_e, LIFE_CLEAN)
#define LIFE_CLEAN free(mp); free(pl); free(ple); free(p0); LIFE_BB_FREE(bd) LIFE_BB_FREE(bh)
static void part_case(int full) {                                  /* full is a constant at the call sites */
  htp_mpartp_t *mp = malloc(sizeof(htp_mpartp_t)); htp_list_array_t *pl = malloc(sizeof(htp_list_array_t)); void **ple = C18_ELEMS_RAW(1);
  htp_multipart_part_t *p0 = malloc(sizeof(htp_multipart_part_t)); LIFE_BB_OBJS(bd) LIFE_BB_OBJS(bh)
  C18_NEED(mp, LIFE_CLEAN) C18_NEED(pl, LIFE_CLEAN) C18_NEED(ple, LIFE_CLEAN) C18_NEED(p0, LIFE_CLEAN) LIFE_BB_NEED(bd) LIFE_BB_NEED(bh)
  *mp = (htp_mpartp_t){0}; *p0 = (htp_multipart_part_t){0};
  C18_LIST_INIT(bd_l, bd_e, 2); bd->pieces = bd_l; C18_LIST_INIT(bh_l, bh_e, 2); bh->pieces = bh_l;
  C18_LIST_INIT(pl, ple, 1);                                        /* part list with ONE slot: with an earlier part in it the append must grow the list */
  p0->parser = mp; p0->type = MULTIPART_PART_UNKNOWN;
  if (full) { C18_LIST_PUT(pl, p0); pl->last = 0; } else free(p0);
  int bc; VASSUME(bc >= 0); mp->cfg = &life_cfg; mp->multipart.parts = pl; mp->part_data_pieces = bd; mp->part_header_pieces = bh; mp->multipart.boundary_count = bc;
  unsigned char byte; size_t n0 = full ? 1 : 0;
  htp_status_t rc = htp_mpartp_handle_data(mp, &byte, 1, 0);
  VASSERT(rc == HTP_OK || rc == HTP_ERROR, "OK or ERROR");
  if (mp->current_part == NULL) VASSERT(rc == HTP_ERROR && life_part_calls == 0 && htp_list_size(pl) == n0, "no part could be created: ERROR, nothing delivered, list unchanged");
  else {
    VASSERT(life_part_calls == 1, "the byte was delivered once");
    VASSERT((mp->current_part->type == MULTIPART_PART_PREAMBLE) == (bc == 0) && ((mp->multipart.flags & HTP_MULTIPART_HAS_PREAMBLE) != 0) == (bc == 0), "data before the first boundary - and only that - is the preamble");
#ifdef KNOWN_F_C18_MPART_PART_PUSH_IGNORED
    /* finding c18_mpart_part_push_ignored (a): a failed append leaves the new part outside the list; harness-side repair = destroy it here */
    if (htp_list_size(pl) == n0) { htp_mpart_part_destroy(mp->current_part, 0); mp->current_part = NULL; }
#endif
  }
  htp_mpartp_destroy(mp);
}
void HARNESS(void) { int full; if (full) part_case(1); else part_case(0); CANARY(); }'''
lem('c18_mpartp_new_part', ['htp_multipart.c'], MPP_H,
    'htp_mpartp_handle_data with no current part ; htp_mpartp_destroy, part list with room or FULL: whichever allocation fails (part record, its header table and array, growth of the part list) either no part exists and ERROR is returned with nothing delivered, '
    'or the new part receives the byte exactly once and is released exactly once at teardown; data before the first boundary - and only that - becomes the preamble part',
    ['parser, part list (one slot, empty or holding an earlier part) and both piece buffers laid out by the harness; one data byte, not a line end; boundary count arbitrary (>= 0: it is a counter, VASSUME in the harness)',
     'htp_mpart_part_handle_data (line / data mode processing of the part: C14 units) exchanged at its call site by a stand-in that asserts the part is the live current part and answers arbitrarily',
     'OBSERVATION, NOT A FINDING (a leak / a dropped item under allocation failure: C18 demands no crash, corruption, double free or use after free - not leak-freedom; the clause is therefore not claimed on that path) c18_mpart_part_push_ignored (a) (findings/c18_mpart_part_push_ignored.c, k = 708, confirmed natively): the result of htp_list_push is ignored; when the list is full and its growth fails the part is used but never listed, hence never destroyed. '
     'With KNOWN_F_C18_MPART_PART_PUSH_IGNORED the membership assertion is dropped and the harness destroys the orphan; probe = the same unit without the macro (fails on the unchanged tree)',
     'real htp_table.c, htp_list.c, bstr.c, bstr_builder.c linked'],
    props=['C18', 'C01', 'C14'], defs={'KNOWN_F_C18_MPART_PART_PUSH_IGNORED': 1}, link=['htp_table.c', 'htp_list.c', 'bstr.c', 'bstr_builder.c'], unwind=3, min_obl=100,
    pre_instrument=['--replace-calls', 'htp_mpart_part_handle_data:life_part_data'])

# ----------------------------------------------------------------------------------------------------------------------
# create ; [open] ; close ; destroy_all with the REAL data drivers on a parser that never saw a byte
# ----------------------------------------------------------------------------------------------------------------------
IDLE_H = r'''
void life_never_tx_destroy(htp_tx_t *tx) { VASSERT(0, "a connection without transactions destroys no transaction"); }
htp_status_t life_no_hook(htp_hook_t *hook, void *user_data) { VASSERT(hook == NULL, "no callback is registered: no hook to run"); return HTP_OK; }
void HARNESS(void) {
  static htp_cfg_t life_cfg;
  htp_connp_t *connp = htp_connp_create(&life_cfg);
  if (connp != NULL) {
    int do_open, only_req; char ca[4], sa[4]; int has_c, has_s, has_ts, cp, sp; htp_time_t ts, ts2;
    ca[3] = 0; sa[3] = 0;
    if (do_open) htp_connp_open(connp, has_c ? ca : NULL, cp, has_s ? sa : NULL, sp, has_ts ? &ts : NULL);
    if (only_req) htp_connp_req_close(connp, has_ts ? &ts2 : NULL); else htp_connp_close(connp, has_ts ? &ts2 : NULL);
    /* htp_connp_REQ_IDLE: "start parsing the next request only if there is at least one byte of data available. Otherwise we could be creating new structures even if there is no more data on the connection." */
    VASSERT(htp_list_size(connp->conn->transactions) == 0 && connp->in_tx == NULL && connp->out_tx == NULL, "closing an idle parser creates no transaction");
    VASSERT(connp->in_state == htp_connp_REQ_IDLE && connp->out_state == htp_connp_RES_IDLE, "both directions stay idle");
    VASSERT(connp->conn->in_data_counter == 0 && connp->conn->out_data_counter == 0, "no byte is counted for the empty chunks");
    VASSERT(connp->in_status != HTP_STREAM_ERROR && connp->out_status != HTP_STREAM_ERROR, "closing an idle parser is not an error");
    VASSERT(connp->in_buf == NULL && connp->out_buf == NULL && connp->in_header == NULL && connp->out_header == NULL, "nothing is buffered");
    htp_connp_destroy_all(connp);
  }
  CANARY(); }'''
lem('c18_connp_idle_close_real_drivers', ['htp_connection_parser.c'], IDLE_H,
    'htp_connp_create ; [htp_connp_open] ; htp_connp_close | htp_connp_req_close ; htp_connp_destroy_all with the REAL htp_connp_req_data / htp_connp_res_data: on a parser that never saw a byte the close calls run only the two IDLE state functions, '
    'create no transaction, buffer nothing, count no byte, report no error, and the teardown afterwards frees everything exactly once whichever allocation failed',
    ['the function-pointer calls of both drivers are restricted (goto-instrument --restrict-function-pointer, which ASSERTS the pointer is in the set) to htp_connp_REQ_IDLE / htp_connp_RES_IDLE: proved, a fresh parser is in no other state',
     'htp_hook_run_all exchanged at its call sites by a stand-in that asserts the hook is NULL (no callback registered in this unit); htp_tx_destroy_incomplete asserted unreachable; htp_log: EMPTY stub (several real list appends in a row do not leave propositional reduction; the ownership of log records is units c18_connp_create_destroy_all / c18_conn_destroy_full)',
     'real htp_request.c, htp_response.c, htp_connection.c, htp_transaction.c, htp_list.c linked'],
    defs={'C18_LOG_STUB': 1}, link=CLINK + ['htp_request.c', 'htp_response.c', 'htp_table.c', 'htp_hooks.c'], unwind=6, min_obl=100,
    pre_instrument=NEVER_TX + ['--replace-calls', 'htp_hook_run_all:life_no_hook',
                               '--restrict-function-pointer', 'htp_connp_req_data.function_pointer_call.1/htp_connp_REQ_IDLE', '--restrict-function-pointer', 'htp_connp_req_data.function_pointer_call.2/htp_connp_REQ_IDLE',
                               '--restrict-function-pointer', 'htp_connp_res_data.function_pointer_call.1/htp_connp_RES_IDLE', '--restrict-function-pointer', 'htp_connp_res_data.function_pointer_call.2/htp_connp_RES_IDLE'])
