"""C01 - clean teardown: what a transaction owns is released exactly once by the REAL htp_tx_destroy_incomplete.
Units written by the coordinator after round-4 observations (breaker agents pointed at a leak in the unchanged tree)."""
from vrun import U

UNITS = []
TXLINK = ['htp_urlencoded.c', 'htp_table.c', 'htp_list.c', 'bstr.c', 'bstr_builder.c', 'htp_connection.c',
          'htp_connection_parser.c', 'htp_util.c', 'htp_multipart.c', 'htp_hooks.c', 'htp_config.c', 'htp_decompressors.c']

HOOKS_H = r'''
static htp_conn_t c01h_conn; static htp_connp_t c01h_connp; static const htp_tx_t c01h_tx0;   /* all-zero template: symex keeps every field a constant */
static int c01h_cb(htp_tx_data_t *d) { return HTP_OK; }
static void c01h_case(int k, _Bool a, _Bool b) {                      /* k is a constant at every call site: no merge of the cases before the teardown */
  htp_tx_t *tx = malloc(sizeof(*tx)); if (tx == NULL) return;
  *tx = c01h_tx0;
  tx->conn = &c01h_conn; tx->connp = &c01h_connp; tx->is_config_shared = HTP_CONFIG_SHARED;
  c01h_connp.in_tx = a ? tx : NULL; c01h_connp.out_tx = b ? tx : NULL;
  /* the documented way for a callback to get body data of ONE transaction: per-transaction hooks */
  if (k == 1) htp_tx_register_request_body_data(tx, c01h_cb);
  if (k == 2) htp_tx_register_response_body_data(tx, c01h_cb);
  htp_tx_destroy_incomplete(tx);                                   /* REAL teardown; --memory-leak-check: nothing the library allocated survives */
  VASSERT(c01h_connp.in_tx == NULL && c01h_connp.out_tx == NULL, "a destroyed transaction is detached from both directions");
}
void HARNESS(void) {
  _Bool a, b;
  c01h_case(C01H_K, a, b);                                          /* one hook kind per unit: merging the cases does not leave propositional reduction */
  CANARY(); }'''
for _k, _nm in ((1, 'request'), (2, 'response')):
  UNITS.append(U(name='c01_tx_teardown_%s_body_hook' % _nm, props=['C01', 'C10', 'C18'], kind='lemma', src=['htp_transaction.c'], link=TXLINK,
                 contracts_inc=[], harness=HOOKS_H, defs={'quick': {'C01H_K': _k}},
                 flags_add=['--unwind', '6', '--unwinding-assertions', '--memory-leak-check'], min_obl=50, timeout=(300, 900),
                 sub='register a per-transaction %s_BODY_DATA hook' % _nm.upper() + ' (one hook with one callback per run, real htp_hook_register) ; REAL htp_tx_destroy_incomplete: '
                     'both hooks, their callback lists and records are freed exactly once, nothing leaks, whichever allocation fails; the transaction is detached from the parser',
                 assumes=['every malloc/calloc/realloc may fail independently',
                          'all other transaction fields NULL (htp_tx_destroy_incomplete handles them by its NULL tests); connection without a transaction list',
                          'one hook object with ONE callback per run (request side or response side): a second registration on the same hook, or two live hook lists in one run, does not leave propositional reduction (list push cliff, DESIGN 8.2); the push itself is covered by the htp_list_array_push_cap* units']))
