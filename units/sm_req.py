from vrun import U

UNITS = []
D = {'quick': {'CHUNK_CAP': 4096}, 'thorough': {'CHUNK_CAP': 1048576}}
A = ['chunk length <= CHUNK_CAP (symbolic); stream offset and message length <= 2^62 on entry (int64 counters provably do not wrap within one call)',
     'body sink htp_tx_req_process_body_data_ex replaced by a logging stub with arbitrary return code; its frame is enforced on the real function by its own unit']
INC = ['sm.h']
H = 'void HARNESS(void) { htp_connp_t *c; %s(c); CANARY(); }'


def st(fn, props, sub, replace=(), loops=None, **kw):
    UNITS.append(U(name=fn, props=props, kind='contract', src=['htp_request.c'], enforce=fn, replace=list(replace),
                   contracts_inc=INC, loops={'htp_request.c': {fn: loops}} if loops else {}, harness=H % fn, defs=D,
                   min_obl=30, sub=sub, assumes=A, **kw))


BODY = 'per call: bytes delivered to the body sink == bytes consumed == -delta(bytes owed) == delta(message length) == delta(stream offset); the delivered range is exactly [read, read+n) of the chunk; body ends exactly when nothing is owed; DATA only with the chunk exhausted'
st('htp_connp_REQ_BODY_IDENTITY', ['C06', 'C09', 'C03', 'C01'], BODY, replace=['htp_tx_req_process_body_data_ex'])
st('htp_connp_REQ_BODY_CHUNKED_DATA', ['C06', 'C09', 'C03', 'C01'], BODY, replace=['htp_tx_req_process_body_data_ex'])

st('htp_connp_REQ_BODY_CHUNKED_DATA_END', ['C06', 'C09', 'C03', 'C01'], 'chunk trailer line: consumes through the first LF (none skipped), every byte taken is counted in consume/stream offset/message length, DATA only with the chunk exhausted; terminates',
   loops={'count': 1, 0: dict(
       assigns='connp->in_next_byte, connp->in_current_read_offset, connp->in_current_consume_offset, connp->in_stream_offset, connp->in_tx->request_message_len',
       inv=['connp->in_current_read_offset >= __CPROVER_loop_entry(connp->in_current_read_offset)', 'connp->in_current_read_offset <= connp->in_current_len',
            'connp->in_current_consume_offset == __CPROVER_loop_entry(connp->in_current_consume_offset) + (connp->in_current_read_offset - __CPROVER_loop_entry(connp->in_current_read_offset))',
            'connp->in_stream_offset == __CPROVER_loop_entry(connp->in_stream_offset) + (connp->in_current_read_offset - __CPROVER_loop_entry(connp->in_current_read_offset))',
            'connp->in_tx->request_message_len == __CPROVER_loop_entry(connp->in_tx->request_message_len) + (connp->in_current_read_offset - __CPROVER_loop_entry(connp->in_current_read_offset))',
            '(gk < CHUNK_CAP && (int64_t) gk >= __CPROVER_loop_entry(connp->in_current_read_offset) && (int64_t) gk < connp->in_current_read_offset) ==> connp->in_current_data[gk] != LF'],
       dec='connp->in_current_len - connp->in_current_read_offset')})

REQ_STATES = ['htp_connp_REQ_IDLE', 'htp_connp_REQ_LINE', 'htp_connp_REQ_PROTOCOL', 'htp_connp_REQ_HEADERS', 'htp_connp_REQ_CONNECT_CHECK', 'htp_connp_REQ_CONNECT_WAIT_RESPONSE', 'htp_connp_REQ_CONNECT_PROBE_DATA', 'htp_connp_REQ_BODY_DETERMINE', 'htp_connp_REQ_BODY_IDENTITY', 'htp_connp_REQ_BODY_CHUNKED_LENGTH', 'htp_connp_REQ_BODY_CHUNKED_DATA', 'htp_connp_REQ_BODY_CHUNKED_DATA_END', 'htp_connp_REQ_FINALIZE', 'htp_connp_REQ_IGNORE_DATA_AFTER_HTTP_0_9']
UNITS.append(U(name='htp_connp_req_data', props=['C09', 'C16', 'C01'], kind='contract', src=['htp_request.c'], link=['htp_connection.c'],
               enforce='htp_connp_req_data',
               replace=[f + '/contract_req_state' for f in REQ_STATES] + ['htp_req_handle_state_change', 'htp_connp_req_receiver_send_data',
                        'htp_connp_req_buffer/contract_site_htp_connp_req_buffer', 'htp_tx_state_request_complete/contract_site_htp_tx_state_request_complete', 'htp_log'],
               contracts_inc=INC,
               loops={'htp_request.c': {'htp_connp_req_data': {'count': 1, 0: dict(
                   assigns='RQ_STATE_FRAME(connp), g_txstate_n',
                   inv=['connp->conn == __CPROVER_loop_entry(connp->conn)', 'connp->in_current_len == (int64_t) len', 'connp->in_current_data == (unsigned char *) data', 'CUR_IN_CURSOR(connp)',
                        'IS_REQ_STATE(connp->in_state)', 'REQ_TX_INV(connp)', 'connp->in_status != HTP_STREAM_STOP && connp->in_status != HTP_STREAM_ERROR'])}}},
               harness='void HARNESS(void) { htp_connp_t *c; const htp_time_t *t; const void *d; size_t n; htp_connp_req_data(c, t, d, n); CANARY(); }',
               defs=D, min_obl=100, timeout=(600, 1800), objbits=12,
               pre_instrument=['--restrict-function-pointer', 'htp_connp_req_data.function_pointer_call.1/' + ','.join(REQ_STATES),
                               '--restrict-function-pointer', 'htp_connp_req_data.function_pointer_call.2/' + ','.join(REQ_STATES)],
               sub='request driver: documented stream states only; DATA => whole chunk consumed; DATA_OTHER => strictly fewer and resumable; STOP/ERROR sticky with zero state-function calls; TUNNEL short-circuit with zero calls; byte counter += len; every state function replaced by the shared state contract',
               assumes=A + ['every request state function replaced by the shared contract contract_req_state (each one is enforced against a contract that contains it)',
                            'termination of the driver loop is NOT proved here (no decreases clause): see DESIGN C09',
                            'callbacks return OK/DECLINED/STOP/ERROR only']))

C16S = 'CONNECT: '
st('htp_connp_REQ_CONNECT_CHECK', ['C16', 'C09', 'C01'], C16S + 'a CONNECT request suspends the request side (DATA_OTHER) and moves no offset (cursor not in the frame)')
st('htp_connp_REQ_CONNECT_WAIT_RESPONSE', ['C16', 'C09', 'C01'], C16S + 'nothing changes until the response line is seen; 2xx => probe the tunnel, else resume with request finalisation')
st('htp_connp_REQ_CONNECT_PROBE_DATA', ['C16', 'C09', 'C01'], C16S + 'pending bytes are never discarded; known method => normal completion, else both directions TUNNEL; DATA_BUFFER leaves everything untouched',
   replace=['htp_connp_req_consolidate_data', 'bstr_dup_mem/contract_site_bstr_dup_mem', 'htp_convert_method_to_number',
            'htp_tx_state_request_complete/contract_stub_htp_tx_state_request_complete'],
   link=['htp_util.c', 'bstr.c'], solver='--sat-solver cadical',
   loops={'count': 3,
          0: dict(assigns='connp->in_next_byte, connp->in_current_read_offset, connp->in_stream_offset',
                  inv=['connp->in_current_read_offset >= __CPROVER_loop_entry(connp->in_current_read_offset)', 'connp->in_current_read_offset <= connp->in_current_len',
                       'connp->in_stream_offset == __CPROVER_loop_entry(connp->in_stream_offset) + (connp->in_current_read_offset - __CPROVER_loop_entry(connp->in_current_read_offset))'],
                  dec='connp->in_current_len - connp->in_current_read_offset'),
          1: dict(assigns='pos', inv=['pos <= len'], dec='len - pos'),
          2: dict(assigns='pos', inv=['pos <= len', 'mstart <= pos'], dec='len - pos')})

st('htp_connp_REQ_BODY_DETERMINE', ['C06', 'C09', 'C05', 'C01'], 'framing decision -> body state; identity framing enters the body state with bytes owed == Content-Length > 0 (what REQ_BODY_IDENTITY requires), zero length and no-body go to FINALIZE, unknown coding is an error')
UNITS.append(U(name='htp_connp_REQ_IGNORE_DATA_AFTER_HTTP_0_9', props=['C09', 'C01'], kind='contract', src=['htp_request.c'], enforce='htp_connp_REQ_IGNORE_DATA_AFTER_HTTP_0_9',
               contracts_inc=INC, harness=H % 'htp_connp_REQ_IGNORE_DATA_AFTER_HTTP_0_9', defs=D, min_obl=20, assumes=A[:1],
               sub='HTTP/0.9 drain: consumes the whole chunk, counts it, flags extra data, DATA with the chunk exhausted'))
UNITS.append(U(name='htp_connp_REQ_IDLE', props=['C04', 'C09', 'C10', 'C05', 'C01'], kind='contract', src=['htp_request.c', 'htp_list.c'], enforce='htp_connp_REQ_IDLE',
               replace=['htp_connp_tx_create/contract_site_htp_connp_tx_create', 'htp_tx_state_request_start/contract_site_htp_tx_state_request_start'],
               contracts_inc=INC, harness=H % 'htp_connp_REQ_IDLE', defs={'quick': {'CHUNK_CAP': 4096, 'LCAP': 8}, 'thorough': {'CHUNK_CAP': 1048576, 'LCAP': 64}}, min_obl=30,
               sub='a request transaction is created only when a byte is available; it is appended last with index = old size (arrival order); creation failure is an error with nothing appended',
               assumes=A[:1] + ['htp_connp_tx_create (enforced by its own unit) and htp_tx_state_request_start replaced by contracts']))

st('htp_connp_REQ_BODY_CHUNKED_LENGTH', ['C06', 'C09', 'C03', 'C01'], 'chunk-size line: ends at the first LF; incomplete => DATA_BUFFER with the chunk exhausted and nothing decided (segmentation-safe); complete => whole line counted in message length, size parsed, >0 => chunk data with exactly that many bytes owed, 0 => trailers, <0 => error',
   replace=['htp_connp_req_consolidate_data', 'htp_connp_req_clear_buffer', 'htp_chomp', 'htp_parse_chunked_length/contract_site_htp_parse_chunked_length', 'htp_log'],
   loops={'count': 1, 0: dict(
       assigns='connp->in_next_byte, connp->in_current_read_offset, connp->in_stream_offset',
       inv=['connp->in_current_read_offset >= __CPROVER_loop_entry(connp->in_current_read_offset)', 'connp->in_current_read_offset <= connp->in_current_len',
            'connp->in_stream_offset == __CPROVER_loop_entry(connp->in_stream_offset) + (connp->in_current_read_offset - __CPROVER_loop_entry(connp->in_current_read_offset))',
            '(gk < CHUNK_CAP && (int64_t) gk >= __CPROVER_loop_entry(connp->in_current_read_offset) && (int64_t) gk < connp->in_current_read_offset) ==> connp->in_current_data[gk] != LF'],
       dec='connp->in_current_len - connp->in_current_read_offset')})

LOOP_COPY = lambda extra=(): dict(assigns='connp->in_next_byte, connp->in_current_read_offset, connp->in_stream_offset',
                        inv=['connp->in_current_read_offset >= __CPROVER_loop_entry(connp->in_current_read_offset)', 'connp->in_current_read_offset <= connp->in_current_len',
                             'connp->in_stream_offset == __CPROVER_loop_entry(connp->in_stream_offset) + (connp->in_current_read_offset - __CPROVER_loop_entry(connp->in_current_read_offset))'] + list(extra),
                        dec='connp->in_current_len - connp->in_current_read_offset')
st('htp_connp_REQ_FINALIZE', ['C06', 'C09', 'C16', 'C01'], 'after a complete request: either the transaction completes without discarding the pending bytes (next request line survives), or the line is unexpected body: delivered once, counted in message length, then discarded; incomplete line => DATA_BUFFER and nothing happens',
   replace=['htp_connp_req_consolidate_data', 'htp_connp_req_clear_buffer', 'bstr_dup_mem/contract_site_bstr_dup_mem', 'htp_convert_method_to_number',
            'htp_tx_state_request_complete/contract_stub_htp_tx_state_request_complete', 'htp_tx_req_process_body_data_ex', 'htp_log'],
   link=['htp_util.c', 'bstr.c'], timeout=(900, 1800), solver='--sat-solver cadical',
   loops={'count': 3, 0: LOOP_COPY(),
          1: dict(assigns='pos', inv=['pos <= len'], dec='len - pos'),
          2: dict(assigns='pos', inv=['pos <= len', 'mstart <= pos'], dec='len - pos')})

# (the htp_connp_REQ_HEADERS attempt that used to live here behind SM_EXPERIMENTAL is superseded by units/sm_reqline.py)
