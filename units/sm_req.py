from vrun import U

UNITS = []
D = {'quick': {'CHUNK_CAP': 4096}, 'thorough': {'CHUNK_CAP': 1048576}}
A = ['chunk length <= CHUNK_CAP (symbolic); stream offset and message length <= 2^62 on entry (int64 counters provably do not wrap within one call)',
     'body sink htp_tx_req_process_body_data_ex replaced by a logging stub with arbitrary return code; its frame is enforced on the real function by its own unit']
INC = ['sm.h']
H = 'void HARNESS(void) { htp_connp_t *c; %s(c); CANARY(); }'


def st(fn, props, sub, replace=(), loops=None, **kw):
    UNITS.append(U(name=fn, props=props, kind='contract', src=['htp_request.c'], enforce=fn, replace=list(replace),
                   contracts_inc=INC, loops={'htp_request.c': {fn: loops}} if loops else {}, harness=H % fn, defs=D,
                   min_obl=30, sub=sub, assumes=A, **kw))


BODY = 'per call: bytes delivered to the body sink == bytes consumed == -delta(bytes owed) == delta(message length) == delta(stream offset); the delivered range is exactly [read, read+n) of the chunk; body ends exactly when nothing is owed; DATA only with the chunk exhausted'
st('htp_connp_REQ_BODY_IDENTITY', ['C06', 'C09', 'C01'], BODY, replace=['htp_tx_req_process_body_data_ex'])
st('htp_connp_REQ_BODY_CHUNKED_DATA', ['C06', 'C09', 'C01'], BODY, replace=['htp_tx_req_process_body_data_ex'])

st('htp_connp_REQ_BODY_CHUNKED_DATA_END', ['C06', 'C09', 'C01'], 'chunk trailer line: consumes through the first LF (none skipped), every byte taken is counted in consume/stream offset/message length, DATA only with the chunk exhausted; terminates',
   loops={'count': 1, 0: dict(
       assigns='connp->in_next_byte, connp->in_current_read_offset, connp->in_current_consume_offset, connp->in_stream_offset, connp->in_tx->request_message_len',
       inv=['connp->in_current_read_offset >= __CPROVER_loop_entry(connp->in_current_read_offset)', 'connp->in_current_read_offset <= connp->in_current_len',
            'connp->in_current_consume_offset == __CPROVER_loop_entry(connp->in_current_consume_offset) + (connp->in_current_read_offset - __CPROVER_loop_entry(connp->in_current_read_offset))',
            'connp->in_stream_offset == __CPROVER_loop_entry(connp->in_stream_offset) + (connp->in_current_read_offset - __CPROVER_loop_entry(connp->in_current_read_offset))',
            'connp->in_tx->request_message_len == __CPROVER_loop_entry(connp->in_tx->request_message_len) + (connp->in_current_read_offset - __CPROVER_loop_entry(connp->in_current_read_offset))',
            '(gk < CHUNK_CAP && (int64_t) gk >= __CPROVER_loop_entry(connp->in_current_read_offset) && (int64_t) gk < connp->in_current_read_offset) ==> connp->in_current_data[gk] != LF'],
       dec='connp->in_current_len - connp->in_current_read_offset')})
