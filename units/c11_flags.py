from vrun import U

import os
UNITS = []
# debugging aid: C11_DEFS='NO_KNOWN_F_C11_FOLDED_NEVER_SET=1;X=2' adds -D style defines to every C11 unit
XD = dict(kv.split('=', 1) for kv in os.environ.get('C11_DEFS', '').split(';') if '=' in kv)
INC = ['c11_flags.h']

# ---- 1. decision table of the (static) request-header post-processor ------------------------------------
R1 = ['htp_table_get_c', 'htp_header_has_token', 'htp_parse_content_length', 'htp_parse_header_hostport', 'bstr_cmp_nocase',
      'bstr_cmp_c_nocasenorzero', 'bstr_dup', 'htp_tx_req_destroy_decompressors', 'htp_gzip_decompressor_create',
      'htp_parse_ct_header', 'htp_parse_cookies_v0', 'htp_parse_authorization', 'htp_connp_req_receiver_finalize_clear', 'htp_hook_run_all']
A1 = ['every callee replaced by a stub that answers with an unconstrained prophecy ghost: header lookup (any of the five headers present or absent, '
      'independently: this is the field-order independence, the lookup itself is units htp_table_get*), token search (OK/ERROR), '
      'Content-Length parser (any int64), Host parser (rc, hostname or NULL, invalid bit, port), case-insensitive compare (any int)',
      'Host parser stub: hostname == NULL on success implies the invalid bit (enforced on the real function by unit htp_parse_header_hostport)',
      'content-type / cookie / authorization sub-parsers, decompressor set-up, raw-data receiver and the REQUEST_HEADERS callbacks are frame-only stubs '
      'that cannot write tx->flags, the transfer coding or the host fields',
      'tx != NULL, tx->request_hostname == NULL on entry (first and only call per request; hybrid-mode re-entry out of scope)',
      'header values handed to the parsers are inline bstrs of capacity C11_VALCAP']
UNITS.append(U(name='htp_tx_process_request_headers', props=['C11', 'C01'], kind='contract', src=['htp_transaction.c'], link=['bstr.c'],
               enforce='htp_tx_process_request_headers', replace=['%s/contract_c11_%s' % (f, f) for f in R1], contracts_inc=INC,
               harness='void HARNESS(void) { htp_tx_t *tx; htp_tx_process_request_headers(tx); CANARY(); }',
               defs={'quick': dict({'C11_VALCAP': 32}, **XD)}, min_obl=60,
               sub='the statement as a decision table over (T-E present, has chunked token, C-L present, C-L REPEATED/FOLDED, C-L value, protocol, target host, Host present/valid, '
                   'hosts equal, ports): every trigger raises its indicator and fixes the framing; indicators only grow; no indicator without trigger; '
                   'coding IDENTITY => content length >= 0; coding never left UNKNOWN',
               assumes=A1))

# ---- 3. token search in Transfer-Encoding ------------------------------------------------------------------
UNITS.append(U(name='htp_header_has_token', props=['C11', 'C01'], kind='contract', src=['htp_util.c'], enforce='htp_header_has_token',
               contracts_inc=INC,
               loops={'htp_util.c': {'htp_header_has_token': {'count': 1, 0: dict(
                   assigns='i, state, v_off',
                   inv=['i <= hvlen', 'state >= 0 && state <= 2', 'v_off <= 7 && v_off <= i',
                        '(state == 0) ==> (v_off < 7)', '(state == 1) ==> (v_off == 0)', '(state == 2) ==> (v_off == 7)'],
                   dec='hvlen - i')}}},
               harness='void HARNESS(void) { const unsigned char *v; size_t n; const unsigned char *t; htp_header_has_token(v, n, t); CANARY(); }',
               defs={'quick': dict({'VCAP': 1024}, **XD), 'thorough': {'VCAP': 65536}}, min_obl=20,
               sub='token search: memory safety for every value length (symbolic, <= VCAP), termination, answer is HTP_OK or HTP_ERROR, a hit needs >= 7 bytes; never writes',
               assumes=['needle is the literal "chunked" (the only needle any call site passes)', 'value length <= VCAP']))
UNITS.append(U(name='ref_header_has_token', props=['C11'], kind='bounded', src=['htp_util.c'], replay='vin', contracts_inc=['token_ref.h'],
               harness='''typedef struct { unsigned char a[N]; size_t la; unsigned char pick; } vin_t;
void HARNESS(void) { VIN(vin_t);
  VASSUME(in.la <= N);
  const unsigned char *needle = (const unsigned char *) (in.pick & 1 ? "chunked" : "te");
  VASSERT((htp_header_has_token(in.a, in.la, needle) == HTP_OK) == (ref_header_has_token(in.a, in.la, needle) == 1),
          "token search equals the reference: comma separated list, optional surrounding white space, ASCII case-insensitive");
  VASSERT(htp_header_has_token(in.a, in.la, needle) == HTP_OK || htp_header_has_token(in.a, in.la, needle) == HTP_ERROR, "answer is OK or ERROR");
  CANARY(); }''',
               defs={'quick': dict({'N': 11}, **XD), 'thorough': {'N': 16}},
               flags_add=['--unwind', '19', '--unwinding-assertions'], timeout=(300, 1200),
               bound='all header values of length <= N bytes (N = 11 quick, 16 thorough); needles "chunked" and the 2-byte "te" (so that several complete elements fit into N bytes)',
               sub='"regardless of letter case and surrounding white space": the real token search agrees with an independent reference on every value up to N bytes',
               assumes=['C locale (tolower is ASCII case folding)']))

# ---- 2. producer of HTP_FIELD_REPEATED: per-header bookkeeping --------------------------------------------------
R2 = ['htp_parse_request_header_generic', 'htp_table_get', 'htp_table_add', 'htp_log', 'bstr_cmp_c_nocase', 'htp_parse_content_length',
      'bstr_expand', 'bstr_add_mem_noex', 'bstr_add_noex']
PCASES = (('first', '(g_c11_have_ex == 0)', 'first occurrence of the name'),
          ('clen', '(g_c11_have_ex == 1 && g_c11_isclen == 0)', 'name already stored and the name is Content-Length'),
          ('merge', '(g_c11_have_ex == 1 && g_c11_isclen != 0)', 'name already stored, any other name'))
for _c, _e, _t in PCASES:
    UNITS.append(U(name='htp_process_request_header_generic_' + _c, props=['C11', 'C10', 'C18', 'C01'], kind='contract', src=['htp_request_generic.c'],
               enforce='htp_process_request_header_generic',
               replace=['%s/contract_c11_%s' % (f, f) for f in R2] + ['bstr_free/contract_c11log_bstr_free'], contracts_inc=INC,
               harness='void HARNESS(void) { htp_connp_t *c; unsigned char *d; size_t n; htp_process_request_header_generic(c, d, n); CANARY(); }',
               defs={'quick': dict({'C11_VALCAP': 32, 'C11_PRODUCER_CASE': _e}, **XD)}, min_obl=60,
               sub='[case: %s] a second header with the same name sets HTP_FIELD_REPEATED on the STORED header on every path; repetition counter <= 64 and +1 only from the third occurrence; '
                   'beyond the cap the newcomer is dropped; Content-Length is never merged; other names: capacity len+2+n, ", " separator, then the new value, len\' = len+2+n; '
                   'parsed name/value released exactly once unless stored (every allocation failure included)' % _t,
               assumes=['case split over the answers of the replaced lookup and name compare: the three units first/clen/merge together cover every input (one contract, one C11_PRODUCER_CASE each)',
                        'line parser, table lookup/insert, case-insensitive compare, bstr_expand / bstr_add_* and bstr_free replaced by call-logging stubs with arbitrary answers '
                        '(NULL / HTP_ERROR included); the appenders\' stubs require that the capacity suffices (asserted at the call site)',
                        'values are inline bstrs of capacity C11_VALCAP; repetition counter <= 64 on entry (0 in a new transaction, moved only here)',
                        'release of the header structure itself (free(h)): CBMC built-in double-free check only; its leak freedom is not covered']))

# ---- 4. host syntax --------------------------------------------------------------------------------------------
# htp_validate_hostname: contract_htp_validate_hostname is written (c11_flags.h) but the unit does not terminate within the quick budget yet
# (three nested loop contracts + symbolic-length memcpy into the IPv6 buffer); see notes/c11.md 'not delivered'.
UNITS.append(U(name='htp_parse_header_hostport', props=['C11', 'C01'], kind='contract', src=['htp_util.c'], enforce='htp_parse_header_hostport', contracts_inc=INC,
               replace=['htp_parse_hostport/contract_c11s_htp_parse_hostport', 'htp_validate_hostname/contract_c11s_htp_validate_hostname'],
               harness='void HARNESS(void) { bstr *hp; bstr **h; int *pn; uint64_t *f; htp_parse_header_hostport(hp, h, NULL, pn, f); CANARY(); }',
               defs={'quick': dict({}, **XD)}, min_obl=20,
               sub='Host field: any syntactic defect reported by the authority parser, a host name that fails validation, or no host name at all raises HTP_HOSTH_INVALID; '
                   'only that bit is touched, never cleared; a clean value leaves the flags alone',
               assumes=['htp_parse_hostport and htp_validate_hostname replaced by stubs with arbitrary answers; the stub of htp_parse_hostport promises "no host name => invalid" '
                        '(on the real function this is the assertion "no host name => marked invalid" of the bounded unit ref_parse_hostport_short, which therefore also serves C11; unbounded it is read off the code only)']))

# ---- 5. host-name syntax on the real validator (bounded) --------------------------------------------------------
VH = r'''typedef struct { unsigned char a[N]; size_t la; } vin_t;
static struct { bstr b; unsigned char d[N]; } hb;              /* inline bstr, capacity N */
void HARNESS(void) { VIN(vin_t);
  VASSUME(in.la <= N);
  RESTRICT
  hb.b.len = in.la; hb.b.size = N; hb.b.realptr = NULL;
  for (size_t i = 0; i < N; i++) hb.d[i] = in.a[i];
  int r = htp_validate_hostname(&hb.b);
  VASSERT(r == 0 || r == 1, "answer is 0 or 1");
  VASSERT(r == ref_validate_hostname(in.a, in.la), "htp_validate_hostname equals the reference: labels of 1..63 bytes [A-Za-z0-9_-] separated by single dots, one trailing dot tolerated");
  VASSERT(hb.b.len == in.la && hb.b.size == N && hb.b.realptr == NULL, "the host name is not modified (header)");
  for (size_t i = 0; i < N; i++) VASSERT(hb.d[i] == in.a[i], "the host name is not modified (bytes)");
  CANARY(); }'''
UNITS.append(U(name='ref_validate_hostname', props=['C11', 'C01'], kind='bounded', src=['htp_util.c'], replay='vin', contracts_inc=['host_ref.h'],
               harness=VH.replace('RESTRICT', 'VASSUME(in.la == 0 || in.a[0] != \'[\');'),
               defs={'quick': dict({'N': 7}, **XD), 'thorough': {'N': 10}},
               flags_add=['--unwind', '13', '--unwinding-assertions'], timeout=(300, 1500),
               bound='all host names of length <= N bytes (N = 7 quick, 10 thorough) over all byte values that do not start with "[" (IP literals go to inet_pton, external)',
               sub='"syntactically invalid hosts": the real validator agrees with an independent reference on every name up to N bytes',
               assumes=['IP-literal form "[...]" is handed to inet_pton (libc, external): not covered', 'the 63-byte label limit and the 255-byte total limit need names longer than N: not covered (bounded run with N = 67 does not finish)']))
# label-length edge (63/64) needs names of 65+ bytes: three nested scanning loops x 70 unwindings do not finish (tried 40 min, twice): NOT covered, said in assumes above.

# ---- host-name normalisation (what is reported as request_hostname / compared with the Host field) ----------------------------
NH = r'''typedef struct { unsigned char a[N]; size_t la; } vin_t;
static struct { bstr b; unsigned char d[N]; } nhb;
void HARNESS(void) { VIN(vin_t);
  VASSUME(in.la <= N);
  nhb.b.len = in.la; nhb.b.size = N; nhb.b.realptr = NULL;
  for (size_t i = 0; i < N; i++) nhb.d[i] = in.a[i];
  bstr *r = htp_normalize_hostname_inplace(&nhb.b);
  size_t e = in.la; while (e > 0 && in.a[e - 1] == '.') e--;          /* reference: drop every trailing dot, fold A-Z */
  VASSERT(r == &nhb.b && nhb.b.size == N && nhb.b.realptr == NULL, "in place: same object, capacity untouched");
  VASSERT(bstr_len(&nhb.b) == e, "exactly the trailing dots are removed");
  for (size_t i = 0; i < N; i++) if (i < e) VASSERT(nhb.d[i] == ((in.a[i] >= 'A' && in.a[i] <= 'Z') ? in.a[i] + 32 : in.a[i]), "every other byte is kept, A-Z folded to lower case");
  VASSERT(htp_normalize_hostname_inplace(NULL) == NULL, "NULL is passed through");
  CANARY(); }'''
UNITS.append(U(name='ref_normalize_hostname', props=['C11', 'C13', 'C02', 'C01'], kind='bounded', src=['htp_util.c'], link=['bstr.c'], replay='vin', harness=NH,
               defs={'quick': dict({'N': 8}, **XD), 'thorough': {'N': 12}}, flags_add=['--unwind', '15', '--unwinding-assertions'], timeout=(300, 900),
               bound='all host names of length <= N bytes (N = 8 quick, 12 thorough) over all byte values',
               sub='real htp_normalize_hostname_inplace (the form in which the target host is reported and compared with the Host field): lower-cased, exactly the trailing dots removed, nothing else changed',
               assumes=['C locale (tolower is ASCII case folding)']))
