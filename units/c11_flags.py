from vrun import U

import os
UNITS = []
# debugging aid: C11_DEFS='NO_KNOWN_F_C11_FOLDED_NEVER_SET=1;X=2' adds -D style defines to every C11 unit
XD = dict(kv.split('=', 1) for kv in os.environ.get('C11_DEFS', '').split(';') if '=' in kv)
INC = ['c11_flags.h']

# ---- 1. decision table of the (static) request-header post-processor ------------------------------------
R1 = ['htp_table_get_c', 'htp_header_has_token', 'htp_parse_content_length', 'htp_parse_header_hostport', 'bstr_cmp_nocase',
      'bstr_cmp_c_nocasenorzero', 'bstr_dup', 'htp_tx_req_destroy_decompressors', 'htp_gzip_decompressor_create',
      'htp_parse_ct_header', 'htp_parse_cookies_v0', 'htp_parse_authorization', 'htp_connp_req_receiver_finalize_clear', 'htp_hook_run_all']
A1 = ['every callee replaced by a stub that answers with an unconstrained prophecy ghost: header lookup (any of the five headers present or absent, '
      'independently: this is the field-order independence, the lookup itself is units htp_table_get*), token search (OK/ERROR), '
      'Content-Length parser (any int64), Host parser (rc, hostname or NULL, invalid bit, port), case-insensitive compare (any int)',
      'Host parser stub: hostname == NULL on success implies the invalid bit (enforced on the real function by unit htp_parse_header_hostport)',
      'content-type / cookie / authorization sub-parsers, decompressor set-up, raw-data receiver and the REQUEST_HEADERS callbacks are frame-only stubs '
      'that cannot write tx->flags, the transfer coding or the host fields',
      'tx != NULL, tx->request_hostname == NULL on entry (first and only call per request; hybrid-mode re-entry out of scope)',
      'header values handed to the parsers are inline bstrs of capacity C11_VALCAP']
UNITS.append(U(name='htp_tx_process_request_headers', props=['C11', 'C01'], kind='contract', src=['htp_transaction.c'], link=['bstr.c'],
               enforce='htp_tx_process_request_headers', replace=['%s/contract_c11_%s' % (f, f) for f in R1], contracts_inc=INC,
               harness='void HARNESS(void) { htp_tx_t *tx; htp_tx_process_request_headers(tx); CANARY(); }',
               defs={'quick': dict({'C11_VALCAP': 32}, **XD)}, min_obl=60,
               sub='the statement as a decision table over (T-E present, has chunked token, C-L present, C-L REPEATED/FOLDED, C-L value, protocol, target host, Host present/valid, '
                   'hosts equal, ports): every trigger raises its indicator and fixes the framing; indicators only grow; no indicator without trigger; '
                   'coding IDENTITY => content length >= 0; coding never left UNKNOWN',
               assumes=A1))
