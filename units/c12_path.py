"""C12 - path decoding and normalisation.  See /verif/notes/c12.md for what each unit carries."""
from vrun import U

UNITS = []


# goto-cc link set: the real callees outside htp_util.c (native replay links the rest of the library by itself)
def _link(exclude):
    return [f for f in ('bstr.c', 'htp_utf8_decoder.c') if f not in exclude]


A_B = ['bounded: every raw path of length <= N over all 256 byte values; longer paths are not covered by these units',
       'reference = /verif/spec/path_ref.h (written from htp_config.h / htp_core.h comments, RFC 3986 5.2.4, RFC 3629 and the behaviour pinned by test_utils.cpp); '
       'deliberate reference choices CHOICE(1..8) and KNOWN_F_C12_* carve-outs are listed in notes/c12.md']
A_CFG = ['decoder configuration fully symbolic: every boolean switch any int, every enum switch any of its enumerators, replacement byte any byte, '
         'initial tx->flags and expected status symbolic']

# known deviations of the unchanged tree from the documented semantics; each macro carves out exactly one
# case in spec/path_ref.h (reference mirrors the code when defined).  Remove one to see the violation.
KNOWN_F = {'KNOWN_F_C12_U_NUL_NOTERM': 1, 'KNOWN_F_C12_HALFFULL_FFF0': 1,
           'KNOWN_F_C12_UTF8_TRUNCATED_TAIL': 1}
A_SYMMAP = ['best-fit map SYMBOLIC: any map of at most MAPK triples plus terminator (any bytes, so it can map to NUL, separators, percent); '
            'the real 391-triple bestfit_1252 is covered per call by the lemma unit c12_u_decode_realmap']


def maploops(k):
    return ','.join('%s.0:%d' % (f, k) for f in ('decode_u_encoding_path', 'decode_u_encoding_params', 'bestfit_codepoint', 'rf_bestfit'))


VIN_HARNESS = 'typedef struct { %s } vin_t;\nvoid HARNESS(void) { VIN(vin_t);\n%s\nCANARY(); }'


def bounded(name, struct, body, n_q, n_t, sub, src=('htp_util.c',), unwind_extra=2, unwindset=None, timeout=(600, 3600),
            known=KNOWN_F, extra_defs=None, flags_del=('--unsigned-overflow-check',), assumes=(), solver=None):
    """one quick unit (N=n_q) and one thorough-only unit (N=n_t) so that each gets a tight --unwind"""
    for n, deep in ((n_q, False), (n_t, True)):
        if n is None:
            continue
        d = {'N': n}
        d.update(known or {})
        d.update(extra_defs or {})
        UNITS.append(U(
            name=name + ('_deep' if deep else ''), props=['C12'], kind='bounded', src=list(src), link=_link(src), replay='vin',
            contracts_inc=['path_ref.h', 'c12_path.h'],
            harness=VIN_HARNESS % (struct, body),
            defs={'quick': d}, thorough_only=deep,
            flags_add=['--unwind', str(n + unwind_extra)] + ([] if unwindset else ['--unwinding-assertions']),
            unwindset=(unwindset(n) if callable(unwindset) else unwindset), flags_del=list(flags_del), solver=solver,
            bound='all raw paths of length <= %d over all 256 byte values' % n,
            assumes=A_B + list(assumes), sub=sub, timeout=timeout))


# ------------------------------------------------------------------------------------------------
# (c1) normaliser alone
# ------------------------------------------------------------------------------------------------
S_A = 'unsigned char a[N]; size_t la;'
NORM_PRE = '''
  VASSUME(in.la <= N);
  unsigned char buf[N], again[N], ref[N];
  for (size_t i = 0; i < N; i++) buf[i] = in.a[i];
  bstr b; b.realptr = buf; b.len = in.la; b.size = N;
'''
bounded('c12_ref_normalize', S_A, NORM_PRE + '''
  htp_normalize_uri_path_inplace(&b);
  size_t rl = ref_remove_dot_segments(in.a, in.la, ref);
  VASSERT(b.len <= in.la, "normalised path is never longer than the input");
  VASSERT(b.len == rl, "normalised length equals RFC 3986 5.2.4 (with the pinned trailing-slash exception)");
  for (size_t i = 0; i < N; i++) if (i < b.len && i < rl) VASSERT(buf[i] == ref[i], "normalised bytes equal RFC 3986 5.2.4 (with the pinned trailing-slash exception)");
  VASSERT(!ref_has_dot_segment(buf, b.len), "normalised path contains no . or .. segment");
''', 8, 9, sub="htp_normalize_uri_path_inplace == literal RFC 3986 5.2.4 reference with the trailing-slash exception; len' <= len; output has no dot segment")

bounded('c12_normalize_idempotent', S_A, NORM_PRE + '''
  htp_normalize_uri_path_inplace(&b);
  for (size_t i = 0; i < N; i++) again[i] = buf[i];
  bstr c; c.realptr = again; c.len = b.len; c.size = N;
  htp_normalize_uri_path_inplace(&c);
  VASSERT(c.len == b.len, "normalising again does not change the length");
  for (size_t i = 0; i < N; i++) if (i < b.len && i < c.len) VASSERT(again[i] == buf[i], "normalising again does not change the bytes");
''', 8, 9, sub='norm(norm(x)) == norm(x) on the real function, run twice')

bounded('c12_normalize_fixpoint', S_A, NORM_PRE + '''
  VASSUME(!ref_has_dot_segment(in.a, in.la));
  htp_normalize_uri_path_inplace(&b);
  VASSERT(b.len == in.la, "a path without dot segments keeps its length");
  for (size_t i = 0; i < N; i++) if (i < b.len) VASSERT(buf[i] == in.a[i], "a path without dot segments is left unchanged");
''', 10, 12, sub='the normaliser is the identity on every path that has no . or .. segment (with c12_ref_normalize: idempotence at a larger bound)')

# ------------------------------------------------------------------------------------------------
# (c2) path decoder alone: bytes, length, indicator set and expected status equal the reference
# ------------------------------------------------------------------------------------------------
NOCONV = ('--unsigned-overflow-check', '--conversion-check')
A_NOCONV = ['--conversion-check and --unsigned-overflow-check are off in the reference-equality units: x2c() narrows int to unsigned char modulo 256 on '
            'non-hex input under HTP_URL_DECODE_PROCESS_INVALID (defined behaviour, documented as "will happily convert invalid input"); '
            'the safety obligations with these checks on are carried by the contract units']
CAD = '--sat-solver cadical'
S_D = 'unsigned char a[N]; size_t la; ref_cfg_t cf; uint64_t flags0; int status0; int ctx; unsigned char map[3 * MAPK + 3];'
DEC_PRE = '''
  VASSUME(in.la <= N && C12_REFCFG_LEGAL(in.cf) && (C12_SCOPE));
  VASSERT(C12_FLAGS_AGREE, "reference indicator bits and enumerators are the library's");
  unsigned char buf[N], ref[N];
  for (size_t i = 0; i < N; i++) buf[i] = in.a[i];
  bstr b; b.realptr = buf; b.len = in.la; b.size = N;
  C12_MAP_SETUP;
  c12_setup(&in.cf, (enum htp_decoder_ctx_t) (C12_CTX), C12_MAP, in.flags0, in.status0);
  ref_fx_t fx; fx.flags = in.flags0; fx.status = in.status0;
'''
DEC_CMP = '''
  VASSERT(b.len <= in.la, "%(w)s: never longer than the raw input");
  VASSERT(b.len == rl, "%(w)s: length equals the reference");
  for (size_t i = 0; i < N; i++) if (i < b.len && i < rl) VASSERT(buf[i] == ref[i], "%(w)s: bytes equal the reference");
  VASSERT(c12_tx.flags == fx.flags, "%(w)s: indicator set equals the reference (each anomaly flag raised exactly when the construct occurs; no other flag touched)");
  VASSERT(c12_tx.response_status_expected_number == fx.status, "%(w)s: expected response status equals the reference");
'''
PATHCTX = {'C12_CTX': 'HTP_DECODER_URL_PATH', 'C12_SCOPE': '1', 'MAPK': 2}
DEC_BODY = DEC_PRE + '''
  htp_status_t rc = htp_decode_path_inplace(&c12_tx, &b);
  size_t rl = ref_decode_path(&in.cf, C12_MAP, in.a, in.la, ref, &fx);
  VASSERT(rc == HTP_OK, "decode_path returns HTP_OK for every legal configuration");
''' + DEC_CMP % {'w': 'decoded path'}
bounded('c12_ref_decode_path', S_D, DEC_BODY, 7, 8, unwindset=maploops(4), unwind_extra=1, extra_defs=PATHCTX,
        assumes=A_CFG + A_SYMMAP + A_NOCONV, flags_del=NOCONV, solver=CAD,
        sub='htp_decode_path_inplace == reference decoder for every decoder configuration (incl. %u decoding): bytes, length, EQUAL indicator set, equal expected status')
bounded('c12_ref_decode_path_nou', S_D, DEC_BODY, 8, 10, unwindset=maploops(4), unwind_extra=1,
        extra_defs=dict(PATHCTX, C12_SCOPE='in.cf.u_encoding_decode == 0'),
        assumes=A_CFG + A_NOCONV + ['scope: u_encoding_decode == 0 (one more byte of path for the same cost)'],
        flags_del=NOCONV, solver=CAD,
        sub='htp_decode_path_inplace == reference decoder, %u decoding off, one byte longer')

def utf8loops(n):
    # a rejected continuation byte is re-read as the start of the next character: up to 2N iterations
    return maploops(4) + ',htp_utf8_decode_path_inplace.0:%d,htp_utf8_validate_path.0:%d' % (2 * n + 1, 2 * n + 1)


# (c2b) UTF-8 stage alone: conversion and validation variants
bounded('c12_ref_utf8', S_D, DEC_PRE + '''
  size_t rl;
  if (in.cf.utf8_convert_bestfit) {
    htp_utf8_decode_path_inplace(&c12_cfg, &c12_tx, &b);
    rl = ref_utf8_path(&in.cf, C12_MAP, 1, in.a, in.la, ref, &fx);
  } else {
    htp_utf8_validate_path(&c12_tx, &b);
    rl = ref_utf8_path(&in.cf, C12_MAP, 0, in.a, in.la, ref, &fx);
    for (size_t i = 0; i < N; i++) ref[i] = in.a[i];
  }
''' + DEC_CMP % {'w': 'UTF-8 stage'}, 6, 8, unwindset=utf8loops, unwind_extra=1, extra_defs=PATHCTX,
        assumes=A_CFG + A_SYMMAP, flags_del=NOCONV, solver=CAD,
        sub='htp_utf8_decode_path_inplace / htp_utf8_validate_path == table-driven UTF-8 reference (overlong accepted and flagged, surrogates and > U+10FFFF rejected, '
            'one replacement byte per maximal ill-formed prefix): bytes, length, indicator set, status')

# (c3) the composed pipeline of htp_normalize_parsed_uri: decode ; utf8 ; normalise
PIPE = DEC_PRE + '''
  unsigned char t1[N], t2[N], again[N];
  htp_decode_path_inplace(&c12_tx, &b);
  if (c12_cfg.decoder_cfgs[HTP_DECODER_URL_PATH].utf8_convert_bestfit) htp_utf8_decode_path_inplace(&c12_cfg, &c12_tx, &b);
  else htp_utf8_validate_path(&c12_tx, &b);
  htp_normalize_uri_path_inplace(&b);
  VASSERT(b.len <= in.la, "pipeline: normalised path is never longer than the raw path");
  VASSERT(!ref_has_dot_segment(buf, b.len), "pipeline: normalised path contains no . or .. segment");
  VASSERT((c12_tx.flags & in.flags0) == in.flags0, "pipeline: flags only grow");
#ifdef C12_PIPE_IDEM
  for (size_t i = 0; i < N; i++) again[i] = buf[i];
  bstr c; c.realptr = again; c.len = b.len; c.size = N;
  htp_normalize_uri_path_inplace(&c);
  VASSERT(c.len == b.len, "pipeline: normalising the normalised path again does not change its length");
  for (size_t i = 0; i < N; i++) if (i < b.len && i < c.len) VASSERT(again[i] == buf[i], "pipeline: normalising the normalised path again does not change its bytes");
#endif
#ifdef C12_PIPE_EQ
  size_t l1 = ref_decode_path(&in.cf, C12_MAP, in.a, in.la, t1, &fx);
  size_t l2 = ref_utf8_path(&in.cf, C12_MAP, in.cf.utf8_convert_bestfit != 0, t1, l1, t2, &fx);
  if (!in.cf.utf8_convert_bestfit) for (size_t i = 0; i < N; i++) t2[i] = t1[i];
  size_t rl = ref_remove_dot_segments(t2, l2, ref);
  VASSERT(b.len == rl, "pipeline: length equals the reference pipeline");
  for (size_t i = 0; i < N; i++) if (i < b.len && i < rl) VASSERT(buf[i] == ref[i], "pipeline: bytes equal the reference pipeline");
  VASSERT(c12_tx.flags == fx.flags, "pipeline: indicator set equals the reference pipeline");
  VASSERT(c12_tx.response_status_expected_number == fx.status, "pipeline: expected status equals the reference pipeline");
#endif
'''
bounded('c12_pipeline', S_D, PIPE, 6, 7, unwindset=utf8loops, unwind_extra=2, extra_defs=dict(PATHCTX, C12_PIPE_IDEM=1),
        assumes=A_CFG + A_SYMMAP + A_NOCONV, flags_del=NOCONV, solver=CAD,
        sub="real pipeline decode ; UTF-8 ; normalise (order of htp_normalize_parsed_uri), whole configuration symbolic: len' <= len, no dot segment, "
            "unchanged by normalising again, flags only grow")
bounded('c12_ref_pipeline', S_D, PIPE, None, 4, unwindset=utf8loops, unwind_extra=2, extra_defs=dict(PATHCTX, C12_PIPE_EQ=1),
        assumes=A_CFG + A_SYMMAP + A_NOCONV, flags_del=NOCONV, solver=CAD,
        sub='real pipeline == reference pipeline end to end (bytes, length, indicator set, status); the stage-wise units carry the same claim at larger bounds')

# (c4) generic decoder htp_urldecode_inplace_ex (every context; plus decoding on/off symbolic)
bounded('c12_ref_urldecode', S_D, DEC_PRE + '''
  uint64_t fl = in.flags0; int st = in.status0;
  htp_status_t rc = htp_urldecode_inplace_ex(&c12_cfg, (enum htp_decoder_ctx_t) in.ctx, &b, &fl, &st);
  c12_tx.flags = fl; c12_tx.response_status_expected_number = st;
  size_t rl = ref_urldecode(&in.cf, C12_MAP, in.a, in.la, ref, &fx);
  VASSERT(rc == HTP_OK, "urldecode returns HTP_OK");
''' + DEC_CMP % {'w': 'urldecoded string'}, 6, 7, unwindset=maploops(4), unwind_extra=1,
        extra_defs=dict(PATHCTX, C12_CTX='in.ctx', C12_SCOPE='(in.ctx == HTP_DECODER_URLENCODED || in.ctx == HTP_DECODER_URL_PATH || in.ctx == HTP_DECODER_DEFAULTS)'),
        assumes=A_CFG + A_SYMMAP + A_NOCONV + ['decoder context symbolic over its three enumerators'], flags_del=NOCONV, solver=CAD,
        sub='htp_urldecode_inplace_ex == reference generic decoder in every context, plus->space on/off, every configuration: bytes, length, HTP_URLEN_* indicator set, expected status')

# (c5) the %u / best-fit leaf functions against the REAL bestfit_1252 map, full input domain (loop bound = map length, constant)
UNITS.append(U(
    name='c12_u_decode_realmap', props=['C12'], kind='lemma', src=['htp_util.c', 'htp_config.c'], link=_link(('htp_util.c', 'htp_config.c')), replay='vin',
    contracts_inc=['path_ref.h', 'c12_path.h'],
    harness='''typedef struct { unsigned char d[4]; uint32_t cp; ref_cfg_t cf; uint64_t flags0; int status0; } vin_t;
void HARNESS(void) { VIN(vin_t);
  VASSUME(C12_REFCFG_LEGAL(in.cf));
  unsigned char d[4]; for (int i = 0; i < 4; i++) d[i] = in.d[i];
  c12_setup(&in.cf, HTP_DECODER_URL_PATH, bestfit_1252, in.flags0, in.status0);
  c12_setup(&in.cf, HTP_DECODER_URLENCODED, bestfit_1252, in.flags0, in.status0);
  ref_fx_t fx; fx.flags = in.flags0; fx.status = in.status0;
  unsigned char r = decode_u_encoding_path(&c12_cfg, &c12_tx, d);
  unsigned char e = rf_u_path(&in.cf, bestfit_1252, in.d, &fx);
  VASSERT(r == e, "%u path decoding with the real best-fit map equals the reference for every 4 bytes");
  VASSERT(c12_tx.flags == fx.flags && c12_tx.response_status_expected_number == fx.status, "%u path decoding: indicator set and status equal the reference");
  uint64_t fl = in.flags0; fx.flags = in.flags0;
  r = decode_u_encoding_params(&c12_cfg, HTP_DECODER_URLENCODED, d, &fl);
  e = rf_u_generic(&in.cf, bestfit_1252, in.d, &fx);
  VASSERT(r == e && fl == fx.flags, "%u params decoding with the real best-fit map equals the reference for every 4 bytes");
  r = bestfit_codepoint(&c12_cfg, HTP_DECODER_URL_PATH, in.cp);
  e = in.cp < 0x100 ? (unsigned char) in.cp : (in.cp > 0xFFFF ? in.cf.bestfit_replacement_byte :
      rf_bestfit(bestfit_1252, (unsigned char) (in.cp >> 8), (unsigned char) (in.cp & 0xFF), in.cf.bestfit_replacement_byte));
  VASSERT(r == e, "bestfit_codepoint with the real map equals the reference for every 32-bit code point");
  for (int i = 0; i < 4; i++) VASSERT(d[i] == in.d[i], "the escape is only read");
  CANARY(); }''',
    defs={'quick': dict(KNOWN_F, MAPK=0)}, flags_add=['--unwind', '5'], unwindset=maploops(392),
    flags_del=list(NOCONV), min_obl=8, timeout=(600, 1200),
    sub='decode_u_encoding_path / decode_u_encoding_params / bestfit_codepoint with the REAL bestfit_1252 (391 triples) == reference, for every 4 input bytes '
        '(hex or not), every 32-bit code point, every configuration; the map is 00 00-terminated (unwinding assertion)',
    assumes=['full input domain; the only loop is the map scan, bounded by the constant map length 391 (unwinding assertions on)'] + A_NOCONV))

# ================================================================================================
# (a) contract units: memory safety, in-place discipline, no growth, termination, flags only grow
# ================================================================================================
WDEFS = {'quick': {'WCAP': 16}, 'thorough': {'WCAP': 64}}
A_W = ['in-place writers: inline bstr of FIXED capacity WCAP (quick 16, thorough 64), content and length (<= WCAP) symbolic; larger buffers are not covered (HOWTO cost cliff)',
       'bstr_adjust_len is the real function (bstr.c linked)']
A_LEGAL = ['every enum-typed decoder switch holds one of its enumerators (C12_DCFG_LEGAL); boolean switches, replacement byte, flags and status are unconstrained']
DATA = '__CPROVER_object_from(data)'


def contract(fn, loops, harness, sub, replace=(), assumes=(), flags_del=(), min_obl=40, timeout=(300, 1200), link=('bstr.c',), name=None, src=('htp_util.c',)):
    UNITS.append(U(name=name or fn, props=['C12', 'C01'], kind='contract', src=list(src), link=list(link), enforce=fn,
                   contracts_inc=['c12_path.h'], replace=list(replace), loops={src[0]: {fn: loops}} if loops else {},
                   harness=harness, defs=WDEFS, min_obl=min_obl, sub=sub, assumes=A_W + list(assumes), flags_del=list(flags_del), timeout=timeout))


contract('htp_normalize_uri_path_inplace', {'count': 4,
         0: dict(assigns='rpos, wpos, c, ' + DATA,
                 inv=['rpos <= len + 1', 'wpos <= len', 'c >= -1 && c <= 255', '(c == -1) ? (wpos <= rpos && rpos <= len) : (wpos < rpos)'],
                 dec='2 * (len + 1 - rpos) + (c != -1 ? 1 : 0)'),
         1: dict(assigns='wpos', inv=['wpos < rpos', 'wpos <= len'], dec='wpos'),
         2: dict(assigns='wpos', inv=['wpos < rpos', 'wpos <= len'], dec='wpos'),
         3: dict(assigns='rpos, wpos, ' + DATA, inv=['wpos <= rpos', 'rpos <= len', 'rpos >= __CPROVER_loop_entry(rpos)'], dec='len - rpos')},
         'void HARNESS(void) { bstr *s; htp_normalize_uri_path_inplace(s); CANARY(); }',
         sub="normaliser: memory safety; every write index is below the read cursor (wpos < rpos while a byte is pending, wpos <= rpos otherwise: never reads a byte it already overwrote); "
             "len' <= len; frame = {len, the data bytes}; terminates (variant 2(len+1-rpos)+[c pending])")

DEC_LOOP = dict(assigns='rpos, wpos, previous_was_separator, tx->flags, tx->response_status_expected_number, path->len, ' + DATA,
                inv=['wpos <= rpos', 'rpos <= len', 'C12_FLAGS_GROW(tx->flags)', 'C12_STATUS_OK(tx->response_status_expected_number)'],
                dec='len - rpos')
contract('htp_decode_path_inplace', {'count': 1, 0: DEC_LOOP},
         'void HARNESS(void) { htp_tx_t *tx; bstr *path; htp_decode_path_inplace(tx, path); CANARY(); }',
         replace=['x2c/contract_x2c_site', 'decode_u_encoding_path'], assumes=A_LEGAL + ['x2c and decode_u_encoding_path replaced by their contracts (enforced by units x2c / backed for the real map by lemma c12_u_decode_realmap)'],
         sub="path decoder: memory safety for every configuration (every escape read is inside the string: x2c needs 2 readable bytes, %u needs 4); wpos <= rpos <= len at the loop head; "
             "len' <= len; returns HTP_OK (HTP_ERROR iff path NULL); tx->flags only grow; expected status only takes configured values; terminates (variant len-rpos)")

URL_LOOP = dict(assigns='rpos, wpos, *flags, *expected_status_code, input->len, ' + DATA,
                inv=['wpos <= rpos', 'rpos <= len', 'C12_FLAGS_GROW(*flags)', 'C12_STATUS_OK(*expected_status_code)'], dec='len - rpos')
contract('htp_urldecode_inplace_ex', {'count': 1, 0: URL_LOOP},
         'void HARNESS(void) { htp_cfg_t *cfg; enum htp_decoder_ctx_t ctx; bstr *in; uint64_t *f; int *st; htp_urldecode_inplace_ex(cfg, ctx, in, f, st); CANARY(); }',
         replace=['x2c/contract_x2c_site', 'decode_u_encoding_params'], assumes=A_LEGAL + ['x2c and decode_u_encoding_params replaced by their contracts; decoder context any of its three enumerators'],
         sub="generic decoder: memory safety for every configuration and context; wpos <= rpos <= len; len' <= len; returns HTP_OK; *flags only grow; status only takes configured values; terminates")

UTF_LOOP = dict(assigns='rpos, wpos, codepoint, state, counter, seen_valid, tx->flags, tx->response_status_expected_number, ' + DATA,
                inv=['rpos <= len && wpos <= rpos && C12_UTF8_HEAD(state, counter) && wpos + counter <= rpos', 'C12_FLAGS_GROW(tx->flags)', 'C12_STATUS_OK(tx->response_status_expected_number)'],
                dec='2 * (len - rpos) + (counter != 0 ? 1 : 0)')
contract('htp_utf8_decode_path_inplace', {'count': 1, 0: UTF_LOOP},
         'void HARNESS(void) { htp_cfg_t *cfg; htp_tx_t *tx; bstr *p; htp_utf8_decode_path_inplace(cfg, tx, p); CANARY(); }',
         replace=['bestfit_codepoint'], link=('bstr.c', 'htp_utf8_decoder.c'),
         assumes=A_LEGAL + ['bestfit_codepoint replaced by its contract (real map: lemma c12_u_decode_realmap); the DFA step htp_utf8_decode_allow_overlong is the REAL function'],
         sub="UTF-8 converter: memory safety; DFA state/byte-counter relation at the loop head (state in {0,2,3,5,7,8}, counter <= 3: no counter wrap, table index in range); wpos + counter <= rpos <= len (the bytes of an unfinished character are never overwritten); "
             "len' <= len; flags only grow; status only configured values; terminates (variant 2(len-rpos)+[inside a character])")
contract('htp_utf8_validate_path', {'count': 1, 0: dict(assigns='rpos, codepoint, state, counter, seen_valid, tx->flags',
                                                        inv=['rpos <= len', 'C12_UTF8_HEAD(state, counter)', 'C12_FLAGS_GROW(tx->flags)'], dec='len - rpos')},
         'void HARNESS(void) { htp_tx_t *tx; bstr *p; htp_utf8_validate_path(tx, p); CANARY(); }', link=('bstr.c', 'htp_utf8_decoder.c'),
         sub='UTF-8 validator: memory safety, read-only on the path, DFA state/counter relation, flags only grow, terminates')

contract('x2c', None, 'void HARNESS(void) { unsigned char *w; x2c(w); CANARY(); }', flags_del=['--conversion-check'], min_obl=4,
         assumes=['--conversion-check off: x2c narrows int to unsigned char modulo 256 on non-hex input (defined behaviour, documented: "will happily convert invalid input")'],
         sub='x2c reads exactly two bytes and writes nothing')

UNITS.append(U(name='htp_utf8_decode_allow_overlong', props=['C12', 'C01'], kind='lemma', src=['htp_utf8_decoder.c'], contracts_inc=[],
               harness='''void HARNESS(void) { uint32_t state, cp, byte; VASSUME(byte <= 255);
  VASSUME(state == 0 || state == 2 || state == 3 || state == 5 || state == 7 || state == 8);
  uint32_t r = htp_utf8_decode_allow_overlong(&state, &cp, byte);
  VASSERT(r == state, "the DFA returns the new state");
  VASSERT(state == 0 || state == 1 || state == 2 || state == 3 || state == 5 || state == 7 || state == 8, "the state stays inside the reachable set {ACCEPT, REJECT, 2, 3, 5, 7, 8} (so every table index is < 400: bounds obligations)");
  CANARY(); }''', min_obl=4, flags_del=['--unsigned-overflow-check'],
               sub='UTF-8 DFA step, full domain (every reachable state x every byte): table indices in range, reachable state set closed',
               assumes=['--unsigned-overflow-check off: *codep << 6 discards high bits by design (code point of an over-long garbage sequence is never used after REJECT)']))
