"""C12 - path decoding and normalisation.  See /verif/notes/c12.md for what each unit carries."""
import glob
import os
from vrun import U, REPO

UNITS = []

# Native replay links the whole library (htp_util.c references most of it); CBMC drops what is unused.
_SRC_IN_TU = ('htp_util.c',)


def _link(exclude):
    fs = sorted(os.path.basename(p) for p in glob.glob(os.path.join(REPO, 'htp', '*.c')))
    fs = [f for f in fs if f not in exclude]
    fs += ['lzma/' + os.path.basename(p) for p in sorted(glob.glob(os.path.join(REPO, 'htp', 'lzma', '*.c')))]
    return fs


A_B = ['bounded: every raw path of length <= N over all 256 byte values; longer paths are not covered by these units',
       'reference = /verif/spec/path_ref.h (written from htp_config.h / htp_core.h comments, RFC 3986 5.2.4, RFC 3629 and the behaviour pinned by test_utils.cpp); '
       'deliberate reference choices CHOICE(1..7) and KNOWN_F_C12_* carve-outs are listed in notes/c12.md']

# known deviations of the unchanged tree from the documented semantics; each macro carves out exactly one
# case in spec/path_ref.h (reference mirrors the code when defined).  Remove one to see the violation.
KNOWN_F = {'KNOWN_F_C12_RAW_NUL': 1, 'KNOWN_F_C12_U_NUL_NOTERM': 1, 'KNOWN_F_C12_HALFFULL_FFF0': 1,
           'KNOWN_F_C12_UTF8_TRUNCATED_TAIL': 1}


def bounded(name, struct, body, n_q, n_t, sub, src=_SRC_IN_TU, unwind_extra=3, unwindset=None, timeout=(600, 3000),
            known=True, extra_defs=None, flags_del=('--unsigned-overflow-check',), assumes=(), pre_fn='', **kw):
    dq = {'N': n_q}
    dt = {'N': n_t}
    if known:
        dq.update(KNOWN_F)
    if extra_defs:
        dq.update(extra_defs)
    UNITS.append(U(
        name=name, props=['C12'], kind='bounded', src=list(src), link=_link(src), replay='vin',
        contracts_inc=['path_ref.h', 'c12_path.h'],
        harness='typedef struct { %s } vin_t;\n%s\nvoid HARNESS(void) { VIN(vin_t);\n%s\nCANARY(); }' % (struct, pre_fn, body),
        defs={'quick': dq, 'thorough': dt},
        flags_add=['--unwind', str(max(n_q, n_t) + unwind_extra)] + ([] if unwindset else ['--unwinding-assertions']),
        unwindset=unwindset, flags_del=list(flags_del),
        bound='all raw paths of length <= N over all 256 byte values (quick N=%d, thorough N=%d)' % (n_q, n_t),
        assumes=A_B + list(assumes), sub=sub, timeout=timeout, **kw))


# ------------------------------------------------------------------------------------------------
# (c1) normaliser == RFC 3986 5.2.4 + trailing-slash exception; idempotent; no dot segment; no growth
# ------------------------------------------------------------------------------------------------
bounded('c12_ref_normalize', 'unsigned char a[N]; size_t la;', '''
  VASSUME(in.la <= N);
  unsigned char buf[N], again[N], ref[N];
  for (size_t i = 0; i < N; i++) buf[i] = in.a[i];
  bstr b; b.realptr = buf; b.len = in.la; b.size = N;
  htp_normalize_uri_path_inplace(&b);
  size_t rl = ref_remove_dot_segments(in.a, in.la, ref);
  VASSERT(b.len <= in.la, "normalised path is never longer than the input");
  VASSERT(b.len == rl, "normalised length equals RFC 3986 5.2.4 (with the pinned trailing-slash exception)");
  for (size_t i = 0; i < N; i++) if (i < b.len && i < rl) VASSERT(buf[i] == ref[i], "normalised bytes equal RFC 3986 5.2.4 (with the pinned trailing-slash exception)");
  VASSERT(!ref_has_dot_segment(buf, b.len), "normalised path contains no . or .. segment");
  for (size_t i = 0; i < N; i++) again[i] = buf[i];
  bstr c; c.realptr = again; c.len = b.len; c.size = N;
  htp_normalize_uri_path_inplace(&c);
  VASSERT(c.len == b.len, "normalising again does not change the length");
  for (size_t i = 0; i < N; i++) if (i < b.len && i < c.len) VASSERT(again[i] == buf[i], "normalising again does not change the bytes");
''', 8, 12, sub='htp_normalize_uri_path_inplace == RFC 3986 5.2.4 reference with the trailing-slash exception; len\' <= len; no dot segment; idempotent')
