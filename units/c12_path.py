"""C12 - path decoding and normalisation.  See /verif/notes/c12.md for what each unit carries."""
import glob
import os
from vrun import U, REPO

UNITS = []


# Native replay links the whole library (htp_util.c references most of it); CBMC drops what is unused.
def _link(exclude):
    fs = sorted(os.path.basename(p) for p in glob.glob(os.path.join(REPO, 'htp', '*.c')))
    fs = [f for f in fs if f not in exclude]
    fs += ['lzma/' + os.path.basename(p) for p in sorted(glob.glob(os.path.join(REPO, 'htp', 'lzma', '*.c')))]
    return fs


A_B = ['bounded: every raw path of length <= N over all 256 byte values; longer paths are not covered by these units',
       'reference = /verif/spec/path_ref.h (written from htp_config.h / htp_core.h comments, RFC 3986 5.2.4, RFC 3629 and the behaviour pinned by test_utils.cpp); '
       'deliberate reference choices CHOICE(1..7) and KNOWN_F_C12_* carve-outs are listed in notes/c12.md']
A_CFG = ['decoder configuration fully symbolic: every boolean switch any int, every enum switch any of its enumerators, replacement byte any byte, '
         'initial tx->flags and expected status symbolic']

# known deviations of the unchanged tree from the documented semantics; each macro carves out exactly one
# case in spec/path_ref.h (reference mirrors the code when defined).  Remove one to see the violation.
KNOWN_F = {'KNOWN_F_C12_RAW_NUL': 1, 'KNOWN_F_C12_U_NUL_NOTERM': 1, 'KNOWN_F_C12_HALFFULL_FFF0': 1,
           'KNOWN_F_C12_UTF8_TRUNCATED_TAIL': 1}
A_SYMMAP = ['best-fit map SYMBOLIC: any map of at most MAPK triples plus terminator (any bytes, so it can map to NUL, separators, percent); '
            'the real 391-triple bestfit_1252 is covered per call by the lemma unit c12_u_decode_realmap']


def maploops(k):
    return ','.join('%s.0:%d' % (f, k) for f in ('decode_u_encoding_path', 'decode_u_encoding_params', 'bestfit_codepoint', 'rf_bestfit'))


def bounded(name, struct, body, n_q, n_t, sub, src=('htp_util.c',), unwind_extra=2, unwindset=None, timeout=(600, 3600),
            known=KNOWN_F, extra_defs=None, flags_del=('--unsigned-overflow-check',), assumes=(), solver=None):
    """one quick unit (N=n_q) and one thorough-only unit (N=n_t) so that each gets a tight --unwind"""
    for n, deep in ((n_q, False), (n_t, True)):
        if n is None:
            continue
        d = {'N': n}
        d.update(known or {})
        d.update(extra_defs or {})
        UNITS.append(U(
            name=name + ('_deep' if deep else ''), props=['C12'], kind='bounded', src=list(src), link=_link(src), replay='vin',
            contracts_inc=['path_ref.h', 'c12_path.h'],
            harness='typedef struct { %s } vin_t;\nvoid HARNESS(void) { VIN(vin_t);\n%s\nCANARY(); }' % (struct, body),
            defs={'quick': d}, thorough_only=deep,
            flags_add=['--unwind', str(n + unwind_extra)] + ([] if unwindset else ['--unwinding-assertions']),
            unwindset=unwindset, flags_del=list(flags_del), solver=solver,
            bound='all raw paths of length <= %d over all 256 byte values' % n,
            assumes=A_B + list(assumes), sub=sub, timeout=timeout))


# ------------------------------------------------------------------------------------------------
# (c1) normaliser alone
# ------------------------------------------------------------------------------------------------
S_A = 'unsigned char a[N]; size_t la;'
NORM_PRE = '''
  VASSUME(in.la <= N);
  unsigned char buf[N], again[N], ref[N];
  for (size_t i = 0; i < N; i++) buf[i] = in.a[i];
  bstr b; b.realptr = buf; b.len = in.la; b.size = N;
'''
bounded('c12_ref_normalize', S_A, NORM_PRE + '''
  htp_normalize_uri_path_inplace(&b);
  size_t rl = ref_remove_dot_segments(in.a, in.la, ref);
  VASSERT(b.len <= in.la, "normalised path is never longer than the input");
  VASSERT(b.len == rl, "normalised length equals RFC 3986 5.2.4 (with the pinned trailing-slash exception)");
  for (size_t i = 0; i < N; i++) if (i < b.len && i < rl) VASSERT(buf[i] == ref[i], "normalised bytes equal RFC 3986 5.2.4 (with the pinned trailing-slash exception)");
  VASSERT(!ref_has_dot_segment(buf, b.len), "normalised path contains no . or .. segment");
''', 8, 10, sub="htp_normalize_uri_path_inplace == literal RFC 3986 5.2.4 reference with the trailing-slash exception; len' <= len; output has no dot segment")

bounded('c12_normalize_idempotent', S_A, NORM_PRE + '''
  htp_normalize_uri_path_inplace(&b);
  for (size_t i = 0; i < N; i++) again[i] = buf[i];
  bstr c; c.realptr = again; c.len = b.len; c.size = N;
  htp_normalize_uri_path_inplace(&c);
  VASSERT(c.len == b.len, "normalising again does not change the length");
  for (size_t i = 0; i < N; i++) if (i < b.len && i < c.len) VASSERT(again[i] == buf[i], "normalising again does not change the bytes");
''', 8, 10, sub='norm(norm(x)) == norm(x) on the real function, run twice')

bounded('c12_normalize_fixpoint', S_A, NORM_PRE + '''
  VASSUME(!ref_has_dot_segment(in.a, in.la));
  htp_normalize_uri_path_inplace(&b);
  VASSERT(b.len == in.la, "a path without dot segments keeps its length");
  for (size_t i = 0; i < N; i++) if (i < b.len) VASSERT(buf[i] == in.a[i], "a path without dot segments is left unchanged");
''', 10, 13, sub='the normaliser is the identity on every path that has no . or .. segment (with c12_ref_normalize: idempotence at a larger bound)')

# ------------------------------------------------------------------------------------------------
# (c2) path decoder alone: bytes, length, indicator set and expected status equal the reference
# ------------------------------------------------------------------------------------------------
S_D = 'unsigned char a[N]; size_t la; ref_cfg_t cf; uint64_t flags0; int status0; unsigned char map[3 * MAPK + 3];'
DEC_PRE = '''
  VASSUME(in.la <= N && C12_REFCFG_LEGAL(in.cf));
  VASSERT(C12_FLAGS_AGREE, "reference indicator bits and enumerators are the library's");
  unsigned char buf[N], ref[N];
  for (size_t i = 0; i < N; i++) buf[i] = in.a[i];
  bstr b; b.realptr = buf; b.len = in.la; b.size = N;
  C12_MAP_SETUP;
  c12_setup(&in.cf, HTP_DECODER_URL_PATH, C12_MAP, in.flags0, in.status0);
  ref_fx_t fx; fx.flags = in.flags0; fx.status = in.status0;
'''
DEC_CMP = '''
  VASSERT(b.len <= in.la, "%(w)s: never longer than the raw path");
  VASSERT(b.len == rl, "%(w)s: length equals the reference");
  for (size_t i = 0; i < N; i++) if (i < b.len && i < rl) VASSERT(buf[i] == ref[i], "%(w)s: bytes equal the reference");
  VASSERT(c12_tx.flags == fx.flags, "%(w)s: indicator set equals the reference (each anomaly flag raised exactly when the construct occurs; no other flag touched)");
  VASSERT(c12_tx.response_status_expected_number == fx.status, "%(w)s: expected response status equals the reference");
'''
bounded('c12_ref_decode_path', S_D, DEC_PRE + '''
  htp_status_t rc = htp_decode_path_inplace(&c12_tx, &b);
  size_t rl = ref_decode_path(&in.cf, C12_MAP, in.a, in.la, ref, &fx);
  VASSERT(rc == HTP_OK, "decode_path returns HTP_OK for every legal configuration");
''' + DEC_CMP % {'w': 'decoded path'}, 7, 9, unwindset=maploops(4), unwind_extra=1, extra_defs={'MAPK': 2}, assumes=A_CFG + A_SYMMAP,
        sub='htp_decode_path_inplace == reference decoder for every decoder configuration: bytes, length, EQUAL indicator set, equal expected status')
