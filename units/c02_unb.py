import os
from vrun import U

UNITS = []

# ======================================================================================================
# C02 -- UNBOUNDED contract units for the line / header extractors (loop contracts, symbolic length <= VCAP).
# Contracts: contracts/c02_unb.h (on top of the provenance stubs of contracts/c02_extract.h); notes: notes/c02_unb.md.
# ======================================================================================================
INC = ['c02_extract.h', 'c02_unb.h']
STUBS = ['htp_log/contract_c02_htp_log', 'bstr_dup_mem/contract_c02_dup_mem', 'bstr_free/contract_c02_bstr_free']
A_IN = 'input: heap object of constant size VCAP (quick 64, thorough 256), symbolic line length <= VCAP, only read (not in the frame)'
A_DUP = ('bstr_dup_mem replaced by the provenance-logging stub contract_c02_dup_mem: its precondition "the source range lies inside the input line" is ASSERTED at every call; '
         'each call may answer NULL (prophecy ghost g_c02_fail); that the copy is byte-identical is C17 + the bounded ref_* units')
A_FREE = 'bstr_free replaced by the ownership-logging stub contract_c02_bstr_free (a second release of the same copy is refused at the call); htp_log replaced by a no-op contract'


def both(fmt):
    """the same invariant for the two witnesses gk and gj"""
    return [fmt.replace('@', 'gk'), fmt.replace('@', 'gj')]


# ------------------------------------------------------------------------------------------------------
# 1. htp_parse_request_header_generic
# ------------------------------------------------------------------------------------------------------
ONLY_INV = ['C04_ONLY(h->flags, __CPROVER_loop_entry(h->flags), HTP_FIELD_INVALID)',
            'C04_ONLY(connp->in_tx->flags, __CPROVER_loop_entry(connp->in_tx->flags), HTP_FIELD_INVALID)',
            '((h->flags & ~__CPROVER_loop_entry(h->flags)) & ~connp->in_tx->flags) == 0']
QH_LOOPS = {'count': 5,
    # look for the colon (stops at NUL)
    0: dict(assigns='colon_pos', inv=['colon_pos <= len'] + both('(@ < colon_pos) ==> (data[@] != 58 && data[@] != 0)'), dec='len - colon_pos'),
    # LWS after the field name
    1: dict(assigns='prev, name_end, h->flags, connp->in_tx->flags',
            inv=['prev == name_end', 'name_end <= colon_pos', '(name_end < colon_pos) ==> ((h->flags & HTP_FIELD_INVALID) != 0)']
                + both('(@ >= name_end && @ < colon_pos) ==> ISLWS(data[@])') + ONLY_INV, dec='prev'),
    # LWS before the value
    2: dict(assigns='value_start', inv=['value_start <= len', 'colon_pos < value_start'] + both('(@ > colon_pos && @ < value_start) ==> ISLWS(data[@])'),
            dec='len - value_start'),
    # LWS after the value
    3: dict(assigns='prev, value_end', inv=['value_end <= len', 'value_end >= 1', 'prev == value_end - 1', 'value_start <= value_end',
                                           '(gk >= value_end && gk < len) ==> ISLWS(data[gk])'], dec='prev'),
    # the name is a token (leaves the loop at the first byte that is not; flags are written on that path only)
    4: dict(assigns='i, h->flags, connp->in_tx->flags',
            inv=['i <= name_end', '(gk < i) ==> C02_TCHAR(data[gk])', 'h->flags == __CPROVER_loop_entry(h->flags)',
                 'connp->in_tx->flags == __CPROVER_loop_entry(connp->in_tx->flags)'], dec='name_end - i')}
UNITS.append(U(
    name='htp_parse_request_header_generic', props=['C02', 'C01', 'C11', 'C18'], kind='contract', src=['htp_request_generic.c'], enforce='htp_parse_request_header_generic',
    contracts_inc=INC, link=['htp_util.c'],
    replace=['htp_chomp/contract_c02_chomp_site', 'bstr_dup_c/contract_c04_dup_c_empty'] + STUBS,
    loops={'htp_request_generic.c': {'htp_parse_request_header_generic': QH_LOOPS}},
    harness='void HARNESS(void) { htp_connp_t *c; htp_header_t *h; unsigned char *d; size_t n; htp_parse_request_header_generic(c, h, d, n); CANARY(); }',
    defs={'quick': {'VCAP': 64, 'C02_CONTRACTS': 1}, 'thorough': {'VCAP': 256, 'C02_CONTRACTS': 1}}, min_obl=2100, timeout=(300, 1500),
    sub='htp_parse_request_header_generic for lines of ANY length (len == 0 included): memory safety, termination (5 loops closed); name then value, each source range inside the line, '
        'name at offset 0 without colon / NUL; between them only LWS and exactly-at-most-one colon, after the value only LWS / CR / LF (nothing dropped, a second colon belongs to the value); '
        'colon-less line: empty name + the whole line minus its CR / LF tail, UNPARSEABLE only; colon found and (empty name | LWS before the colon | non-token byte in the name) '
        '==> HTP_FIELD_INVALID; newly raised header flags are raised on the transaction, no other bit changes; OK iff no allocation failed, on ERROR every copy is released exactly once',
    assumes=[A_IN, A_DUP, A_FREE,
             'htp_chomp replaced by its contract (proved by unit htp_chomp); bstr_dup_c replaced by contract_c04_dup_c_empty whose precondition "the argument is the empty string" is asserted at the call',
             'htp_is_lws / htp_is_token: the real code (htp_util.c linked); C02_TCHAR is the RFC 7230 tchar table of ghost_c02.h',
             'the converse "INVALID raised ==> one of the three triggers is present" needs an existential (a non-token byte exists) and stays with the bounded unit ref_request_header']))

# ------------------------------------------------------------------------------------------------------
# 3. htp_parse_response_line_generic
# ------------------------------------------------------------------------------------------------------
SITES = ['htp_parse_protocol/contract_c04_parse_protocol_site', 'htp_parse_status/contract_c04_parse_status_site', 'htp_convert_method_to_number/contract_c04_method_number_site']
A_LINE = 'input line: bstr (inline or wrapped) whose data object has constant capacity VCAP (quick 64, thorough 256) and a symbolic length <= VCAP, only read (not in the frame)'
A_SITES = ('the duplicates answered by the stub are abstract, so the classifiers that read them are replaced at their call sites: htp_parse_status by the post-condition of its proved contract '
           '(unit htp_parse_status, c17_num.h), htp_parse_protocol by its result set (decided by htp_parse_protocol_lemma), htp_convert_method_to_number by its result range '
           '(bounded unit ref_convert_method_to_number); each site contract asserts that its argument is the copy just made')
RL_LOOPS = {'count': 5,
    0: dict(assigns='pos', inv=['pos <= len', '(gk < pos) ==> ISSP(data[gk])'], dec='len - pos'),
    1: dict(assigns='pos', inv=['pos <= len', 'start <= pos', '(gk >= start && gk < pos) ==> !ISSP(data[gk])'], dec='len - pos'),
    2: dict(assigns='pos', inv=['pos <= len', 'g_c02_o1 + g_c02_l1 <= pos', '(gk >= g_c02_o1 + g_c02_l1 && gk < pos) ==> ISSP(data[gk])'], dec='len - pos'),
    3: dict(assigns='pos', inv=['pos <= len', 'start <= pos', '(gk >= start && gk < pos) ==> !ISSP(data[gk])'], dec='len - pos'),
    4: dict(assigns='pos', inv=['pos <= len', 'g_c02_o2 + g_c02_l2 <= pos', '(gk >= g_c02_o2 + g_c02_l2 && gk < pos) ==> ISSP(data[gk])'], dec='len - pos')}
UNITS.append(U(
    name='htp_parse_response_line_generic', props=['C02', 'C01', 'C18'], kind='contract', src=['htp_response_generic.c'], enforce='htp_parse_response_line_generic',
    contracts_inc=INC, link=['htp_util.c'], replace=STUBS + SITES[:2],
    loops={'htp_response_generic.c': {'htp_parse_response_line_generic': RL_LOOPS}},
    harness='void HARNESS(void) { htp_connp_t *c; htp_parse_response_line_generic(c); CANARY(); }',
    defs={'quick': {'VCAP': 64, 'C02_CONTRACTS': 1}, 'thorough': {'VCAP': 256, 'C02_CONTRACTS': 1}}, min_obl=2000, timeout=(300, 1500), solver='--sat-solver cadical',
    sub='htp_parse_response_line_generic for lines of ANY length: memory safety, termination (5 loops closed); protocol / status / message are up to three duplications in this order, each source '
        'range inside the line; protocol and status are MAXIMAL white-space-free words, the message starts at a non-space byte and ends with the line; everything before, between and (short lines) '
        'after them is white space (nothing dropped or invented); components of an earlier line are reset; status number 100..999 or INVALID; ERROR iff a duplication failed, '
        'the copies made so far stay owned by the transaction, nothing is released twice',
    assumes=[A_LINE, A_DUP, A_SITES, 'htp_log is not called by this function; htp_is_space: the real code (htp_util.c linked); isspace: CBMC library model']))

# ------------------------------------------------------------------------------------------------------
# 2. htp_parse_request_line_generic_ex
# ------------------------------------------------------------------------------------------------------
LEN_OK = ['len <= g_c02_len']
QL_LOOPS = {'count': 11,
    # NUL mode: the line ends at the first NUL
    0: dict(assigns='pos, newlen', inv=['pos <= len', 'newlen == pos', '(gk < pos) ==> data[gk] != 0'], dec='len - pos'),
    # leading white space
    1: dict(assigns='pos', inv=['pos <= len', '(gk < pos) ==> ISSP(data[gk])'], dec='len - pos'),
    # method
    2: dict(assigns='pos', inv=['pos <= len', '__CPROVER_loop_entry(pos) <= pos', '(gk >= __CPROVER_loop_entry(pos) && gk < pos) ==> !ISSP(data[gk])'], dec='len - pos'),
    # white space after the method (isspace)
    3: dict(assigns='pos, bad_delim', inv=['pos <= len', 'bad_delim <= 1', 'g_c02_o1 + g_c02_l1 <= pos', '(gk >= g_c02_o1 + g_c02_l1 && gk < pos) ==> ISSP(data[gk])'], dec='len - pos'),
    # allow_space_uri: from the end of the line backwards
    4: dict(assigns='pos', inv=['start <= pos', 'pos < len'], dec='pos'),
    5: dict(assigns='pos, bad_delim', inv=['start <= pos', 'pos < len', 'bad_delim <= 1'], dec='pos'),
    6: dict(assigns='pos', inv=['start <= pos', 'pos < len'], dec='pos'),
    7: dict(assigns='i, bad_delim', inv=['start <= i', 'i <= pos', 'bad_delim == 0'], dec='pos - i'),
    # default: the request-target ends at the first SP; retry with any white space if there is no SP but another delimiter
    8: dict(assigns='pos, bad_delim', inv=['start <= pos', 'pos <= len', 'bad_delim <= 1', '(gk >= start && gk < pos) ==> data[gk] != 32'], dec='len - pos'),
    9: dict(assigns='pos', inv=['start <= pos', 'pos <= len', '(gk >= start && gk < pos) ==> !ISSP(data[gk])'], dec='len - pos'),
    # white space after the request-target
    10: dict(assigns='pos', inv=['pos <= len', 'g_c02_o2 + g_c02_l2 <= pos', '(gk >= g_c02_o2 + g_c02_l2 && gk < pos) ==> ISSP(data[gk])'], dec='len - pos')}
UNITS.append(U(
    name='htp_parse_request_line_generic_ex', props=['C02', 'C01', 'C18'], kind='contract', src=['htp_request_generic.c'], enforce='htp_parse_request_line_generic_ex',
    contracts_inc=INC, link=['htp_util.c'], replace=STUBS + [SITES[0], SITES[2]],
    loops={'htp_request_generic.c': {'htp_parse_request_line_generic_ex': QL_LOOPS}},
    harness='void HARNESS(void) { htp_connp_t *c; int nt; htp_parse_request_line_generic_ex(c, nt); CANARY(); }',
    defs={'quick': {'VCAP': 64, 'C02_CONTRACTS': 1}, 'thorough': {'VCAP': 256, 'C02_CONTRACTS': 1}}, min_obl=3100, timeout=(400, 1800), solver='--sat-solver cadical',
    sub='htp_parse_request_line_generic_ex for lines of ANY length, nul_terminates / allow_space_uri / leading-white-space policy symbolic: memory safety, termination (11 loops closed); '
        'method / request-target / protocol are up to three duplications in this order, each source range inside the line; before the method and in both gaps only white space; the method is a '
        'maximal space-free word (policy IGNORE) or starts at offset 0 (other policies, expected status set); the target starts at a non-space byte and (not allow_space_uri) has no SP and ends at '
        'white space / end; the protocol starts at a non-space byte and runs to the end of the line; NUL mode: nothing reported from at or behind a NUL; HTTP/0.9 iff the line ends before a protocol, '
        'then only white space follows; ERROR iff a duplication failed, copies stay owned by the transaction',
    assumes=[A_LINE, A_DUP, A_SITES, 'htp_log replaced by a no-op contract; htp_is_space: real code (htp_util.c linked); isspace: CBMC library model',
             'NUL mode, HTTP/0.9 lines: "only white space between the last component and the FIRST NUL" needs an existential and stays with the bounded unit ref_request_line; '
             'proved here for that mode: the byte after each component is white space, NUL or the end, and no component contains a NUL',
             'allow_space_uri: the request-target may contain white space by design (choices O1 / O2 of notes/c02.md); its end is only bounded (start <= end <= line end), the exact split is in ref_request_line']))

# ------------------------------------------------------------------------------------------------------
# 4. cookies, Content-Type
# ------------------------------------------------------------------------------------------------------
UNITS.append(U(
    name='htp_parse_single_cookie_v0', props=['C02', 'C01', 'C18'], kind='contract', src=['htp_cookies.c'], enforce='htp_parse_single_cookie_v0',
    contracts_inc=INC, replace=STUBS[1:] + ['bstr_dup_c/contract_c04_dup_c_empty', 'htp_table_addn/contract_c04_table_addn'],
    loops={'htp_cookies.c': {'htp_parse_single_cookie_v0': {'count': 1,
           0: dict(assigns='pos', inv=['pos <= len', '(gk < pos) ==> data[gk] != 61'], dec='len - pos')}}},
    harness='void HARNESS(void) { htp_connp_t *c; unsigned char *d; size_t n; htp_parse_single_cookie_v0(c, d, n); CANARY(); }',
    defs={'quick': {'VCAP': 64, 'C02_CONTRACTS': 1, 'KNOWN_F_C02_COOKIE_ADDN': 1}, 'thorough': {'VCAP': 256, 'C02_CONTRACTS': 1, 'KNOWN_F_C02_COOKIE_ADDN': 1}}, min_obl=650,
    sub='htp_parse_single_cookie_v0 for pieces of ANY length: memory safety, termination; empty piece and piece starting with "=" ignored; name = bytes before the FIRST "=" '
        '(no "=" inside, followed by "=" or the end), value = everything after it (empty string when there is no "="), both inside the piece; the pair is handed to the cookie table '
        'exactly once (name, value); OK only if the table holds the pair, on ERROR every copy made is released exactly once',
    assumes=['input: heap object of constant size VCAP, symbolic piece length <= VCAP, only read', A_DUP, A_FREE,
             'bstr_dup_c replaced by contract_c04_dup_c_empty (argument asserted to be the empty string); htp_table_addn replaced by contract_c04_table_addn, which asserts that the pair handed over is '
             'exactly the two live copies and may refuse it (prophecy g_c04_addn_fail)',
             'KNOWN_F_C02_COOKIE_ADDN (default on): the table accepts the pair.  Without the macro the unit FAILS on the unchanged tree: the result of htp_table_addn is ignored, both copies leak '
             'and the function answers OK (findings/c02_cookie_addn_leak.c, confirmed natively)']))

CK_LOOPS = {'count': 3,
    0: dict(assigns='pos, g_c04_calls, g_c04_end, g_c04_hit',
            inv=['pos <= len', 'g_c04_end <= pos', '(gk < pos && !g_c04_hit) ==> (ISSP(data[gk]) || data[gk] == 59)'], dec='len - pos'),
    1: dict(assigns='pos', inv=['pos <= len', '__CPROVER_loop_entry(pos) <= pos', '(gk >= __CPROVER_loop_entry(pos) && gk < pos) ==> ISSP(data[gk])'], dec='len - pos'),
    2: dict(assigns='pos', inv=['start <= pos', 'pos <= len', '(gk >= start && gk < pos) ==> data[gk] != 59'], dec='len - pos')}
UNITS.append(U(
    name='htp_parse_cookies_v0', props=['C02', 'C01', 'C18'], kind='contract', src=['htp_cookies.c'], enforce='htp_parse_cookies_v0',
    contracts_inc=INC,
    replace=['htp_table_get_c/contract_c04_get_cookie_site', 'htp_table_create/contract_c04_table_create_site', 'htp_parse_single_cookie_v0/contract_c04_single_cookie_site'],
    loops={'htp_cookies.c': {'htp_parse_cookies_v0': CK_LOOPS}},
    harness='c04_ckval_t nondet_c04_ckval(void);\nvoid HARNESS(void) { htp_connp_t *c; c04_ckval = nondet_c04_ckval(); htp_parse_cookies_v0(c); CANARY(); }',
    defs={'quick': {'VCAP': 64, 'C02_CONTRACTS': 1}, 'thorough': {'VCAP': 256, 'C02_CONTRACTS': 1}}, min_obl=1050,
    sub='htp_parse_cookies_v0 for Cookie header values of ANY length: memory safety, termination (3 nested loops closed); no Cookie header: nothing changes; otherwise a new table is '
        'installed (creation failure: ERROR, nothing parsed); every piece handed to the single-cookie parser lies inside the header value, starts at a non-space byte, contains no ";", ends at a ";" '
        'or the end of the value and comes after the previous piece (wire order) -- asserted at the call; every byte NOT handed over is white space or ";" (nothing dropped); ERROR iff the table '
        'or a piece failed',
    assumes=['Cookie header: one static header object whose value is an inline bstr of constant capacity VCAP with arbitrary bytes and symbolic length <= VCAP (idiom of contracts/c05_txhdr.h)',
             'htp_table_get_c replaced by a site contract (asserts the key is "cookie"; answers NULL or that header); htp_table_create by a site contract (fresh table or NULL); '
             'htp_parse_single_cookie_v0 by contract_c04_single_cookie_site whose preconditions carry the claims about each piece (the function itself: unit htp_parse_single_cookie_v0)',
             'isspace: CBMC library model']))

UNITS.append(U(
    name='htp_parse_ct_header', props=['C02', 'C01', 'C18'], kind='contract', src=['htp_util.c'], enforce='htp_parse_ct_header',
    contracts_inc=INC, replace=['bstr_dup_ex/contract_c04_dup_ex_site', 'bstr_to_lowercase/contract_c04_lowercase_site'],
    loops={'htp_util.c': {'htp_parse_ct_header': {'count': 1,
           0: dict(assigns='pos', inv=['pos <= len', '(gk < pos) ==> (data[gk] != 59 && data[gk] != 44 && data[gk] != 32)'], dec='len - pos')}}},
    harness='void HARNESS(void) { bstr *h; bstr **ct; htp_parse_ct_header(h, ct); CANARY(); }',
    defs={'quick': {'VCAP': 64, 'C02_CONTRACTS': 1}, 'thorough': {'VCAP': 256, 'C02_CONTRACTS': 1}}, min_obl=780,
    sub='htp_parse_ct_header for header values of ANY length: memory safety, termination; NULL argument: ERROR, nothing written; otherwise exactly one duplication = the prefix of the value '
        'that contains no ";" "," SP and is followed by one of them or the end (PHP rule), lower-cased exactly once; OK iff the duplication succeeded, *ct = the copy (NULL on ERROR)',
    assumes=[A_LINE, 'bstr_dup_ex replaced by a provenance-logging site contract (range inside the header asserted; may answer NULL); bstr_to_lowercase replaced by a site contract that asserts its '
             'argument is the copy (the function itself: unit bstr_to_lowercase, C17)']))

if os.environ.get('SM_EXPERIMENTAL'):
    # PROBE, expected to FAIL on the unchanged tree: htp_parse_single_cookie_v0 without the carve-out KNOWN_F_C02_COOKIE_ADDN (the cookie table refuses the pair:
    # the function answers OK, nothing is released: findings/c02_cookie_addn_leak.c).  Proposed known_findings.json entry: unit htp_parse_single_cookie_v0, probe_undef [KNOWN_F_C02_COOKIE_ADDN].
    import copy
    _p = copy.deepcopy([u for u in UNITS if u['name'] == 'htp_parse_single_cookie_v0'][0])
    _p['name'] = 'htp_parse_single_cookie_v0_nocarve'
    for _t in _p['defs'].values():
        _t.pop('KNOWN_F_C02_COOKIE_ADDN', None)
    UNITS.append(_p)

QS_LOOPS = {'count': 2,
    # length of the content: every escape pair counts one
    0: dict(assigns='pos, escaped_chars', inv=['pos >= 1', 'pos <= len', 'escaped_chars <= pos', '2 * escaped_chars <= pos - 1'], dec='len - pos'),
    # copy: writes only inside the REQUESTED capacity
    1: dict(assigns='pos, outpos, __CPROVER_object_from(outptr)', inv=['pos >= 1', 'pos <= len', 'outpos <= outlen'], dec='len - pos')}
# DOES NOT CLOSE (registered only under SM_EXPERIMENTAL, see the end of the file and notes/c02_unb.md section 7): CBMC never leaves "converting SSA" (VCAP 64 and 16;
# exact-size and constant-size input; copy-loop frame object_upto / object_from; bstr_alloc as a stub contract and as a constant-capacity model).
# Fall-back: the bounded unit ref_extract_quoted_string (units/c02_extract.py).
_qs = U(
    name='htp_extract_quoted_string_as_bstr', props=['C02', 'C01', 'C18'], kind='contract', src=['htp_util.c'], enforce='htp_extract_quoted_string_as_bstr',
    contracts_inc=INC, link=['bstr.c'],
    pre='struct bstr_t; struct bstr_t *c04_alloc_model(size_t len);\n#define bstr_alloc c04_alloc_model\n',
    loops={'htp_util.c': {'htp_extract_quoted_string_as_bstr': QS_LOOPS}},
    harness='void HARNESS(void) { unsigned char *d; size_t n; bstr **o; size_t *e; htp_extract_quoted_string_as_bstr(d, n, o, e); CANARY(); }',
    defs={'quick': {'VCAP': 16, 'C02_CONTRACTS': 1, 'QS_INCAP': 'VCAP', 'C04_ALLOC_MODEL': 1}, 'thorough': {'VCAP': 256, 'C02_CONTRACTS': 1, 'QS_INCAP': 'VCAP', 'C04_ALLOC_MODEL': 1}}, min_obl=40, timeout=(120, 900),
    sub='htp_extract_quoted_string_as_bstr for inputs of ANY length (exact-size input object): memory safety incl. no read past the input and no write past the REQUESTED capacity, termination '
        '(2 loops closed); NULL argument: ERROR; empty / not starting with a quote / nothing after the quote: DECLINED without allocating; at most one allocation, requested capacity <= len - 2; '
        'OK: *out = the allocated string with length == capacity == requested, 1 <= *endoffset < len; not OK: nothing reported, *endoffset untouched; ERROR iff the allocation failed',
    assumes=['input: heap object of EXACTLY len bytes, len <= VCAP (symbolic), only read',
             'bstr_alloc renamed to the model c04_alloc_model: constant object size sizeof(bstr)+VCAP, size field = requested capacity, malloc may fail; writes beyond the requested capacity are '
             'excluded by the copy loop invariant outpos <= outlen; bstr_adjust_len: real code (bstr.c linked)',
             'the content itself (escape pairs collapsed, ends at the first unescaped quote, *endoffset = that quote) relates output index to input index non-affinely and stays with the '
             'bounded unit ref_extract_quoted_string'])
if os.environ.get('SM_EXPERIMENTAL'):
    UNITS.append(_qs)
