from vrun import U

UNITS = []

# ---- buffering of an unfinished line: hard limit, no truncation, bytes preserved (C10; L1 of C03) --------------------
BUF_H = '''
#define CH 8
static void buf_case(size_t bs, size_t n, size_t consume, size_t hard, size_t hdrlen, int has_hdr) {
  /* static objects: zero initialisation is a constant for symex (calloc keeps every field symbolic) */
  static htp_connp_t C; static htp_tx_t TX; static htp_cfg_t CFG; static bstr HDR;
  htp_connp_t *c = &C; htp_tx_t *tx = &TX; htp_cfg_t *cfg = &CFG; bstr *hdr = &HDR;
  unsigned char *chunk = malloc(CH);
  unsigned char *buf = bs ? malloc(bs) : NULL;
  if (!chunk || (bs && !buf)) { free(chunk); free(buf); return; }
  unsigned char init[CH]; for (int i = 0; i < CH; i++) chunk[i] = init[i];
  unsigned char oldb[CH]; for (size_t i = 0; i < bs; i++) { buf[i] = oldb[i]; }
  hdr->len = hdrlen; hdr->size = hdrlen; hdr->realptr = NULL;
  cfg->field_limit_hard = hard; tx->cfg = cfg; tx->connp = c;
  c->DIR_tx = tx; c->cfg = cfg; c->DIR_current_data = chunk; c->DIR_current_len = CH;
  c->DIR_current_consume_offset = consume; c->DIR_current_read_offset = consume + n; c->DIR_buf = buf; c->DIR_buf_size = bs;
  c->DIR_header = has_hdr ? hdr : NULL;
  size_t pending = bs + n + (has_hdr ? hdrlen : 0);
  htp_status_t rc = BUFFER_FN(c);
  if (n == 0) {
    /* (the response side has no early return for an empty tail: it may allocate a 0-byte buffer or fail on it) */
    VASSERT((rc == HTP_OK || rc == HTP_ERROR) && c->DIR_buf_size == bs, "nothing pending: the buffered size does not change");
    if (gk < bs && c->DIR_buf != NULL) VASSERT(c->DIR_buf[gk] == oldb[gk], "nothing pending: buffered bytes intact");
  } else if (pending > hard) {
    VASSERT(rc == HTP_ERROR, "exceeding the hard field limit is reported as an error");
    VASSERT(c->DIR_buf == buf && c->DIR_buf_size == bs && c->DIR_current_consume_offset == (int64_t) consume, "over the limit: the buffer is left untouched (never silently truncated)");
  } else if (rc == HTP_OK) {
    VASSERT(c->DIR_buf_size == bs + n && c->DIR_buf != NULL, "buffered size grows by exactly the pending bytes");
    VASSERT(c->DIR_buf_size + (has_hdr ? hdrlen : 0) <= hard, "bytes retained between calls never exceed the hard field limit");
    VASSERT(c->DIR_current_consume_offset == c->DIR_current_read_offset, "the consumer position catches up with the reader");
    if (gk < bs) VASSERT(c->DIR_buf[gk] == oldb[gk], "bytes buffered earlier are preserved in order");
    if (gk < n) VASSERT(c->DIR_buf[bs + gk] == init[consume + gk], "appended bytes are exactly the unconsumed bytes of the chunk, in order");
  } else {
    VASSERT(rc == HTP_ERROR, "allocation failure is an error");
    VASSERT(c->DIR_buf_size == bs && c->DIR_current_consume_offset == (int64_t) consume, "failed buffering leaves size and cursor unchanged");
    if (bs) { VASSERT(c->DIR_buf == buf, "failed realloc keeps the old buffer"); if (gk < bs) VASSERT(c->DIR_buf[gk] == oldb[gk], "old bytes intact after failed realloc"); }
  }
  free(c->DIR_buf); free(chunk);
}
void htp_log(htp_connp_t *connp, const char *file, int line, enum htp_log_level_t level, int code, const char *fmt, ...) { }
#define C(b, k) if (bs == (b) && n == (k)) { buf_case((b), (k), consume, hard, hdrlen, has_hdr); }
void HARNESS(void) { size_t bs, n, consume, hard, hdrlen; int has_hdr;
  VASSUME(bs <= BMAX && n <= BMAX && consume <= CH && n <= CH && consume + n <= CH && hdrlen <= 64 && hard <= 128 && gk < CH);
  CASES
  CANARY(); }'''
for d, fn in (('in', 'htp_connp_req_buffer'), ('out', 'htp_connp_res_buffer')):
    for bmax, t in ((4, 0), (6, 1)):
        cases = ' '.join('C(%d, %d)' % (b, k) for b in range(bmax + 1) for k in range(bmax + 1))
        UNITS.append(U(name='%s_cap%d' % (fn, bmax), props=['C10', 'C03', 'C01', 'C18'], kind='lemma',
                       src=['htp_request.c' if d == 'in' else 'htp_response.c'], contracts_inc=[],
                       harness=BUF_H.replace('DIR', d).replace('BUFFER_FN', fn).replace('CASES', cases),
                       defs={'quick': {'BMAX': bmax}}, thorough_only=bool(t), min_obl=100, timeout=(400, 1500),
                       flags_add=['--unwind', '10', '--unwinding-assertions', '--memory-leak-check'], replace=[],
                       sub='%s on the REAL function: OK => buffered size += pending bytes, size + pending header <= hard limit, old and appended bytes preserved in order, consumer catches up; over the limit => ERROR with the buffer untouched (no truncation); allocation failure => ERROR, nothing lost, no leak' % fn,
                       assumes=['buffer size and pending length enumerated as constants 0..%d each (symbolic-size realloc/memcpy cannot be bit-blasted); hard limit, header length, cursor position symbolic' % bmax,
                                'htp_log given an empty body in the harness (logging never feeds back into buffering)']))

D = {'quick': {'LCAP': 16}, 'thorough': {'LCAP': 256}}
UNITS.append(U(name='htp_connp_tx_create', props=['C10', 'C04', 'C01'], kind='contract', src=['htp_connection_parser.c', 'htp_list.c'],
               enforce='htp_connp_tx_create', replace=['htp_tx_create'], contracts_inc=['c10_tx.h'],
               harness='void HARNESS(void) { htp_connp_t *c; htp_connp_tx_create(c); CANARY(); }', defs=D, min_obl=30,
               sub='transaction creation: refused (NULL, nothing appended) once size > max_tx, so size <= max_tx+1 is invariant; PIPELINED set iff size > out_next_tx_index; new tx appended last with index = old size and becomes in_tx',
               assumes=['htp_tx_create replaced by its contract (fresh tx appended last with index = old size, or NULL and nothing appended)',
                        'transaction list capacity <= LCAP (symbolic)']))
UNITS.append(U(name='htp_connp_tx_freed', props=['C10', 'C04', 'C01'], kind='contract', src=['htp_connection_parser.c', 'htp_list.c'],
               enforce='htp_connp_tx_freed', contracts_inc=['c10_tx.h'],
               loops={'htp_connection_parser.c': {'htp_connp_tx_freed': {'count': 1, 0: dict(
                   assigns='i, r, connp->conn->transactions->first, connp->conn->transactions->current_size, connp->out_next_tx_index',
                   inv=['i == r', 'r <= nb', 'connp->conn->transactions->current_size == nb - r', 'WF_LIST_FIELDS(connp->conn->transactions) || connp->conn->transactions->current_size == 0',
                        'connp->conn->transactions->max_size == __CPROVER_loop_entry(connp->conn->transactions->max_size)',
                        'connp->out_next_tx_index == __CPROVER_loop_entry(connp->out_next_tx_index) - r',
                        'connp->conn->transactions->first < connp->conn->transactions->max_size'],
                   dec='nb - i')}}},
               harness='void HARNESS(void) { htp_connp_t *c; htp_connp_tx_freed(c); CANARY(); }', defs=D, min_obl=30,
               sub='slot recycling removes exactly the leading NULL transactions and lowers the response index by the same count (list stays bounded in streaming mode)',
               assumes=['transaction list capacity <= LCAP (symbolic); real htp_list_array_get/shift/size bodies included',
                        'precondition out_next_tx_index >= list size - documented use: called after each completed transaction']))

# ---- response header bookkeeping (twin of builder-c11's request producer units; contract generated by substitution) -----------------
R2R = ['htp_parse_response_header_generic', 'htp_table_get', 'htp_table_add', 'htp_log', 'bstr_cmp_c_nocase', 'htp_parse_content_length',
       'bstr_expand', 'bstr_add_mem_noex', 'bstr_add_noex']
for _c, _e, _t in (('first', '(g_c11_have_ex == 0)', 'first occurrence of the name'),
                   ('clen', '(g_c11_have_ex == 1 && g_c11_isclen == 0)', 'name already stored and the name is Content-Length'),
                   ('merge', '(g_c11_have_ex == 1 && g_c11_isclen != 0)', 'name already stored, any other name')):
    UNITS.append(U(name='htp_process_response_header_generic_' + _c, props=['C10', 'C02', 'C18', 'C01'], kind='contract', src=['htp_response_generic.c'],
                   enforce='htp_process_response_header_generic',
                   replace=['%s/contract_c11_%s' % (f, f) for f in R2R] + ['bstr_free/contract_c11log_bstr_free'], contracts_inc=['c10_resphdr.h'],
                   harness='void HARNESS(void) { htp_connp_t *c; unsigned char *d; size_t n; htp_process_response_header_generic(c, d, n); CANARY(); }',
                   defs={'quick': {'C11_VALCAP': 32, 'C11_PRODUCER_CASE': _e}}, min_obl=60,
                   sub='[case: %s] response header bookkeeping: REPEATED on the stored header, RESPONSE repetition counter <= 64 and +1 only from the third occurrence, beyond the cap the newcomer is dropped (no unbounded merge), '
                       'Content-Length never merged, other names merged as old ", " new with len\' = len+2+n, parsed name/value released exactly once unless stored' % _t,
                   assumes=['contract generated from the request twin by substitution; line parser, table, compare, bstr growth and bstr_free replaced by call-logging stubs with arbitrary answers',
                            'case split first/clen/merge covers every input']))

# ---- htp_normalize_parsed_uri: port rule (C13) and order of the path pipeline (C12) ---------------------------------------------------
UNITS.append(U(name='htp_normalize_parsed_uri', props=['C13', 'C12', 'C01'], kind='contract', src=['htp_util.c'], enforce='htp_normalize_parsed_uri',
               replace=['bstr_dup/contract_np_bstr_dup', 'bstr_dup_lower/contract_np_bstr_dup_lower', 'htp_tx_urldecode_uri_inplace/contract_np_htp_tx_urldecode_uri_inplace',
                        'htp_normalize_hostname_inplace/contract_np_htp_normalize_hostname_inplace', 'htp_parse_positive_integer_whitespace/contract_np_pint_ws',
                        'htp_decode_path_inplace/contract_np_htp_decode_path_inplace', 'htp_utf8_decode_path_inplace/contract_np_htp_utf8_decode_path_inplace',
                        'htp_utf8_validate_path/contract_np_htp_utf8_validate_path', 'htp_normalize_uri_path_inplace/contract_np_htp_normalize_uri_path_inplace'],
               contracts_inc=['c13_norm.h'], harness='void HARNESS(void) { htp_tx_t *t; htp_uri_t *a, *b; htp_normalize_parsed_uri(t, a, b); CANARY(); }',
               min_obl=40, objbits=12,
               sub='port rule for EVERY int64 result of the integer parser: 1..65535 => that value, flags untouched; anything else => -1 and HTP_HOSTU_INVALID; path pipeline order decode -> utf8 (convert xor validate) -> normalise, each once, on the copy',
               assumes=['stages, bstr copies and the integer parser replaced by contracts (the integer parser by its full result lattice; the stages by sequence-logging stubs)']))

UNITS.append(U(name='htp_connp_tx_remove', props=['C01', 'C05', 'C10', 'C04'], kind='contract', src=['htp_connection_parser.c'],
               enforce='htp_connp_tx_remove', contracts_inc=['c10_tx.h'],
               harness='void HARNESS(void) { htp_connp_t *c; htp_tx_t *t; htp_connp_tx_remove(c, t); CANARY(); }', defs=D, min_obl=5,
               sub='detaching a destroyed transaction: afterwards neither in_tx nor out_tx refers to it (also when it was the current transaction of BOTH directions), nothing else changes',
               assumes=['tx is compared by address only (never dereferenced)']))

UNITS.append(U(name='htp_conn_remove_tx', props=['C04', 'C10', 'C01'], kind='contract', src=['htp_connection.c', 'htp_list.c'],
               enforce='htp_conn_remove_tx', contracts_inc=['c17_list.h', 'c10_tx.h'],
               loops={'htp_connection.c': {'htp_conn_remove_tx': {'count': 1, 0: dict(
                   assigns='i', inv=['i <= n', '(gk < i && gk < conn->transactions->current_size) ==> VIEW(conn->transactions, gk) != (void *) tx'], dec='n - i')}}},
               harness='void HARNESS(void) { htp_conn_t *c; const htp_tx_t *t; htp_conn_remove_tx(c, t); CANARY(); }', defs=D, min_obl=30,
               sub='removing a transaction: only a slot that held it becomes NULL; size, order and every other slot unchanged (indices stay valid); present => OK, absent => DECLINED with nothing changed',
               assumes=['transaction list capacity <= LCAP (symbolic); real htp_list_array_size / get / replace bodies included', 'tx != NULL, conn and its list exist (the NULL guards are trivial early returns)']))

# ---- line assembly helpers around the buffer: consolidate (what a line-oriented state sees) and clear; the consumed-count getters (C09) ----
CONS_H = '''
#define CH 8
void htp_log(htp_connp_t *connp, const char *file, int line, enum htp_log_level_t level, int code, const char *fmt, ...) { }
static void cons_case(const size_t BS, const size_t NN, size_t consume) {          /* BS, NN constants at every call site */
  static htp_connp_t C; static htp_tx_t TX; static htp_cfg_t CFG;
  htp_connp_t *c = &C;
  unsigned char *chunk = malloc(CH); unsigned char *buf = BS ? malloc(BS) : NULL;
  if (!chunk || (BS && !buf)) { free(chunk); free(buf); return; }
  unsigned char init[CH]; for (int i = 0; i < CH; i++) chunk[i] = init[i];
  unsigned char oldb[CH]; for (size_t i = 0; i < BS; i++) buf[i] = oldb[i];
  CFG.field_limit_hard = 1000; TX.cfg = &CFG; TX.connp = c; c->DIR_tx = &TX; c->cfg = &CFG;
  c->DIR_current_data = chunk; c->DIR_current_len = CH; c->DIR_current_consume_offset = (int64_t) consume; c->DIR_current_read_offset = (int64_t) (consume + NN);
  c->DIR_buf = buf; c->DIR_buf_size = BS;
  VASSERT(htp_connp_RQ_data_consumed(c) == consume + NN, "the consumed count reported to the caller is the read offset (where to resume after DATA_OTHER)");
  unsigned char *data = NULL; size_t len = 4711;
  htp_status_t rc = htp_connp_RQ_consolidate_data(c, &data, &len);
  if (rc == HTP_OK) {
    VASSERT(len == BS + NN, "the consolidated line = bytes buffered by earlier calls + the unconsumed bytes of this chunk (length)");
    if (BS == 0) VASSERT(data == chunk + consume && c->DIR_buf == NULL && c->DIR_current_consume_offset == (int64_t) consume, "nothing buffered: the line is a range of the chunk itself, nothing is copied or moved");
    else VASSERT(data == c->DIR_buf && c->DIR_buf_size == BS + NN, "something buffered: the line lives in the buffer");
    if (gk < BS) VASSERT(data[gk] == oldb[gk], "buffered bytes first, in order");
    if (gk < NN) VASSERT(data[BS + gk] == init[consume + gk], "then the chunk's unconsumed bytes, in order");
  } else {
    VASSERT(rc == HTP_ERROR && BS > 0 && data == NULL && len == 4711, "only the copying path can fail (allocation); the out-parameters are not written then");
  }
  htp_connp_RQ_clear_buffer(c);
  VASSERT(c->DIR_buf == NULL && c->DIR_buf_size == 0 && c->DIR_current_consume_offset == c->DIR_current_read_offset && c->DIR_current_read_offset == (int64_t) (consume + NN),
          "clear: buffer released, size 0, everything read so far counts as consumed");
  free(chunk);
}
#define C(b, k) if (bs == (b) && n == (k)) { cons_case((b), (k), consume); }
void HARNESS(void) { size_t bs, n, consume;
  VASSUME(bs <= 3 && n <= 3 && consume <= CH && consume + n <= CH && gk < CH);
  CASES
  CANARY(); }'''
for d, rq, src in (('in', 'req', 'htp_request.c'), ('out', 'res', 'htp_response.c')):
    cases = ' '.join('C(%d, %d)' % (b, k) for b in range(4) for k in range(4))
    UNITS.append(U(name='htp_connp_%s_consolidate_clear' % rq, props=['C03', 'C09', 'C10', 'C01', 'C18'], kind='lemma', src=[src], contracts_inc=[],
                   harness=CONS_H.replace('DIR', d).replace('RQ', rq).replace('CASES', cases), defs={'quick': {}}, min_obl=100, timeout=(400, 900),
                   flags_add=['--unwind', '10', '--unwinding-assertions', '--memory-leak-check'],
                   sub='%s side, REAL functions: the line a line-oriented state sees = bytes buffered earlier ++ unconsumed bytes of the chunk (a range of the chunk itself when nothing is buffered); '
                       'clear releases the buffer and marks everything read as consumed; the consumed count reported to the caller is the read offset; no leak, out-parameters untouched on failure' % ('request' if d == 'in' else 'response'),
                   assumes=['buffer size and pending length enumerated as constants 0..3 each (symbolic-size realloc/memcpy cannot be bit-blasted); cursor position symbolic', 'htp_log given an empty body in the harness']))


# ---- htp_conn_remove_tx again, independent of the loop structure of the function (a seeded change replaced the search loop by an indexed store:
# the loop-contract unit above then cannot be instrumented and answers UNDECIDED, which is not a verdict) -------------------------------------------
RMTX_H = r'''
static void rmtx_case(size_t cap, size_t first, size_t size) {                 /* constants at every call site */
  htp_conn_t *conn = malloc(sizeof(*conn)); htp_list_array_t *l = malloc(sizeof(*l)); void **e = malloc(cap * sizeof(void *));
  htp_tx_t *tx = malloc(sizeof(*tx)); htp_tx_t *other = malloc(sizeof(*other));
  if (!conn || !l || !e || !tx || !other) { free(conn); free(l); free(e); free(tx); free(other); return; }
  l->elements = e; l->max_size = cap; l->first = first; l->current_size = size; l->last = (first + size) % cap;
  conn->transactions = l;
  /* slots hold the transaction, another transaction, or NULL (a freed slot) - any arrangement; the transaction's own index field is ANY value:
   * tx->index is the list size at creation and goes stale as soon as htp_connp_tx_freed has shifted freed slots off the front */
  size_t where; VASSUME(where <= size);                                         /* where == size: the transaction is not in the list */
  void *old[4];
  for (size_t i = 0; i < size; i++) { _Bool nul; void *v = (i == where) ? (void *) tx : (nul ? NULL : (void *) other); e[(first + i) % cap] = v; old[i] = v; }
  size_t idx; tx->index = idx; other->index = idx;
  htp_status_t rc = htp_conn_remove_tx(conn, tx);
  VASSERT(rc == (where < size ? HTP_OK : HTP_DECLINED), "OK exactly when the transaction was in the list");
  VASSERT(l->current_size == size && l->first == first && l->max_size == cap, "removal replaces, it never shifts: the positions of the others stay valid");
  for (size_t i = 0; i < size; i++) VASSERT(e[(first + i) % cap] == (i == where ? NULL : old[i]), "exactly the slot that held the transaction becomes NULL; every other slot keeps its content");
  free(conn); free(l); free(e); free(tx); free(other);
}
void HARNESS(void) { size_t f, n; VASSUME(f < 4 && n <= 4);
#define C(F, N) if (f == F && n == N) rmtx_case(4, F, N);
#define R(F) C(F, 0) C(F, 1) C(F, 2) C(F, 3) C(F, 4)
  R(0) R(1) R(2) R(3)
  CANARY(); }'''
UNITS.append(U(name='htp_conn_remove_tx_slots', props=['C04', 'C10', 'C01'], kind='bounded', src=['htp_connection.c'], link=['htp_list.c'], contracts_inc=[],
               harness=RMTX_H, defs={'quick': {}}, flags_add=['--unwind', '6', '--unwinding-assertions'], min_obl=50, timeout=(300, 900),
               bound='transaction list of capacity 4, every ring start and size 0..4, every arrangement of {the transaction, another one, freed slot}',
               sub='REAL htp_conn_remove_tx + htp_list_array_*: exactly the slot that holds the transaction becomes NULL whatever tx->index says (the index goes stale after htp_connp_tx_freed), '
                   'all other slots, the size and the ring position are untouched, OK iff it was in the list - stated without reference to the loop structure of the function',
               assumes=['capacity 4 (all (first, size) pairs enumerated as constants); tx->index unconstrained']))
