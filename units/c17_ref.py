from vrun import U

UNITS = []
A = ['bounded: all strings of length <= N over all 256 byte values; existential facts (first difference, first match, exact value) are decided only up to N']


def bounded(name, body, struct, n_q, n_t, unwind_extra=3, sub='', src=('bstr.c',), link=(), timeout=(300, 1500), extra_inc=()):
    UNITS.append(U(
        name=name, props=['C17'], kind='bounded', src=list(src), link=list(link), replay='vin', nocanary=False,
        contracts_inc=['str_ref.h'] + list(extra_inc),
        harness='typedef struct { %s } vin_t;\nvoid HARNESS(void) { VIN(vin_t);\n%s\nCANARY(); }' % (struct, body),
        defs={'quick': {'N': n_q}, 'thorough': {'N': n_t}},
        unwind=None, flags_add=['--unwind', str(max(n_q, n_t) + unwind_extra), '--unwinding-assertions'],
        flags_del=['--unsigned-overflow-check'],
        bound='all inputs with string length <= N (quick N=%d, thorough N=%d)' % (n_q, n_t), assumes=A, sub=sub, timeout=timeout))


S2 = 'unsigned char a[N]; unsigned char b[N]; size_t la; size_t lb;'
PRE2 = '  VASSUME(in.la <= N && in.lb <= N);\n'

bounded('ref_cmp_family', PRE2 + '''
  VASSERT(bstr_util_cmp_mem(in.a, in.la, in.b, in.lb) == ref_cmp(in.a, in.la, in.b, in.lb, 0), "cmp_mem equals lexicographic reference");
  VASSERT(bstr_util_cmp_mem_nocase(in.a, in.la, in.b, in.lb) == ref_cmp(in.a, in.la, in.b, in.lb, 1), "cmp_mem_nocase equals reference");
  VASSERT(bstr_util_cmp_mem_nocasenorzero(in.a, in.la, in.b, in.lb) == ref_cmp_norzero(in.a, in.la, in.b, in.lb), "cmp_mem_nocasenorzero equals reference (NULs of the first argument removed)");
''', S2, 6, 10, sub='compare family == reference (sign of first difference)')

bounded('ref_index_family', PRE2 + '''  VASSUME(in.lb >= 1);
  VASSERT(bstr_util_mem_index_of_mem(in.a, in.la, in.b, in.lb) == ref_index_of(in.a, in.la, in.b, in.lb, 0), "index_of_mem equals first-occurrence reference");
  VASSERT(bstr_util_mem_index_of_mem_nocase(in.a, in.la, in.b, in.lb) == ref_index_of(in.a, in.la, in.b, in.lb, 1), "index_of_mem_nocase equals reference");
  VASSERT(bstr_util_mem_index_of_mem_nocasenorzero(in.a, in.la, in.b, in.lb) == ref_index_of_norzero(in.a, in.la, in.b, in.lb), "index_of_mem_nocasenorzero equals reference");
''', S2, 5, 7, sub='search family == first-occurrence reference (needle >= 1 byte)')

bounded('ref_prefix_chr', PRE2 + '''
  bstr *h = bstr_wrap_mem(in.a, in.la);
  if (h != NULL) {
    VASSERT(bstr_begins_with_mem(h, in.b, in.lb) == ref_begins_with(in.a, in.la, in.b, in.lb, 0), "begins_with_mem equals reference");
    VASSERT(bstr_begins_with_mem_nocase(h, in.b, in.lb) == ref_begins_with(in.a, in.la, in.b, in.lb, 1), "begins_with_mem_nocase equals reference");
    VASSERT(bstr_chr(h, in.c) == ref_chr(in.a, in.la, in.c), "bstr_chr equals first-occurrence reference");
    VASSERT(bstr_rchr(h, in.c) == ref_rchr(in.a, in.la, in.c), "bstr_rchr equals last-occurrence reference");
    VASSERT(bstr_index_of_mem(h, in.b, in.lb) == bstr_util_mem_index_of_mem(in.a, in.la, in.b, in.lb), "bstr_index_of_mem delegates");
    VASSERT(bstr_cmp_mem(h, in.b, in.lb) == ref_cmp(in.a, in.la, in.b, in.lb, 0), "bstr_cmp_mem equals reference");
    VASSERT(bstr_cmp_mem_nocase(h, in.b, in.lb) == ref_cmp(in.a, in.la, in.b, in.lb, 1), "bstr_cmp_mem_nocase equals reference");
    free(h);
  }
''', S2 + ' int c;', 6, 9, sub='prefix tests, chr/rchr and bstr_* delegating wrappers == reference')

bounded('ref_trim_lower', '''  VASSUME(in.la <= N);
  unsigned char *d = in.a; size_t l = in.la;
  bstr_util_mem_trim(&d, &l);
  size_t s = 0, e = in.la;
  while (s < e && ref_isspace(in.a[s])) s++;
  while (e > s && ref_isspace(in.a[e - 1])) e--;
  VASSERT(d == in.a + s && l == e - s, "mem_trim removes exactly the leading and trailing whitespace");
  bstr *b = bstr_dup_mem(in.a, in.la);
  if (b != NULL) {
    bstr *r = bstr_to_lowercase(b);
    VASSERT(r == b && bstr_len(b) == in.la, "to_lowercase keeps identity and length");
    for (size_t i = 0; i < in.la; i++) VASSERT(bstr_ptr(b)[i] == ref_low(in.a[i]), "to_lowercase folds exactly A-Z");
    free(b);
  }
''', 'unsigned char a[N]; size_t la;', 8, 12, sub='trim and lower-case == reference')

for _b, _nq, _nt in ((10, 6, 8), (16, 17, 19)):
    bounded('ref_pint_value_base%d' % _b, '''  VASSUME(in.la <= N);
  size_t lastlen = 12345, end;
  int64_t r = bstr_util_mem_to_pint(in.a, in.la, %d, &lastlen);
  int64_t m = ref_pint(in.a, in.la, %d, &end);
  if (in.la > 0) {
    VASSERT(r == m, "mem_to_pint equals the mathematical value of the leading digit run, -1 without digits, -2 beyond INT64_MAX");
    if (r >= 0) VASSERT(end < in.la ? lastlen == end : lastlen == in.la + 1, "lastlen marks the end of the digit run");
  }
''' % (_b, _b), 'unsigned char a[N]; size_t la;', _nq, _nt,
            sub='positive-integer value == reference (digit-string comparison with INT64_MAX; covers every overflow edge of int64)',
            timeout=(900, 2400))

# ---- specification tables vs. the C library models and libhtp's own character classes (loop-free, full domain) ----
UNITS.append(U(
    name='spec_tables_match_ctype', props=['C17'], kind='lemma', src=['htp_util.c'], contracts_inc=[],
    harness='''void HARNESS(void) { unsigned char c;
  VASSERT((isspace(c) != 0) == (ISSP(c) != 0), "table ISSP == isspace (C locale)");
  VASSERT(tolower(c) == LOW(c), "table LOW == tolower");
  VASSERT(toupper(c) == UPP(c), "table UPP == toupper");
  VASSERT((isdigit(c) != 0) == (ISDEC(c) != 0), "table ISDEC == isdigit");
  VASSERT((isxdigit(c) != 0) == (ISHEX(c) != 0), "table ISHEX == isxdigit");
  VASSERT((DIGVAL(c) >= 0 && DIGVAL(c) < 10) == (ISDEC(c) != 0) && (DIGVAL(c) >= 0 && DIGVAL(c) < 16) == (ISHEX(c) != 0), "DIGVAL consistent with ISDEC/ISHEX");
  VASSERT((htp_is_lws(c) != 0) == (ISLWS(c) != 0), "table ISLWS == htp_is_lws");
  VASSERT((htp_is_space(c) != 0) == (ISSP(c) != 0), "htp_is_space == isspace set");
  CANARY(); }''', min_obl=8, sub='the lookup tables used by every specification equal the ctype models / libhtp character classes for all 256 byte values'))

bounded('ref_numeric_wrappers', '''  VASSUME(in.la <= N);
  size_t end; int port = 7, invalid = 0;
  /* reference: LWS* digits LWS* */
  size_t s = 0, e = in.la;
  while (s < e && (in.a[s] == ' ' || in.a[s] == '\\t')) s++;
  while (e > s && (in.a[e - 1] == ' ' || in.a[e - 1] == '\\t')) e--;
  int64_t v10 = ref_pint(in.a + s, e - s, 10, &end);
  int well10 = (in.la > 0 && s < e && v10 >= 0 && end == e - s);
  int64_t r = htp_parse_positive_integer_whitespace(in.a, in.la, 10);
  if (well10) VASSERT(r == v10, "positive_integer_whitespace: LWS* digits LWS* yields the decimal value");
  else VASSERT(r < 0, "positive_integer_whitespace: anything else is an error");
  htp_parse_port(in.a, in.la, &port, &invalid);
  if (well10 && v10 >= 1 && v10 <= 65535) VASSERT(port == v10 && invalid == 0, "port text in 1..65535 yields its decimal value");
  else VASSERT(port == -1 && invalid == 1, "any other port text is -1 and marked invalid");
  bstr *b = bstr_wrap_mem(in.a, in.la);
  if (b != NULL) {
    int st = htp_parse_status(b);
    if (well10 && v10 >= 100 && v10 <= 999) VASSERT(st == v10, "status 100..999 yields its value");
    else VASSERT(st == HTP_STATUS_INVALID, "any other status text is invalid");
    free(b);
  }
''', 'unsigned char a[N]; size_t la;', 6, 7, sub='port / status / LWS-integer == decimal reference', src=('htp_util.c',), link=('bstr.c', 'htp_parsers.c'), timeout=(600, 1800))

bounded('ref_chunked_length', '''  VASSUME(in.la <= N);
  int ext = 0; size_t end;
  int64_t r = htp_parse_chunked_length(in.a, in.la, &ext);
  /* reference: skip leading CR LF SP HT VT FF; hex digits; then optional LWS only, or junk from the first non-hex byte on */
  size_t s = 0;
  while (s < in.la && (in.a[s] == 13 || in.a[s] == 10 || in.a[s] == 32 || in.a[s] == 9 || in.a[s] == 11 || in.a[s] == 12)) s++;
  int64_t v = ref_pint(in.a + s, in.la - s, 16, &end);
  /* a-f only: ref_pint(16) accepts exactly 0-9a-fA-F */
  if (s < in.la && v >= 0 && v <= INT32_MAX) VASSERT(r == v, "chunk length equals the hexadecimal value of the leading hex run");
  if (s < in.la && (v == -2 || v > INT32_MAX)) VASSERT(r < 0, "chunk length beyond INT32_MAX is an error, never a wrapped value");
  if (s == in.la) VASSERT(r == -1004, "empty chunk length line");
  if (s < in.la && v == -1) VASSERT(r < 0, "no hex digit is an error");
''', 'unsigned char a[N]; size_t la;', 10, 12, sub='chunk length == hexadecimal reference, > INT32_MAX is an error', src=('htp_util.c',), link=('bstr.c',), timeout=(600, 1800))
