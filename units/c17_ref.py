from vrun import U

UNITS = []
A = ['bounded: all strings of length <= N over all 256 byte values; existential facts (first difference, first match, exact value) are decided only up to N']


def bounded(name, body, struct, n_q, n_t, unwind_extra=3, sub='', src=('bstr.c',), link=(), timeout=(300, 1500), extra_inc=()):
    UNITS.append(U(
        name=name, props=['C17'], kind='bounded', src=list(src), link=list(link), replay='vin', nocanary=False,
        contracts_inc=['str_ref.h'] + list(extra_inc),
        harness='typedef struct { %s } vin_t;\nvoid HARNESS(void) { VIN(vin_t);\n%s\nCANARY(); }' % (struct, body),
        defs={'quick': {'N': n_q}, 'thorough': {'N': n_t}},
        unwind=None, flags_add=['--unwind', str(max(n_q, n_t) + unwind_extra), '--unwinding-assertions'],
        flags_del=['--unsigned-overflow-check'],
        bound='all inputs with string length <= N (quick N=%d, thorough N=%d)' % (n_q, n_t), assumes=A, sub=sub, timeout=timeout))


S2 = 'unsigned char a[N]; unsigned char b[N]; size_t la; size_t lb;'
PRE2 = '  VASSUME(in.la <= N && in.lb <= N);\n'

bounded('ref_cmp_family', PRE2 + '''
  VASSERT(bstr_util_cmp_mem(in.a, in.la, in.b, in.lb) == ref_cmp(in.a, in.la, in.b, in.lb, 0), "cmp_mem equals lexicographic reference");
  VASSERT(bstr_util_cmp_mem_nocase(in.a, in.la, in.b, in.lb) == ref_cmp(in.a, in.la, in.b, in.lb, 1), "cmp_mem_nocase equals reference");
  VASSERT(bstr_util_cmp_mem_nocasenorzero(in.a, in.la, in.b, in.lb) == ref_cmp_norzero(in.a, in.la, in.b, in.lb), "cmp_mem_nocasenorzero equals reference (NULs of the first argument removed)");
''', S2, 6, 10, sub='compare family == reference (sign of first difference)')

bounded('ref_index_family', PRE2 + '''  VASSUME(in.lb >= 1);
  VASSERT(bstr_util_mem_index_of_mem(in.a, in.la, in.b, in.lb) == ref_index_of(in.a, in.la, in.b, in.lb, 0), "index_of_mem equals first-occurrence reference");
  VASSERT(bstr_util_mem_index_of_mem_nocase(in.a, in.la, in.b, in.lb) == ref_index_of(in.a, in.la, in.b, in.lb, 1), "index_of_mem_nocase equals reference");
  VASSERT(bstr_util_mem_index_of_mem_nocasenorzero(in.a, in.la, in.b, in.lb) == ref_index_of_norzero(in.a, in.la, in.b, in.lb), "index_of_mem_nocasenorzero equals reference");
''', S2, 5, 7, sub='search family == first-occurrence reference (needle >= 1 byte)')

bounded('ref_prefix_chr', PRE2 + '''
  bstr *h = bstr_wrap_mem(in.a, in.la);
  if (h != NULL) {
    VASSERT(bstr_begins_with_mem(h, in.b, in.lb) == ref_begins_with(in.a, in.la, in.b, in.lb, 0), "begins_with_mem equals reference");
    VASSERT(bstr_begins_with_mem_nocase(h, in.b, in.lb) == ref_begins_with(in.a, in.la, in.b, in.lb, 1), "begins_with_mem_nocase equals reference");
    VASSERT(bstr_chr(h, in.c) == ref_chr(in.a, in.la, in.c), "bstr_chr equals first-occurrence reference");
    VASSERT(bstr_rchr(h, in.c) == ref_rchr(in.a, in.la, in.c), "bstr_rchr equals last-occurrence reference");
    VASSERT(bstr_index_of_mem(h, in.b, in.lb) == bstr_util_mem_index_of_mem(in.a, in.la, in.b, in.lb), "bstr_index_of_mem delegates");
    VASSERT(bstr_cmp_mem(h, in.b, in.lb) == ref_cmp(in.a, in.la, in.b, in.lb, 0), "bstr_cmp_mem equals reference");
    VASSERT(bstr_cmp_mem_nocase(h, in.b, in.lb) == ref_cmp(in.a, in.la, in.b, in.lb, 1), "bstr_cmp_mem_nocase equals reference");
    free(h);
  }
''', S2 + ' int c;', 6, 9, sub='prefix tests, chr/rchr and bstr_* delegating wrappers == reference')

bounded('ref_trim_lower', '''  VASSUME(in.la <= N);
  unsigned char *d = in.a; size_t l = in.la;
  bstr_util_mem_trim(&d, &l);
  size_t s = 0, e = in.la;
  while (s < e && ref_isspace(in.a[s])) s++;
  while (e > s && ref_isspace(in.a[e - 1])) e--;
  VASSERT(d == in.a + s && l == e - s, "mem_trim removes exactly the leading and trailing whitespace");
  bstr *b = bstr_dup_mem(in.a, in.la);
  if (b != NULL) {
    bstr *r = bstr_to_lowercase(b);
    VASSERT(r == b && bstr_len(b) == in.la, "to_lowercase keeps identity and length");
    for (size_t i = 0; i < in.la; i++) VASSERT(bstr_ptr(b)[i] == ref_low(in.a[i]), "to_lowercase folds exactly A-Z");
    free(b);
  }
''', 'unsigned char a[N]; size_t la;', 8, 12, sub='trim and lower-case == reference')

for _b, _nq, _nt in ((10, 6, 8), (16, 17, 19)):
    bounded('ref_pint_value_base%d' % _b, '''  VASSUME(in.la <= N);
  size_t lastlen = 12345, end;
  int64_t r = bstr_util_mem_to_pint(in.a, in.la, %d, &lastlen);
  int64_t m = ref_pint(in.a, in.la, %d, &end);
  if (in.la > 0) {
    VASSERT(r == m, "mem_to_pint equals the mathematical value of the leading digit run, -1 without digits, -2 beyond INT64_MAX");
    if (r >= 0) VASSERT(end < in.la ? lastlen == end : lastlen == in.la + 1, "lastlen marks the end of the digit run");
  }
''' % (_b, _b), 'unsigned char a[N]; size_t la;', _nq, _nt,
            sub='positive-integer value == reference (digit-string comparison with INT64_MAX; covers every overflow edge of int64)',
            timeout=(900, 2400))

# ---- specification tables vs. the C library models and libhtp's own character classes (loop-free, full domain) ----
UNITS.append(U(
    name='spec_tables_match_ctype', props=['C17'], kind='lemma', src=['htp_util.c'], contracts_inc=[],
    harness='''void HARNESS(void) { unsigned char c;
  VASSERT((isspace(c) != 0) == (ISSP(c) != 0), "table ISSP == isspace (C locale)");
  VASSERT(tolower(c) == LOW(c), "table LOW == tolower");
  VASSERT(toupper(c) == UPP(c), "table UPP == toupper");
  VASSERT((isdigit(c) != 0) == (ISDEC(c) != 0), "table ISDEC == isdigit");
  VASSERT((isxdigit(c) != 0) == (ISHEX(c) != 0), "table ISHEX == isxdigit");
  VASSERT((DIGVAL(c) >= 0 && DIGVAL(c) < 10) == (ISDEC(c) != 0) && (DIGVAL(c) >= 0 && DIGVAL(c) < 16) == (ISHEX(c) != 0), "DIGVAL consistent with ISDEC/ISHEX");
  VASSERT((htp_is_lws(c) != 0) == (ISLWS(c) != 0), "table ISLWS == htp_is_lws");
  VASSERT((htp_is_space(c) != 0) == (ISSP(c) != 0), "htp_is_space == isspace set");
  CANARY(); }''', min_obl=8, sub='the lookup tables used by every specification equal the ctype models / libhtp character classes for all 256 byte values'))

bounded('ref_numeric_wrappers', '''  VASSUME(in.la <= N);
  size_t end; int port = 7, invalid = 0;
  /* reference: LWS* digits LWS* */
  size_t s = 0, e = in.la;
  while (s < e && (in.a[s] == ' ' || in.a[s] == '\\t')) s++;
  while (e > s && (in.a[e - 1] == ' ' || in.a[e - 1] == '\\t')) e--;
  int64_t v10 = ref_pint(in.a + s, e - s, 10, &end);
  int well10 = (in.la > 0 && s < e && v10 >= 0 && end == e - s);
  int64_t r = htp_parse_positive_integer_whitespace(in.a, in.la, 10);
  if (well10) VASSERT(r == v10, "positive_integer_whitespace: LWS* digits LWS* yields the decimal value");
  else VASSERT(r < 0, "positive_integer_whitespace: anything else is an error");
  htp_parse_port(in.a, in.la, &port, &invalid);
  if (well10 && v10 >= 1 && v10 <= 65535) VASSERT(port == v10 && invalid == 0, "port text in 1..65535 yields its decimal value");
  else VASSERT(port == -1 && invalid == 1, "any other port text is -1 and marked invalid");
  bstr *b = bstr_wrap_mem(in.a, in.la);
  if (b != NULL) {
    int st = htp_parse_status(b);
    if (well10 && v10 >= 100 && v10 <= 999) VASSERT(st == v10, "status 100..999 yields its value");
    else VASSERT(st == HTP_STATUS_INVALID, "any other status text is invalid");
    free(b);
  }
''', 'unsigned char a[N]; size_t la;', 6, 7, sub='port / status / LWS-integer == decimal reference', src=('htp_util.c',), link=('bstr.c', 'htp_parsers.c'), timeout=(600, 1800))

bounded('ref_chunked_length', '''  VASSUME(in.la <= N);
  int ext = 0; size_t end;
  int64_t r = htp_parse_chunked_length(in.a, in.la, &ext);
  /* reference: skip leading CR LF SP HT VT FF; hex digits; then optional LWS only, or junk from the first non-hex byte on */
  size_t s = 0;
  while (s < in.la && (in.a[s] == 13 || in.a[s] == 10 || in.a[s] == 32 || in.a[s] == 9 || in.a[s] == 11 || in.a[s] == 12)) s++;
  int64_t v = ref_pint(in.a + s, in.la - s, 16, &end);
  /* a-f only: ref_pint(16) accepts exactly 0-9a-fA-F */
  if (s < in.la && v >= 0 && v <= INT32_MAX) VASSERT(r == v, "chunk length equals the hexadecimal value of the leading hex run");
  if (s < in.la && (v == -2 || v > INT32_MAX)) VASSERT(r < 0, "chunk length beyond INT32_MAX is an error, never a wrapped value");
  if (s == in.la) VASSERT(r == -1004, "empty chunk length line");
  if (s < in.la && v == -1) VASSERT(r < 0, "no hex digit is an error");
''', 'unsigned char a[N]; size_t la;', 10, 12, sub='chunk length == hexadecimal reference, > INT32_MAX is an error', src=('htp_util.c',), link=('bstr.c',), timeout=(600, 1800))

# ---- the building half of bstr (allocate / copy / append / expand): constant-enumerated lengths (symbolic-size heap objects do not bit-blast) ----
BUILD = r'''
#define EQ(bs, src, n, what) do { for (size_t i_ = 0; i_ < (n); i_++) VASSERT(bstr_ptr(bs)[i_] == (src)[i_], what); } while (0)
static void build_case(const unsigned char *a, const size_t LA, const unsigned char *b, const size_t LB) {      /* LA, LB are constants at every call site */
  unsigned char ab[2 * N + 1];
  for (size_t i = 0; i < LA; i++) ab[i] = a[i];
  for (size_t i = 0; i < LB; i++) ab[LA + i] = b[i];
  /* bstr_dup_mem / bstr_dup / bstr_dup_ex / bstr_dup_lower */
  bstr *x = bstr_dup_mem(a, LA);
  if (x != NULL) {
    VASSERT(bstr_len(x) == LA && bstr_size(x) >= LA && x->realptr == NULL, "dup_mem: length as given, capacity sufficient, inline storage");
    EQ(x, a, LA, "dup_mem copies the bytes");
    bstr *d = bstr_dup(x);
    if (d != NULL) { VASSERT(d != x && bstr_len(d) == LA, "dup: a distinct string of the same length"); EQ(d, a, LA, "dup copies the bytes"); bstr_free(d); }
    bstr *e = bstr_dup_ex(x, LA > 0 ? 1 : 0, LA > 0 ? LA - 1 : 0);
    if (e != NULL) { VASSERT(bstr_len(e) == (LA > 0 ? LA - 1 : 0), "dup_ex: requested length"); EQ(e, a + (LA > 0 ? 1 : 0), bstr_len(e), "dup_ex copies the bytes from the requested offset"); bstr_free(e); }
    bstr *lo = bstr_dup_lower(x);
    if (lo != NULL) { VASSERT(bstr_len(lo) == LA, "dup_lower keeps the length"); for (size_t i = 0; i < LA; i++) VASSERT(bstr_ptr(lo)[i] == ref_low(a[i]), "dup_lower folds exactly A-Z"); EQ(x, a, LA, "dup_lower leaves its argument alone"); bstr_free(lo); }
    /* bstr_add_mem: grows when needed; on failure the destination is left as it was (the caller still owns it) */
    bstr *y = bstr_add_mem(x, b, LB);
    if (y != NULL) {
      VASSERT(bstr_len(y) == LA + LB && bstr_size(y) >= LA + LB && y->realptr == NULL, "add_mem: len' = len + n, capacity sufficient");
      EQ(y, ab, LA + LB, "add_mem: old bytes followed by the new ones");
      /* bstr_expand: larger or equal only, contents kept */
      bstr *w = bstr_expand(y, LA + LB + 2);
      if (w != NULL) { VASSERT(bstr_size(w) == LA + LB + 2 && bstr_len(w) == LA + LB, "expand: capacity as requested, length kept"); EQ(w, ab, LA + LB, "expand keeps the bytes"); y = w; }
      if (bstr_size(y) > 0) VASSERT(bstr_expand(y, bstr_size(y) - 1) == NULL && bstr_len(y) == LA + LB, "expand refuses to shrink and changes nothing");
      /* bstr_add_mem_noex: never beyond the capacity */
      size_t room = bstr_size(y) - bstr_len(y);
      bstr *z = bstr_add_mem_noex(y, a, LA);
      VASSERT(z == y && bstr_len(y) == LA + LB + (LA < room ? LA : room) && bstr_len(y) <= bstr_size(y), "add_mem_noex appends min(n, room) bytes and never exceeds the capacity");
      EQ(y, ab, LA + LB, "add_mem_noex keeps the old bytes");
      for (size_t i = 0; i < LA; i++) if (LA + LB + i < bstr_len(y)) VASSERT(bstr_ptr(y)[LA + LB + i] == a[i], "add_mem_noex appends a prefix of the new bytes");
      bstr_chop(y);
      VASSERT(bstr_len(y) == (LA + LB + (LA < room ? LA : room) > 0 ? LA + LB + (LA < room ? LA : room) - 1 : 0), "chop removes one byte (none from an empty string)");
      bstr_free(y);
    } else {
      VASSERT(bstr_len(x) == LA && x->realptr == NULL, "add_mem failed: the destination is unchanged and still owned by the caller");
      EQ(x, a, LA, "add_mem failed: bytes unchanged");
      bstr_free(x);
    }
  }
  /* wrapped strings cannot grow */
  bstr *wr = bstr_wrap_mem(a, LA);
  if (wr != NULL) {
    VASSERT(bstr_len(wr) == LA && bstr_ptr(wr) == a, "wrap_mem refers to the caller's bytes");
    VASSERT(bstr_expand(wr, LA + 1) == NULL, "a wrapped string is not expanded");
    bstr_free(wr);
  }
}
'''
for _nm, _mx, _to in (('ref_bstr_build', 2, False), ('ref_bstr_build_n3', 3, True)):
    _cases = ' '.join('if (in.la == %d && in.lb == %d) build_case(in.a, %d, in.b, %d);' % (i, j, i, j) for i in range(_mx + 1) for j in range(_mx + 1))
    UNITS.append(U(
        name=_nm, props=['C17', 'C18', 'C02'], kind='bounded', src=['bstr.c'], replay='vin', contracts_inc=['str_ref.h'], thorough_only=_to,
        harness=BUILD + 'typedef struct { unsigned char a[N]; unsigned char b[N]; size_t la; size_t lb; } vin_t;\nvoid HARNESS(void) { VIN(vin_t);\n  VASSUME(in.la <= N && in.lb <= N);\n  ' + _cases + '\nCANARY(); }',
        defs={'quick': {'N': _mx}}, flags_add=['--unwind', '10', '--unwinding-assertions', '--memory-leak-check'], flags_del=['--unsigned-overflow-check'], timeout=(600, 1200), min_obl=100,
        bound='all pairs of strings of length 0..%d over all byte values (lengths enumerated as constants); every allocation may fail' % _mx,
        sub='the building half of bstr on the real code: dup_mem / dup / dup_ex / dup_lower copy exactly the requested bytes; add_mem = old ++ new with len\' = len + n (grows when needed, destination intact on failure); '
            'expand keeps contents, refuses to shrink and refuses wrapped strings; add_mem_noex appends min(n, room) and never exceeds the capacity; chop; no leak in any allocation-failure pattern',
        assumes=['lengths <= %d: the functions are length-generic (memcpy with the given length); the bound is a tool limit (symbolic-size heap objects), stated in DESIGN 8.2' % _mx]))
