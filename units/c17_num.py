from vrun import U

UNITS = []
D = {'quick': {'VCAP': 64}, 'thorough': {'VCAP': 1024}}
A = ['string lengths <= VCAP (symbolic)', 'bstr_util_mem_to_pint replaced by its contract (enforced by unit bstr_util_mem_to_pint)',
     'htp_log replaced by a no-op frame contract (logging never feeds back into a parse result)']
REPL = ['bstr_util_mem_to_pint/contract_pint_site', 'htp_log']


def nu(fn, harness, loops, sub, src=('htp_util.c',), replace=REPL, **kw):
    UNITS.append(U(name=fn, props=['C17', 'C01'] + (['C13'] if fn in ('htp_parse_port', 'htp_parse_positive_integer_whitespace') else []), kind='contract', src=list(src), enforce=fn, replace=replace,
                   contracts_inc=['c17_num.h'], loops={src[0]: {fn: loops}} if loops else {}, harness=harness,
                   defs=D, min_obl=20, sub=sub, assumes=A, **kw))


nu('htp_parse_positive_integer_whitespace', 'void HARNESS(void) { unsigned char *d; size_t l; int b; htp_parse_positive_integer_whitespace(d, l, b); CANARY(); }',
   {'count': 2, 0: dict(assigns='pos', inv=['pos <= len', '(gk < pos) ==> ISLWS(data[gk])', '(pos > 0) ==> ISLWS(data[0])'], dec='len - pos'),
    1: dict(assigns='pos', inv=['pos <= len + 1'], dec='len + 1 - pos')},
   'LWS* digits LWS*: result lattice, -1003 iff empty, -1001 only for all-LWS, -1 when the first non-LWS byte is not a digit')
nu('htp_parse_chunked_length', 'void HARNESS(void) { unsigned char *d; size_t l; int *e; htp_parse_chunked_length(d, l, e); CANARY(); }',
   {'count': 3, 0: dict(assigns='data, len', inv=['__CPROVER_same_object(data, __CPROVER_loop_entry(data))', 'len <= __CPROVER_loop_entry(len)',
                                               'data == __CPROVER_loop_entry(data) + (__CPROVER_loop_entry(len) - len)'], dec='len'),
    1: dict(assigns='i', inv=['i <= len'], dec='len - i'),
    2: dict(assigns='j, *extension', inv=['j <= len', 'i <= j', '*extension == __CPROVER_loop_entry(*extension)'], dec='len - j')},
   'chunk length: result <= INT32_MAX or a negative error code on every input (never a wrapped value); extension flag only ever set',
   replace=['htp_parse_positive_integer_whitespace', 'htp_log'])
nu('htp_parse_status', 'void HARNESS(void) { bstr *s; htp_parse_status(s); CANARY(); }', None, 'status: 100..999 or HTP_STATUS_INVALID',
   src=('htp_parsers.c',), replace=['htp_parse_positive_integer_whitespace'])
nu('htp_parse_port', 'void HARNESS(void) { unsigned char *d; size_t l; int *p, *i; htp_parse_port(d, l, p, i); CANARY(); }', None,
   'port: 1..65535, else -1 and marked invalid', replace=['htp_parse_positive_integer_whitespace'])
nu('htp_parse_content_length', 'void HARNESS(void) { bstr *b; htp_parse_content_length(b, NULL); CANARY(); }',
   {'count': 1, 0: dict(assigns='pos, r', inv=['pos <= len', '(gk < pos) ==> !ISDEC(data[gk])', 'r == 0 || r == -1'], dec='len - pos')},
   'content-length: result lattice, -1003 iff empty, -1001 iff no decimal digit anywhere, a digit anywhere => value or -2 (overflow), never a wrapped value')
