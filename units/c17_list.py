from vrun import U

UNITS = []
D = {'quick': {'LCAP': 8}, 'thorough': {'LCAP': 64}}
A = ['list capacity max_size <= LCAP (all (first,current_size,max_size) triples symbolic within it)',
     'unstated precondition surfaced: max_size*2*sizeof(void*) must not wrap (max_size < 2^59)']


def lu(fn, harness, sub, **kw):
    UNITS.append(U(name=fn, props=['C17', 'C01'], kind='contract', src=['htp_list.c'], enforce=fn,
                   contracts_inc=['c17_list.h'], harness=harness, defs=D, min_obl=10, sub=sub, assumes=A, **kw))


PUSH_H = '''
static void push_case(size_t first, size_t cs, void *e) {
  htp_list_array_t *l = malloc(sizeof(*l)); if (l == NULL) return;
  l->elements = malloc(LMAX * sizeof(void *)); if (l->elements == NULL) { free(l); return; }
  void *init[LMAX]; for (int i = 0; i < LMAX; i++) l->elements[i] = init[i];
  l->first = first; l->current_size = cs; l->max_size = LMAX;
  l->last = LIST_POS(l, cs == LMAX ? 0 : cs);
  void **o_el = l->elements; void *o_view = VIEW(l, gk); void *o_view_j = VIEW(l, gj); size_t o_last = l->last;
  htp_status_t rc = htp_list_array_push(l, e);
  VASSERT(rc == HTP_OK || rc == HTP_ERROR, "push returns OK or ERROR");
  if (rc == HTP_OK) {
    VASSERT(PUSH_POST_OK(l, e, cs, LMAX, o_view, o_view_j), "push OK: size+1, capacity same or doubled, ring invariant, new element at the tail, every earlier element keeps its place in the sequence");
    VASSERT(__CPROVER_rw_ok(l->elements, l->max_size * sizeof(void *)), "storage covers the capacity");
  } else {
    VASSERT(PUSH_POST_ERR(l, cs, LMAX, first, o_last, o_el, o_view), "failed growth leaves the list unchanged");
  }
  VASSERT(PUSH_POST_NOGROW(l, rc, cs, LMAX, first, o_el), "growth only when full");
  free(l->elements); free(l);
}
#define C(f) if (first == (f)) { push_case((f), cs, e); }
void HARNESS(void) { size_t first, cs; void *e;
  VASSUME(first < LMAX && cs <= LMAX && gk < LMAX && gj <= LMAX);
  CASES
  CANARY(); }'''
for _m, _t in ((1, 0), (2, 0), (3, 0), (4, 0), (5, 0), (8, 0), (16, 1)):
    UNITS.append(U(name='htp_list_array_push_cap%d' % _m, props=['C17', 'C01', 'C18'], kind='lemma', src=['htp_list.c'],
                   contracts_inc=['c17_list.h'], harness=PUSH_H.replace('CASES', ' '.join('C(%d)' % f for f in range(_m))),
                   defs={'quick': {'LCAP': 64, 'LMAX': _m}}, min_obl=100, thorough_only=bool(_t), timeout=(300, 900),
                   flags_add=['--unwind', str(_m + 1), '--unwinding-assertions', '--memory-leak-check'],
                   sub='push on the REAL function vs the push contract macros: deque law on the view across growth (realloc and re-linearising malloc+memcpy paths) and wrap-around, capacity %d, every head position enumerated, current_size symbolic; failed growth leaves the list unchanged; no leak/double free' % _m,
                   assumes=['capacity and head position are enumerated constants (capacities 1,2,3,4,5,8; thorough adds 16): CBMC 6.11 mis-models memcpy with a symbolic length into a pointer array; larger capacities are not machine-checked',
                            'unstated precondition surfaced: max_size*2*sizeof(void*) must not wrap (max_size < 2^59)']))
lu('htp_list_array_pop', 'void HARNESS(void) { htp_list_array_t *l; htp_list_array_pop(l); CANARY(); }', 'pop returns VIEW(size-1), prefix untouched (frame)')
lu('htp_list_array_shift', 'void HARNESS(void) { htp_list_array_t *l; htp_list_array_shift(l); CANARY(); }', 'shift returns VIEW(0), view moves down by one')
lu('htp_list_array_get', 'void HARNESS(void) { htp_list_array_t *l; size_t i; htp_list_array_get(l, i); CANARY(); }', 'get = VIEW(idx) or NULL out of range')
lu('htp_list_array_replace', 'void HARNESS(void) { htp_list_array_t *l; size_t i; void *e; htp_list_array_replace(l, i, e); CANARY(); }', 'replace sets VIEW(idx) only')
lu('htp_list_array_size', 'void HARNESS(void) { htp_list_array_t *l; htp_list_array_size(l); CANARY(); }', 'size')
lu('htp_list_array_clear', 'void HARNESS(void) { htp_list_array_t *l; htp_list_array_clear(l); CANARY(); }', 'clear empties, keeps storage')
lu('htp_list_array_init', 'void HARNESS(void) { htp_list_array_t *l; size_t n; htp_list_array_init(l, n); CANARY(); }', 'init establishes the ring invariant')
lu('htp_list_array_create', 'void HARNESS(void) { size_t n; htp_list_array_create(n); CANARY(); }', 'create: NULL for size 0 or failed allocation, else a well-formed empty list')
