from vrun import U

UNITS = []

# ======================================================================================================
# 1. bounded: the REAL htp_parse_uri on every string of length <= N over all 256 byte values
# ======================================================================================================
AB = ['bounded: all request targets of length <= N over all 256 byte values (every structural combination of the 8 components '
      'fits into 8 bytes: "://:@:?#"); longer targets are covered by the contract units only',
      'every allocation may fail (--malloc-may-fail): HTP_ERROR paths are checked for safety and leaks, the partition claims are about HTP_OK',
      'bstr_dup_mem / bstr_free are MODELLED in the bounded units (fixed-capacity allocation + byte copy, contracts/c13_uri.h C13_BSTR_MODEL): '
      'symbolic-size heap objects make the propositional encoding explode; the real bstr_dup_mem is checked against the model by unit c13_dup_model_lemma',
      'memchr: textbook model (CBMC 6.11 has none)',
      'KNOWN_F_C13_IPV6 (default on): targets with bytes between the "]" of an IP literal and the ":"/end of the authority are excluded from the '
      're-join and reference checks (predicate ipv6_junk_after_bracket in spec/uri_ref.h); safety/leak checks still cover them']

# One case per input length: the input bstr is allocated with a CONSTANT size.  A symbolic-size input object makes the
# pointer arithmetic of the splitter blow up in propositional reduction (29 GB at N=3).
CASES = '  CASE(0)\n' + ''.join('#if N >= %d\n  CASE(%d)\n#endif\n' % (k, k) for k in range(1, 17))

COMMON = r'''
#define CB(b) ((const unsigned char *)(b) + sizeof(bstr))   /* bytes of an inline bstr (realptr == NULL asserted first) */
static bstr *mk_input(const unsigned char *a, size_t la) {   /* la is a constant at every call site: heap object of exactly la bytes */
  bstr *input = malloc(sizeof(bstr) + la);
  if (input == NULL) return NULL;
  input->len = la; input->size = la; input->realptr = NULL;
  for (size_t i = 0; i < la; i++) ((unsigned char *) input + sizeof(bstr))[i] = a[i];
  return input;
}
#define INPUT_UNCHANGED(input, a, la) do { \
  VASSERT((input)->len == (la) && (input)->size == (la) && (input)->realptr == NULL, "the input's header is not modified"); \
  for (size_t i_ = 0; i_ < (la); i_++) VASSERT(CB(input)[i_] == (a)[i_], "the input's bytes are not modified"); } while (0)
/* copy of one reported component: taken once, so that every later check reads a local array */
typedef struct { int has; size_t len; unsigned char b[N ? N : 1]; } comp_t;
static void comp_get(const bstr *s, size_t la, comp_t *c) {
  c->has = (s != NULL); c->len = 0;
  if (s != NULL) {
    VASSERT(s->realptr == NULL && s->len <= s->size, "component is a well-formed inline bstr");
    VASSERT(s->len <= la, "component is not longer than the input");
    c->len = s->len;
    for (size_t i = 0; i < N; i++) if (i < s->len && i < la) c->b[i] = CB(s)[i];
  }
}
'''

PARSE_URI_H = COMMON + r'''
/* walk the target with the LENGTHS of the reported components: that is the re-join check.  o[k] = running offset */
#define TAKE(k, what) do { o[k] = p; VASSERT(p + c[k].len <= n, what ": component lies inside the target"); p += c[k].len; } while (0)
#define DELIM(ch, what) do { VASSERT(p < n && a[p] == (ch), what); p++; } while (0)
static void c13_rejoin(const unsigned char *a, size_t la, const comp_t *c, size_t *o) {
  size_t n = la; while (n > 0 && a[n - 1] == ' ') n--;
  size_t p = 0;
  if (n == 0) {
    for (int k = 0; k < RU_N; k++) VASSERT(!c[k].has, "empty target: no component");
    return;
  }
  if (c[RU_SCHEME].has) { TAKE(RU_SCHEME, "scheme"); DELIM(':', "scheme is followed by ':'"); }
  if (c[RU_HOST].has) {
    VASSERT(c[RU_SCHEME].has, "authority only after a scheme");
    DELIM('/', "authority is introduced by '//' (1)"); DELIM('/', "authority is introduced by '//' (2)");
    if (c[RU_USER].has) {
      TAKE(RU_USER, "user");
      if (c[RU_PASS].has) { DELIM(':', "user and password are separated by ':'"); TAKE(RU_PASS, "password"); }
      DELIM('@', "userinfo is followed by '@'");
    } else VASSERT(!c[RU_PASS].has, "no password without user");
    TAKE(RU_HOST, "host");
    if (c[RU_PORT].has) { DELIM(':', "host and port are separated by ':'"); TAKE(RU_PORT, "port"); }
  } else VASSERT(!c[RU_USER].has && !c[RU_PASS].has && !c[RU_PORT].has, "no user/password/port without host");
  VASSERT(c[RU_PATH].has, "a non-empty target always has a path component (possibly empty)");
  if (c[RU_PATH].has) TAKE(RU_PATH, "path");
  if (c[RU_QUERY].has) { DELIM('?', "query is introduced by '?'"); TAKE(RU_QUERY, "query"); }
  if (c[RU_FRAG].has) { DELIM('#', "fragment is introduced by '#'"); TAKE(RU_FRAG, "fragment"); }
  VASSERT(p == n, "re-joining the components with their delimiters reproduces the target minus trailing spaces");
  for (int k = 0; k < RU_N; k++)
    if (c[k].has && o[k] + c[k].len <= n)
      for (size_t i = 0; i < N; i++) if (i < c[k].len) VASSERT(c[k].b[i] == a[o[k] + i], "component bytes are the target's bytes at the running offset (nothing invented)");
}
static void c13_refcmp(const unsigned char *a, size_t la, const comp_t *c, const size_t *o, const ref_uri_t *r) {
  for (int k = 0; k < RU_N; k++) {
    VASSERT(c[k].has == (r->has[k] != 0), "component present iff the reference reports it");
    if (c[k].has && r->has[k]) {
      VASSERT(c[k].len == r->len[k], "component length equals the reference");
      VASSERT(o[k] == r->off[k], "component offset (from the re-join walk) equals the reference");
    }
  }
}
typedef struct { unsigned char a[N ? N : 1]; size_t la; } vin_t;
static void run(const unsigned char *a, size_t la) {
  bstr *input = mk_input(a, la);
  if (input == NULL) return;
  htp_uri_t *u = PREALLOC ? htp_uri_alloc() : NULL;
  if (!PREALLOC || u != NULL) {
    int rc = htp_parse_uri(input, &u);
    VASSERT(rc == HTP_OK || rc == HTP_ERROR, "htp_parse_uri returns OK or ERROR");
    VASSERT(rc == HTP_ERROR || u != NULL, "OK => a uri structure exists");
    INPUT_UNCHANGED(input, a, la);
    if (rc == HTP_OK && u != NULL) {
      comp_t c[RU_N]; size_t o[RU_N] = { 0, 0, 0, 0, 0, 0, 0, 0 };
      comp_get(u->scheme, la, &c[RU_SCHEME]); comp_get(u->username, la, &c[RU_USER]); comp_get(u->password, la, &c[RU_PASS]);
      comp_get(u->hostname, la, &c[RU_HOST]); comp_get(u->port, la, &c[RU_PORT]); comp_get(u->path, la, &c[RU_PATH]);
      comp_get(u->query, la, &c[RU_QUERY]); comp_get(u->fragment, la, &c[RU_FRAG]);
      if (la > 0 && a[0] == '/')
        VASSERT(!c[RU_SCHEME].has && !c[RU_USER].has && !c[RU_PASS].has && !c[RU_HOST].has && !c[RU_PORT].has, "a target that starts with '/' has no scheme and no authority");
      VASSERT(u->port_number == (PREALLOC ? -1 : 0), "the splitter itself never sets the numeric port");
      ref_uri_t r; ref_uri_split(a, la, &r);
#ifdef KNOWN_F_C13_IPV6
      if (!r.junk_after_ipv6)      /* == ipv6_junk_after_bracket(a, la) */
#endif
      { c13_rejoin(a, la, c, o); c13_refcmp(a, la, c, o, &r); }
    }
  }
  htp_uri_free(u);
  free(input);
}
#define CASE(K) if (in.la == (K)) run(in.a, (K));
void HARNESS(void) { VIN(vin_t);
#ifdef ALL_LENGTHS
  VASSUME(in.la <= N);
''' + CASES + r'''#else
  VASSUME(in.la == N);      /* shorter targets = this one padded with trailing spaces, which the splitter strips first */
  run(in.a, N);
#endif
  CANARY(); }'''


def parse_uri_unit(name, nq, nt, extra, bound, thorough_only=False, timeout=(600, 3000), unwind=None):
    d = {'N': nq, 'PREALLOC': 0, 'C13_MEMCHR_MODEL': 1, 'C13_BSTR_MODEL': 1}
    d.update(extra)
    UNITS.append(U(
        name=name, props=['C13'] + (['C02'] if name == 'ref_parse_uri' else []), kind='bounded', src=['htp_util.c'], replay='vin',
        contracts_inc=['uri_ref.h', 'c13_uri.h'], harness=PARSE_URI_H,
        defs={'quick': d, 'thorough': {'N': nt}},
        flags_add=['--unwind', str(unwind or (max(nt, 8) + 3)), '--unwinding-assertions', '--memory-leak-check'],
        flags_del=['--unsigned-overflow-check'], thorough_only=thorough_only, timeout=timeout,
        bound=bound % (nq, nt), assumes=AB,
        sub='real htp_parse_uri: components re-join to the target minus trailing spaces (ordered, contiguous, delimiter-separated, byte-identical); '
            "'/'-targets have no scheme/authority; every component equals the independent RFC 3986-style reference; no leak / over-read under any allocation failure"))


parse_uri_unit('ref_parse_uri', 8, 10, {},
               'all targets of length exactly N (quick N=%d, thorough N=%d) over all byte values; this includes every shorter target padded with trailing spaces, which the splitter strips first')
parse_uri_unit('ref_parse_uri_short', 3, 5, {'ALL_LENGTHS': 1}, unwind=10, bound='all targets of every length 0..N (quick N=%d, thorough N=%d), each in a heap buffer of exactly that size (over-read detection at every length)')
parse_uri_unit('ref_parse_uri_prealloc', 6, 8, {'PREALLOC': 1},
               'caller-provided htp_uri_alloc() structure (the way htp_transaction.c calls it); targets of length exactly N (quick N=%d, thorough N=%d)', thorough_only=False)

# ======================================================================================================
# 2. bounded: the REAL htp_parse_hostport (+ real trim, lower-case, port parser, integer parser from bstr.c)
# ======================================================================================================
HOSTPORT_H = COMMON + r'''
typedef struct { unsigned char a[N ? N : 1]; size_t la; int want_port; } vin_t;
static void run(const unsigned char *a, size_t la, int want_port) {
  bstr *input = mk_input(a, la);
  if (input == NULL) return;
  bstr *hostname = (bstr *) input, *port = NULL;      /* hostname: a non-NULL junk value that must be overwritten */
  int port_number = 12345, invalid = 77;
  htp_status_t rc = htp_parse_hostport(input, &hostname, want_port ? &port : NULL, &port_number, &invalid);
  VASSERT(rc == HTP_OK || rc == HTP_ERROR, "htp_parse_hostport returns OK or ERROR");
  INPUT_UNCHANGED(input, a, la);
  if (rc == HTP_OK) {
    comp_t h, p; comp_get(hostname, la, &h); comp_get(port, la, &p);
    ref_hostport_t r; ref_hostport(a, la, &r);
    /* --- partition, stated without the reference: ws* host ws* [ ':' port ] ws* is the input --- */
    VASSERT(invalid == 0 || invalid == 1, "invalid is a boolean");
    VASSERT(port_number == -1 || (port_number >= 1 && port_number <= 65535), "numeric port is 1..65535 or -1");
    VASSERT(h.has || invalid == 1, "no host name => marked invalid");
    VASSERT(!p.has || h.has, "port text only together with a host name");
    size_t q = 0, oh = 0, op = 0;
    while (q < la && ref_isspace(a[q])) q++;
    if (h.has) {
      oh = q; VASSERT(q + h.len <= la, "host lies inside the input"); q += h.len;
      while (q < la && ref_isspace(a[q])) q++;
      if (want_port ? p.has : (q < la && a[q] == ':')) {
        VASSERT(q < la && a[q] == ':', "host and port are separated by ':' (white space before it ignored)"); q++;
        if (p.has) { op = q; VASSERT(q + p.len <= la, "port lies inside the input"); q += p.len;
                     while (q < la && ref_isspace(a[q])) q++;
                     VASSERT(q == la, "white space, host, ':' and port text re-join to the input"); }
      } else if (invalid == 0) VASSERT(q == la, "valid host without port: white space and host re-join to the input");
      if (oh + h.len <= la) for (size_t i = 0; i < N; i++) if (i < h.len) VASSERT(ref_low(h.b[i]) == ref_low(a[oh + i]), "host bytes are the input's bytes (up to ASCII case)");
      if (p.has && op + p.len <= la) for (size_t i = 0; i < N; i++) if (i < p.len) VASSERT(p.b[i] == a[op + i], "port bytes are the input's bytes");
    }
    /* --- port rule (statement): decimal value when in 1..65535, otherwise -1 and marked invalid --- */
    if (p.has) {
      int v = ref_port_number(p.b, p.len);
      VASSERT(port_number == v, "numeric port is the decimal value of the reported port text when in 1..65535, else -1");
      VASSERT(v != -1 || invalid == 1, "unusable port text is marked invalid");
    }
    /* --- equality with the reference --- */
    VASSERT(h.has == r.has_host && (!want_port || p.has == r.has_port), "host / port reported iff the reference reports them");
    VASSERT(port_number == r.port_number, "numeric port equals the reference");
    VASSERT(invalid == r.invalid, "invalid flag equals the reference");
    if (h.has && r.has_host) {
      VASSERT(h.len == r.host_len && oh == r.host_off, "host range equals the reference");
      if (h.len == r.host_len) for (size_t i = 0; i < N; i++) if (i < h.len)
        VASSERT(h.b[i] == (r.host_lowered ? ref_low(a[r.host_off + i]) : a[r.host_off + i]), "host bytes equal the reference (lower-cased only when there is no port)");
    }
    if (p.has && r.has_port) VASSERT(p.len == r.port_len && op == r.port_off, "port range equals the reference");
    bstr_free(hostname); bstr_free(port);
  }
  free(input);
}
#define CASE(K) if (in.la == (K)) run(in.a, (K), in.want_port);
void HARNESS(void) { VIN(vin_t);
#ifdef ALL_LENGTHS
  VASSUME(in.la <= N);
''' + CASES + r'''#else
  VASSUME(in.la == N);      /* shorter inputs = this one padded with white space, which is trimmed first */
  run(in.a, N, in.want_port);
#endif
  CANARY(); }'''

AH = ['bounded: host[:port] texts of length <= N over all byte values', 'every allocation may fail (--malloc-may-fail)',
      'real bstr.c linked (trim, lower-case, dup, integer parser); memchr: textbook model (CBMC 6.11 has none)',
      'on HTP_ERROR the out-parameters are not inspected here (ownership on the error paths is the C18 units c18_uri_hostport / c18_header_hostport; the dangling *hostname seen there is fixed in /repo 342deba)']


def hostport_unit(name, nq, nt, extra, bound, unwind, timeout=(600, 3000), **kw):
    d = {'N': nq, 'C13_MEMCHR_MODEL': 1}
    d.update(extra)
    UNITS.append(U(
        name=name, props=['C13'] + (['C11'] if name == 'ref_parse_hostport_short' else []), kind='bounded', src=['htp_util.c'], link=['bstr.c'], replay='vin',
        contracts_inc=['uri_ref.h', 'c13_uri.h'], harness=HOSTPORT_H,
        defs={'quick': d, 'thorough': {'N': nt}},
        flags_add=['--unwind', str(unwind), '--unwinding-assertions', '--memory-leak-check'],
        flags_del=['--unsigned-overflow-check'], timeout=timeout, bound=bound % (nq, nt), assumes=AH,
        sub='real htp_parse_hostport: white space, host, ":" and port text re-join to the input; host/port ranges, lower-casing, invalid flag and numeric port '
            '(decimal value in 1..65535, else -1 and invalid) equal the independent reference; port==NULL call form included; no leak / over-read under any allocation failure', **kw))


hostport_unit('ref_parse_hostport', 6, 8, {}, 'all inputs of length exactly N (quick N=%d, thorough N=%d); shorter ones are covered as white-space padded inputs', 12)
hostport_unit('ref_parse_hostport_short', 2, 5, {'ALL_LENGTHS': 1}, 'all inputs of every length 0..N (quick N=%d, thorough N=%d), each in a heap buffer of exactly that size', 9)

# ======================================================================================================
# 3. bounded: the port rule through the REAL htp_normalize_parsed_uri (port block) on a uri that carries only a port text
# ======================================================================================================
PORT_H = COMMON + r'''
typedef struct { unsigned char a[N ? N : 1]; size_t la; uint64_t flags; int has_port; } vin_t;
static htp_tx_t the_tx;
static void run(const unsigned char *a, size_t la, uint64_t flags, int has_port) {
  htp_uri_t inc; memset(&inc, 0, sizeof(inc));
  htp_uri_t *norm = htp_uri_alloc();
  bstr *pt = has_port ? mk_input(a, la) : NULL;
  if (norm != NULL && (!has_port || pt != NULL)) {
    inc.port = pt; inc.port_number = 4711;
    the_tx.flags = flags;
    norm->port_number = 4242;
    int rc = htp_normalize_parsed_uri(&the_tx, &inc, norm);
    VASSERT(rc == HTP_OK, "normalising a uri that has only a port text cannot fail");
    if (!has_port) {
      VASSERT(norm->port_number == -1 && the_tx.flags == flags, "no port text: numeric port is -1 (HTP_PORT_NONE), nothing flagged");
    } else {
      INPUT_UNCHANGED(pt, a, la);
      int v = ref_port_number(a, la);
      if (v != -1) VASSERT(norm->port_number == v && the_tx.flags == flags, "port text in 1..65535: numeric port is its decimal value, nothing flagged");
      else VASSERT(norm->port_number == -1 && the_tx.flags == (flags | HTP_HOSTU_INVALID), "any other port text: numeric port -1 and the transaction is flagged HTP_HOSTU_INVALID (only that flag added)");
    }
    VASSERT(!norm->scheme && !norm->username && !norm->password && !norm->hostname && !norm->port && !norm->path && !norm->query && !norm->fragment, "no component invented");
  }
  htp_uri_free(norm); free(pt);
}
#define CASE(K) if (in.la == (K)) run(in.a, (K), in.flags, in.has_port);
void HARNESS(void) { VIN(vin_t);
  VASSUME(in.la <= N);
''' + CASES + r'''  CANARY(); }'''

UNITS.append(U(
    name='ref_normalize_port', props=['C13'], kind='bounded', src=['htp_util.c'], link=['bstr.c'], replay='vin',
    contracts_inc=['uri_ref.h', 'c13_uri.h'], harness=PORT_H, defs={'quick': {'N': 6, 'C13_MEMCHR_MODEL': 1}, 'thorough': {'N': 7}},
    flags_add=['--unwind', '10', '--unwinding-assertions', '--memory-leak-check'], flags_del=['--unsigned-overflow-check'], timeout=(600, 3000),
    bound='all port texts of every length 0..N (quick N=6, thorough N=7) over all byte values, arbitrary prior tx->flags',
    assumes=['bounded: port texts of length <= N (N >= 6 covers 65535/65536 with a leading zero or blank)',
             'htp_normalize_parsed_uri is called on a uri whose only non-NULL component is the port text, so the other stages (which need cfg) are not exercised: '
             'the port block does not depend on them', 'real bstr_util_mem_to_pint / htp_parse_positive_integer_whitespace (bstr.c linked)'],
    sub='port rule through the real htp_normalize_parsed_uri: port text (LWS* digits LWS*) in 1..65535 => port_number = decimal value; anything else => -1 and HTP_HOSTU_INVALID; '
        'no port text => -1; no other flag touched'))

# ======================================================================================================
# 4. contract unit (dfcc, symbolic length): safety, termination, provenance / adjacency chain -- WORK IN PROGRESS, does not close
# ======================================================================================================
AC = ['input: inline bstr of constant capacity VCAP with symbolic length <= VCAP, only read',
      'bstr_dup_mem replaced by a provenance-logging stub (contract_c13_dup_mem): its precondition "source range lies inside the input buffer" is asserted at every call; '
      'that the copy is byte-identical is bstr_dup_mem\'s own contract (C17) and the bounded units',
      'memchr replaced by contract_c13_memchr (NULL or an occurrence inside the range): CBMC 6.11 has no memchr model',
      '*uri is NULL or a structure whose eight component pointers are NULL (htp_uri_alloc / calloc), as at every call site',
      'KNOWN_F_C13_IPV6: after a "[...]" literal the contract only claims host_end <= next component (no overlap), not adjacency']

# NOT REGISTERED: instruments fine, but the solver does not finish (see notes/c13.md "Contract units"): MiniSat and CaDiCaL time out
# after 300-600 s even at C13_LEVEL 0.  Kept here so that the design (stub log, slot arithmetic, loop contracts) is not lost.
WIP_UNITS = []
WIP_UNITS.append(U(
    name='htp_parse_uri', props=['C13', 'C01'], kind='contract', src=['htp_util.c'], enforce='htp_parse_uri',
    replace=['bstr_dup_mem/contract_c13_dup_mem', 'memchr/contract_c13_memchr'], contracts_inc=['c13_uri.h'],
    loops={'htp_util.c': {'htp_parse_uri': {'count': 5,
        0: dict(assigns='len', inv=['len <= g_uri_len', '(gk >= len && gk < g_uri_len) ==> data[gk] == 32'], dec='len'),
        1: dict(assigns='pos', inv=['pos <= len'], dec='len - pos'),
        2: dict(assigns='pos', inv=['start <= pos', 'pos <= len'], dec='len - pos'),
        3: dict(assigns='pos', inv=['start <= pos', 'pos <= len'], dec='len - pos'),
        4: dict(assigns='pos', inv=['start <= pos + 1', 'pos <= len'], dec='len - pos')}}},
    harness='void HARNESS(void) { bstr *in; htp_uri_t **u; htp_parse_uri(in, u); CANARY(); }',
    defs={'quick': {'VCAP': 64, 'C13_LEVEL': 0}, 'thorough': {'VCAP': 4096}}, min_obl=100, timeout=(300, 1800), objbits=12, solver='--sat-solver cadical', assumes=AC,
    sub='htp_parse_uri for targets of ANY length: memory safety, termination, every component is taken from inside the target, and the full adjacency chain over the '
        'provenance log (scheme at 0 + ":", "//", user [":" password] "@", host [":" port], path, "?" query, "#" fragment, last component ends where the trailing '
        "spaces begin); '/'-targets have no scheme/authority"))

# ======================================================================================================
# 5. the bstr model used by the ref_parse_uri* units agrees with the real bstr_dup_mem / bstr_free (bstr.c linked, no model)
# ======================================================================================================
DUP_H = COMMON + r'''
typedef struct { unsigned char a[N ? N : 1]; size_t la; } vin_t;
static void run(const unsigned char *a, size_t la) {
  bstr *b = bstr_dup_mem(a, la);
  if (b != NULL) {
    VASSERT(b->len == la && b->size == la && b->realptr == NULL, "real bstr_dup_mem: inline bstr with len == size == requested length (as in the model)");
    for (size_t i = 0; i < la; i++) VASSERT(CB(b)[i] == a[i], "real bstr_dup_mem: byte-identical copy (as in the model)");
  }
  bstr_free(b);      /* NULL accepted, nothing leaks */
}
#define CASE(K) if (in.la == (K)) run(in.a, (K));
void HARNESS(void) { VIN(vin_t);
  VASSUME(in.la <= N);
''' + CASES + r'''  CANARY(); }'''
UNITS.append(U(
    name='c13_dup_model_lemma', props=['C13'], kind='bounded', src=['htp_util.c'], link=['bstr.c'], replay='vin', contracts_inc=['uri_ref.h', 'c13_uri.h'],
    harness=DUP_H, defs={'quick': {'N': 10}}, flags_add=['--unwind', '12', '--unwinding-assertions', '--memory-leak-check'], flags_del=['--unsigned-overflow-check'],
    bound='all source strings of every length 0..10 (the largest N of any ref_parse_uri* unit)', timeout=(300, 600),
    assumes=['bounded: lengths 0..10, enumerated as constants'],
    sub='the real bstr_dup_mem / bstr_free (bstr.c) behave like the fixed-capacity model C13_BSTR_MODEL that the ref_parse_uri* units use: '
        'NULL or an inline bstr with len == size == n and a byte-identical copy; bstr_free(NULL) is a no-op; no leak'))
