from vrun import U

UNITS = []

# ======================================================================================================
# 1. bounded: the REAL htp_parse_uri on every string of length <= N over all 256 byte values
# ======================================================================================================
AB = ['bounded: all request targets of length <= N over all 256 byte values (every structural combination of the 8 components '
      'fits into 8 bytes: "://:@:?#"); longer targets are covered by the contract units only',
      'every allocation may fail (--malloc-may-fail): HTP_ERROR paths are checked for safety and leaks, the partition claims are about HTP_OK',
      'KNOWN_F_C13_IPV6 (default on): targets with bytes between the "]" of an IP literal and the ":"/end of the authority are excluded from the '
      're-join and reference checks (predicate ipv6_junk_after_bracket in spec/uri_ref.h); safety/leak checks still cover them']

REJOIN = r'''
/* walk the target with the lengths of the reported components: that IS the re-join check */
#define TAKE(b, what) do { size_t l_ = bstr_len(b); \
    VASSERT(p + l_ <= n, what ": component lies inside the target"); \
    if (p + l_ <= n) for (size_t i_ = 0; i_ < l_; i_++) VASSERT(bstr_ptr(b)[i_] == a[p + i_], what ": bytes are the target's bytes at the running offset (nothing invented)"); \
    p += l_; } while (0)
#define DELIM(c, what) do { VASSERT(p < n && a[p] == (c), what); p++; } while (0)
static void c13_rejoin(const unsigned char *a, size_t la, const htp_uri_t *u) {
  size_t n = la; while (n > 0 && a[n - 1] == ' ') n--;
  size_t p = 0;
  if (n == 0) {
    VASSERT(!u->scheme && !u->username && !u->password && !u->hostname && !u->port && !u->path && !u->query && !u->fragment, "empty target: no component");
    return;
  }
  if (u->scheme) { TAKE(u->scheme, "scheme"); DELIM(':', "scheme is followed by ':'"); }
  if (u->hostname) {
    VASSERT(u->scheme != NULL, "authority only after a scheme");
    DELIM('/', "authority is introduced by '//' (1)"); DELIM('/', "authority is introduced by '//' (2)");
    if (u->username) {
      TAKE(u->username, "user");
      if (u->password) { DELIM(':', "user and password are separated by ':'"); TAKE(u->password, "password"); }
      DELIM('@', "userinfo is followed by '@'");
    } else VASSERT(u->password == NULL, "no password without user");
    TAKE(u->hostname, "host");
    if (u->port) { DELIM(':', "host and port are separated by ':'"); TAKE(u->port, "port"); }
  } else VASSERT(!u->username && !u->password && !u->port, "no user/password/port without host");
  VASSERT(u->path != NULL, "non-empty target always has a path component (possibly empty)");
  if (u->path) TAKE(u->path, "path");
  if (u->query) { DELIM('?', "query is introduced by '?'"); TAKE(u->query, "query"); }
  if (u->fragment) { DELIM('#', "fragment is introduced by '#'"); TAKE(u->fragment, "fragment"); }
  VASSERT(p == n, "re-joining the components with their delimiters reproduces the target minus trailing spaces");
}
'''

REFCMP = r'''
static void c13_refcmp(const unsigned char *a, size_t la, const htp_uri_t *u) {
  ref_uri_t r; ref_uri_split(a, la, &r);
  const bstr *c[RU_N] = { u->scheme, u->username, u->password, u->hostname, u->port, u->path, u->query, u->fragment };
  for (int k = 0; k < RU_N; k++) {
    VASSERT((c[k] != NULL) == (r.has[k] != 0), "component present iff the reference reports it");
    if (c[k] != NULL && r.has[k]) {
      VASSERT(bstr_len(c[k]) == r.len[k], "component length equals the reference");
      if (bstr_len(c[k]) == r.len[k]) for (size_t i = 0; i < r.len[k]; i++) VASSERT(bstr_ptr(c[k])[i] == a[r.off[k] + i], "component bytes equal the reference range of the target");
    }
  }
}
'''

PARSE_URI_H = REJOIN + REFCMP + r'''
typedef struct { unsigned char a[N]; size_t la; } vin_t;
void HARNESS(void) { VIN(vin_t);
  VASSUME(in.la <= N);
  bstr *input = bstr_dup_mem(in.a, in.la);          /* heap object of exactly la bytes: over-reads are caught */
  if (input != NULL) {
    htp_uri_t *u = PREALLOC ? htp_uri_alloc() : NULL;
    if (!PREALLOC || u != NULL) {
      int rc = htp_parse_uri(input, &u);
      VASSERT(rc == HTP_OK || rc == HTP_ERROR, "htp_parse_uri returns OK or ERROR");
      VASSERT(rc == HTP_ERROR || u != NULL, "OK => a uri structure exists");
      for (size_t i = 0; i < in.la; i++) VASSERT(bstr_ptr(input)[i] == in.a[i], "the target itself is not modified");
      if (rc == HTP_OK && u != NULL) {
        if (in.la > 0 && in.a[0] == '/')
          VASSERT(!u->scheme && !u->username && !u->password && !u->hostname && !u->port, "a target that starts with '/' has no scheme and no authority");
#ifdef KNOWN_F_C13_IPV6
        if (!ipv6_junk_after_bracket(in.a, in.la))
#endif
        { c13_rejoin(in.a, in.la, u); c13_refcmp(in.a, in.la, u); }
      }
    }
    htp_uri_free(u);
    bstr_free(input);
  }
  CANARY(); }'''


def parse_uri_unit(name, nq, nt, prealloc, thorough_only=False, timeout=(600, 3000)):
    UNITS.append(U(
        name=name, props=['C13'], kind='bounded', src=['htp_util.c'], link=['bstr.c'], replay='vin',
        contracts_inc=['uri_ref.h'], harness=PARSE_URI_H,
        defs={'quick': {'N': nq, 'PREALLOC': prealloc}, 'thorough': {'N': nt}},
        flags_add=['--unwind', str(max(nq, nt, 8) + 3), '--unwinding-assertions', '--memory-leak-check'],
        flags_del=['--unsigned-overflow-check'], thorough_only=thorough_only, timeout=timeout,
        bound='all targets of length <= N (quick N=%d, thorough N=%d), all byte values' % (nq, nt), assumes=AB,
        sub='real htp_parse_uri: components re-join to the target minus trailing spaces (ordered, contiguous, delimiter-separated, byte-identical); '
            "'/'-targets have no scheme/authority; every component equals the independent RFC 3986-style reference; no leak / over-read under any allocation failure"))


parse_uri_unit('ref_parse_uri', 4, 9, 0, timeout=(120,3000))
