"""Proof units for property C14 (multipart).  See notes/c14.md.

Known findings are excluded by macro guards that are ON by default; switch one off to see the unit fail on it
(with native replay):   C14_NO_KNOWN=OVERREAD,CR_LOST,APPEND_FAIL ./bin/vcheck --unit c14_parse_call -v
"""
import os
import re
from vrun import U

UNITS = []
_off = set(x.strip() for x in os.environ.get('C14_NO_KNOWN', '').split(',') if x.strip())
KNOWN = ''.join('#define KNOWN_F_C14_%s 1\n' % k for k in () if k not in _off)   # OVERREAD, CR_LOST and APPEND_FAIL are fixed in /repo: no longer carved out
REPO = os.environ.get('VERIF_REPO', '/repo')


def flat_multipart():
    """htp_multipart.c with the `goto STATE_SWITCH` back edges of htp_mpartp_parse folded into the loop's own back edge.

    CBMC nests back edges that share a loop head (symex_transition resets the counters of the "inner" ones), so the four
    `goto STATE_SWITCH` edges + the while edge cost the PRODUCT of their bounds and still trip unwinding assertions.
    The rewrite is line-preserving and purely control-flow:
        while (pos < len) {            ->  while (c14_again || pos < len) { c14_again = 0;
        goto STATE_SWITCH;             ->  { c14_again = 1; goto C14_NEXT; }          (every occurrence)
        } // switch \n    }            ->  } // switch \n    C14_NEXT: ; }
    `goto STATE_SWITCH` = "re-enter the loop body without testing pos < len"; so is the replacement.  Every pattern
    must fire the expected number of times, otherwise the unit is UNDECIDED (#error), never silently different."""
    path = os.path.join(REPO, 'htp', 'htp_multipart.c')
    try:
        s = open(path).read()
        a = re.subn(r'while \(pos < len\) \{(\s*\n\s*STATE_SWITCH:)', r'while (c14_again || pos < len) { c14_again = 0;\1', s)
        b = re.subn(r'goto STATE_SWITCH;', '{ c14_again = 1; goto C14_NEXT; }', a[0])
        c = re.subn(r'(\} // switch\n    )\}(\n\n    return HTP_OK;\n\}\n\nstatic void htp_mpartp_validate_boundary)', r'\1C14_NEXT: ; }\2', b[0])
        if a[1] != 1 or b[1] < 1 or c[1] != 1 or s.count('\n') != c[0].count('\n'):
            raise ValueError('patterns fired %d/%d/%d times' % (a[1], b[1], c[1]))
        names = re.findall(r'^(?!static)[A-Za-z_][A-Za-z0-9_ \*]*?\b(htp_[a-z_0-9]+)\(.*\) *\{$', s, flags=re.M)
        # native replay links the whole library next to this TU: give the TU's copy private names there
        ren = '#ifdef VNATIVE\n' + ''.join('#define %s c14n_%s\n' % (n, n) for n in names) + '#endif\n'
        return ren + 'static int c14_again;\n#line 1 "%s"\n%s\n' % (path, c[0])
    except (OSError, ValueError) as e:
        return '#error "c14: cannot normalise htp_mpartp_parse: %s"\n' % str(e).replace('"', "'")


# ---------------------------------------------------------------------------------------------------------
# 1 + 2.  htp_mpartp_parse, one call from an arbitrary well-formed matcher state
# ---------------------------------------------------------------------------------------------------------
PARSE_PRE = KNOWN + '''#define C14_PARSE_UNIT 1
/* the parser's set-aside store (boundary_pieces) is the builder MODEL of contracts/c14_mpart.h */
#define bstr_builder_append_mem c14_bb_append_mem
#define bstr_builder_size c14_bb_size
#define bstr_builder_clear c14_bb_clear
#define htp_list_array_size c14_list_size
#define htp_list_array_get c14_list_get
''' + flat_multipart()
PARSE_ASSUMES = [
    'per call: the start state is symbolic within WF (contracts/c14_mpart.h: c14_parse_harness), so every call history is covered; '
    'the chunk has exactly N bytes (piece-free start states: quick 3, thorough 4; start states with stored pieces: quick 2, thorough 3), all byte values',
    'htp_mpartp_parse is compiled from a line-preserving control-flow normalisation of the current tree (goto STATE_SWITCH folded into the '
    'loop back edge, flat_multipart() in units/c14_mpart.py; notes/c14.md section 1)',
    'the boundary_pieces string builder is a model (ordered slots, copying, may fail); bstr_builder.c/htp_list.c are not under this unit',
    'delimiter = CR LF - - plus BL-4 = 1 symbolic 7-bit byte; boundary bytes >= 0x80 are excluded: '
    'the parser compares `unsigned char` input with `char` boundary bytes, so such a boundary never matches (notes/c14.md, observation O1)',
    'start-state truncation: at most PCAP=3 bytes in front of the candidate in the first stored piece (the code inspects the last two)',
    'part layer (parser->handle_data, parser->handle_boundary) replaced by logging stubs that leave current_part_mode arbitrary',
    'boundary_count <= INT_MAX - N (int counter, 2^31 delimiters)',
    'the set-aside copy may fail (allocation failure): then only the error report and the well-formedness of the matcher state are demanded, not byte conservation',
]


def parse_unwind(n, bl, pcap):
    """per-loop unwinding bounds of the per-call units (every one is checked by an unwinding assertion)"""
    pmax = bl - 2
    plen = pcap + bl - 3
    dflt = max(n, plen, bl) + 2            # harness / stub / reference loops: constant bounds <= max(N, PLEN, BL) + 1
    us = {
        'htp_martp_process_aside.0': pmax + 1, 'htp_martp_process_aside.1': pmax + 1,   # replay of <= PMAX stored pieces
        'htp_mpartp_parse.0': n + 2,           # inner scan of STATE_DATA
        'htp_mpartp_parse.1': min(n, bl - 2) + 1,   # inner scan of STATE_BOUNDARY: every iteration matches one more delimiter byte
        'htp_mpartp_parse.2': 2 * n + 4,       # dispatches: every one consumes a byte or follows one that did (see notes)
    }
    return dflt, ','.join('%s:%d' % kv for kv in sorted(us.items()))


def parse_unit(name, n, bl, pcap, timeout, thorough_only=False, extra=''):
    dflt, us = parse_unwind(n, bl, pcap)
    UNITS.append(U(
        name=name, props=['C14', 'C01'] + (['C18'] if name == 'c14_parse_call' else []), kind='bounded', src=[], link=['htp_util.c'],
        replay='vin', contracts_inc=['c14_mpart.h'], pre=extra + PARSE_PRE,
        harness='void HARNESS(void) { VIN(vin_t); c14_parse_harness(in); CANARY(); }',
        defs={'quick': {'N': n, 'BL': bl, 'PCAP': pcap}},
        flags_add=['--unwind', str(dflt)], unwindset=us, timeout=(timeout, timeout), min_obl=200, thorough_only=thorough_only,
        bound='one call with a chunk of exactly N=%d bytes from any well-formed matcher state; delimiter of BL=%d bytes' % (n, bl),
        sub=('start states with 1..PMAX stored pieces (open candidate carried over): ' if 'ONLY_PIECES' in extra else
             'start states without stored pieces (all parser states): ') +
            'htp_mpartp_parse + htp_martp_process_aside, one call from ANY such well-formed matcher state: no out-of-bounds access '
            '(chunk malloc(N), first stored piece an exact-size heap object), every (ptr,len) handed to the part layer lies inside the chunk / a stored piece / the CR literal, '
            'in stream order, nothing twice; byte conservation: chunk bytes are handed out, set aside, or verified delimiter-line bytes; '
            'stored pieces and the set-aside CR are replayed in full on a refuted candidate; WF holds again on return',
        assumes=PARSE_ASSUMES))


NOP = '#define C14_NO_PIECES 1\n'      # start states without stored pieces (every state; STATE_BOUNDARY only in its initial form)
ONLYP = '#define C14_ONLY_PIECES 1\n'   # start states STATE_BOUNDARY with 1..PMAX stored pieces (an open candidate carried over)
parse_unit('c14_parse_call', 3, 5, 3, 300, extra=NOP)
parse_unit('c14_parse_call_pieces', 2, 5, 3, 300, extra=ONLYP)
# chunks of ONE and TWO bytes: some matcher paths exist only when a byte is the last of its chunk at offset 0 (`pos + 1 == len`), e.g. a lone CR chunk after a set-aside CR
parse_unit('c14_parse_call_n1', 1, 5, 3, 300, extra=NOP)
parse_unit('c14_parse_call_n2', 2, 5, 3, 300, extra=NOP)
parse_unit('c14_parse_call_pieces_n1', 1, 5, 3, 300, extra=ONLYP)
parse_unit('c14_parse_call_n4', 4, 5, 3, 1500, extra=NOP, thorough_only=True)
parse_unit('c14_parse_call_pieces_n3', 3, 5, 3, 1500, extra=ONLYP, thorough_only=True)


# ---- end of body: htp_mpartp_finalize from any well-formed matcher state (no part object yet) ----------------------------------
FIN = '#define C14_FINALIZE 1\n'
for _n, _x, _t in (('c14_finalize', NOP, 'start states without stored pieces (every state, set-aside CR or not)'),
                   ('c14_finalize_pieces', ONLYP, 'start states with 1..PMAX stored pieces (open candidate)')):
    dflt, us = parse_unwind(2, 5, 3)
    UNITS.append(U(
        name=_n, props=['C14', 'C01'], kind='bounded', src=[], link=['htp_util.c'],
        replay='vin', contracts_inc=['c14_mpart.h'], pre=FIN + _x + PARSE_PRE,
        harness='void HARNESS(void) { VIN(vin_t); c14_parse_harness(in); CANARY(); }',
        defs={'quick': {'N': 2, 'BL': 5, 'PCAP': 3}},
        flags_add=['--unwind', str(dflt)], unwindset=us, timeout=(300, 300), min_obl=50,
        bound='delimiter of BL=5 bytes, at most 3 stored pieces, at most PCAP=3 bytes in front of the candidate',
        sub=_t + ': htp_mpartp_finalize + htp_martp_process_aside with no part object yet: everything that was set aside (stored pieces, CR) is handed to the part layer in full '
            'and in order ("part data is reproduced byte-for-byte", "identical for every chunking": what was set aside depends only on where the chunk ended)',
        assumes=PARSE_ASSUMES[2:8] + ['current_part == NULL on entry (the set-aside bytes are all there is of the last part); the part layer stub creates no part object']))

# ---- Content-Disposition: the value of name= / filename= is the quoted string that was sent (escaped quotes and backslashes) ----
CDV_H = r'''
#define PFX_NAME "form-data;name=\""
#define PFX_FILE "form-data;filename=\""
#define PFXMAX 20
typedef struct { unsigned char tail[T]; size_t tl; unsigned char which; } vin_t;
static struct { bstr b; unsigned char d[PFXMAX + T]; } cdv_val;
static htp_header_t cdv_h; static htp_mpartp_t cdv_parser; static htp_multipart_part_t cdv_part;
void *v_stub_get_c(const htp_table_t *table, const char *ckey) { return &cdv_h; }
/* constant-capacity model of bstr_dup_mem (symbolic-size heap objects do not bit-blast; same model as units/c03_seg.py) */
bstr *v_model_dup_mem(const void *data, size_t len) {
  if (len > T) return NULL;
  bstr *b = malloc(sizeof(bstr) + T); if (b == NULL) return NULL;
  b->len = len; b->size = len; b->realptr = NULL;
  for (size_t i = 0; i < T; i++) if (i < len) ((unsigned char *) b)[sizeof(bstr) + i] = ((const unsigned char *) data)[i];
  return b; }           /* the part has a Content-Disposition header */
void HARNESS(void) { VIN(vin_t);
  VASSUME(in.tl <= T);
#if CDV_FILE
  const int file = 1; static const char pfx[] = PFX_FILE;
#else
  const int file = 0; static const char pfx[] = PFX_NAME;
#endif
  const size_t pl = sizeof(pfx) - 1;
  for (size_t i = 0; i < sizeof(pfx) - 1; i++) cdv_val.d[i] = (unsigned char) pfx[i];
  for (size_t i = 0; i < T; i++) cdv_val.d[sizeof(pfx) - 1 + i] = in.tail[i];
  cdv_val.b.len = pl + in.tl; cdv_val.b.size = PFXMAX + T; cdv_val.b.realptr = NULL;
  cdv_h.value = &cdv_val.b; cdv_part.parser = &cdv_parser; cdv_part.name = NULL; cdv_part.file = NULL; cdv_parser.multipart.flags = 0;
  htp_status_t rc = htp_mpart_part_parse_c_d(&cdv_part);
  VASSERT(rc == HTP_OK || rc == HTP_DECLINED || rc == HTP_ERROR, "OK, DECLINED or ERROR");
  unsigned char want[T]; size_t wl = 0; size_t close = ref_cd_quoted(in.tail, in.tl, want, &wl);
  if (close == in.tl) {
    if (rc != HTP_ERROR) VASSERT(rc == HTP_DECLINED && (cdv_parser.multipart.flags & HTP_MULTIPART_CD_SYNTAX_INVALID), "a value without closing quote is refused and flagged");
  } else if (close + 1 == in.tl) {
    /* the header ends right after the closing quote: a well-formed single-parameter Content-Disposition */
    if (rc != HTP_ERROR) {
      VASSERT(rc == HTP_OK && cdv_parser.multipart.flags == 0, "well-formed Content-Disposition is accepted without anomaly flags");
      bstr *got = file ? (cdv_part.file != NULL ? cdv_part.file->filename : NULL) : cdv_part.name;
      VASSERT(got != NULL && (file ? cdv_part.name == NULL : cdv_part.file == NULL), "exactly the parameter that was sent is reported");
      if (got != NULL) {
        VASSERT(bstr_len(got) == wl, "reported value has the length of the quoted string that was sent (escape pairs count once)");
        for (size_t i = 0; i < T; i++) if (i < wl && i < bstr_len(got)) VASSERT(bstr_ptr(got)[i] == want[i], "reported value is byte-for-byte the quoted string that was sent");
      }
    }
  }
  if (cdv_part.file != NULL) { bstr_free(cdv_part.file->filename); free(cdv_part.file); cdv_part.file = NULL; }
  bstr_free(cdv_part.name); cdv_part.name = NULL;
  CANARY(); }'''
for _nm, _fl in (('ref_mpart_cd_value_name', 0), ('ref_mpart_cd_value_filename', 1)):
    UNITS.append(U(
        name=_nm, props=['C14', 'C02'], kind='bounded', src=['htp_multipart.c'], link=['bstr.c', 'htp_util.c'], replay='vin',
        pre='#define htp_table_get_c v_stub_get_c\n#define bstr_dup_mem v_model_dup_mem\n', contracts_inc=['mpart_ref.h'], harness=CDV_H,
        defs={'quick': {'T': 4, 'CDV_FILE': _fl}, 'thorough': {'T': 6, 'CDV_FILE': _fl}},
        flags_add=['--unwind', '28', '--unwinding-assertions', '--memory-leak-check'], flags_del=['--unsigned-overflow-check'], timeout=(300, 1200), min_obl=50,
        unwindset=','.join(['htp_mpart_part_parse_c_d.6:4'] + ['htp_mpart_part_parse_c_d.%d:28' % i for i in range(6)] + ['htp_mpart_decode_quoted_cd_value_inplace.0:8', 'ref_cd_quoted.0:8']),
        bound='Content-Disposition value = form-data;name=" or form-data;filename=" followed by every byte string of length 0..T (quick 4, thorough 6); at most 3 parameters',
        sub='real htp_mpart_part_parse_c_d + htp_mpart_decode_quoted_cd_value_inplace: the reported name / file name is byte-for-byte the quoted string that was sent, with \\" and \\\\ as escape pairs '
            '(also at the very end of the value); an unterminated value is refused and flagged',
        assumes=['the header lookup is replaced by a stub that returns the harness\' header (table look-up is C17)', 'bstr_dup_mem replaced by a constant-capacity model inside this TU', 'every allocation may fail (HTP_ERROR then, nothing asserted about the value)',
                 'values followed by further parameters are exercised (any tail) but only memory safety is asserted for them']))
