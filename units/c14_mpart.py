"""Proof units for property C14 (multipart).  See notes/c14.md.

Known findings are excluded by macro guards that are ON by default; switch one off to see the unit fail on it
(with native replay):   C14_NO_KNOWN=OVERREAD,CR_LOST,APPEND_FAIL ./bin/vcheck --unit c14_parse_call -v
"""
import os
import re
from vrun import U

UNITS = []
_off = set(x.strip() for x in os.environ.get('C14_NO_KNOWN', '').split(',') if x.strip())
KNOWN = ''.join('#define KNOWN_F_C14_%s 1\n' % k for k in () if k not in _off)   # OVERREAD, CR_LOST and APPEND_FAIL are fixed in /repo: no longer carved out
REPO = os.environ.get('VERIF_REPO', '/repo')


def flat_multipart():
    """htp_multipart.c with the `goto STATE_SWITCH` back edges of htp_mpartp_parse folded into the loop's own back edge.

    CBMC nests back edges that share a loop head (symex_transition resets the counters of the "inner" ones), so the four
    `goto STATE_SWITCH` edges + the while edge cost the PRODUCT of their bounds and still trip unwinding assertions.
    The rewrite is line-preserving and purely control-flow:
        while (pos < len) {            ->  while (c14_again || pos < len) { c14_again = 0;
        goto STATE_SWITCH;             ->  { c14_again = 1; goto C14_NEXT; }          (every occurrence)
        } // switch \n    }            ->  } // switch \n    C14_NEXT: ; }
    `goto STATE_SWITCH` = "re-enter the loop body without testing pos < len"; so is the replacement.  Every pattern
    must fire the expected number of times, otherwise the unit is UNDECIDED (#error), never silently different."""
    path = os.path.join(REPO, 'htp', 'htp_multipart.c')
    try:
        s = open(path).read()
        a = re.subn(r'while \(pos < len\) \{(\s*\n\s*STATE_SWITCH:)', r'while (c14_again || pos < len) { c14_again = 0;\1', s)
        b = re.subn(r'goto STATE_SWITCH;', '{ c14_again = 1; goto C14_NEXT; }', a[0])
        c = re.subn(r'(\} // switch\n    )\}(\n\n    return HTP_OK;\n\}\n\nstatic void htp_mpartp_validate_boundary)', r'\1C14_NEXT: ; }\2', b[0])
        if a[1] != 1 or b[1] < 1 or c[1] != 1 or s.count('\n') != c[0].count('\n'):
            raise ValueError('patterns fired %d/%d/%d times' % (a[1], b[1], c[1]))
        names = re.findall(r'^(?!static)[A-Za-z_][A-Za-z0-9_ \*]*?\b(htp_[a-z_0-9]+)\(.*\) *\{$', s, flags=re.M)
        # native replay links the whole library next to this TU: give the TU's copy private names there
        ren = '#ifdef VNATIVE\n' + ''.join('#define %s c14n_%s\n' % (n, n) for n in names) + '#endif\n'
        return ren + 'static int c14_again;\n#line 1 "%s"\n%s\n' % (path, c[0])
    except (OSError, ValueError) as e:
        return '#error "c14: cannot normalise htp_mpartp_parse: %s"\n' % str(e).replace('"', "'")


# ---------------------------------------------------------------------------------------------------------
# 1 + 2.  htp_mpartp_parse, one call from an arbitrary well-formed matcher state
# ---------------------------------------------------------------------------------------------------------
PARSE_PRE = KNOWN + '''#define C14_PARSE_UNIT 1
/* the parser's set-aside store (boundary_pieces) is the builder MODEL of contracts/c14_mpart.h */
#define bstr_builder_append_mem c14_bb_append_mem
#define bstr_builder_size c14_bb_size
#define bstr_builder_clear c14_bb_clear
#define htp_list_array_size c14_list_size
#define htp_list_array_get c14_list_get
''' + flat_multipart()
PARSE_ASSUMES = [
    'per call: the start state is symbolic within WF (contracts/c14_mpart.h: c14_parse_harness), so every call history is covered; '
    'the chunk has exactly N bytes (piece-free start states: quick 3, thorough 4; start states with stored pieces: quick 2, thorough 3), all byte values',
    'htp_mpartp_parse is compiled from a line-preserving control-flow normalisation of the current tree (goto STATE_SWITCH folded into the '
    'loop back edge, flat_multipart() in units/c14_mpart.py; notes/c14.md section 1)',
    'the boundary_pieces string builder is a model (ordered slots, copying, may fail); bstr_builder.c/htp_list.c are not under this unit',
    'delimiter = CR LF - - plus BL-4 = 1 symbolic 7-bit byte; boundary bytes >= 0x80 are excluded: '
    'the parser compares `unsigned char` input with `char` boundary bytes, so such a boundary never matches (notes/c14.md, observation O1)',
    'start-state truncation: at most PCAP=3 bytes in front of the candidate in the first stored piece (the code inspects the last two)',
    'part layer (parser->handle_data, parser->handle_boundary) replaced by logging stubs that leave current_part_mode arbitrary',
    'boundary_count <= INT_MAX - N (int counter, 2^31 delimiters)',
    'the set-aside copy may fail (allocation failure): then only the error report and the well-formedness of the matcher state are demanded, not byte conservation',
]


def parse_unwind(n, bl, pcap):
    """per-loop unwinding bounds of the per-call units (every one is checked by an unwinding assertion)"""
    pmax = bl - 2
    plen = pcap + bl - 3
    dflt = max(n, plen, bl) + 2            # harness / stub / reference loops: constant bounds <= max(N, PLEN, BL) + 1
    us = {
        'htp_martp_process_aside.0': pmax + 1, 'htp_martp_process_aside.1': pmax + 1,   # replay of <= PMAX stored pieces
        'htp_mpartp_parse.0': n + 2,           # inner scan of STATE_DATA
        'htp_mpartp_parse.1': min(n, bl - 2) + 1,   # inner scan of STATE_BOUNDARY: every iteration matches one more delimiter byte
        'htp_mpartp_parse.2': 2 * n + 4,       # dispatches: every one consumes a byte or follows one that did (see notes)
    }
    return dflt, ','.join('%s:%d' % kv for kv in sorted(us.items()))


def parse_unit(name, n, bl, pcap, timeout, thorough_only=False, extra=''):
    dflt, us = parse_unwind(n, bl, pcap)
    UNITS.append(U(
        name=name, props=['C14', 'C01'] + (['C18'] if name == 'c14_parse_call' else []), kind='bounded', src=[], link=['htp_util.c'],
        replay='vin', contracts_inc=['c14_mpart.h'], pre=extra + PARSE_PRE,
        harness='void HARNESS(void) { VIN(vin_t); c14_parse_harness(in); CANARY(); }',
        defs={'quick': {'N': n, 'BL': bl, 'PCAP': pcap}},
        flags_add=['--unwind', str(dflt)], unwindset=us, timeout=(timeout, timeout), min_obl=200, thorough_only=thorough_only,
        bound='one call with a chunk of exactly N=%d bytes from any well-formed matcher state; delimiter of BL=%d bytes' % (n, bl),
        sub=('start states with 1..PMAX stored pieces (open candidate carried over): ' if 'ONLY_PIECES' in extra else
             'start states without stored pieces (all parser states): ') +
            'htp_mpartp_parse + htp_martp_process_aside, one call from ANY such well-formed matcher state: no out-of-bounds access '
            '(chunk malloc(N), first stored piece an exact-size heap object), every (ptr,len) handed to the part layer lies inside the chunk / a stored piece / the CR literal, '
            'in stream order, nothing twice; byte conservation: chunk bytes are handed out, set aside, or verified delimiter-line bytes; '
            'stored pieces and the set-aside CR are replayed in full on a refuted candidate; WF holds again on return',
        assumes=PARSE_ASSUMES))


NOP = '#define C14_NO_PIECES 1\n'      # start states without stored pieces (every state; STATE_BOUNDARY only in its initial form)
ONLYP = '#define C14_ONLY_PIECES 1\n'   # start states STATE_BOUNDARY with 1..PMAX stored pieces (an open candidate carried over)
parse_unit('c14_parse_call', 3, 5, 3, 300, extra=NOP)
parse_unit('c14_parse_call_pieces', 2, 5, 3, 300, extra=ONLYP)
parse_unit('c14_parse_call_n4', 4, 5, 3, 1500, extra=NOP, thorough_only=True)
parse_unit('c14_parse_call_pieces_n3', 3, 5, 3, 1500, extra=ONLYP, thorough_only=True)

