"""Proof units for property C14 (multipart).  See notes/c14.md.

Known findings are excluded by macro guards that are ON by default; switch one off to see the unit fail on it
(with native replay):   C14_NO_KNOWN=OVERREAD,CR_LOST,APPEND_FAIL ./bin/vcheck --unit c14_parse_call -v
"""
import os
import re
from vrun import U

UNITS = []
_off = set(x.strip() for x in os.environ.get('C14_NO_KNOWN', '').split(',') if x.strip())
KNOWN = ''.join('#define KNOWN_F_C14_%s 1\n' % k for k in () if k not in _off)   # OVERREAD, CR_LOST and APPEND_FAIL are fixed in /repo: no longer carved out
REPO = os.environ.get('VERIF_REPO', '/repo')


def flat_multipart():
    """htp_multipart.c with the `goto STATE_SWITCH` back edges of htp_mpartp_parse folded into the loop's own back edge.

    CBMC nests back edges that share a loop head (symex_transition resets the counters of the "inner" ones), so the four
    `goto STATE_SWITCH` edges + the while edge cost the PRODUCT of their bounds and still trip unwinding assertions.
    The rewrite is line-preserving and purely control-flow:
        while (pos < len) {            ->  while (c14_again || pos < len) { c14_again = 0;
        goto STATE_SWITCH;             ->  { c14_again = 1; goto C14_NEXT; }          (every occurrence)
        } // switch \n    }            ->  } // switch \n    C14_NEXT: ; }
    `goto STATE_SWITCH` = "re-enter the loop body without testing pos < len"; so is the replacement.  Every pattern
    must fire the expected number of times, otherwise the unit is UNDECIDED (#error), never silently different."""
    path = os.path.join(REPO, 'htp', 'htp_multipart.c')
    try:
        s = open(path).read()
        a = re.subn(r'while \(pos < len\) \{(\s*\n\s*STATE_SWITCH:)', r'while (c14_again || pos < len) { c14_again = 0;\1', s)
        b = re.subn(r'goto STATE_SWITCH;', '{ c14_again = 1; goto C14_NEXT; }', a[0])
        c = re.subn(r'(\} // switch\n    )\}(\n\n    return HTP_OK;\n\}\n\nstatic void htp_mpartp_validate_boundary)', r'\1C14_NEXT: ; }\2', b[0])
        if a[1] != 1 or b[1] < 1 or c[1] != 1 or s.count('\n') != c[0].count('\n'):
            raise ValueError('patterns fired %d/%d/%d times' % (a[1], b[1], c[1]))
        names = re.findall(r'^(?!static)[A-Za-z_][A-Za-z0-9_ \*]*?\b(htp_[a-z_0-9]+)\(.*\) *\{$', s, flags=re.M)
        # native replay links the whole library next to this TU: give the TU's copy private names there
        ren = '#ifdef VNATIVE\n' + ''.join('#define %s c14n_%s\n' % (n, n) for n in names) + '#endif\n'
        return ren + 'static int c14_again;\n#line 1 "%s"\n%s\n' % (path, c[0])
    except (OSError, ValueError) as e:
        return '#error "c14: cannot normalise htp_mpartp_parse: %s"\n' % str(e).replace('"', "'")


# ---------------------------------------------------------------------------------------------------------
# 1 + 2.  htp_mpartp_parse, one call from an arbitrary well-formed matcher state
# ---------------------------------------------------------------------------------------------------------
PARSE_PRE = KNOWN + '''#define C14_PARSE_UNIT 1
/* the parser's set-aside store (boundary_pieces) is the builder MODEL of contracts/c14_mpart.h */
#define bstr_builder_append_mem c14_bb_append_mem
#define bstr_builder_size c14_bb_size
#define bstr_builder_clear c14_bb_clear
#define htp_list_array_size c14_list_size
#define htp_list_array_get c14_list_get
''' + flat_multipart()
PARSE_ASSUMES = [
    'per call: the start state is symbolic within WF (contracts/c14_mpart.h: c14_parse_harness), so every call history is covered; '
    'the chunk has exactly N bytes (piece-free start states: quick 3, thorough 4; start states with stored pieces: quick 2, thorough 3), all byte values',
    'htp_mpartp_parse is compiled from a line-preserving control-flow normalisation of the current tree (goto STATE_SWITCH folded into the '
    'loop back edge, flat_multipart() in units/c14_mpart.py; notes/c14.md section 1)',
    'the boundary_pieces string builder is a model (ordered slots, copying, may fail); bstr_builder.c/htp_list.c are not under this unit',
    'delimiter = CR LF - - plus BL-4 = 1 symbolic 7-bit byte; boundary bytes >= 0x80 are excluded: '
    'the parser compares `unsigned char` input with `char` boundary bytes, so such a boundary never matches (notes/c14.md, observation O1)',
    'start-state truncation: at most PCAP=3 bytes in front of the candidate in the first stored piece (the code inspects the last two)',
    'part layer (parser->handle_data, parser->handle_boundary) replaced by logging stubs that leave current_part_mode arbitrary',
    'boundary_count <= INT_MAX - N (int counter, 2^31 delimiters)',
    'the set-aside copy may fail (allocation failure): then only the error report and the well-formedness of the matcher state are demanded, not byte conservation',
]


def parse_unwind(n, bl, pcap):
    """per-loop unwinding bounds of the per-call units (every one is checked by an unwinding assertion)"""
    pmax = bl - 2
    plen = pcap + bl - 3
    dflt = max(n, plen, bl) + 2            # harness / stub / reference loops: constant bounds <= max(N, PLEN, BL) + 1
    us = {
        'htp_martp_process_aside.0': pmax + 1, 'htp_martp_process_aside.1': pmax + 1,   # replay of <= PMAX stored pieces
        'htp_mpartp_parse.0': n + 2,           # inner scan of STATE_DATA
        'htp_mpartp_parse.1': min(n, bl - 2) + 1,   # inner scan of STATE_BOUNDARY: every iteration matches one more delimiter byte
        'htp_mpartp_parse.2': 2 * n + 4,       # dispatches: every one consumes a byte or follows one that did (see notes)
    }
    return dflt, ','.join('%s:%d' % kv for kv in sorted(us.items()))


def parse_unit(name, n, bl, pcap, timeout, thorough_only=False, extra=''):
    dflt, us = parse_unwind(n, bl, pcap)
    UNITS.append(U(
        name=name, props=['C14', 'C01'] + (['C18'] if name == 'c14_parse_call' else []), kind='bounded', src=[], link=['htp_util.c'],
        replay='vin', contracts_inc=['c14_mpart.h'], pre=extra + PARSE_PRE,
        harness='void HARNESS(void) { VIN(vin_t); c14_parse_harness(in); CANARY(); }',
        defs={'quick': {'N': n, 'BL': bl, 'PCAP': pcap}},
        flags_add=['--unwind', str(dflt)], unwindset=us, timeout=(timeout, timeout), min_obl=200, thorough_only=thorough_only,
        bound='one call with a chunk of exactly N=%d bytes from any well-formed matcher state; delimiter of BL=%d bytes' % (n, bl),
        sub=('start states with 1..PMAX stored pieces (open candidate carried over): ' if 'ONLY_PIECES' in extra else
             'start states without stored pieces (all parser states): ') +
            'htp_mpartp_parse + htp_martp_process_aside, one call from ANY such well-formed matcher state: no out-of-bounds access '
            '(chunk malloc(N), first stored piece an exact-size heap object), every (ptr,len) handed to the part layer lies inside the chunk / a stored piece / the CR literal, '
            'in stream order, nothing twice; byte conservation: chunk bytes are handed out, set aside, or verified delimiter-line bytes; '
            'stored pieces and the set-aside CR are replayed in full on a refuted candidate; WF holds again on return',
        assumes=PARSE_ASSUMES))


NOP = '#define C14_NO_PIECES 1\n'      # start states without stored pieces (every state; STATE_BOUNDARY only in its initial form)
ONLYP = '#define C14_ONLY_PIECES 1\n'   # start states STATE_BOUNDARY with 1..PMAX stored pieces (an open candidate carried over)
parse_unit('c14_parse_call', 3, 5, 3, 300, extra=NOP)
parse_unit('c14_parse_call_pieces', 2, 5, 3, 300, extra=ONLYP)
# chunks of ONE and TWO bytes: some matcher paths exist only when a byte is the last of its chunk at offset 0 (`pos + 1 == len`), e.g. a lone CR chunk after a set-aside CR
parse_unit('c14_parse_call_n1', 1, 5, 3, 300, extra=NOP)
parse_unit('c14_parse_call_n2', 2, 5, 3, 300, extra=NOP)
parse_unit('c14_parse_call_pieces_n1', 1, 5, 3, 300, extra=ONLYP)
parse_unit('c14_parse_call_n4', 4, 5, 3, 1500, extra=NOP, thorough_only=True)
parse_unit('c14_parse_call_pieces_n3', 3, 5, 3, 1500, extra=ONLYP, thorough_only=True)


# ---- end of body: htp_mpartp_finalize from any well-formed matcher state (no part object yet) ----------------------------------
FIN = '#define C14_FINALIZE 1\n'
for _n, _x, _t in (('c14_finalize', NOP, 'start states without stored pieces (every state, set-aside CR or not)'),
                   ('c14_finalize_pieces', ONLYP, 'start states with 1..PMAX stored pieces (open candidate)')):
    dflt, us = parse_unwind(2, 5, 3)
    UNITS.append(U(
        name=_n, props=['C14', 'C01'], kind='bounded', src=[], link=['htp_util.c'],
        replay='vin', contracts_inc=['c14_mpart.h'], pre=FIN + _x + PARSE_PRE,
        harness='void HARNESS(void) { VIN(vin_t); c14_parse_harness(in); CANARY(); }',
        defs={'quick': {'N': 2, 'BL': 5, 'PCAP': 3}},
        flags_add=['--unwind', str(dflt)], unwindset=us, timeout=(300, 300), min_obl=50,
        bound='delimiter of BL=5 bytes, at most 3 stored pieces, at most PCAP=3 bytes in front of the candidate',
        sub=_t + ': htp_mpartp_finalize + htp_martp_process_aside with no part object yet: everything that was set aside (stored pieces, CR) is handed to the part layer in full '
            'and in order ("part data is reproduced byte-for-byte", "identical for every chunking": what was set aside depends only on where the chunk ended)',
        assumes=PARSE_ASSUMES[2:8] + ['current_part == NULL on entry (the set-aside bytes are all there is of the last part); the part layer stub creates no part object']))

# ---- Content-Disposition: the value of name= / filename= is the quoted string that was sent (escaped quotes and backslashes) ----
CDV_H = r'''
#define PFX_NAME "form-data;name=\""
#define PFX_FILE "form-data;filename=\""
#define PFXMAX 20
typedef struct { unsigned char tail[T]; size_t tl; unsigned char which; } vin_t;
static struct { bstr b; unsigned char d[PFXMAX + T]; } cdv_val;
static htp_header_t cdv_h; static htp_mpartp_t cdv_parser; static htp_multipart_part_t cdv_part;
void *v_stub_get_c(const htp_table_t *table, const char *ckey) { return &cdv_h; }
/* constant-capacity model of bstr_dup_mem (symbolic-size heap objects do not bit-blast; same model as units/c03_seg.py) */
bstr *v_model_dup_mem(const void *data, size_t len) {
  if (len > T) return NULL;
  bstr *b = malloc(sizeof(bstr) + T); if (b == NULL) return NULL;
  b->len = len; b->size = len; b->realptr = NULL;
  for (size_t i = 0; i < T; i++) if (i < len) ((unsigned char *) b)[sizeof(bstr) + i] = ((const unsigned char *) data)[i];
  return b; }           /* the part has a Content-Disposition header */
void HARNESS(void) { VIN(vin_t);
  VASSUME(in.tl <= T);
#if CDV_FILE
  const int file = 1; static const char pfx[] = PFX_FILE;
#else
  const int file = 0; static const char pfx[] = PFX_NAME;
#endif
  const size_t pl = sizeof(pfx) - 1;
  for (size_t i = 0; i < sizeof(pfx) - 1; i++) cdv_val.d[i] = (unsigned char) pfx[i];
  for (size_t i = 0; i < T; i++) cdv_val.d[sizeof(pfx) - 1 + i] = in.tail[i];
  cdv_val.b.len = pl + in.tl; cdv_val.b.size = PFXMAX + T; cdv_val.b.realptr = NULL;
  cdv_h.value = &cdv_val.b; cdv_part.parser = &cdv_parser; cdv_part.name = NULL; cdv_part.file = NULL; cdv_parser.multipart.flags = 0;
  htp_status_t rc = htp_mpart_part_parse_c_d(&cdv_part);
  VASSERT(rc == HTP_OK || rc == HTP_DECLINED || rc == HTP_ERROR, "OK, DECLINED or ERROR");
  unsigned char want[T]; size_t wl = 0; size_t close = ref_cd_quoted(in.tail, in.tl, want, &wl);
  if (close == in.tl) {
    if (rc != HTP_ERROR) VASSERT(rc == HTP_DECLINED && (cdv_parser.multipart.flags & HTP_MULTIPART_CD_SYNTAX_INVALID), "a value without closing quote is refused and flagged");
  } else if (close + 1 == in.tl) {
    /* the header ends right after the closing quote: a well-formed single-parameter Content-Disposition */
    if (rc != HTP_ERROR) {
      VASSERT(rc == HTP_OK && cdv_parser.multipart.flags == 0, "well-formed Content-Disposition is accepted without anomaly flags");
      bstr *got = file ? (cdv_part.file != NULL ? cdv_part.file->filename : NULL) : cdv_part.name;
      VASSERT(got != NULL && (file ? cdv_part.name == NULL : cdv_part.file == NULL), "exactly the parameter that was sent is reported");
      if (got != NULL) {
        VASSERT(bstr_len(got) == wl, "reported value has the length of the quoted string that was sent (escape pairs count once)");
        for (size_t i = 0; i < T; i++) if (i < wl && i < bstr_len(got)) VASSERT(bstr_ptr(got)[i] == want[i], "reported value is byte-for-byte the quoted string that was sent");
      }
    }
  }
  if (cdv_part.file != NULL) { bstr_free(cdv_part.file->filename); free(cdv_part.file); cdv_part.file = NULL; }
  bstr_free(cdv_part.name); cdv_part.name = NULL;
  CANARY(); }'''
for _nm, _fl in (('ref_mpart_cd_value_name', 0), ('ref_mpart_cd_value_filename', 1)):
    UNITS.append(U(
        name=_nm, props=['C14', 'C02'], kind='bounded', src=['htp_multipart.c'], link=['bstr.c', 'htp_util.c'], replay='vin',
        pre='#define htp_table_get_c v_stub_get_c\n#define bstr_dup_mem v_model_dup_mem\n', contracts_inc=['mpart_ref.h'], harness=CDV_H,
        defs={'quick': {'T': 4, 'CDV_FILE': _fl}, 'thorough': {'T': 6, 'CDV_FILE': _fl}},
        flags_add=['--unwind', '28', '--unwinding-assertions', '--memory-leak-check'], flags_del=['--unsigned-overflow-check'], timeout=(300, 1200), min_obl=50,
        unwindset=','.join(['htp_mpart_part_parse_c_d.6:4'] + ['htp_mpart_part_parse_c_d.%d:28' % i for i in range(6)] + ['htp_mpart_decode_quoted_cd_value_inplace.0:8', 'ref_cd_quoted.0:8']),
        bound='Content-Disposition value = form-data;name=" or form-data;filename=" followed by every byte string of length 0..T (quick 4, thorough 6); at most 3 parameters',
        sub='real htp_mpart_part_parse_c_d + htp_mpart_decode_quoted_cd_value_inplace: the reported name / file name is byte-for-byte the quoted string that was sent, with \\" and \\\\ as escape pairs '
            '(also at the very end of the value); an unterminated value is refused and flagged',
        assumes=['the header lookup is replaced by a stub that returns the harness\' header (table look-up is C17)', 'bstr_dup_mem replaced by a constant-capacity model inside this TU', 'every allocation may fail (HTP_ERROR then, nothing asserted about the value)',
                 'values followed by further parameters are exercised (any tail) but only memory safety is asserted for them']))

# ---- part header lines: a line that arrives in pieces is assembled into exactly the line that arrives whole ---------------------------------
HL_H = r'''
/* MODEL of the string builder used for part_header_pieces / part_data_pieces (bstr_builder.c is not under this unit): ordered pieces, copying, may fail */
#define HLP 3
typedef struct { unsigned char b[HLP][N]; size_t l[HLP]; size_t n; } hl_bb_t;
static hl_bb_t hl_hdr[2], hl_dat[2]; static bstr_builder_t hl_bbh[2], hl_bbd[2];
static hl_bb_t *hl_of(const bstr_builder_t *bb) { return bb == &hl_bbh[0] ? &hl_hdr[0] : bb == &hl_bbh[1] ? &hl_hdr[1] : bb == &hl_bbd[0] ? &hl_dat[0] : &hl_dat[1]; }
htp_status_t hl_append(bstr_builder_t *bb, const void *data, size_t len) { hl_bb_t *m = hl_of(bb);
  VASSERT(m->n < HLP && len <= N, "builder model capacity"); if (m->n >= HLP || len > N) return HTP_ERROR;
  for (size_t i = 0; i < N; i++) if (i < len) m->b[m->n][i] = ((const unsigned char *) data)[i];
  m->l[m->n] = len; m->n++; return HTP_OK; }
size_t hl_size(const bstr_builder_t *bb) { return hl_of(bb)->n; }
void hl_clear(bstr_builder_t *bb) { hl_of(bb)->n = 0; }
bstr *hl_to_str(const bstr_builder_t *bb) { hl_bb_t *m = hl_of(bb);
  bstr *r = malloc(sizeof(bstr) + 2 * N); if (r == NULL) return NULL;
  size_t o = 0;
  for (size_t p = 0; p < HLP; p++) if (p < m->n) for (size_t i = 0; i < N; i++) if (i < m->l[p] && o < 2 * N) ((unsigned char *) r)[sizeof(bstr) + o++] = m->b[p][i];
  r->len = o; r->size = 2 * N; r->realptr = NULL; return r; }
bstr *hl_dup_mem(const void *data, size_t len) {
  if (len > 2 * N) return NULL;
  bstr *b = malloc(sizeof(bstr) + 2 * N); if (b == NULL) return NULL;
  b->len = len; b->size = 2 * N; b->realptr = NULL;
  for (size_t i = 0; i < 2 * N; i++) if (i < len) ((unsigned char *) b)[sizeof(bstr) + i] = ((const unsigned char *) data)[i];
  return b; }
bstr *hl_add_mem(bstr *d, const void *data, size_t len) {                  /* folded continuation: appended when it fits the model capacity */
  if (bstr_len(d) + len > 2 * N) return d;
  for (size_t i = 0; i < N; i++) if (i < len) bstr_ptr(d)[bstr_len(d) + i] = ((const unsigned char *) data)[i];
  d->len += len; return d; }
/* stand-ins exchanged at the call sites by goto-instrument --replace-calls (the real functions are static parts of the same file and lead into header
 * processing / file handling, which are not under this unit): asserted unreachable resp. recording */
htp_status_t hl_process_headers(htp_multipart_part_t *part) { VASSERT(0, "header processing is not reached: the line is not the empty line"); return HTP_OK; }
typedef struct { unsigned char b[2 * N]; size_t n; int calls; } hl_seen_t;
static hl_seen_t hl_seen[2]; static int hl_run;
htp_status_t hl_parse_header(htp_multipart_part_t *part, const unsigned char *data, size_t len) { hl_seen_t *s = &hl_seen[hl_run]; s->calls++; s->n = len;   /* sees the completed PREVIOUS line */
  for (size_t i = 0; i < 2 * N; i++) if (i < len) s->b[i] = data[i];
  return HTP_OK; }
htp_status_t hl_file_hook(htp_multipart_part_t *part, const unsigned char *data, size_t len) { VASSERT(0, "line mode: no file data"); return HTP_OK; }
typedef struct { unsigned char line[N]; size_t n; size_t k; unsigned char has_pending; } vin_t;
static htp_mpartp_t hl_parser[2]; static htp_multipart_part_t hl_part[2];
static void hl_setup(int r, int has_pending) {
  hl_parser[r].part_header_pieces = &hl_bbh[r]; hl_parser[r].part_data_pieces = &hl_bbd[r]; hl_hdr[r].n = 0; hl_dat[r].n = 0;
  hl_parser[r].current_part_mode = MODE_LINE; hl_parser[r].multipart.flags = 0; hl_part[r].parser = &hl_parser[r]; hl_part[r].type = MULTIPART_PART_UNKNOWN; hl_part[r].len = 0;
  hl_parser[r].pending_header_line = has_pending ? hl_dup_mem("a:b", 3) : NULL;
  hl_seen[r].calls = 0; hl_seen[r].n = 0; }
static void hl_case(vin_t in, const size_t K) {
  /* one part header line (not the empty line): 2..N bytes, its only LF is the last byte, at least one byte in front of the line ending */
  VASSUME(in.n >= 2 && in.n <= N && K < in.n && in.line[in.n - 1] == '\n');
  for (size_t i = 0; i < N; i++) if (i + 1 < in.n) VASSUME(in.line[i] != '\n');
  VASSUME(in.line[0] != '\r' || in.n > 2);  VASSUME(!(in.n >= 2 && in.line[0] == '\r' && in.line[1] == '\n'));
  int hp = in.has_pending & 1;
  hl_setup(0, hp); hl_setup(1, hp);
  if (hp && (hl_parser[0].pending_header_line == NULL || hl_parser[1].pending_header_line == NULL)) goto out;
  static unsigned char b0[N], b1[N], b2[N];
  for (size_t i = 0; i < N; i++) { b0[i] = in.line[i]; b1[i] = in.line[i]; b2[i] = i + K < N ? in.line[i + K] : 0; }
  /* run 0: the line arrives whole;  run 1: first k bytes (not a line yet), then the rest (end of line) */
  hl_run = 0; htp_status_t r0 = htp_mpart_part_handle_data(&hl_part[0], b0, in.n, 1);
  hl_run = 1; htp_status_t r1a = htp_mpart_part_handle_data(&hl_part[1], b1, K, 0);
  htp_status_t r1 = htp_mpart_part_handle_data(&hl_part[1], b2, in.n - K, 1);
  if (r0 == HTP_ERROR || r1 == HTP_ERROR || r1a == HTP_ERROR) goto out;                 /* allocation failure */
  bstr *p0 = hl_parser[0].pending_header_line, *p1 = hl_parser[1].pending_header_line;
  VASSERT(p0 != NULL && p1 != NULL, "a non-empty header line is pending afterwards, however it arrived");
  if (p0 != NULL && p1 != NULL) {
    VASSERT(bstr_len(p0) == bstr_len(p1), "the pending header line has the same length whether the line arrived whole or in two pieces");
    for (size_t i = 0; i < 2 * N; i++) if (i < bstr_len(p0) && i < bstr_len(p1)) VASSERT(bstr_ptr(p0)[i] == bstr_ptr(p1)[i], "... and the same bytes");
    VASSERT(bstr_len(p0) == 0 || (bstr_ptr(p0)[bstr_len(p0) - 1] != '\n'), "the line ending is not part of the header line");
  }
  VASSERT(hl_seen[0].calls == hl_seen[1].calls && hl_seen[0].n == hl_seen[1].n && hl_seen[0].calls == (hp && !isspace(in.line[0]) ? 1 : 0), "a completed previous header line is handed to the header parser (once) in both runs alike");
  VASSERT(hl_parser[0].multipart.flags == hl_parser[1].multipart.flags && hl_part[0].len == hl_part[1].len && hl_hdr[1].n == 0, "same anomaly flags, same raw length, nothing left in the piece store");
out:
  bstr_free(hl_parser[0].pending_header_line); bstr_free(hl_parser[1].pending_header_line);
}
void HARNESS(void) { VIN(vin_t);
  if (in.k == 1) hl_case(in, 1); else if (in.k == 2) hl_case(in, 2); else if (in.k == 3 && N > 3) hl_case(in, 3); else if (in.k == 4 && N > 4) hl_case(in, 4); else if (in.k == 5 && N > 5) hl_case(in, 5);
  CANARY(); }'''
UNITS.append(U(
    name='c14_part_header_line_pieces', props=['C14', 'C01'], kind='bounded', src=['htp_multipart.c'], link=['bstr.c', 'htp_util.c'],
    pre_instrument=['--replace-calls', 'htp_mpart_part_process_headers:hl_process_headers', '--replace-calls', 'htp_mpartp_parse_header:hl_parse_header', '--replace-calls', 'htp_mpartp_run_request_file_data_hook:hl_file_hook'],
    pre='#define bstr_builder_append_mem hl_append\n#define bstr_builder_size hl_size\n#define bstr_builder_clear hl_clear\n#define bstr_builder_to_str hl_to_str\n#define bstr_dup_mem hl_dup_mem\n#define bstr_add_mem hl_add_mem\n',
    harness=HL_H, defs={'quick': {'N': 4}, 'thorough': {'N': 6}},
    flags_add=['--unwind', '14', '--unwinding-assertions', '--memory-leak-check'], flags_del=['--unsigned-overflow-check'], timeout=(600, 2400), min_obl=50,
    bound='part header lines of 2..N bytes (quick 4, thorough 6) over all byte values (new header line or folded continuation, CRLF or LF ending), every single cut position, with / without a pending previous line',
    sub='real htp_mpart_part_handle_data in line mode, two runs: the line delivered whole vs. its first k bytes (not yet a line) and then the rest - the pending header line, '
        'the anomaly flags and the raw length are identical; the line ending never becomes part of a header value ("identical for every chunking")',
    assumes=['the string builder and bstr_dup_mem / bstr_add_mem are replaced by constant-capacity models inside this TU; htp_mpartp_parse_header is exchanged at its call sites for a recording stand-in',
             'the empty line (end of the part headers) is excluded: it leads into header processing and file handling, which are not under this unit (their call sites are exchanged for stand-ins that assert unreachability)', 'no native replay (call-site exchange exists only in the goto program)']))
