# C13 — UNBOUNDED (loop-contract) units for the URI splitter: htp_parse_hostport, htp_parse_uri (builder-uri).
# Contracts: contracts/c13_unb.h, ghosts: contracts/ghost_c03.h (list GHOSTS_C03), notes: notes/c13_unb.md.
import os
from vrun import U

UNITS = []

# ======================================================================================================
# 1. htp_parse_hostport, any length
# ======================================================================================================
HP_REPLACE = ['bstr_util_mem_trim/contract_u_trim_site', 'memchr/contract_u_memchr', 'bstr_dup_mem/contract_u_hp_dup',
              'bstr_free/contract_u_hp_free', 'bstr_to_lowercase/contract_u_hp_lower', 'htp_parse_port/contract_u_parse_port_site']
HP_LOOPS = {'count': 2,
    # IP literal: look for the first ']' (relative index pos; witness in absolute coordinates)
    0: dict(assigns='pos', inv=['pos <= len', '(gk >= g_u_toff && U_REL(gk) < pos) ==> data[U_REL(gk)] != 93'], dec='len - pos'),
    # name: step back over white space before the colon
    1: dict(assigns='hostend',
            inv=['__CPROVER_same_object(hostend, data) && U_POFF(hostend) >= U_POFF(data) && U_POFF(hostend) <= U_POFF(colon)',
                 '(gj >= U_OFF(hostend) && gj < U_OFF(colon)) ==> ISSP(data[U_REL(gj)])'],
            dec='U_POFF(hostend) - U_POFF(data)')}
HP_ASSUMES = [
    'input: inline bstr in a heap object of CONSTANT capacity VCAP, symbolic length <= VCAP, only read (a symbolic-size object does not leave propositional reduction)',
    'bstr_util_mem_trim replaced by a call-site copy of its enforced contract (unit bstr_util_mem_trim) that also logs the trimmed window',
    'memchr replaced by contract_u_memchr = the C standard text (NULL iff absent, else FIRST occurrence); CBMC 6.11 has no memchr model; the contract is assumed (libc)',
    'bstr_dup_mem replaced by a provenance-logging stub (source range inside the input ASSERTED at each call; NULL or fresh header: every allocation may fail); '
    'that the copy is byte-identical is C17 + bounded unit c13_dup_model_lemma',
    'bstr_free / bstr_to_lowercase replaced by stubs that ASSERT they are only applied to the host copy (free at most once)',
    'htp_parse_port replaced by a call-site copy of its enforced contract (unit htp_parse_port): exact decimal value is the bounded unit ref_parse_hostport',
    'arguments non-NULL except `port` (the NULL-argument early return is not covered)']
UNITS.append(U(
    name='htp_parse_hostport', props=['C13', 'C01', 'C18'], kind='contract', src=['htp_util.c'], enforce='htp_parse_hostport',
    replace=HP_REPLACE, contracts_inc=['c13_unb.h'], loops={'htp_util.c': {'htp_parse_hostport': HP_LOOPS}},
    harness='void HARNESS(void) { bstr *hp; bstr **h; bstr **p; int *pn; int *iv; htp_parse_hostport(hp, h, p, pn, iv); CANARY(); }',
    defs={'quick': {'VCAP': 64}, 'thorough': {'VCAP': 1024}}, min_obl=50, timeout=(300, 1200), solver='--sat-solver cadical', assumes=HP_ASSUMES,
    sub='htp_parse_hostport for inputs of ANY length: memory safety, termination, input untouched; host = sub-range starting at the first non-white-space byte, '
        "port text = sub-range ending at the last non-white-space byte, separated by [white space and] the FIRST ':' (name) or directly by ':' after the FIRST ']' (IP literal); "
        'number parsed from exactly the port text, 1..65535 or (-1 and invalid); invalid flag rule (empty, no \']\', junk after \']\', bad port); '
        'ERROR iff an allocation failed, then nothing handed out and the host copy released exactly once'))

# ======================================================================================================
# 2. htp_parse_uri, any length (inductive: every loop closed by a loop contract; input object of constant capacity VCAP)
# ======================================================================================================
URI_LOOPS = {'count': 5,
    # trailing spaces
    0: dict(assigns='len', inv=['len <= g_u_len', '(gk >= len && gk < g_u_len) ==> data[gk] == 32'], dec='len'),
    # scheme: first ':'
    1: dict(assigns='pos', inv=['pos <= len', '(gj < pos) ==> data[gj] != 58'], dec='len - pos'),
    # authority: first of / ? #
    2: dict(assigns='pos', inv=['start <= pos', 'pos <= len', '(gj >= start && gj < pos) ==> !U_AEND(data[gj])'], dec='len - pos'),
    # path: first of ? #
    3: dict(assigns='pos', inv=['start <= pos', 'pos <= len', '(gj >= start && gj < pos) ==> !U_PEND(data[gj])'], dec='len - pos'),
    # query: first '#' (pos starts ON the '?', start is the byte after it)
    4: dict(assigns='pos', inv=['pos <= len && start <= pos + 1', '(gj >= start && gj < pos) ==> data[gj] != 35'], dec='len - pos')}
URI_ASSUMES = [
    'input: inline bstr in a heap object of CONSTANT capacity VCAP, symbolic length <= VCAP, only read (inductive(CAP): all five loops are closed by loop contracts, '
    'nothing is unwound; the claim covers every target of length <= VCAP)',
    'memchr replaced by contract_u_memchr = the C standard text (NULL iff absent, else FIRST occurrence); CBMC 6.11 has no memchr model; the contract is assumed (libc)',
    'bstr_dup_mem replaced by a provenance-logging stub (source range inside the target ASSERTED at each of the 13 call sites; NULL or fresh header: every allocation may fail; '
    'the component label of a call is chosen non-deterministically and the laws are stated for the labelling consistent with the uri fields); '
    'that the copy is byte-identical is C17 + bounded unit c13_dup_model_lemma',
    '*uri is NULL (the function allocates; calloc may fail) or an empty structure (all components NULL), as at the only call sites (htp_transaction.c, htp_util.c)',
    'input != NULL (the NULL-input early return is not covered)',
    'KNOWN_F_C13_IPV6 carve-out (default on; probe -DC13_NO_KNOWN_IPV6): for a bracketed host literal followed by a byte that is neither ":" nor the end of the authority '
    'the law "host ends where the port colon / the path begins" is only claimed as "<=" (finding F-C13-IPV6)']
URI_H = ('/* uri slot and the optional pre-allocated (empty) structure are harness-owned objects, see contract_htp_parse_uri */\n'
         'static htp_uri_t c13u_pre;\n'
         'void HARNESS(void) { bstr *input; htp_uri_t *c13u_slot; int c13u_pn; htp_uri_t **uri = &c13u_slot;\n'
         '  c13u_pre.port_number = c13u_pn; c13u_slot = g_u_prealloc ? &c13u_pre : (htp_uri_t *) NULL;\n'
         '  int rc = htp_parse_uri(input, uri);\n'
         '  /* reachable only with a labelling that is consistent with the fields and has all optional parts: the premise of the laws is not vacuous */\n'
         '  if (rc == HTP_OK && *uri != NULL && U_CONS && g_u_cs && g_u_cu && g_u_cw && g_u_ch && g_u_ct && g_u_cp && g_u_cq && g_u_cf) CANARY(); }')
def uri_unit(name, lvl, **kw):
    return U(name=name, props=['C13', 'C01'], kind='contract', src=['htp_util.c'], enforce='htp_parse_uri',
             replace=['bstr_dup_mem/contract_u_uri_dup', 'memchr/contract_u_memchr'], contracts_inc=['c13_unb.h'],
             loops={'htp_util.c': {'htp_parse_uri': URI_LOOPS}}, harness=URI_H,
             defs={'quick': {'VCAP': 32, 'U_LVL': lvl}, 'thorough': {'VCAP': 64, 'U_LVL': lvl}}, min_obl=100, timeout=(600, 2400),
             solver='--sat-solver cadical', assumes=URI_ASSUMES, **kw)
# CLOSES on the unchanged tree: 4741 obligations, ~400 s under -j 2 load with cadical (same time at VCAP 16 and 32: the cost is the 13 replaced
# call sites, not the capacity).  See notes/c13_unb.md for how it was made to close (struct ghost log; harness-owned uri object).
UNITS.append(uri_unit('htp_parse_uri_unb', 2,
    sub='htp_parse_uri for targets of ANY length <= VCAP (loop contracts, nothing unwound): memory safety, termination, target untouched; every component is a sub-range of the '
        'target; order and adjacency: scheme at 0 ":" ["//" [user [":" password] "@"] host [":" port]] path ["?" query] ["#" fragment], each next component starts exactly '
        'one delimiter after the previous one ends, the last one ends where the trailing spaces begin (so re-joining reproduces the target); outermost split (first delimiter '
        "wins); '/'-targets have no scheme / authority; all-space targets report nothing"))

# ======================================================================================================
# 3. htp_parse_uri_hostport (loop-free): verdicts -> HTP_HOSTU_INVALID
# ======================================================================================================
UNITS.append(U(
    name='htp_parse_uri_hostport', props=['C13', 'C11', 'C18'], kind='contract', src=['htp_util.c'], enforce='htp_parse_uri_hostport',
    replace=['htp_parse_hostport/contract_u_hostport_site', 'htp_validate_hostname/contract_u_validate_site'], contracts_inc=['c13_unb.h'],
    harness='void HARNESS(void) { htp_connp_t *c; bstr *hp; htp_uri_t *u; htp_parse_uri_hostport(c, hp, u); CANARY(); }',
    defs={'quick': {'VCAP': 64}}, min_obl=20, timeout=(120, 300),
    assumes=['htp_parse_hostport replaced by a call-site contract that states consequences of its enforced contract (unit htp_parse_hostport): result lattice, '
             'invalid in {0,1}, ERROR => no host / port handed out, port number 1..65535 or -1',
             'htp_validate_hostname replaced by "answers 0 or 1, writes nothing" (which names are valid: bounded units of C11)',
             'connp, connp->in_tx, uri: fresh objects; the hostport string is only passed on'],
    sub='htp_parse_uri_hostport: result = result of the authority parser; on allocation failure nothing is flagged or handed out; on success exactly '
        'HTP_HOSTU_INVALID is added to the transaction flags iff the authority parser said invalid or the (non-NULL) host name fails validation; '
        'the name is validated iff it exists; frame = host, port, port number, transaction flags'))

# probe of the F-C13-IPV6 carve-out (NOT a regular unit: it must FAIL on the unchanged tree; the regular mechanism is a known_findings.json
# entry with probe_defs {C13_NO_KNOWN_IPV6: 1} on unit htp_parse_uri_unb - a shared file, see notes/c13_unb.md)
if os.environ.get('C13U_PROBE'):
    _p = uri_unit('htp_parse_uri_unb_probe', 2, sub='probe: htp_parse_uri_unb without the F-C13-IPV6 carve-out (expected to FAIL)')
    _p['defs'] = {'quick': dict(_p['defs']['quick'], C13_NO_KNOWN_IPV6=1), 'thorough': dict(_p['defs']['thorough'], C13_NO_KNOWN_IPV6=1)}
    UNITS.append(_p)
