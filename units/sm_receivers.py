"""Raw-data receivers (REQUEST/RESPONSE_HEADER_DATA, *_TRAILER_DATA) and the state-change hook of both drivers: loop-free, checked on the
real static functions over their whole input domain (kind lemma).  The drivers' units replace these functions; here they are pinned down."""
from vrun import U

UNITS = []
RCV_H = r'''
#define RCAP 16
static int rv_calls; static htp_hook_t *rv_hook; static htp_tx_data_t rv_d; static int rv_rc;
htp_status_t v_stub_run_all(htp_hook_t *hook, void *user_data) { rv_calls++; rv_hook = hook; rv_d = *(htp_tx_data_t *) user_data; return rv_rc; }
static htp_connp_t C; static htp_tx_t TX; static htp_cfg_t CFG; static htp_hook_t H1, H2, H3; static unsigned char chunk[RCAP];
void HARNESS(void) {
  htp_connp_t *c = &C; int64_t recv, rd; int which, is_last, rc_in, st, prev, prog, sel;
  VASSUME(0 <= recv && recv <= rd && rd <= RCAP);
  c->DIR_tx = &TX; TX.cfg = &CFG; TX.connp = c; c->cfg = &CFG;
  c->DIR_current_data = chunk; c->DIR_current_len = RCAP; c->DIR_current_read_offset = rd; c->DIR_current_receiver_offset = recv;
  c->DIR_data_receiver_hook = (which & 1) ? &H1 : NULL;
  CFG.hook_PFX_header_data = (sel & 1) ? &H2 : NULL; CFG.hook_PFX_trailer_data = (sel & 2) ? &H3 : NULL;
  rv_calls = 0; rv_rc = rc_in;
#if FN == 1   /* ---- send_data ---- */
  htp_status_t rc = htp_connp_RQ_receiver_send_data(c, is_last);
  if (!(which & 1)) VASSERT(rc == HTP_OK && rv_calls == 0 && c->DIR_current_receiver_offset == recv, "no receiver: nothing happens");
  else {
    VASSERT(rv_calls == 1 && rv_hook == &H1, "the receiver hook runs exactly once");
    VASSERT(rv_d.tx == &TX && rv_d.data == chunk + recv && rv_d.len == (size_t) (rd - recv) && rv_d.is_last == is_last, "it sees exactly the bytes [receiver offset, read offset) of the chunk, the transaction and the last-flag");
    VASSERT(rc == rc_in, "its answer is returned");
    VASSERT(c->DIR_current_receiver_offset == (rc_in == HTP_OK ? rd : recv), "accepted: the receiver offset catches up with the read offset (no byte is sent twice); refused: it stays");
  }
  VASSERT(c->DIR_data_receiver_hook == ((which & 1) ? &H1 : NULL) && c->DIR_current_read_offset == rd, "nothing else moves");
#elif FN == 2 /* ---- finalize_clear ---- */
  htp_status_t rc = htp_connp_RQ_receiver_finalize_clear(c);
  VASSERT(c->DIR_data_receiver_hook == NULL, "afterwards no receiver is installed, whatever the callback answered");
  if (!(which & 1)) VASSERT(rc == HTP_OK && rv_calls == 0, "no receiver: nothing to flush");
  else {
    VASSERT(rv_calls == 1 && rv_hook == &H1 && rv_d.is_last == 1 && rv_d.data == chunk + recv && rv_d.len == (size_t) (rd - recv) && rv_d.tx == &TX, "the pending bytes are flushed once, marked last");
    VASSERT(rc == rc_in, "the answer of the flush is returned");
  }
#elif FN == 3 /* ---- receiver_set ---- */
  htp_hook_t *nh = (sel & 1) ? &H2 : NULL;
  htp_status_t rc = htp_connp_RQ_receiver_set(c, nh);
  VASSERT(c->DIR_data_receiver_hook == nh && c->DIR_current_receiver_offset == rd, "the new receiver is installed and starts at the read offset (it never sees bytes read before)");
  VASSERT(rv_calls == ((which & 1) ? 1 : 0) && rc == ((which & 1) ? rc_in : HTP_OK), "a receiver that was installed before is flushed first (once, marked last); its answer is returned");
  if (which & 1) VASSERT(rv_hook == &H1 && rv_d.is_last == 1 && rv_d.len == (size_t) (rd - recv), "flush of the old receiver");
#else         /* ---- state change ---- */
  VASSUME(st >= 0 && st <= 2 && prev >= 0 && prev <= 2);
  htp_status_t (*const states[3])(htp_connp_t *) = { htp_connp_ST_HEADERS, htp_connp_ST_LINE, htp_connp_ST_IDLE };
  c->DIR_state = states[st]; c->DIR_state_previous = states[prev];
  TX.PROGFIELD = prog;
  htp_status_t rc = htp_RQ_handle_state_change(c);
  int enter_headers = (st != prev) && st == 0;
  int installs = enter_headers && (prog == PROG_HEADERS || prog == PROG_TRAILER);
  if (st == prev) VASSERT(rc == HTP_OK && rv_calls == 0 && c->DIR_data_receiver_hook == ((which & 1) ? &H1 : NULL) && c->DIR_current_receiver_offset == recv, "no state change: nothing happens");
  else if (!installs) VASSERT(rc == HTP_OK && rv_calls == 0 && c->DIR_state_previous == c->DIR_state && c->DIR_data_receiver_hook == ((which & 1) ? &H1 : NULL), "other transitions are only recorded");
  else {
    VASSERT(c->DIR_data_receiver_hook == (prog == PROG_HEADERS ? CFG.hook_PFX_header_data : CFG.hook_PFX_trailer_data) && c->DIR_current_receiver_offset == rd,
            "entering the header state installs the header-data (or, after the body, trailer-data) receiver of THIS parser's configuration at the read offset");
    VASSERT(rc == ((which & 1) ? rc_in : HTP_OK), "result of flushing a previous receiver");
    VASSERT((rc == HTP_OK) == (c->DIR_state_previous == c->DIR_state), "the transition is recorded iff it succeeded: the previous-state memory lives in the connection parser itself");
  }
#endif
  CANARY(); }'''
SUBS = {1: 'send_data: the receiver sees exactly [receiver offset, read offset) once; offset catches up iff accepted',
        2: 'finalize_clear: pending bytes flushed once marked last; no receiver installed afterwards',
        3: 'receiver_set: old receiver flushed, new one starts at the read offset',
        4: 'handle_state_change: a receiver is installed only on ENTERING the header state (headers / trailer phase), from this parser\'s configuration; the transition is recorded in the parser iff it succeeded'}
for d, rq, pfx, st, src, prog in (('in', 'req', 'request', 'REQ', 'htp_request.c', ('request_progress', 'HTP_REQUEST_HEADERS', 'HTP_REQUEST_TRAILER')),
                                  ('out', 'res', 'response', 'RES', 'htp_response.c', ('response_progress', 'HTP_RESPONSE_HEADERS', 'HTP_RESPONSE_TRAILER'))):
    for fn in (1, 2, 3, 4):
        h = (RCV_H.replace('DIR', d).replace('RQ', rq).replace('PFX', pfx).replace('htp_connp_ST_', 'htp_connp_%s_' % st)
             .replace('PROGFIELD', prog[0]).replace('PROG_HEADERS', prog[1]).replace('PROG_TRAILER', prog[2]))
        UNITS.append(U(name='htp_%s_receiver_%s' % (rq, {1: 'send_data', 2: 'finalize_clear', 3: 'set', 4: 'state_change'}[fn]), props=['C05', 'C03', 'C19', 'C01'], kind='lemma', src=[src],
                       pre='#define htp_hook_run_all v_stub_run_all\n', harness=h, defs={'quick': {'FN': fn}}, min_obl=10, timeout=(120, 300),
                       sub='raw header/trailer data receiver, %s side, real function over its whole input domain (loop-free): %s' % (pfx, SUBS[fn]),
                       assumes=['htp_hook_run_all replaced by a stub that records its arguments and answers arbitrarily (the real runner: units htp_hook_run_all / htp_hook_run_one)',
                                'offsets 0 <= receiver <= read <= 16 (the functions only add and subtract them)']))
