"""C05 / C01: the hook runners that every transition unit REPLACES by an event-logging stub are checked here on the real code."""
from vrun import U

UNITS = []
HOOK_H = r'''
#define HN 3
typedef struct { int rc[HN]; size_t n; size_t first; int null_hook; } vin_t;
static int hk_seq[HN + 1]; static size_t hk_calls; static void *hk_ud[HN + 1]; static int hk_rc[HN];
static int hk_cb(int id, void *ud) { if (hk_calls <= HN) { hk_seq[hk_calls] = id; hk_ud[hk_calls] = ud; } hk_calls++; return hk_rc[id]; }
static int hk_cb0(void *ud) { return hk_cb(0, ud); }
static int hk_cb1(void *ud) { return hk_cb(1, ud); }
static int hk_cb2(void *ud) { return hk_cb(2, ud); }
void HARNESS(void) { VIN(vin_t);
  VASSUME(in.n <= HN);
  int ud_obj; void *ud = &ud_obj;
  /* the hook as htp_hook_create + htp_hook_register lay it out (array list of capacity 4, callbacks appended in registration order cb0, cb1, cb2),
     built from static objects; the list may start anywhere in its ring buffer (in.first) */
  static htp_hook_t H; static htp_list_array_t L; static void *EL[4]; static htp_callback_t CB[HN];
  VASSUME(in.first < 4);
  size_t n = in.null_hook ? 0 : in.n;
  CB[0].fn = hk_cb0; CB[1].fn = hk_cb1; CB[2].fn = hk_cb2;
  L.first = in.first; L.max_size = 4; L.current_size = n; L.last = (in.first + n) % 4; L.elements = EL;
  for (size_t i = 0; i < HN; i++) if (i < n) EL[(in.first + i) % 4] = &CB[i];
  H.callbacks = &L;
  htp_hook_t *h = in.null_hook ? NULL : &H;
  for (int i = 0; i < HN; i++) hk_rc[i] = in.rc[i];
  hk_calls = 0;
  htp_status_t rc = RUNNER(h, ud);
  /* reference: run the callbacks in registration order; stop at the first answer that ends the run */
  size_t want = 0; int wrc = RUN_DEFAULT;
  for (size_t i = 0; i < HN; i++) if (i < n && want == i) { want = i + 1; if (RUN_STOPS(in.rc[i])) { wrc = in.rc[i]; break; } }
  VASSERT(hk_calls == want, "exactly the callbacks up to and including the first one that ends the run are called, each once");
  for (size_t i = 0; i < HN; i++) if (i < hk_calls) VASSERT(hk_seq[i] == (int) i && hk_ud[i] == ud, "callbacks run in registration order, each with the caller's user data");
  VASSERT(rc == wrc, "result: the answer that ended the run, else the runner's default");
  CANARY(); }'''
for name, dflt, stops, text in (
        ('htp_hook_run_all', 'HTP_OK', '((x) != HTP_OK && (x) != HTP_DECLINED)',
         'every callback runs, in registration order, until one answers something other than OK / DECLINED; that answer is returned at once (no later callback runs); otherwise OK; NULL hook => OK'),
        ('htp_hook_run_one', 'HTP_DECLINED', '((x) != HTP_DECLINED)',
         'callbacks run in registration order until one does not decline; its answer (OK or an error) is returned at once; DECLINED if all decline; NULL hook => DECLINED')):
    UNITS.append(U(name=name, props=['C05', 'C01', 'C18'], kind='bounded', src=['htp_hooks.c'], link=['htp_list.c'], replay='vin',
                   harness=HOOK_H.replace('RUNNER', name).replace('RUN_DEFAULT', dflt).replace('RUN_STOPS(in.rc[i])', stops.replace('(x)', '(in.rc[i])')),
                   defs={'quick': {}}, flags_add=['--unwind', '6', '--unwinding-assertions', '--memory-leak-check'], min_obl=30, timeout=(300, 600),
                   bound='hooks with 0..3 registered callbacks (three distinct functions), every combination of int return values; NULL hook',
                   sub='real %s (+ real htp_list_array_size / get): %s. This is the behaviour the event-logging stub of the C05 transition units assumes.' % (name, text),
                   assumes=['callbacks are harness functions that log their identity and answer an arbitrary int', 'the hook object is laid out by the harness the way htp_hook_create / htp_hook_register lay it out (array list, capacity 4, any ring-buffer start)']))
