"""C05 / C01: the hook runners that every transition unit REPLACES by an event-logging stub are checked here on the real code."""
from vrun import U

UNITS = []
HOOK_H = r'''
#define HN 3
typedef struct { int rc[HN]; size_t n; size_t first; int null_hook; } vin_t;
static int hk_seq[HN + 1]; static size_t hk_calls; static void *hk_ud[HN + 1]; static int hk_rc[HN];
static int hk_cb(int id, void *ud) { if (hk_calls <= HN) { hk_seq[hk_calls] = id; hk_ud[hk_calls] = ud; } hk_calls++; return hk_rc[id]; }
static int hk_cb0(void *ud) { return hk_cb(0, ud); }
static int hk_cb1(void *ud) { return hk_cb(1, ud); }
static int hk_cb2(void *ud) { return hk_cb(2, ud); }
void HARNESS(void) { VIN(vin_t);
  VASSUME(in.n <= HN);
  int ud_obj; void *ud = &ud_obj;
  /* the hook as htp_hook_create + htp_hook_register lay it out (array list of capacity 4, callbacks appended in registration order cb0, cb1, cb2),
     built from static objects; the list may start anywhere in its ring buffer (in.first) */
  static htp_hook_t H; static htp_list_array_t L; static void *EL[4]; static htp_callback_t CB[HN];
  VASSUME(in.first < 4);
  size_t n = in.null_hook ? 0 : in.n;
  CB[0].fn = hk_cb0; CB[1].fn = hk_cb1; CB[2].fn = hk_cb2;
  L.first = in.first; L.max_size = 4; L.current_size = n; L.last = (in.first + n) % 4; L.elements = EL;
  for (size_t i = 0; i < HN; i++) if (i < n) EL[(in.first + i) % 4] = &CB[i];
  H.callbacks = &L;
  htp_hook_t *h = in.null_hook ? NULL : &H;
  for (int i = 0; i < HN; i++) hk_rc[i] = in.rc[i];
  hk_calls = 0;
  htp_status_t rc = RUNNER(h, ud);
  /* reference: run the callbacks in registration order; stop at the first answer that ends the run */
  size_t want = 0; int wrc = RUN_DEFAULT;
  for (size_t i = 0; i < HN; i++) if (i < n && want == i) { want = i + 1; if (RUN_STOPS(in.rc[i])) { wrc = in.rc[i]; break; } }
  VASSERT(hk_calls == want, "exactly the callbacks up to and including the first one that ends the run are called, each once");
  for (size_t i = 0; i < HN; i++) if (i < hk_calls) VASSERT(hk_seq[i] == (int) i && hk_ud[i] == ud, "callbacks run in registration order, each with the caller's user data");
  VASSERT(rc == wrc, "result: the answer that ended the run, else the runner's default");
  CANARY(); }'''
for name, dflt, stops, text in (
        ('htp_hook_run_all', 'HTP_OK', '((x) != HTP_OK && (x) != HTP_DECLINED)',
         'every callback runs, in registration order, until one answers something other than OK / DECLINED; that answer is returned at once (no later callback runs); otherwise OK; NULL hook => OK'),
        ('htp_hook_run_one', 'HTP_DECLINED', '((x) != HTP_DECLINED)',
         'callbacks run in registration order until one does not decline; its answer (OK or an error) is returned at once; DECLINED if all decline; NULL hook => DECLINED')):
    UNITS.append(U(name=name, props=['C05', 'C01', 'C18'], kind='bounded', src=['htp_hooks.c'], link=['htp_list.c'], replay='vin',
                   harness=HOOK_H.replace('RUNNER', name).replace('RUN_DEFAULT', dflt).replace('RUN_STOPS(in.rc[i])', stops.replace('(x)', '(in.rc[i])')),
                   defs={'quick': {}}, flags_add=['--unwind', '6', '--unwinding-assertions', '--memory-leak-check'], min_obl=30, timeout=(300, 600),
                   bound='hooks with 0..3 registered callbacks (three distinct functions), every combination of int return values; NULL hook',
                   sub='real %s (+ real htp_list_array_size / get): %s. This is the behaviour the event-logging stub of the C05 transition units assumes.' % (name, text),
                   assumes=['callbacks are harness functions that log their identity and answer an arbitrary int', 'the hook object is laid out by the harness the way htp_hook_create / htp_hook_register lay it out (array list, capacity 4, any ring-buffer start)']))

# ---- C18: ownership of hooks (register / copy / destroy) under allocation failure ---------------------------------------------------
OWN_H = r'''
/* MODEL of the array list for this unit (the real push carries a realloc + symbolic memcpy path that does not bit-blast here; the real list is
 * units htp_list_array_*): fixed capacity as requested at creation, allocation may fail, push refuses when full */
htp_list_array_t *htp_list_array_create(size_t size) {
  htp_list_array_t *l = calloc(1, sizeof(*l)); if (l == NULL) return NULL;
  l->elements = malloc(4 * sizeof(void *)); if (l->elements == NULL) { free(l); return NULL; }
  l->max_size = 4; return l; }
void htp_list_array_destroy(htp_list_array_t *l) { if (l == NULL) return; free(l->elements); free(l); }
size_t htp_list_array_size(const htp_list_array_t *l) { return l->current_size; }
void *htp_list_array_get(const htp_list_array_t *l, size_t idx) { return idx < l->current_size ? l->elements[idx] : NULL; }
htp_status_t htp_list_array_push(htp_list_array_t *l, void *e) { if (l->current_size >= 4) return HTP_ERROR; l->elements[l->current_size++] = e; return HTP_OK; }
static int ow_f1(void *p) { return 0; }
static int ow_f2(void *p) { return 0; }
void HARNESS(void) {
  htp_hook_t *h = NULL; int n;
  VASSUME(n >= 0 && n <= 2);
  if (n >= 1 && htp_hook_register(&h, ow_f1) != HTP_OK) { VASSERT(h == NULL, "a failed first registration leaves no hook behind"); return; }
  if (n >= 2) { htp_status_t rc = htp_hook_register(&h, ow_f2); VASSERT(h != NULL && htp_list_size(h->callbacks) == (rc == HTP_OK ? 2 : 1), "a failed later registration leaves the hook as it was"); }
  htp_hook_t *copy = htp_hook_copy(h);
  if (copy != NULL) {
    VASSERT(h != NULL && copy != h && copy->callbacks != h->callbacks && htp_list_size(copy->callbacks) == htp_list_size(h->callbacks), "a copy is a distinct hook with as many callbacks");
    for (size_t i = 0; i < 2; i++) if (i < htp_list_size(h->callbacks)) {
      htp_callback_t *a = htp_list_get(h->callbacks, i), *b = htp_list_get(copy->callbacks, i);
      VASSERT(a != b && a->fn == b->fn, "callback records are duplicated (not shared), same functions in the same order");
    }
  }
  htp_hook_destroy(copy);
  htp_hook_destroy(h);
  CANARY(); }'''
UNITS.append(U(name='c18_hook_register_copy_destroy', props=['C18', 'C19', 'C01'], kind='lemma', src=['htp_hooks.c'], harness=OWN_H,
               defs={'quick': {}}, flags_add=['--unwind', '6', '--unwinding-assertions', '--memory-leak-check'], min_obl=50, timeout=(300, 600),
               sub='htp_hook_register x 0..2 ; htp_hook_copy ; htp_hook_destroy of both: whichever allocation fails nothing is freed twice, used after free or leaked; a copy shares no record with its original '
                   '(per-transaction hooks never alias the shared configuration\'s hooks), same functions in the same order',
               assumes=['0..2 registered callbacks (the initial capacity of a hook is 4: no growth of the list on this path)', 'the array list is a MODEL inside this unit (create / destroy / size / get / push with the same allocation pattern as the real one; the real list is verified by the C17 units)',
                        'every malloc/calloc may fail independently']))

# ---- C18: htp_config_copy ; htp_config_destroy(copy) ; htp_config_destroy(original) ------------------------------------------------
CFGCOPY_H = OWN_H[:OWN_H.index('static int ow_f1')] + r'''
static int cc_f(void *p) { return 0; }
void HARNESS(void) {
  htp_cfg_t *cfg = calloc(1, sizeof(*cfg));                       /* a configuration with up to three hooks registered (any subset) */
  if (cfg == NULL) return;
  int a, b, c;
  if (a && htp_hook_register(&cfg->hook_request_start, cc_f) != HTP_OK) { htp_config_destroy(cfg); return; }
  if (b && htp_hook_register(&cfg->hook_request_line, cc_f) != HTP_OK) { htp_config_destroy(cfg); return; }
  if (c && htp_hook_register(&cfg->hook_log, cc_f) != HTP_OK) { htp_config_destroy(cfg); return; }
  htp_cfg_t *copy = htp_config_copy(cfg);
  if (copy != NULL) {
    VASSERT(copy != cfg, "a copy is a distinct object");
    VASSERT((copy->hook_request_start != NULL) == (a != 0) && (copy->hook_request_line != NULL) == (b != 0) && (copy->hook_log != NULL) == (c != 0), "the copy has the hooks the original has");
    VASSERT((!a || copy->hook_request_start != cfg->hook_request_start) && (!b || copy->hook_request_line != cfg->hook_request_line) && (!c || copy->hook_log != cfg->hook_log),
            "no hook object is shared between the copy and the original (parsers that copy a configuration never write the shared one)");
  }
  htp_config_destroy(copy);
  /* the ORIGINAL must be intact whatever happened to the copy: its hooks are still alive ... */
  if (a) VASSERT(__CPROVER_r_ok(cfg->hook_request_start, sizeof(htp_hook_t)), "the original's hooks survive a failed copy");
  if (b) VASSERT(__CPROVER_r_ok(cfg->hook_request_line, sizeof(htp_hook_t)), "the original's hooks survive a failed copy");
  if (c) VASSERT(__CPROVER_r_ok(cfg->hook_log, sizeof(htp_hook_t)), "the original's hooks survive a failed copy");
  htp_config_destroy(cfg);                                        /* ... and are freed exactly once (double-free obligations of the real teardown) */
  CANARY(); }'''
UNITS.append(U(name='c18_config_copy', props=['C18', 'C19', 'C01'], kind='lemma', src=['htp_config.c', 'htp_hooks.c'], harness=CFGCOPY_H,
               defs={'quick': {}}, flags_add=['--unwind', '4', '--unwinding-assertions', '--memory-leak-check'], min_obl=50, timeout=(600, 900),
               sub='htp_config_copy ; htp_config_destroy(copy) ; htp_config_destroy(original) with any subset of three hooks registered: whichever allocation fails inside the copy, the original '
                   'configuration keeps its hooks (no use after free, no double free, no leak); a successful copy shares no hook object with the original',
               assumes=['three of the twenty hook slots are exercised (first, second and last in copy order); every slot is copied by the same code pattern',
                        'the array list is a MODEL inside this unit (same allocation pattern as the real one; the real list is verified by the C17 units)', 'every malloc/calloc may fail independently']))
