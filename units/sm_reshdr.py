"""htp_connp_RES_HEADERS under the shared RESPONSE state contract (C09 / C10 / C03 / C05 / C06 / C01): the last state function that the response driver only
ASSUMED to meet contract_res_state.  Contract: contracts/sm_reshdr.h (ends with RS_COMMON_POST of contracts/sm.h); loop vocabulary: contracts/ghost_c10.h (RH_*);
notes: notes/sm_reshdr.md.  Twin of htp_connp_REQ_HEADERS in units/sm_reqline.py (same recipe: fine loop frame, C models for callees of other TUs, one static
pending-header object modelling only its LENGTH, --slice-formula, CaDiCaL)."""
import os
from vrun import U

UNITS = []
D = {'quick': {'CHUNK_CAP': 4096}, 'thorough': {'CHUNK_CAP': 1048576}}
CADICAL = '--sat-solver cadical'
H = 'void HARNESS(void) { htp_connp_t *c; htp_connp_RES_HEADERS(c); CANARY(); }'
LE = '__CPROVER_loop_entry'
RH_LOOPS = {'htp_response.c': {'htp_connp_RES_HEADERS': {'count': 3,
    0: dict(assigns='RH_LOOP_ASSIGNS(connp)',
            inv=['RL_READ_INV(connp)', 'RL_SOFF_INV(connp)', 'RH_CONSUME_INV(connp)', 'RH_HDR_LOOP_INV(connp)', 'RH_HDR_LEN_INV(connp)',
                 'connp->out_tx->flags == %s(connp->out_tx->flags) || connp->out_tx->flags == (%s(connp->out_tx->flags) | HTP_INVALID_FOLDING)' % (LE, LE)],
            dec='connp->out_current_len - connp->out_current_read_offset'),
    1: dict(assigns='trim', inv=['trim <= len'], dec='len - trim'),
    2: dict(assigns='colon_pos', inv=['colon_pos <= len'], dec='len - colon_pos')}}}
# Callees that live in OTHER translation units are small nondeterministic C MODELS in the wrapper TU (HOWTO 9: every --replace-call-with-contract site costs
# ~3000 symex steps).  What a contract would `require` is an assertion in the model (checked at every call, in every loop iteration); what it would `ensure`
# is what the model computes from nondet choices.  No __CPROVER_assume anywhere.
RH_MODELS = r"""
_Bool nondet_rh_bool(void); size_t nondet_rh_size(void); int nondet_rh_int(void);
void htp_log(htp_connp_t *connp, const char *file, int line, enum htp_log_level_t level, int code, const char *fmt, ...) { }
/* cfg->process_response_header (generic personality; C02 / C11 units carry its content): OK or ERROR */
htp_status_t htp_process_response_header_generic(htp_connp_t *connp, unsigned char *data, size_t len) {
  __CPROVER_assert(len < RH_HBOUND, "C10: whatever reaches the response header parser is below the folded cap plus one line");
  return nondet_rh_bool() ? HTP_OK : HTP_ERROR; }
/* only the LENGTH of the pending header is modelled: ONE static bstr header object (dfcc forbids allocation inside a loop contract; at most one header is pending at a time) */
struct bstr_t rh_hdr_obj;
bstr *bstr_dup_mem(const void *data, size_t len) {
  __CPROVER_assert(len <= LINE_CAP && __CPROVER_r_ok(data, len), "bstr_dup_mem: source region readable");
  if (nondet_rh_bool()) return NULL;
  rh_hdr_obj.len = len; rh_hdr_obj.size = len; rh_hdr_obj.realptr = NULL; return &rh_hdr_obj; }
bstr *bstr_add_mem(bstr *destination, const void *data, size_t len) {
  __CPROVER_assert(destination != NULL && destination->len < (size_t) HTP_MAX_HEADER_FOLDED, "C10: a folded continuation is appended only while the pending header is below HTP_MAX_HEADER_FOLDED");
  __CPROVER_assert(len <= LINE_CAP && __CPROVER_r_ok(data, len), "bstr_add_mem: source region readable");
  if (nondet_rh_bool()) return NULL;                                          /* failure leaves the destination alone */
  size_t n = destination->len + len; rh_hdr_obj.len = n; rh_hdr_obj.size = n; rh_hdr_obj.realptr = NULL; return &rh_hdr_obj; }
void bstr_free(bstr *b) { __CPROVER_assert(b != NULL, "bstr_free: only a pending header is released"); }   /* dfcc forbids deallocation inside a loop contract */
int bstr_chr(const bstr *b, int c) { __CPROVER_assert(b != NULL, "bstr_chr: a header is pending"); int r = nondet_rh_int(); return r < 0 ? -1 : r; }
int htp_chomp(unsigned char *data, size_t *len) { size_t n = nondet_rh_size(); if (n <= *len) *len = n; return nondet_rh_bool(); }
int htp_connp_is_line_terminator(htp_connp_t *connp, unsigned char *data, size_t len, int next_no_lf) { return nondet_rh_bool(); }
int htp_connp_is_line_folded(unsigned char *data, size_t len) { int r = nondet_rh_int(); return r < 0 ? -1 : (r > 0 ? 1 : 0); }
int htp_is_folding_char(int c) { return nondet_rh_bool(); }
/* RESPONSE_TRAILER callbacks (outside the proof): OK / STOP / ERROR.  C05: they run at most once per call, only AFTER the receiver was finalised and
 * only when no header is pending any more (processed and released before) */
htp_status_t htp_hook_run_all(htp_hook_t *hook, void *user_data) {
  htp_tx_t *tx = (htp_tx_t *) user_data;
  __CPROVER_assert(g_rh_fclr_n == 1 && g_rh_hook_n == 0, "C05: the trailer hook runs once, after the receiver finalisation");
  __CPROVER_assert(tx != NULL && tx->connp->out_tx == tx && tx->connp->out_header == NULL && hook == tx->connp->cfg->hook_response_trailer, "C05: RESPONSE_TRAILER hook, on the current transaction, with no header pending");
  __CPROVER_assert(g_rh_fclr_rc == HTP_OK, "C05: no trailer callback after a refused receiver finalisation");
  g_rh_hook_n = 1;
  int r = nondet_rh_int(); g_rh_hook_rc = r == 0 ? HTP_OK : (r == 1 ? HTP_STOP : HTP_ERROR); return g_rh_hook_rc; }
"""
RH_R = ['htp_connp_res_consolidate_data/contract_rh_consolidate', 'htp_connp_res_clear_buffer/contract_rh_clear_buffer',
        'htp_connp_res_receiver_finalize_clear/contract_rh_fclr']
RH_SUB = ('response header / trailer block, unbounded: result in {OK, ERROR, STOP, DATA_BUFFER}; stream offset += bytes read; a folded continuation is appended only while the pending header is below '
          'HTP_MAX_HEADER_FOLDED (asserted at every append), so it stays below the cap plus one line; DATA_BUFFER only with the chunk exhausted on an open stream and nothing of the end-of-block machinery run; '
          'OK <=> the state moved, to BODY_DETERMINE (header block) or FINALIZE (trailer block / closed stream: receiver finalised, then the trailer hook, each exactly once), only with no header pending '
          'and, on an open stream, with the line consumed (buffer NULL, consume == read); closed stream reads nothing; shared state contract RS_COMMON_POST; terminates (every iteration consumes a byte)')
RH_A = ['chunk length <= CHUNK_CAP (symbolic); stream offset and message length <= 2^62 on entry (CUR_OUT / TX_OUT of the state-machine layer); a real chunk (no gap: the driver refuses gaps in line states)',
        'a response transaction is attached with tx->connp == connp; out_status is not STOP / ERROR',
        'NO entry assumption is needed for termination (unlike RES_LINE): the closed-stream branch returns at once and every other iteration starts with OUT_COPY_BYTE_OR_RETURN',
        'htp_connp_res_consolidate_data / htp_connp_res_clear_buffer replaced by lean contracts (region <= LINE_CAP readable, consume unchanged or == read; buffer NULL, size 0, consume == read); '
        'the real consolidate is enforced against the offset relation by unit htp_connp_res_consolidate_data_rel',
        'htp_connp_res_receiver_finalize_clear replaced by a stub (OK / STOP / ERROR, receiver removed, receiver offset unchanged or == read) whose requires carry "at most once, no header pending, line consumed"',
        'cfg->process_response_header restricted to htp_process_response_header_generic (the only implementation in the tree) and given a nondeterministic C model (OK / ERROR; C02 / C11 units carry its content)',
        'only the LENGTH of the pending header is modelled: bstr_dup_mem / bstr_add_mem are C models that answer NULL or ONE static bstr header object with the right length; bstr_free is a no-op model '
        '(ownership: bounded units htp_connp_RES_HEADERS_pending_header_owner, _closed_stream); the bytes handed to the header parser are not modelled (C02 / C03 units, htp_connp_RES_HEADERS_fold_decision)',
        'line classification (htp_connp_is_line_terminator, htp_connp_is_line_folded, htp_is_folding_char, bstr_chr), htp_chomp (any shorter-or-equal length), htp_log: nondeterministic C models, no __CPROVER_assume',
        'htp_hook_run_all: C model answering OK / STOP / ERROR that asserts the C05 ordering facts at the call; callbacks do not write parser state',
        'LINE_CAP (256) stands for the longest consolidated line (in the real parser: field_limit_hard plus one chunk)',
        '--slice-formula (sound formula slicing)']
FP = sum([['--restrict-function-pointer', 'htp_connp_RES_HEADERS.function_pointer_call.%d/htp_process_response_header_generic' % i] for i in (1, 2, 3, 4, 5)], [])
UNITS.append(U(name='htp_connp_RES_HEADERS', props=['C09', 'C10', 'C03', 'C05', 'C06', 'C01'], kind='contract', src=['htp_response.c'], post=RH_MODELS,
               enforce='htp_connp_RES_HEADERS', replace=RH_R, contracts_inc=['sm_reshdr.h'], harness=H, defs=D, min_obl=100, timeout=(900, 2400), solver=CADICAL,
               flags_add=['--slice-formula'], pre_instrument=FP, loops=RH_LOOPS, sub=RH_SUB, assumes=RH_A))
