from vrun import U

UNITS = []
D = {'quick': {'CHUNK_CAP': 4096}, 'thorough': {'CHUNK_CAP': 1048576}}
A = ['chunk length <= CHUNK_CAP (symbolic); stream offset and message length <= 2^62 on entry (int64 counters provably do not wrap within one call)',
     'body sink htp_tx_res_process_body_data_ex replaced by a logging stub with arbitrary return code that adds len to response_message_len; enforced on the real function by its own unit']
INC = ['sm.h']
H = 'void HARNESS(void) { htp_connp_t *c; %s(c); CANARY(); }'


def st(fn, props, sub, replace=(), loops=None, **kw):
    UNITS.append(U(name=fn, props=props, kind='contract', src=['htp_response.c'], enforce=fn, replace=list(replace),
                   contracts_inc=INC, loops={'htp_response.c': {fn: loops}} if loops else {}, harness=H % fn, defs=D,
                   min_obl=30, sub=sub, assumes=A, **kw))


BODY = 'per call: bytes delivered to the body sink == bytes consumed == -delta(bytes owed) == delta(message length) == delta(stream offset); the delivered range is exactly [read, read+n) of the chunk; body ends exactly when nothing is owed; DATA only with the chunk exhausted'
st('htp_connp_RES_BODY_CHUNKED_DATA', ['C06', 'C09', 'C01'], BODY, replace=['htp_tx_res_process_body_data_ex'])
st('htp_connp_RES_BODY_IDENTITY_CL_KNOWN', ['C06', 'C09', 'C01'], BODY + '; end-of-body marker (NULL,0) delivered exactly when the body completes or the stream closes', replace=['htp_tx_res_process_body_data_ex'])
st('htp_connp_RES_BODY_IDENTITY_STREAM_CLOSE', ['C06', 'C09', 'C01'], 'close-delimited body: everything available is delivered once, in place; FINALIZE only on a closed stream', replace=['htp_tx_res_process_body_data_ex'])

st('htp_connp_RES_BODY_CHUNKED_DATA_END', ['C06', 'C09', 'C01'], 'chunk trailer line: consumes through the first LF (none skipped), every byte taken is counted in consume/stream offset/message length, DATA only with the chunk exhausted; terminates',
   loops={'count': 1, 0: dict(
       assigns='connp->out_next_byte, connp->out_current_read_offset, connp->out_current_consume_offset, connp->out_stream_offset, connp->out_tx->response_message_len',
       inv=['connp->out_current_read_offset >= __CPROVER_loop_entry(connp->out_current_read_offset)', 'connp->out_current_read_offset <= connp->out_current_len',
            'connp->out_current_consume_offset == __CPROVER_loop_entry(connp->out_current_consume_offset) + (connp->out_current_read_offset - __CPROVER_loop_entry(connp->out_current_read_offset))',
            'connp->out_stream_offset == __CPROVER_loop_entry(connp->out_stream_offset) + (connp->out_current_read_offset - __CPROVER_loop_entry(connp->out_current_read_offset))',
            'connp->out_tx->response_message_len == __CPROVER_loop_entry(connp->out_tx->response_message_len) + (connp->out_current_read_offset - __CPROVER_loop_entry(connp->out_current_read_offset))',
            '(gk < CHUNK_CAP && (int64_t) gk >= __CPROVER_loop_entry(connp->out_current_read_offset) && (int64_t) gk < connp->out_current_read_offset) ==> connp->out_current_data[gk] != LF'],
       dec='connp->out_current_len - connp->out_current_read_offset')})
