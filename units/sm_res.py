from vrun import U

UNITS = []
D = {'quick': {'CHUNK_CAP': 4096}, 'thorough': {'CHUNK_CAP': 1048576}}
A = ['chunk length <= CHUNK_CAP (symbolic); stream offset and message length <= 2^62 on entry (int64 counters provably do not wrap within one call)',
     'body sink htp_tx_res_process_body_data_ex replaced by a logging stub with arbitrary return code that adds len to response_message_len; enforced on the real function by its own unit']
INC = ['sm.h']
H = 'void HARNESS(void) { htp_connp_t *c; %s(c); CANARY(); }'


def st(fn, props, sub, replace=(), loops=None, **kw):
    UNITS.append(U(name=fn, props=props, kind='contract', src=['htp_response.c'], enforce=fn, replace=list(replace),
                   contracts_inc=INC, loops={'htp_response.c': {fn: loops}} if loops else {}, harness=H % fn, defs=D,
                   min_obl=30, sub=sub, assumes=A, **kw))


BODY = 'per call: bytes delivered to the body sink == bytes consumed == -delta(bytes owed) == delta(message length) == delta(stream offset); the delivered range is exactly [read, read+n) of the chunk; body ends exactly when nothing is owed; DATA only with the chunk exhausted'
st('htp_connp_RES_BODY_CHUNKED_DATA', ['C06', 'C09', 'C03', 'C01'], BODY, replace=['htp_tx_res_process_body_data_ex'])
st('htp_connp_RES_BODY_IDENTITY_CL_KNOWN', ['C06', 'C09', 'C03', 'C01'], BODY + '; end-of-body marker (NULL,0) delivered exactly when the body completes or the stream closes', replace=['htp_tx_res_process_body_data_ex'])
st('htp_connp_RES_BODY_IDENTITY_STREAM_CLOSE', ['C06', 'C09', 'C03', 'C01'], 'close-delimited body: everything available is delivered once, in place; FINALIZE only on a closed stream', replace=['htp_tx_res_process_body_data_ex'])

st('htp_connp_RES_BODY_CHUNKED_DATA_END', ['C06', 'C09', 'C03', 'C01'], 'chunk trailer line: consumes through the first LF (none skipped), every byte taken is counted in consume/stream offset/message length, DATA only with the chunk exhausted; terminates',
   loops={'count': 1, 0: dict(
       assigns='connp->out_next_byte, connp->out_current_read_offset, connp->out_current_consume_offset, connp->out_stream_offset, connp->out_tx->response_message_len',
       inv=['connp->out_current_read_offset >= __CPROVER_loop_entry(connp->out_current_read_offset)', 'connp->out_current_read_offset <= connp->out_current_len',
            'connp->out_current_consume_offset == __CPROVER_loop_entry(connp->out_current_consume_offset) + (connp->out_current_read_offset - __CPROVER_loop_entry(connp->out_current_read_offset))',
            'connp->out_stream_offset == __CPROVER_loop_entry(connp->out_stream_offset) + (connp->out_current_read_offset - __CPROVER_loop_entry(connp->out_current_read_offset))',
            'connp->out_tx->response_message_len == __CPROVER_loop_entry(connp->out_tx->response_message_len) + (connp->out_current_read_offset - __CPROVER_loop_entry(connp->out_current_read_offset))',
            '(gk < CHUNK_CAP && (int64_t) gk >= __CPROVER_loop_entry(connp->out_current_read_offset) && (int64_t) gk < connp->out_current_read_offset) ==> connp->out_current_data[gk] != LF'],
       dec='connp->out_current_len - connp->out_current_read_offset')})

RES_STATES = ['htp_connp_RES_IDLE', 'htp_connp_RES_LINE', 'htp_connp_RES_HEADERS', 'htp_connp_RES_BODY_DETERMINE', 'htp_connp_RES_BODY_IDENTITY_CL_KNOWN', 'htp_connp_RES_BODY_IDENTITY_STREAM_CLOSE', 'htp_connp_RES_BODY_CHUNKED_LENGTH', 'htp_connp_RES_BODY_CHUNKED_DATA', 'htp_connp_RES_BODY_CHUNKED_DATA_END', 'htp_connp_RES_FINALIZE']
UNITS.append(U(name='htp_connp_res_data', props=['C09', 'C16', 'C01'], kind='contract', src=['htp_response.c'], link=['htp_connection.c'],
               enforce='htp_connp_res_data',
               replace=[f + '/contract_res_state' for f in RES_STATES] + ['htp_res_handle_state_change', 'htp_connp_res_receiver_send_data',
                        'htp_connp_res_buffer/contract_site_htp_connp_res_buffer', 'htp_tx_state_response_complete_ex/contract_site_htp_tx_state_response_complete_ex', 'htp_log'],
               contracts_inc=INC,
               loops={'htp_response.c': {'htp_connp_res_data': {'count': 1, 0: dict(
                   assigns='RS_STATE_FRAME(connp), g_txstate_n',
                   inv=['connp->conn == __CPROVER_loop_entry(connp->conn)', 'connp->out_current_len == (int64_t) len', 'connp->out_current_data == (unsigned char *) data', 'CUR_OUT_CURSOR(connp)',
                        'IS_RES_STATE(connp->out_state)', 'RES_TX_INV(connp)', 'connp->out_status != HTP_STREAM_STOP && connp->out_status != HTP_STREAM_ERROR'])}}},
               harness='void HARNESS(void) { htp_connp_t *c; const htp_time_t *t; const void *d; size_t n; htp_connp_res_data(c, t, d, n); CANARY(); }',
               defs=D, min_obl=100, timeout=(600, 1800), objbits=12,
               pre_instrument=['--restrict-function-pointer', 'htp_connp_res_data.function_pointer_call.1/' + ','.join(RES_STATES),
                               '--restrict-function-pointer', 'htp_connp_res_data.function_pointer_call.2/' + ','.join(RES_STATES)],
               sub='response driver: documented stream states only; DATA => whole chunk consumed; DATA_OTHER => strictly fewer and resumable; STOP/ERROR sticky with zero state-function calls; TUNNEL short-circuit with zero calls; byte counter += len; every state function replaced by the shared state contract',
               assumes=A + ['every response state function replaced by the shared contract contract_res_state (each one is enforced against a contract that contains it)',
                            'termination of the driver loop is NOT proved here (no decreases clause): see DESIGN C09',
                            'callbacks return OK/DECLINED/STOP/ERROR only']))

UNITS.append(U(name='htp_connp_RES_IDLE', props=['C04', 'C09', 'C05', 'C10', 'C01'], kind='contract', src=['htp_response.c', 'htp_list.c'], enforce='htp_connp_RES_IDLE',
               replace=['htp_connp_tx_create/contract_site_htp_connp_tx_create', 'htp_tx_state_request_complete/contract_site2_htp_tx_state_request_complete',
                        'htp_tx_state_response_start/contract_site_htp_tx_state_response_start', 'htp_uri_alloc', 'bstr_dup_c', 'htp_log'],
               contracts_inc=INC, harness=H % 'htp_connp_RES_IDLE', defs={'quick': {'CHUNK_CAP': 4096, 'LCAP': 8}, 'thorough': {'CHUNK_CAP': 1048576, 'LCAP': 64}},
               min_obl=100, timeout=(600, 1800),
               sub='pairing: a starting response is attached to the transaction at position out_next_tx_index (the list is in request arrival order) and the index advances by one; with no request at that position the response gets a NEW transaction appended last, never an existing one; no data => nothing changes',
               assumes=A + ['transaction list capacity <= LCAP; real htp_list_array_get body included', 'htp_connp_tx_create, htp_tx_state_response_start, htp_tx_state_request_complete, htp_uri_alloc, bstr_dup_c replaced by contracts']))

UNITS.append(U(name='htp_connp_RES_BODY_CHUNKED_LENGTH', props=['C06', 'C09', 'C01'], kind='contract', src=['htp_response.c'], enforce='htp_connp_RES_BODY_CHUNKED_LENGTH',
               replace=['htp_connp_res_consolidate_data', 'htp_connp_res_clear_buffer', 'htp_parse_chunked_length/contract_site_htp_parse_chunked_length', 'htp_log'],
               contracts_inc=INC, harness=H % 'htp_connp_RES_BODY_CHUNKED_LENGTH', defs=D, min_obl=50, timeout=(600, 1800),
               loops={'htp_response.c': {
                   'htp_connp_RES_BODY_CHUNKED_LENGTH': {'count': 1, 0: dict(
                       assigns='g_consol_n, g_consol_len, g_pcl_value, connp->out_next_byte, connp->out_current_read_offset, connp->out_stream_offset, connp->out_current_consume_offset, '
                               'connp->out_buf, connp->out_buf_size, connp->out_chunked_length, connp->out_tx->response_message_len',
                       inv=['CUR_OUT_CURSOR(connp)', 'connp->out_current_len == __CPROVER_loop_entry(connp->out_current_len)',
                            'connp->out_tx->response_message_len >= __CPROVER_loop_entry(connp->out_tx->response_message_len)',
                            'connp->out_tx->response_message_len <= OFFMAX + (int64_t) LINE_CAP * (connp->out_current_read_offset + 1)',
                            'connp->out_stream_offset <= OFFMAX + connp->out_current_read_offset',
                            'connp->out_chunked_length == __CPROVER_loop_entry(connp->out_chunked_length) || connp->out_chunked_length == -1004', 'g_clear_n == 0'],
                       dec='connp->out_current_len - connp->out_current_read_offset')},
                   'data_probe_chunk_length': {'count': 1, 0: dict(assigns='i', inv=['i <= len'], dec='len - i')}}},
               sub='response chunk-size line: result lattice; DATA_BUFFER only with the chunk exhausted; >0 => chunk data with that many bytes owed, 0 => trailers, invalid => close-delimited identity body with the buffer kept; size never above INT32_MAX; terminates',
               assumes=A + ['consolidate/clear_buffer/parse_chunked_length/htp_log replaced by contracts']))
