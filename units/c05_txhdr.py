"""builder-txhdr: htp_tx_state_response_headers (the one htp_tx_state_* transition units/c05_life.py leaves out) and the rest of the
transaction layer of htp_transaction.c (notes/c05_txhdr.md).  Contracts: contracts/c05_txhdr.h, ghosts: contracts/ghost_c06.h."""
import os
from vrun import U

UNITS = []
INC = ['c05_txhdr.h']
A_HOOK = ['htp_hook_run_all replaced by the event-logging stub of c05_life.h extended for this call site: user callbacks return any of OK/STOP/ERROR and MAY rewrite tx->response_content_encoding_processing (documented scenarios 2/3, htp_transaction.c:1369-1379); they write no other parser or transaction state',
          'every hook slot of the configuration holds a registered hook (ten distinct non-NULL identities); history counters g_cnt_* < 4 on entry; progress indicators within their enumerations']
A_FCLR = 'receiver finalisation (htp_connp_res_receiver_finalize_clear, raw header data callbacks) replaced by a logging stub: any of OK/STOP/ERROR, clears the receiver'

RH_REPLACE = ['htp_hook_run_all/contract_c06_hook_run_all_rh',
              'htp_connp_res_receiver_finalize_clear/contract_c05_res_fclr',
              'htp_gzip_decompressor_create/contract_c06_decompressor_create',
              'htp_tx_res_destroy_decompressors/contract_c06_res_destroy_decompressors',
              'get_token/contract_c06_get_token_site']
# helpers that live in other translation units (bstr.c, htp_table.c, htp_util.c) and write nothing: plain C stubs with nondeterministic
# results instead of contract replacement (each replaced call costs a dfcc write-set creation + inclusion check; the tokenizer loop is unwound)
RH_POST = r'''
int nondet_int(void);
void *htp_table_get_c(const htp_table_t *t, const char *k) { VASSERT(k != NULL, "C01 lookup key"); return g_c06_have_ce ? (void *) &c06_hdr : NULL; }
/* whole-value comparison: an ORACLE - the header value "is" coding g_c06_kind (1 gzip, 2 x-gzip, 3 deflate, 4 x-deflate, 5 lzma, 6 inflate, else none of them);
   the literal is identified by its first / third character */
int bstr_cmp_c_nocasenorzero(const bstr *b, const char *c) { VASSERT(b == &c06_val.b && c != NULL, "C01 the header value is compared");
  int lit = c[0] == 'g' ? 1 : c[0] == 'd' ? 3 : c[0] == 'l' ? 5 : c[0] == 'i' ? 6 : (c[0] == 'x' && c[2] == 'g') ? 2 : (c[0] == 'x' && c[2] == 'd') ? 4 : 0;
  VASSERT(lit != 0, "C07 the value is only compared with the six documented spellings");
  return lit == g_c06_kind ? 0 : 1; }
int bstr_util_cmp_mem(const void *a, size_t la, const void *b, size_t lb) { VASSERT(C06_TOK_IN_VALUE(a, la) && __CPROVER_r_ok(b, lb), "C01 token inside the header value"); return nondet_int(); }
int bstr_util_mem_index_of_c_nocase(const void *a, size_t la, const char *c) { VASSERT(C06_TOK_IN_VALUE(a, la) && c != NULL, "C01 token inside the header value"); return nondet_int(); }
void htp_log(htp_connp_t *connp, const char *file, int line, enum htp_log_level_t level, int code, const char *fmt, ...) { }
'''
RH_SUB = ('raw header data flushed, then RESPONSE_HEADERS exactly once for this tx, refusal of either returned at once with the decompressor chain untouched; progress untouched; '
          'the announced coding is classified as documented (gzip/x-gzip, deflate/x-deflate, lzma, inflate = none) and a single known coding yields exactly one layer of that coding; layers created <= response_decompression_layer_limit (non-zero), LZMA layers of a coding list <= response_lzma_layer_limit; set-up only after both deliveries, old chain torn down first; '
          'with decompression disabled / no Content-Encoding exactly the callbacks\' choice is honoured; a failed creation => HTP_ERROR at once, nothing attempted after it; '
          'out_decompressor is exactly the created layers linked in order, each with the bomb-checking sink, last next == NULL')
RH_ASSUMES = A_HOOK + [A_FCLR,
    'Content-Encoding value of at most C06_CE_CAP bytes (8; unit htp_tx_state_response_headers_12: 12) in one static bstr; the tokenizer loop is NOT closed by a loop contract (the chain cursor `comp` is a moving heap pointer; '
    'CBMC 6.11 cannot dereference a havocked pointer local and rejects pointer predicates in loop invariants): it is unwound completely, the unwinding assertion is an obligation, '
    'so termination and every clause hold for ALL layer limits (0 = unlimited included) and all LZMA limits, for header values up to the cap',
    'header lookup returns NULL or one header; the whole-value comparison bstr_cmp_c_nocasenorzero is an oracle (the value IS one of gzip / x-gzip / deflate / x-deflate / lzma / inflate or none of them, ghost g_c06_kind; case-insensitivity itself is C17); the token helpers bstr_util_cmp_mem / bstr_util_mem_index_of_c_nocase return ANY result (every token may be any coding, known or unknown); their call-site requirements (token inside the header value) are proved',
    'get_token replaced by its contract (non-empty token inside the input), enforced on the real code by unit c06_get_token',
    'htp_gzip_decompressor_create replaced by a counting stub: NULL at any time (C18), else the next element of a static pool, unlinked and without sink, only for gzip/deflate/lzma (enforced on the real factory by c07_create)',
    'htp_tx_res_destroy_decompressors replaced by a logging stub that clears the chain head (real function: lemma c06_res_destroy_decompressors)',
    'response_decompression_layer_limit >= 0 (a negative limit is meaningless; with it the single-coding fast path still creates one layer)']
# kind='bounded': the contract is enforced by dfcc, but the Content-Encoding tokenizer loop is UNWOUND over a truncated header value (<= C06_CE_CAP bytes), not closed by an invariant:
# per DESIGN 2.4 that is 'per-call contract, bounded' and is reported under bounded_units, never counted as proved
UNITS.append(U(name='htp_tx_state_response_headers', props=['C05', 'C07', 'C18', 'C01'], kind='bounded', src=['htp_transaction.c'],
               enforce='htp_tx_state_response_headers', contract='contract_c06_tx_state_response_headers', replace=RH_REPLACE, contracts_inc=INC,
               harness='c06_val_t nondet_c06_val(void);\nvoid HARNESS(void) { htp_tx_t *t; c06_val = nondet_c06_val(); htp_tx_state_response_headers(t); CANARY(); }',
               defs={'quick': {'C06_CE_CAP': 8, 'C06_POOL': 5}, 'thorough': {'C06_CE_CAP': 8, 'C06_POOL': 5}},
               unwindset='htp_tx_state_response_headers_wrapped_for_contract_checking.0:5', expect_loops_closed=False,
               min_obl=100, timeout=(420, 1200), post=RH_POST, sub=RH_SUB, assumes=RH_ASSUMES,
               bound='Content-Encoding header value <= C06_CE_CAP bytes (tokenizer loop unwound completely); everything else unbounded'))

# the same unit with a 12-byte header value (6 tokens: layer limits 1..5 reach their break), thorough tier only
_rh = dict(UNITS[0])
_rh.update(name='htp_tx_state_response_headers_12', thorough_only=True, defs={'quick': {'C06_CE_CAP': 12, 'C06_POOL': 7}, 'thorough': {'C06_CE_CAP': 12, 'C06_POOL': 7}},
           unwindset='htp_tx_state_response_headers_wrapped_for_contract_checking.0:7', timeout=(900, 1800),
           bound='Content-Encoding header value <= 12 bytes (tokenizer loop unwound completely, 6 iterations); everything else unbounded')
_rh['assumes'] = [a.replace('(quick 8, thorough 12)', '(12 in this unit)') for a in _rh['assumes']]
UNITS.insert(1, _rh)

# ---- the two body sinks with a content coding in force (the uncoded branch is units/sm_tx.py) ---------------------------------------------
A_SINK = ['htp_gzip_decompressor_decompress replaced by a logging stub (any result; moves the entity length and the clock / passthrough fields of the layer, which is what the real chain does through the bomb-checking sink - units c07_decompress, c07_*_callback)',
          'chain tear-down replaced by a logging stub that clears the chain head (real function: lemma c06_destroy_decompressors)',
          'gettimeofday / htp_timer_track replaced by frame stubs (any clock); the time-limit passthrough switch is not part of the claim',
          'chain head is NULL or one valid decompressor object; block length <= CHUNK_CAP']
for d, dec, enc in (('res', 'out_decompressor', 'response'), ('req', 'req_decompressor', 'request')):
    fn = 'htp_tx_%s_process_body_data_ex' % d
    UNITS.append(U(name='c06_%s_sink_coded' % d, props=['C07', 'C06', 'C18', 'C01'], kind='contract', src=['htp_transaction.c'], enforce=fn,
                   contract='contract_c06_%s_sink_coded' % d,
                   replace=['htp_%s_run_hook_body_data' % d, 'htp_log',
                            'htp_gzip_decompressor_decompress/contract_c06_%s_decompress' % d,
                            'htp_tx_%s_destroy_decompressors/contract_c06_%s_destroy_decompressors_sink' % (d, d),
                            'gettimeofday/contract_c06_gettimeofday', 'htp_timer_track/contract_c06_timer_track'],
                   contracts_inc=INC, harness='void HARNESS(void) { htp_tx_t *t; const void *p; size_t n; %s(t, p, n); CANARY(); }' % fn,
                   defs={'quick': {'CHUNK_CAP': 4096}, 'thorough': {'CHUNK_CAP': 1048576}}, min_obl=30, assumes=A_SINK,
                   sub='%s body sink, CODED branch: the chain head receives exactly the caller\'s (ptr,len) for this tx, once%s; no decompressor (earlier allocation failure) => HTP_ERROR and no delivery; '
                       'the chain is torn down exactly at the end-of-body marker and after the last delivery; a coding value outside the enumeration is refused with nothing delivered%s'
                       % (enc, ', per-call callback counter reset first' if d == 'res' else ', is_last exactly for (NULL,0)',
                          '; wire length += len in every case' if d == 'res' else '')))

UNITS.append(U(name='htp_tx_req_has_body', props=['C06', 'C01'], kind='contract', src=['htp_transaction.c'], enforce='htp_tx_req_has_body', contracts_inc=INC,
               harness='void HARNESS(void) { htp_tx_t *t; htp_tx_req_has_body(t); CANARY(); }', min_obl=5,
               sub='"has a body" == the framing decision is IDENTITY or CHUNKED (-1 for NULL); reads only. This is the predicate that guards the end-of-body marker in the request completion path', assumes=[]))

# ---- public entries of the body sinks (hybrid mode): argument guards around the private sinks ------------------------------------------------
for d, enc in (('req', 'request'), ('res', 'response')):
    fn = 'htp_tx_%s_process_body_data' % d
    UNITS.append(U(name=fn, props=['C06', 'C01'], kind='contract', src=['htp_transaction.c'], enforce=fn, replace=[fn + '_ex'], contracts_inc=INC,
                   harness='void HARNESS(void) { htp_tx_t *t; const void *p; size_t n; %s(t, p, n); CANARY(); }' % fn,
                   defs={'quick': {'CHUNK_CAP': 4096}, 'thorough': {'CHUNK_CAP': 1048576}}, min_obl=20,
                   assumes=['the private sink %s_ex replaced by the logging stub of sm.h (enforced by units %s_ex and c06_%s_sink_coded)' % (fn, fn, d)],
                   sub='public %s body entry: NULL transaction / NULL data refused, an EMPTY block delivers nothing and counts nothing (it is not the end-of-body marker), otherwise exactly one hand-over of the caller\'s (ptr,len) to the private sink whose result is returned' % enc))

# ---- get_token: the contract the response-headers unit replaces it by, enforced on the real tokenizer -------------------------------------
UNITS.append(U(name='c06_get_token', props=['C07', 'C01'], kind='contract', src=['htp_transaction.c'], enforce='get_token', contracts_inc=INC,
               pre_instrument=['--unwindset', 'get_token.0:3,get_token.2:3', '--unwinding-assertions'],
               loops={'htp_transaction.c': {'get_token': {'count': 4,
                   0: dict(assigns='i', inv=['i <= in_len', '(gk < i) ==> C06_SEP2(in[gk], seps)'], dec='in_len - i'),
                   2: dict(assigns='i', inv=['i <= in_len', 'in_len >= 1', '!C06_SEP2(in[0], seps)', '(gk < i) ==> !C06_SEP2(in[gk], seps)'], dec='in_len - i')}}},
               harness='void HARNESS(void) { const unsigned char *p; size_t n; const char *s; unsigned char **t; size_t *l; get_token(p, n, s, t, l); CANARY(); }',
               defs={'quick': {'C06_TOK_CAP': 64}, 'thorough': {'C06_TOK_CAP': 4096}}, min_obl=40,
               timeout=(120, 600),
               assumes=['separator string is ", " (what the only call site passes); the two inner loops over the separators are unwound before contract instrumentation (their cursor is a pointer local), the unwinding assertion is an obligation',
                        'input length <= C06_TOK_CAP (read-only scan, symbolic length)'],
               sub='tokenizer of the Content-Encoding list: 0 = nothing but separators (outputs untouched); 1 = a NON-EMPTY token that lies inside the input and is the maximal separator-free run after the leading separators; reads only the input; both scanning loops terminate (closed by loop contracts, any length)'))

# ---- the chain tear-down that the units above replace: real htp_connp_destroy_decompressors -> htp_tx_res/req_destroy_decompressors ---------
DD_POST = r'''
static htp_decompressor_t *c06d_objs[6]; static int c06d_freed[6]; static int c06d_n, c06d_cnt, c06d_order_bad, c06d_alien;
void htp_gzip_decompressor_destroy(htp_decompressor_t *z) {
  int found = 0;
  for (int i = 0; i < 6; i++) if (i < c06d_n && c06d_objs[i] == z) { VASSERT(!c06d_freed[i], "C18 no layer is destroyed twice"); if (i != c06d_cnt) c06d_order_bad = 1; c06d_freed[i] = 1; found = 1; }
  if (!found) c06d_alien = 1;
  c06d_cnt++;
  free(z); }
static htp_decompressor_t *c06d_chain(int n) { htp_decompressor_t *head = NULL, *last = NULL;
  for (int i = 0; i < 3; i++) if (i < n) { htp_decompressor_t *z = calloc(1, sizeof(*z)); VASSUME(z != NULL); c06d_objs[c06d_n++] = z;
      if (last == NULL) head = z; else last->next = z; last = z; }
  return head; }
'''
DD_H = r'''typedef struct { int n_out; int n_req; } vin_t;
void HARNESS(void) { VIN(vin_t);
  VASSUME(in.n_out >= 0 && in.n_out <= 3 && in.n_req >= 0 && in.n_req <= 3);
  static htp_connp_t c06d_connp;
  c06d_connp.out_decompressor = c06d_chain(in.n_out);
  c06d_connp.req_decompressor = c06d_chain(in.n_req);
  htp_connp_destroy_decompressors(&c06d_connp);
  for (int i = 0; i < 6; i++) VASSERT(i >= c06d_n || c06d_freed[i], "C01 every layer of both chains is destroyed");
  VASSERT(c06d_cnt == in.n_out + in.n_req && !c06d_alien, "C18 exactly the layers of the two chains are destroyed, nothing else");
  VASSERT(!c06d_order_bad, "C01 response chain first, each chain head to tail (next is read before the layer is destroyed)");
  VASSERT(c06d_connp.out_decompressor == NULL && c06d_connp.req_decompressor == NULL, "C18 both chain heads cleared: no dangling decompressor");
  CANARY(); }'''
UNITS.append(U(name='c06_destroy_decompressors', props=['C18', 'C01', 'C07'], kind='bounded', src=['htp_transaction.c'], post=DD_POST, harness=DD_H, replay='vin',
               flags_add=['--unwind', '8', '--unwinding-assertions', '--memory-leak-check'], min_obl=30, timeout=(120, 600),
               bound='response chain and request chain of 0..3 layers each (all 16 combinations)',
               assumes=['real code: htp_connp_destroy_decompressors, htp_tx_res_destroy_decompressors, htp_tx_req_destroy_decompressors; htp_gzip_decompressor_destroy is a counting stub that really frees the layer (so a read of comp->next after the destruction is a use-after-free)'],
               sub='owner tear-down of the decompressor chains: every layer destroyed exactly once, head to tail, successor read before destruction, both heads cleared, nothing leaks'))

# ---- htp_tx_req_set_headers_clear / htp_tx_res_set_headers_clear (hybrid-mode API): ownership of the header records ------------------------
HC_H = r'''
static htp_tx_t c06h_tx;
#define C06H_CLEAN free(t); free(e); free(h0); free(h1); free(n0); free(v0); free(k0); free(n1); free(v1); free(k1);
static void c06h_case(int res, int n) {
  htp_table_t *t = malloc(sizeof(htp_table_t)); void **e = C18_ELEMS_RAW(8);
  htp_header_t *h0 = malloc(sizeof(htp_header_t)); htp_header_t *h1 = malloc(sizeof(htp_header_t));
  bstr *n0 = C18_BSTR_RAW(1); bstr *v0 = C18_BSTR_RAW(1); bstr *k0 = C18_BSTR_RAW(1); bstr *n1 = C18_BSTR_RAW(1); bstr *v1 = C18_BSTR_RAW(1); bstr *k1 = C18_BSTR_RAW(1);
  if (t == NULL || e == NULL || h0 == NULL || h1 == NULL || n0 == NULL || v0 == NULL || k0 == NULL || n1 == NULL || v1 == NULL || k1 == NULL) { C06H_CLEAN return; }
  *h0 = (htp_header_t){0}; *h1 = (htp_header_t){0};
  C18_BSTR_INIT(n0, 1, "a"); C18_BSTR_INIT(v0, 1, "1"); C18_BSTR_INIT(k0, 1, "a"); C18_BSTR_INIT(n1, 1, "b"); C18_BSTR_INIT(v1, 1, "2"); C18_BSTR_INIT(k1, 1, "b");
  h0->name = n0; h0->value = v0; h1->name = n1; h1->value = v1;
  C18_TABLE_INIT(t, e, 8);
  if (n >= 1) C18_TABLE_PUT(t, k0, h0, HTP_TABLE_KEYS_COPIED); else { free(h0); free(n0); free(v0); free(k0); }
  if (n >= 2) C18_TABLE_PUT(t, k1, h1, HTP_TABLE_KEYS_COPIED); else { free(h1); free(n1); free(v1); free(k1); }
  c06h_tx = (htp_tx_t){0};
  if (res) c06h_tx.response_headers = t; else c06h_tx.request_headers = t;
  htp_status_t rc = res ? htp_tx_res_set_headers_clear(&c06h_tx) : htp_tx_req_set_headers_clear(&c06h_tx);
  htp_table_t *nt = res ? c06h_tx.response_headers : c06h_tx.request_headers;
  VASSERT(rc == HTP_OK || rc == HTP_ERROR, "C18 result is OK or ERROR");
  VASSERT(rc == HTP_OK ? (nt != NULL && htp_table_size(nt) == 0) : nt == NULL, "C18 OK => a fresh empty table; ERROR (table allocation failed) => no table, never a dangling pointer to the destroyed one");
  VASSERT((res ? c06h_tx.request_headers : c06h_tx.response_headers) == NULL, "C01 the other direction's table is not touched");
  if (rc != HTP_OK) {   /* later calls keep honouring the contract: refused, nothing touched */
    htp_status_t rc2 = res ? htp_tx_res_set_headers_clear(&c06h_tx) : htp_tx_req_set_headers_clear(&c06h_tx);
    VASSERT(rc2 == HTP_ERROR && c06h_tx.response_headers == NULL && c06h_tx.request_headers == NULL, "C18 a transaction without header table refuses the call");
  }
  /* what the real teardown (htp_tx_destroy_incomplete, htp_transaction.c:142-152 / 195-205) does with the field */
  if (nt != NULL) htp_table_destroy(nt);
}
void HARNESS(void) { int res, n; VASSUME(n >= 0 && n <= 2); c06h_case(res, n); CANARY(); }'''
UNITS.append(U(name='c06_set_headers_clear', props=['C18', 'C01'], kind='bounded', src=['htp_transaction.c'], link=['htp_table.c', 'htp_list.c', 'bstr.c'],
               contracts_inc=['c18_alloc.h'], harness=HC_H,
               flags_add=['--unwind', '10', '--unwinding-assertions', '--memory-leak-check'], min_obl=100, timeout=(240, 900),
               bound='header table with 0, 1 or 2 headers (capacity 8 pairs); both directions',
               assumes=['every malloc/calloc/realloc may fail independently (--malloc-may-fail): the obligations are the pointer checks of everything that runs plus the leak check',
                        'header table laid out in the harness the way _htp_table_add lays it out (keys copied), every record / name / value / key a distinct heap object; real htp_table.c, htp_list.c, bstr.c linked'],
               sub='htp_tx_req_set_headers_clear / htp_tx_res_set_headers_clear: every header record, name, value and key and the old table are freed exactly once; OK => fresh empty table; failed table allocation => ERROR with the field NULL (no dangling table), a repeated call is refused; the real table teardown afterwards is clean; nothing leaks'))

# ---- htp_tx_req_set_header / htp_tx_res_set_header (hybrid-mode API): every allocation may fail ---------------------------------------------
SH_H = r'''
/* constant-capacity model of bstr_dup for the key copy in htp_table_add (a heap object whose size is read back from another heap object does
 * not bit-blast: HOWTO 8; same kind of model as v_model_dup_mem in units/c03_seg.py, units/c14_mpart.py) */
bstr *c06s_model_dup(const bstr *b) {
  VASSERT(b != NULL && bstr_len(b) == 1, "model domain: 1-byte keys");
  bstr *n = malloc(sizeof(bstr) + 1); if (n == NULL) return NULL;
  n->len = 1; n->size = 1; n->realptr = NULL; ((unsigned char *) n)[sizeof(bstr)] = bstr_ptr(b)[0];
  return n; }
static htp_tx_t c06s_tx;
static void c06s_case(int res, enum htp_alloc_strategy_t a1, enum htp_alloc_strategy_t a2) {
  static const char c06s_n1[1] = { 'A' }, c06s_v1[1] = { '1' }, c06s_n2[1] = { 'B' }, c06s_v2[1] = { '2' };
  c06s_tx = (htp_tx_t){0};
  /* table with constant geometry (static: symex sees constants, no growth path - HOWTO 8); capacity 8 slots = 4 pairs */
  static htp_table_t c06s_t; static void *c06s_e[8];
  htp_table_t *t = &c06s_t; C18_TABLE_INIT(t, c06s_e, 8);
  if (res) c06s_tx.response_headers = t; else c06s_tx.request_headers = t;
  htp_status_t r1 = res ? htp_tx_res_set_header(&c06s_tx, c06s_n1, 1, c06s_v1, 1, a1) : htp_tx_req_set_header(&c06s_tx, c06s_n1, 1, c06s_v1, 1, a1);
  VASSERT(r1 == HTP_OK || r1 == HTP_ERROR, "C18 result is OK or ERROR");
  VASSERT(htp_table_size(t) == (r1 == HTP_OK ? 1 : 0), "C18 a failed call leaves the table as it was");
#ifdef C06S_ONE
  htp_status_t r2 = HTP_ERROR;
#else
  htp_status_t r2 = res ? htp_tx_res_set_header(&c06s_tx, c06s_n2, 1, c06s_v2, 1, a2) : htp_tx_req_set_header(&c06s_tx, c06s_n2, 1, c06s_v2, 1, a2);
#endif
  VASSERT(htp_table_size(t) == (size_t) ((r1 == HTP_OK ? 1 : 0) + (r2 == HTP_OK ? 1 : 0)), "C18 later calls keep working after a failed one");
  if (r1 == HTP_OK) { htp_header_t *h = htp_table_get_index(t, 0, NULL);
    VASSERT(h != NULL && bstr_len(h->name) == 1 && bstr_ptr(h->name)[0] == 'A' && bstr_len(h->value) == 1 && bstr_ptr(h->value)[0] == '1', "C02 first header stored with its name and value");
    VASSERT((a1 == HTP_ALLOC_REUSE) == (h->name->realptr != NULL), "C18 REUSE wraps the caller's bytes, every other strategy copies them"); }
  if (r2 == HTP_OK) { htp_header_t *h = htp_table_get_index(t, r1 == HTP_OK ? 1 : 0, NULL);
    VASSERT(h != NULL && bstr_len(h->name) == 1 && bstr_ptr(h->name)[0] == 'B' && bstr_len(h->value) == 1 && bstr_ptr(h->value)[0] == '2', "C02 second header stored after the first"); }
  /* owner's clean-up, element by element as htp_tx_re[qs]_set_headers_clear + htp_table_destroy do it (unit c06_set_headers_clear checks the real ones) */
  VASSERT(htp_table_size(t) == 0 || t->alloc_type == HTP_TABLE_KEYS_COPIED, "C18 htp_table_add copies the key: the table owns it");
  for (size_t i = 0; i < 2; i++) if (i < htp_table_size(t)) { bstr *key = NULL; htp_header_t *h = htp_table_get_index(t, i, &key);
      VASSERT(key != NULL && key != h->name, "C18 the key is a copy, not the header's own name");
      bstr_free(h->name); bstr_free(h->value); free(h); bstr_free(key); }
}
void HARNESS(void) { int res; enum htp_alloc_strategy_t a1, a2;
  VASSUME(a1 == HTP_ALLOC_COPY || a1 == HTP_ALLOC_REUSE); VASSUME(a2 == HTP_ALLOC_COPY || a2 == HTP_ALLOC_REUSE);
  /* strategies and direction enumerated so that symex sees constants (HOWTO 4) */
  if (res) { if (a1 == HTP_ALLOC_COPY) c06s_case(1, HTP_ALLOC_COPY, a2); else c06s_case(1, HTP_ALLOC_REUSE, a2); }
  else { if (a1 == HTP_ALLOC_COPY) c06s_case(0, HTP_ALLOC_COPY, a2); else c06s_case(0, HTP_ALLOC_REUSE, a2); }
  CANARY(); }'''
# DOES NOT CLOSE (kept behind SM_EXPERIMENTAL): two real htp_tx_re[qs]_set_header calls with every allocation failing independently do not leave
# SAT solving within 240 s (three attempts: heap table from htp_table_create -> killed in propositional reduction at 28 GB; static table of
# constant geometry -> timeout; plus a constant-capacity model of the key copy bstr_dup -> timeout).  Suspected cause: after the first call the
# list cursor (`last`, `current_size`) is a merge of 5 failure paths, so htp_list_array_push's growth path (realloc + two memcpy into a pointer
# array, the mis-modelled case of DESIGN 8.2) stays reachable in the second call.  Fall-back would be ONE call per harness with enumerated strategy.
if os.environ.get('SM_EXPERIMENTAL'):
    UNITS.append(U(name='c06_set_header_alloc', props=['C18', 'C01'], kind='bounded', src=['htp_transaction.c', 'htp_table.c'], link=['htp_list.c', 'bstr.c'],
                   pre='#define bstr_dup c06s_model_dup\n', contracts_inc=['c18_alloc.h'], harness=SH_H,
                   flags_add=['--unwind', '10', '--unwinding-assertions', '--memory-leak-check'], min_obl=100, timeout=(150, 900),
                   bound='two calls with 1-byte names / values on a static table of capacity 4 pairs (no growth); both directions; COPY and REUSE strategies',
                   assumes=['every malloc/calloc/realloc may fail independently (--malloc-may-fail)',
                            'real htp_table.c (htp_table_add, htp_table_get_index), htp_list.c, bstr.c; the key copy bstr_dup inside htp_table_add is a constant-capacity model (1-byte keys, may fail); the table record itself is a static object of constant geometry, clean-up element by element in the harness (the real clear / destroy are unit c06_set_headers_clear)'],
                   sub='htp_tx_req_set_header / htp_tx_res_set_header: whichever allocation fails (record, name, value, key copy) the call reports ERROR, leaves the table unchanged and frees what it had built exactly once; a later call still works; stored headers carry the given name / value; the owner\'s clean-up frees everything once, nothing leaks'))

# fall-back that closes: ONE call per harness (same harness text, second call compiled out)
_u = [u for u in UNITS if u['name'] == 'c06_set_header_alloc']
UNITS.append(U(name='c06_set_header_alloc1', props=['C18', 'C01'], kind='bounded', src=['htp_transaction.c', 'htp_table.c'], link=['htp_list.c', 'bstr.c'],
               pre='#define bstr_dup c06s_model_dup\n', contracts_inc=['c18_alloc.h'], harness=SH_H, defs={'quick': {'C06S_ONE': 1}},
               flags_add=['--unwind', '10', '--unwinding-assertions', '--memory-leak-check'], min_obl=100, timeout=(150, 900),
               bound='ONE call with a 1-byte name / value on an empty static table of capacity 4 pairs; both directions; COPY and REUSE strategies',
               assumes=['every malloc/calloc/realloc may fail independently (--malloc-may-fail)',
                        'real htp_table.c (htp_table_add, htp_table_get_index), htp_list.c, bstr.c; the key copy bstr_dup inside htp_table_add is a constant-capacity model (1-byte keys, may fail); the table record is a static object of constant geometry; clean-up element by element in the harness (the real clear / destroy: unit c06_set_headers_clear)'],
               sub='htp_tx_req_set_header / htp_tx_res_set_header: whichever allocation fails (record, name, value, key copy) the call reports ERROR, leaves the table unchanged and frees what it had built exactly once; on success the header is stored with the given name / value, REUSE wraps and COPY copies, the table owns a COPY of the key; the owner\'s clean-up frees everything once, nothing leaks'))

# ---- htp_tx_res_set_status_message (hybrid-mode API): the one setter that replaces an earlier value ------------------------------------------
SM_H = r'''
static htp_tx_t c06m_tx;
static void c06m_case(int have_old, enum htp_alloc_strategy_t a) {
  static const char c06m_msg[1] = { 'K' };
  c06m_tx = (htp_tx_t){0};
  if (have_old) { bstr *old = C18_BSTR_RAW(1); if (old == NULL) return; C18_BSTR_INIT(old, 1, "o"); c06m_tx.response_message = old; }
  htp_status_t rc = htp_tx_res_set_status_message(&c06m_tx, c06m_msg, 1, a);
  VASSERT(rc == HTP_OK || rc == HTP_ERROR, "C18 result is OK or ERROR");
  VASSERT(rc == HTP_OK ? (c06m_tx.response_message != NULL && bstr_len(c06m_tx.response_message) == 1 && bstr_ptr(c06m_tx.response_message)[0] == 'K')
                       : c06m_tx.response_message == NULL, "C18 OK => the new message; failed allocation => no message, never the freed old one");
  VASSERT(rc != HTP_OK || (a == HTP_ALLOC_REUSE) == (c06m_tx.response_message->realptr != NULL), "C18 REUSE wraps, COPY copies");
  bstr_free(c06m_tx.response_message);   /* what htp_tx_destroy_incomplete does with the field */
}
void HARNESS(void) { int have_old; enum htp_alloc_strategy_t a; VASSUME(a == HTP_ALLOC_COPY || a == HTP_ALLOC_REUSE);
  if (a == HTP_ALLOC_COPY) c06m_case(have_old, HTP_ALLOC_COPY); else c06m_case(have_old, HTP_ALLOC_REUSE);
  VASSERT(htp_tx_res_set_status_message(NULL, "x", 1, HTP_ALLOC_COPY) == HTP_ERROR && htp_tx_res_set_status_message(&c06m_tx, NULL, 1, HTP_ALLOC_COPY) == HTP_ERROR, "C01 NULL arguments refused");
  CANARY(); }'''
UNITS.append(U(name='c06_set_status_message', props=['C18', 'C01'], kind='bounded', src=['htp_transaction.c'], link=['bstr.c'], contracts_inc=['c18_alloc.h'], harness=SM_H,
               flags_add=['--unwind', '4', '--unwinding-assertions', '--memory-leak-check'], min_obl=40, timeout=(120, 600),
               bound='1-byte message; with / without an earlier message; COPY and REUSE',
               assumes=['every malloc may fail independently (--malloc-may-fail); real bstr.c linked'],
               sub='htp_tx_res_set_status_message: the earlier message is freed exactly once; failed allocation => ERROR with the field NULL (no dangling pointer to the freed message, so the teardown does not free it again); success => the new bytes; nothing leaks'))
