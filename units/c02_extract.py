from vrun import U

UNITS = []

# ======================================================================================================
# C02 -- parse fidelity, scoped to the extractors.  See notes/c02.md.
# ======================================================================================================
DUP_PRE = '#ifndef VNATIVE\n#define bstr_dup_mem c02_dup_mem_model\n#endif\n'      # model only for the source under test (HOWTO: constant-size heap objects)
BD = {'C02_BOUNDED': 1, 'C02_DUP_MODEL': 1}
AB = ['bounded: all inputs of length <= N over all 256 byte values',
      'every allocation may fail (--malloc-may-fail): HTP_ERROR paths are checked for safety and leaks, the fidelity claims are about HTP_OK',
      'bstr_dup_mem called by the extractor under test is MODELLED (constant-capacity allocation + byte copy, contracts/c02_extract.h); the real one is compared '
      'with the model by unit c02_dup_model_lemma; the rest of bstr.c, htp_util.c and htp_parsers.c is the real code (linked)',
      'cfg->log_level == HTP_LOG_NONE: htp_log returns at once (logging is not part of the claim)',
      'the input object has constant capacity N and a symbolic length <= N; the *_exact units use heap objects of exactly the input length (over-read detection)']
CASES = '  CASE(0)\n' + ''.join('#if N >= %d\n  CASE(%d)\n#endif\n' % (k, k) for k in range(1, 17))


def mk(d, **kw):
    r = dict(BD)
    r.update(d)
    r.update(kw)
    return r


# ------------------------------------------------------------------------------------------------------
# 1a. request line
# ------------------------------------------------------------------------------------------------------
REQLINE_H = r'''
typedef struct { unsigned char a[N]; size_t la; int nulterm; int allow_space; int unwanted; } vin_t;
static htp_connp_t c02_connp; static htp_tx_t c02_tx; static htp_cfg_t c02_cfg;
static void run(const unsigned char *a, size_t la, size_t cap, int nulterm, int allow_space, int unwanted) {
  bstr *line = c02_mk_line(a, la, cap);
  if (line == NULL) return;
  c02_cfg.log_level = HTP_LOG_NONE; c02_cfg.allow_space_uri = allow_space; c02_cfg.requestline_leading_whitespace_unwanted = unwanted;
  c02_connp.cfg = &c02_cfg; c02_connp.in_tx = &c02_tx; c02_tx.connp = &c02_connp; c02_tx.cfg = &c02_cfg;
  c02_tx.request_line = line; c02_tx.response_status_expected_number = 4711; c02_tx.request_protocol_number = HTP_PROTOCOL_UNKNOWN;
  int rc = htp_parse_request_line_generic_ex(&c02_connp, nulterm);
  VASSERT(rc == HTP_OK || rc == HTP_ERROR, "request line parser returns OK or ERROR");
  C02_LINE_UNCHANGED(line, a, la, cap);
  VASSERT(c02_tx.request_line == line, "request_line pointer untouched");
  if (rc == HTP_OK) {
    c02_comp_t m, u, p;
    c02_comp_get(c02_tx.request_method, la, &m); c02_comp_get(c02_tx.request_uri, la, &u); c02_comp_get(c02_tx.request_protocol, la, &p);
    /* ---- (A) re-join walk, stated without the reference: ws* method ws+ uri ws+ protocol IS the line ---- */
    size_t n = la;
    if (nulterm) { n = 0; while (n < la && a[n] != 0) n++; }                    /* documented: the line ends with the first NUL */
    size_t q = 0; while (q < n && lr_isspace(a[q])) q++;
    size_t om = (q > 0 && unwanted != HTP_UNWANTED_IGNORE) ? 0 : q, ou = 0, op = 0;
    VASSERT(m.has, "a method is always reported");
    C02_SAME_BYTES(m, a, om, n, "method");
    size_t e = om + m.len;
    VASSERT(e >= q, "method covers the leading white space entirely or not at all");
    for (size_t i = 0; i < N; i++) if (i >= q && i < e && i < n) VASSERT(!lr_isspace(a[i]), "method: no white space inside the word");
    VASSERT(e >= n || lr_isspace(a[e]), "method ends at white space or at the end of the line (not truncated)");
    q = e; while (q < n && lr_isspace(a[q])) q++;
    if (!u.has) {
      VASSERT(q >= n, "no request-target reported => only white space follows the method (nothing dropped)");
      VASSERT(!p.has, "no protocol without request-target");
    } else {
      ou = q;
      VASSERT(u.len >= 1, "a reported request-target is not empty");
      C02_SAME_BYTES(u, a, ou, n, "request-target");
      q = ou + u.len;
      VASSERT(q >= n || lr_isspace(a[q]), "request-target ends at white space or at the end of the line (not truncated)");
      while (q < n && lr_isspace(a[q])) q++;
      if (!p.has) VASSERT(q >= n, "no protocol reported => only white space follows the request-target (nothing dropped)");
      else { op = q; C02_SAME_BYTES(p, a, op, n, "protocol"); VASSERT(p.len >= 1 && op + p.len == n, "protocol runs to the end of the line"); }
    }
    VASSERT(c02_tx.is_protocol_0_9 == (p.has ? 0 : 1), "HTTP/0.9 iff no protocol on the line");
    VASSERT(c02_tx.request_protocol_number == (p.has ? lr_protocol(p.b, p.len) : LR_PROTOCOL_0_9), "protocol number is that of the reported protocol text (0.9 without)");
    VASSERT(c02_tx.request_method_number == lr_method_number(m.b, m.len), "method number is that of the reported method text");
    /* ---- (B) RFC 7230 well-formed line: exactly the three words ---- */
    size_t s1, s2;
    if (lr_request_line_wellformed(a, la, &s1, &s2)) {
      VASSERT(m.len == s1 && om == 0, "well-formed line: method is the text before the first SP");
      VASSERT(u.has && ou == s1 + 1 && u.len == s2 - s1 - 1, "well-formed line: request-target is the text between the two SP");
      VASSERT(p.has && op == s2 + 1 && p.len == la - s2 - 1, "well-formed line: protocol is the text after the second SP");
    }
    /* ---- (C) equality with the independent reference (documented permissive deviations L1-L7) ---- */
    lr_reqline_t r; lr_request_line(a, la, nulterm, allow_space, unwanted != HTP_UNWANTED_IGNORE, &r);
    VASSERT(om == r.mo && m.len == r.ml, "method range equals the reference");
    VASSERT(u.has == r.has_u && p.has == r.has_p, "request-target / protocol reported iff the reference reports them");
    if (u.has && r.has_u) VASSERT(ou == r.uo && u.len == r.ul, "request-target range equals the reference");
    if (p.has && r.has_p) VASSERT(op == r.po && p.len == r.pl, "protocol range equals the reference");
    VASSERT(c02_tx.is_protocol_0_9 == r.is09 && c02_tx.request_protocol_number == r.protocol, "protocol number / 0.9 flag equal the reference");
    VASSERT(c02_tx.response_status_expected_number == ((r.lead && unwanted != HTP_UNWANTED_IGNORE) ? unwanted : 4711),
            "expected response status is set to the configured value iff leading white space is unwanted and present");
  }
  bstr_free(c02_tx.request_method); bstr_free(c02_tx.request_uri); bstr_free(c02_tx.request_protocol);
  c02_tx.request_method = c02_tx.request_uri = c02_tx.request_protocol = NULL;
  free(line);
}
#define CASE(K) if (in.la == (K)) run(in.a, (K), (K), in.nulterm, in.allow_space, in.unwanted);
void HARNESS(void) { VIN(vin_t);
  VASSUME(in.la <= N);
  VASSUME(in.nulterm == 0 || in.nulterm == 1);
  VASSUME(in.allow_space == 0 || in.allow_space == 1);
  VASSUME(in.unwanted == HTP_UNWANTED_IGNORE || in.unwanted == HTP_UNWANTED_400 || in.unwanted == HTP_UNWANTED_404);
#ifdef C02_FIX_MODE
  VASSUME(in.allow_space == C02_ALLOW_SPACE);
#endif
#ifdef ALL_LENGTHS
''' + CASES + r'''#else
  run(in.a, in.la, N, in.nulterm, in.allow_space, in.unwanted);
#endif
  CANARY(); }'''


def reqline_unit(name, nq, nt, extra, bound, unwind, timeout=(600, 3000), **kw):
    UNITS.append(U(
        name=name, props=['C02'], kind='bounded', src=['htp_request_generic.c'], link=['bstr.c', 'htp_util.c', 'htp_parsers.c'], replay='vin',
        pre=DUP_PRE, contracts_inc=['line_ref.h', 'c02_extract.h'], harness=REQLINE_H,
        defs={'quick': mk({'N': nq}, **extra), 'thorough': {'N': nt}},
        flags_add=['--unwind', str(unwind), '--memory-leak-check'], unwindset='lr_method_number.0:30,strlen.0:18',
        flags_del=['--unsigned-overflow-check'], timeout=timeout, bound=bound % (nq, nt), assumes=AB,
        sub='real htp_parse_request_line_generic_ex, both nul_terminates modes, both allow_space_uri modes, all three leading-white-space policies: '
            'method / request-target / protocol are byte-identical sub-ranges of the line, in order, separated by white space only, covering every non-space byte '
            '(re-join); RFC 7230 well-formed lines split exactly at the two SP; ranges, 0.9 flag, protocol and method numbers equal the independent reference; '
            'input unchanged; no leak / over-read under any allocation failure', **kw))


reqline_unit('ref_request_line', 8, 10, {}, 'all request lines of every length 0..N (quick N=%d, thorough N=%d) in a buffer of capacity N', 11)
reqline_unit('ref_request_line_exact', 4, 7, {'ALL_LENGTHS': 1}, 'all request lines of every length 0..N (quick N=%d, thorough N=%d), each in a heap object of exactly that size (over-read detection)', 10)

# ------------------------------------------------------------------------------------------------------
# 1b. status line
# ------------------------------------------------------------------------------------------------------
RESLINE_H = r'''
typedef struct { unsigned char a[N]; size_t la; } vin_t;
static htp_connp_t c02_connp; static htp_tx_t c02_tx; static htp_cfg_t c02_cfg;
static void run(const unsigned char *a, size_t la, size_t cap) {
  bstr *line = c02_mk_line(a, la, cap);
  if (line == NULL) return;
  c02_cfg.log_level = HTP_LOG_NONE; c02_connp.cfg = &c02_cfg; c02_connp.out_tx = &c02_tx; c02_tx.connp = &c02_connp; c02_tx.cfg = &c02_cfg;
  c02_tx.response_line = line;
  /* stale values from a previous (ignored) line: the caller has released them; they must not survive */
  c02_tx.response_protocol = (bstr *) line; c02_tx.response_status = (bstr *) line; c02_tx.response_message = (bstr *) line;
  c02_tx.response_protocol_number = 77; c02_tx.response_status_number = 77;
  int rc = htp_parse_response_line_generic(&c02_connp);
  VASSERT(rc == HTP_OK || rc == HTP_ERROR, "status line parser returns OK or ERROR");
  C02_LINE_UNCHANGED(line, a, la, cap);
  VASSERT(c02_tx.response_protocol != line && c02_tx.response_status != line && c02_tx.response_message != line, "no stale component survives (nothing taken from a neighbouring line)");
  if (rc == HTP_OK) {
    c02_comp_t p, s, m; size_t n = la;
    c02_comp_get(c02_tx.response_protocol, la, &p); c02_comp_get(c02_tx.response_status, la, &s); c02_comp_get(c02_tx.response_message, la, &m);
    /* ---- (A) re-join walk, stated without the reference: ws* protocol ws+ status ws+ message IS the line ---- */
    size_t q = 0, op = 0, os = 0, om = 0; while (q < n && lr_isspace(a[q])) q++;
    if (!p.has) { VASSERT(q >= n, "no protocol reported => the line is empty or white space only"); VASSERT(!s.has && !m.has, "no status / message without protocol"); }
    else {
      op = q; VASSERT(p.len >= 1, "reported protocol is not empty"); C02_SAME_BYTES(p, a, op, n, "protocol"); q = op + p.len;
      for (size_t i = 0; i < N; i++) if (i >= op && i < q && i < n) VASSERT(!lr_isspace(a[i]), "protocol: no white space inside the word");
      VASSERT(q >= n || lr_isspace(a[q]), "protocol ends at white space or at the end of the line (not truncated)");
      while (q < n && lr_isspace(a[q])) q++;
      if (!s.has) { VASSERT(q >= n, "no status reported => only white space follows the protocol"); VASSERT(!m.has, "no message without status"); }
      else {
        os = q; VASSERT(s.len >= 1, "reported status is not empty"); C02_SAME_BYTES(s, a, os, n, "status"); q = os + s.len;
        for (size_t i = 0; i < N; i++) if (i >= os && i < q && i < n) VASSERT(!lr_isspace(a[i]), "status: no white space inside the word");
        VASSERT(q >= n || lr_isspace(a[q]), "status ends at white space or at the end of the line (not truncated)");
        while (q < n && lr_isspace(a[q])) q++;
        if (!m.has) VASSERT(q >= n, "no message reported => only white space follows the status");
        else { om = q; C02_SAME_BYTES(m, a, om, n, "message"); VASSERT(m.len >= 1 && om + m.len == n, "message runs to the end of the line"); }
      }
    }
    VASSERT(c02_tx.response_protocol_number == (p.has ? lr_protocol(p.b, p.len) : LR_PROTOCOL_INVALID), "protocol number is that of the reported protocol text");
    VASSERT(c02_tx.response_status_number == (s.has ? lr_status(s.b, s.len) : -1), "status number is the decimal value of the reported status text when in 100..999, else invalid");
    /* ---- (B) RFC 7230 3.1.2 well-formed: HTTP-version SP 3DIGIT SP reason-phrase (reason not starting with white space) ---- */
    size_t s1 = lr_first_byte(a, 0, n, 0x20);
    if (s1 >= 1 && s1 + 4 < n && a[s1 + 4] == 0x20 && lr_first_space(a, 0, s1, 1) == s1 && a[s1 + 1] >= '1' && a[s1 + 1] <= '9' && a[s1 + 2] >= '0' && a[s1 + 2] <= '9' &&
        a[s1 + 3] >= '0' && a[s1 + 3] <= '9' && (s1 + 5 == n || !lr_isspace(a[s1 + 5]))) {
      VASSERT(p.has && op == 0 && p.len == s1, "well-formed line: protocol is the text before the first SP");
      VASSERT(s.has && os == s1 + 1 && s.len == 3, "well-formed line: status is the three digits");
      VASSERT(c02_tx.response_status_number == (a[s1 + 1] - '0') * 100 + (a[s1 + 2] - '0') * 10 + (a[s1 + 3] - '0'), "well-formed line: status number is the value of the three digits");
      VASSERT(m.has == (s1 + 5 < n) && (!m.has || (om == s1 + 5 && m.len == n - s1 - 5)), "well-formed line: message is everything after the second SP (absent when empty)");
    }
    /* ---- (C) reference ---- */
    lr_resline_t r; lr_response_line(a, la, &r);
    VASSERT(p.has == r.has_p && s.has == r.has_s && m.has == r.has_m, "components reported iff the reference reports them");
    if (p.has && r.has_p) VASSERT(op == r.po && p.len == r.pl, "protocol range equals the reference");
    if (s.has && r.has_s) VASSERT(os == r.so && s.len == r.sl, "status range equals the reference");
    if (m.has && r.has_m) VASSERT(om == r.mo && m.len == r.ml, "message range equals the reference");
    VASSERT(c02_tx.response_protocol_number == r.protocol && c02_tx.response_status_number == r.status, "protocol / status numbers equal the reference");
  }
  bstr_free(c02_tx.response_protocol); bstr_free(c02_tx.response_status); bstr_free(c02_tx.response_message);
  c02_tx.response_protocol = c02_tx.response_status = c02_tx.response_message = NULL;
  free(line);
}
#define CASE(K) if (in.la == (K)) run(in.a, (K), (K));
void HARNESS(void) { VIN(vin_t);
  VASSUME(in.la <= N);
#ifdef ALL_LENGTHS
''' + CASES + r'''#else
  run(in.a, in.la, N);
#endif
  CANARY(); }'''


def resline_unit(name, nq, nt, extra, bound, unwind, timeout=(600, 3000), **kw):
    UNITS.append(U(
        name=name, props=['C02'], kind='bounded', src=['htp_response_generic.c'], link=['bstr.c', 'htp_util.c', 'htp_parsers.c'], replay='vin',
        pre=DUP_PRE, contracts_inc=['line_ref.h', 'c02_extract.h'], harness=RESLINE_H,
        defs={'quick': mk({'N': nq}, **extra), 'thorough': {'N': nt}},
        flags_add=['--unwind', str(unwind), '--unwinding-assertions', '--memory-leak-check'],
        flags_del=['--unsigned-overflow-check'], timeout=timeout, bound=bound % (nq, nt), assumes=AB,
        sub='real htp_parse_response_line_generic (+ real htp_parse_protocol, htp_parse_status): protocol / status / message are byte-identical sub-ranges of the line, '
            'in order, separated by white space only, covering every non-space byte; RFC 7230 well-formed status lines split exactly; numbers equal the reference; '
            'stale components of a previous line never survive; input unchanged; no leak / over-read under any allocation failure', **kw))


resline_unit('ref_response_line', 8, 10, {}, 'all status lines of every length 0..N (quick N=%d, thorough N=%d) in a buffer of capacity N', 11)
resline_unit('ref_response_line_exact', 5, 7, {'ALL_LENGTHS': 1}, 'all status lines of every length 0..N (quick N=%d, thorough N=%d), each in a heap object of exactly that size', 10)

# ------------------------------------------------------------------------------------------------------
# 1c. header line parsers (request and response twins)
# ------------------------------------------------------------------------------------------------------
HDR_H = r'''
typedef struct { unsigned char a[N ? N : 1]; size_t la; uint64_t txflags; } vin_t;
static htp_connp_t c02_connp; static htp_tx_t c02_tx; static htp_cfg_t c02_cfg;
static void run(const unsigned char *a, size_t la, size_t cap, uint64_t txflags) {
  unsigned char *d = c02_mk_buf(a, cap);
  if (d == NULL) return;
  c02_cfg.log_level = HTP_LOG_NONE; c02_connp.cfg = &c02_cfg; c02_connp.in_tx = &c02_tx; c02_connp.out_tx = &c02_tx; c02_tx.connp = &c02_connp; c02_tx.cfg = &c02_cfg;
  c02_tx.flags = txflags;
  htp_header_t h; memset(&h, 0, sizeof(h));                /* as calloc'ed by htp_process_*_header_generic */
  int rc = C02_PARSE(&c02_connp, &h, d, la);
  VASSERT(rc == HTP_OK || rc == HTP_ERROR, "header parser returns OK or ERROR");
  for (size_t i = 0; i < cap; i++) VASSERT(d[i] == a[i], "the input's bytes are not modified");
  if (rc == HTP_OK) {
    c02_comp_t nm, vl;
    c02_comp_get(h.name, la, &nm); c02_comp_get(h.value, la, &vl);
    VASSERT(nm.has && vl.has, "OK => name and value are reported");
    /* ---- (A) stated without the reference ---- */
    size_t n = la; while (n > 0 && (a[n - 1] == 13 || a[n - 1] == 10)) n--;          /* documented: line terminators are removed first */
    size_t colon = 0; while (colon < n && a[colon] != ':' && (C02_IS_RESPONSE || a[colon] != 0)) colon++;
    int nocolon = (colon == n) || a[colon] != ':';
    size_t ov = 0;
    if (nocolon) {
      VASSERT(nm.len == 0, "no colon: empty name");
      VASSERT((h.flags & HTP_FIELD_UNPARSEABLE) != 0, "no colon: HTP_FIELD_UNPARSEABLE");
      while (C02_IS_RESPONSE && ov < n && lr_islws(a[ov])) ov++;
      C02_SAME_BYTES(vl, a, ov, n, "value (no colon)");
      if (!C02_IS_RESPONSE) VASSERT(vl.len == n, "request header without colon: the value is the entire line");
    } else {
      VASSERT((h.flags & HTP_FIELD_UNPARSEABLE) == 0, "colon present: not UNPARSEABLE");
      C02_SAME_BYTES(nm, a, 0, colon, "name");
      for (size_t i = 0; i < N; i++) if (i >= nm.len && i < colon) VASSERT(C02_IS_RESPONSE ? lr_isspace(a[i]) : lr_islws(a[i]), "only white space between the reported name and the colon (name not truncated)");
      VASSERT(nm.len == 0 || !(C02_IS_RESPONSE ? lr_isspace(a[nm.len - 1]) : lr_islws(a[nm.len - 1])), "name does not end with white space");
      VASSERT(((h.flags & HTP_FIELD_INVALID) != 0) == (nm.len != colon || colon == 0 || c02_name_not_token(a, nm.len)), "HTP_FIELD_INVALID iff empty name, white space before the colon, or name not a token");
      ov = colon + 1; while (ov < n && lr_islws(a[ov])) ov++;
      C02_SAME_BYTES(vl, a, ov, n, "value");
    }
    for (size_t i = 0; i < N; i++) if (i >= ov + vl.len && i < n) VASSERT(C02_IS_RESPONSE || !nocolon ? lr_islws(a[i]) : 0, "only LWS between the reported value and the end of the line (value not truncated)");
    if (C02_IS_RESPONSE || !nocolon) VASSERT(vl.len == 0 || (!lr_islws(vl.b[0]) && !lr_islws(vl.b[vl.len - 1])), "value has no leading / trailing LWS");
    /* ---- (C) reference ---- */
    lr_header_t r; lr_header(a, la, C02_IS_RESPONSE, &r);
    VASSERT(nm.len == r.nl, "name range equals the reference");
    VASSERT(ov == r.vo && vl.len == r.vl, "value range equals the reference");
    VASSERT(h.flags == r.flags, "header flags equal the reference (exactly UNPARSEABLE / INVALID as documented)");
    VASSERT((c02_tx.flags & ~(uint64_t) (HTP_FIELD_UNPARSEABLE | HTP_FIELD_INVALID)) == (txflags & ~(uint64_t) (HTP_FIELD_UNPARSEABLE | HTP_FIELD_INVALID)), "no other transaction flag is touched");
    VASSERT((c02_tx.flags & txflags) == txflags && (c02_tx.flags & ~(txflags | r.flags)) == 0, "transaction flags only grow, and only by the header's flags");
#ifndef C02_OBS_TXFLAG
    if (!(C02_IS_RESPONSE && nocolon && (txflags & HTP_FIELD_UNPARSEABLE)))       /* observation O3 in notes/c02.md */
#endif
    VASSERT(c02_tx.flags == (txflags | r.flags), "the header's flags are raised on the transaction");
    bstr_free(h.name); bstr_free(h.value);
  }
  free(d);
}
#define CASE(K) if (in.la == (K)) run(in.a, (K), (K), in.txflags);
void HARNESS(void) { VIN(vin_t);
  VASSUME(in.la <= N);
#ifdef KNOWN_F_C02_RESP_HDR_LEN0
  VASSUME(!C02_IS_RESPONSE || lr_chomp(in.a, in.la) >= 1);     /* known finding F1 (notes/c02.md): response header parser on a line that is empty after removing CR / LF evaluates data[SIZE_MAX] */
#endif
#ifdef ALL_LENGTHS
''' + CASES + r'''#else
  run(in.a, in.la, N, in.txflags);
#endif
  CANARY(); }'''
HDR_POST = r'''
static int c02_name_not_token(const unsigned char *a, size_t n) { for (size_t i = 0; i < n; i++) if (!lr_istchar(a[i])) return 1; return 0; }
'''
AH = AB + ['KNOWN_F_C02_RESP_HDR_LEN0 (default on): the response header parser is not called with a line that is empty after removing its CR / LF bytes, len == 0 included (finding F1: it evaluates data[SIZE_MAX]); '
           'remove the macro from the unit after the fix',
           'observation O3: a colon-less RESPONSE header does not raise HTP_FIELD_INVALID on a transaction that already carries HTP_FIELD_UNPARSEABLE (the request side sets '
           'UNPARSEABLE alone); that one case is exempt from "the header\'s flags are raised on the transaction"']


def hdr_unit(name, response, nq, nt, extra, bound, unwind, timeout=(600, 3000), **kw):
    d = {'N': nq, 'C02_IS_RESPONSE': 1 if response else 0,
         'C02_PARSE': 'htp_parse_response_header_generic' if response else 'htp_parse_request_header_generic'}
    if response:
        pass   # KNOWN_F_C02_RESP_HDR_LEN0 removed: fixed in /repo (c4f6214); empty lines are now part of the domain
    d.update(extra)
    UNITS.append(U(
        name=name, props=['C02'], kind='bounded', src=['htp_response_generic.c' if response else 'htp_request_generic.c'], link=['bstr.c', 'htp_util.c', 'htp_parsers.c'],
        replay='vin', pre=DUP_PRE, contracts_inc=['line_ref.h', 'c02_extract.h'], post=HDR_POST, harness=HDR_H,
        defs={'quick': mk(d), 'thorough': {'N': nt}},
        flags_add=['--unwind', str(unwind), '--unwinding-assertions', '--memory-leak-check'],
        flags_del=['--unsigned-overflow-check'], timeout=timeout, bound=bound % (nq, nt), assumes=AH if response else AB,
        sub='real htp_parse_%s_header_generic (+ real htp_chomp): name = bytes before the first colon minus trailing white space, value = bytes after it with LWS trimmed on both '
            'sides, both byte-identical copies of input sub-ranges with only white space / the colon / line terminators left over; header flags exactly '
            'UNPARSEABLE (no colon) / INVALID (empty name, white space before the colon, name not an RFC 7230 token); transaction flags only grow by these; '
            'equality with the independent reference; input unchanged; no leak / over-read under any allocation failure' % ('response' if response else 'request'), **kw))


hdr_unit('ref_request_header', False, 8, 10, {}, 'all header lines of every length 0..N (quick N=%d, thorough N=%d) in a buffer of capacity N, arbitrary prior tx->flags', 11)
hdr_unit('ref_response_header', True, 8, 10, {}, 'all header lines of every length 0..N (quick N=%d, thorough N=%d) that are not CR/LF-only, in a buffer of capacity N, arbitrary prior tx->flags', 11)
hdr_unit('ref_request_header_exact', False, 5, 7, {'ALL_LENGTHS': 1}, 'all header lines of every length 0..N (quick N=%d, thorough N=%d), each in a heap object of exactly that size', 10)
hdr_unit('ref_response_header_exact', True, 5, 7, {'ALL_LENGTHS': 1}, 'all header lines of every length 0..N (quick N=%d, thorough N=%d) that are not CR/LF-only, each in a heap object of exactly that size', 10)

# ------------------------------------------------------------------------------------------------------
# 1d. cookies, content type, quoted string, chomp, protocol, method table
# ------------------------------------------------------------------------------------------------------
COOKIE_PRE = DUP_PRE + '#define htp_table_get_c c02_stub_get_c\n#define htp_table_create c02_stub_create\n#define htp_table_addn c02_stub_addn\n'
COOKIE_H = r'''
typedef struct { unsigned char a[N]; size_t la; int has_header; int create_fails; } vin_t;
static htp_connp_t c02_connp; static htp_tx_t c02_tx; static htp_cfg_t c02_cfg; static htp_table_t c02_hdrs;
void HARNESS(void) { VIN(vin_t);
  VASSUME(in.la <= N);
  const unsigned char *a = in.a; size_t la = in.la;
  bstr *val = c02_mk_line(a, la, N);
  if (val != NULL) {
    htp_header_t hd; memset(&hd, 0, sizeof(hd)); hd.value = val;
    c02_cfg.log_level = HTP_LOG_NONE; c02_connp.cfg = &c02_cfg; c02_connp.in_tx = &c02_tx; c02_tx.connp = &c02_connp;
    c02_tx.request_headers = &c02_hdrs; c02_tx.request_cookies = NULL;
    c02_ck_headers = &c02_hdrs; c02_ck_header = in.has_header ? &hd : NULL; c02_ck_create_fails = in.create_fails;
    c02_ck_a = a; c02_ck_la = la; c02_ck_pos = 0;
    int rc = htp_parse_cookies_v0(&c02_connp);
    VASSERT(rc == HTP_OK || rc == HTP_ERROR, "cookie parser returns OK or ERROR");
    C02_LINE_UNCHANGED(val, a, la, N);
    VASSERT(c02_ck_get_n == 1, "exactly one header lookup");
    if (!in.has_header) VASSERT(rc == HTP_OK && c02_ck_create_n == 0 && c02_tx.request_cookies == NULL && c02_ck_n == 0, "no Cookie header: nothing created, nothing reported");
    else if (in.create_fails) VASSERT(rc == HTP_ERROR && c02_ck_n == 0, "table allocation failure is reported");
    else {
      VASSERT(c02_ck_create_n == 1 && c02_tx.request_cookies == &c02_ck_table, "the cookie table is created once and attached to the transaction");
      if (rc == HTP_OK) {
        size_t no, nl, vo, vl;
        VASSERT(!lr_next_cookie(a, la, &c02_ck_pos, &no, &nl, &vo, &vl), "every cookie the reference finds was reported (nothing dropped)");
      }
    }
  }
  free(val);
  CANARY(); }'''
UNITS.append(U(
    name='ref_parse_cookies_v0', props=['C02'], kind='bounded', src=['htp_cookies.c'], link=['bstr.c', 'htp_util.c'], replay='vin',
    pre=COOKIE_PRE, contracts_inc=['line_ref.h', 'c02_extract.h'], harness=COOKIE_H,
    defs={'quick': mk({'N': 4, 'C02_COOKIE_STUBS': 1}), 'thorough': {'N': 6}},
    flags_add=['--unwind', '8', '--unwinding-assertions', '--memory-leak-check'], flags_del=['--unsigned-overflow-check'], timeout=(600, 3000),
    bound='all Cookie header values of every length 0..N (quick N=4, thorough N=6) in a buffer of capacity N; with / without Cookie header; table creation failing or not',
    assumes=AB + ['htp_table_get_c / htp_table_create / htp_table_addn are replaced by logging stubs (lookup answers a given header, addn compares the pair it is given with the next cookie of the reference, takes '
                  'ownership and succeeds): wire order = call order; the table itself is C17; a FAILING htp_table_addn is not modelled (its result is ignored by the code: candidate leak, notes/c02.md)'],
    sub='real htp_parse_cookies_v0 + htp_parse_single_cookie_v0: the reported (name, value) pairs, in wire order, are byte-identical sub-ranges of the header value: pieces between ";", '
        'leading white space ignored, name up to the first "=", value the rest; nameless and empty pieces ignored; equality with the independent reference; no leak / over-read'))

UTIL_PRE = '#ifndef VNATIVE\n#define bstr_dup_mem c02_dup_mem_model\n#define bstr_dup_ex c02_dup_ex_model\n#define bstr_alloc c02_alloc_model\n#endif\n'
CT_H = r'''
typedef struct { unsigned char a[N]; size_t la; } vin_t;
void HARNESS(void) { VIN(vin_t);
  VASSUME(in.la <= N);
  const unsigned char *a = in.a; size_t la = in.la;
  bstr *hv = c02_mk_line(a, la, N);
  if (hv != NULL) {
    bstr *ct = NULL;
    int rc = htp_parse_ct_header(hv, &ct);
    VASSERT(rc == HTP_OK || rc == HTP_ERROR, "content-type extractor returns OK or ERROR");
    C02_LINE_UNCHANGED(hv, a, la, N);
    if (rc == HTP_OK) {
      c02_comp_t c; c02_comp_get(ct, la, &c);
      VASSERT(c.has, "OK => a media type is reported");
      VASSERT(c.len == la || a[c.len] == ';' || a[c.len] == ',' || a[c.len] == ' ', "media type ends at the first ';' ',' or SP, or at the end (not truncated)");
      for (size_t i = 0; i < N; i++) if (i < c.len) {
        VASSERT(a[i] != ';' && a[i] != ',' && a[i] != ' ', "no delimiter inside the media type");
        VASSERT(c.b[i] == lr_lower(a[i]), "media type is the lower-cased prefix of the header value (nothing invented)");
      }
      VASSERT(c.len == lr_ct_len(a, la), "length equals the reference");
      bstr_free(ct);
    } else VASSERT(ct == NULL, "ERROR => nothing reported");
  }
  free(hv);
  CANARY(); }'''
UNITS.append(U(
    name='ref_parse_ct_header', props=['C02'], kind='bounded', src=['htp_util.c'], link=['bstr.c'], replay='vin',
    pre=UTIL_PRE, contracts_inc=['line_ref.h', 'c02_extract.h'], harness=CT_H,
    defs={'quick': mk({'N': 10}), 'thorough': {'N': 14}},
    flags_add=['--unwind', '16', '--unwinding-assertions', '--memory-leak-check'], flags_del=['--unsigned-overflow-check'], timeout=(600, 3000),
    bound='all Content-Type values of every length 0..N (quick N=10, thorough N=14) in a buffer of capacity N',
    assumes=AB + ['bstr_dup_ex is modelled like bstr_dup_mem (constant capacity); bstr_to_lowercase is the real code'],
    sub='real htp_parse_ct_header: the media type is the lower-cased prefix of the header value up to the first ";", "," or SP (PHP rule, documented); input unchanged; no leak / over-read'))

QS_H = r'''
typedef struct { unsigned char a[N]; size_t la; int want_end; } vin_t;
void HARNESS(void) { VIN(vin_t);
  VASSUME(in.la <= N);
  const unsigned char *a = in.a; size_t la = in.la;
  unsigned char *d = c02_mk_buf(a, N);
  if (d != NULL) {
    bstr *out = NULL; size_t end = 4711;
    int rc = htp_extract_quoted_string_as_bstr(d, la, &out, in.want_end ? &end : NULL);
    VASSERT(rc == HTP_OK || rc == HTP_DECLINED || rc == HTP_ERROR, "quoted-string extractor returns OK, DECLINED or ERROR");
    for (size_t i = 0; i < N; i++) VASSERT(d[i] == a[i], "the input's bytes are not modified");
    unsigned char ro[N]; size_t rl, rclose;
    int ok = lr_quoted(a, la, ro, &rl, &rclose);
    VASSERT((rc == HTP_DECLINED) == !ok, "DECLINED iff there is no opening or no (unescaped) closing double quote");
    if (rc == HTP_OK) {
      c02_comp_t c; c02_comp_get(out, la, &c);
      VASSERT(c.has && out->len <= out->size, "OK => a string is reported, length within its capacity");
      VASSERT(a[0] == '"', "input starts with a double quote");
      if (in.want_end) { VASSERT(end < la && a[end] == '"' && end >= 1, "endoffset is the position of the closing double quote"); VASSERT(end == rclose, "endoffset equals the reference"); }
      else VASSERT(end == 4711, "endoffset untouched when not requested");
      VASSERT(c.len == rl, "length equals the reference (one byte less per escape)");
      for (size_t i = 0; i < N; i++) if (i < c.len && i < rl) VASSERT(c.b[i] == ro[i], "content equals the reference: bytes between the quotes, backslash removed before an escaped byte");
      bstr_free(out);
    } else VASSERT(out == NULL && end == 4711, "not OK => nothing reported");
  }
  free(d);
  CANARY(); }'''
UNITS.append(U(
    name='ref_extract_quoted_string', props=['C02'], kind='bounded', src=['htp_util.c'], link=['bstr.c'], replay='vin',
    pre=UTIL_PRE, contracts_inc=['line_ref.h', 'c02_extract.h'], harness=QS_H,
    defs={'quick': mk({'N': 8}), 'thorough': {'N': 11}},
    flags_add=['--unwind', '13', '--unwinding-assertions', '--memory-leak-check'], flags_del=['--unsigned-overflow-check'], timeout=(600, 3000),
    bound='all inputs of every length 0..N (quick N=8, thorough N=11) in a buffer of capacity N; endoffset requested or not',
    assumes=AB + ['bstr_alloc is modelled (constant capacity N, size field = requested capacity)'],
    sub='real htp_extract_quoted_string_as_bstr (Digest user name): content between the opening and the first unescaped closing double quote, backslash dropped before an escaped byte; '
        'DECLINED exactly when not well-formed; endoffset = closing quote; written length within the allocated capacity; equality with the independent reference'))

CHOMP_H = r'''
typedef struct { unsigned char a[N]; size_t la; } vin_t;
void HARNESS(void) { VIN(vin_t);
  VASSUME(in.la <= N);
  unsigned char d[N]; for (size_t i = 0; i < N; i++) d[i] = in.a[i];
  size_t l = in.la;
  int r = htp_chomp(d, &l);
  for (size_t i = 0; i < N; i++) VASSERT(d[i] == in.a[i], "htp_chomp does not modify the bytes");
  VASSERT(l == lr_chomp(in.a, in.la), "new length = length without ALL trailing CR / LF bytes");
  VASSERT(r == 0 || r == 1 || r == 2, "return code is 0, 1 or 2");
  VASSERT((r == 0) == (l == in.la), "0 iff nothing was removed");
  /* the code classifies the LEFTMOST removed terminator: 2 = CR LF pair, 1 = lone LF or lone CR; it is NOT the number of removed bytes */
  if (l < in.la) VASSERT(r == ((in.a[l] == 13 && l + 1 < in.la && in.a[l + 1] == 10) ? 2 : 1), "return code classifies the leftmost removed terminator");
  VASSERT(htp_is_line_empty(in.a, in.la) == ((in.la == 1 && (in.a[0] == 13 || in.a[0] == 10)) || (in.la == 2 && in.a[0] == 13 && in.a[1] == 10)), "line_empty: exactly CR, LF or CR LF");
  { int ws = 1; for (size_t i = 0; i < N; i++) if (i < in.la && !lr_isspace(in.a[i])) ws = 0;
    VASSERT(htp_is_line_whitespace(in.a, in.la) == ws, "line_whitespace: every byte is white space"); }
  VASSERT(htp_connp_is_line_folded(in.a, in.la) == (in.la == 0 ? -1 : (in.a[0] == ' ' || in.a[0] == '\t' || in.a[0] == 0)), "line_folded: first byte is SP, HT (or NUL, documented folding char); -1 on an empty line");
  CANARY(); }'''
UNITS.append(U(
    name='ref_chomp_line_predicates', props=['C02'], kind='bounded', src=['htp_util.c'], link=['bstr.c'], replay='vin',
    contracts_inc=['line_ref.h', 'c02_extract.h'], harness=CHOMP_H, defs={'quick': mk({'N': 10}), 'thorough': {'N': 16}},
    flags_add=['--unwind', '18', '--unwinding-assertions'], flags_del=['--unsigned-overflow-check'], timeout=(300, 1500),
    bound='all lines of every length 0..N (quick N=10, thorough N=16)', assumes=['bounded: lines of length <= N over all byte values'],
    sub='real htp_chomp: removes exactly the trailing CR / LF run, bytes untouched, return code 0 iff nothing removed and otherwise the class of the leftmost removed terminator '
        '(not a byte count); htp_is_line_empty / htp_is_line_whitespace / htp_connp_is_line_folded equal their documented meaning'))

# htp_parse_protocol is loop-free: full domain (any length, inline or wrapped string, NULL)
PROTO_H = r'''
void HARNESS(void) {
  unsigned char buf[sizeof(bstr) + 8]; unsigned char ext[8]; _Bool wrapped; size_t len; _Bool isnull;
  bstr *b = (bstr *) buf;
  b->len = len; b->size = len; b->realptr = wrapped ? ext : NULL;
  const unsigned char *t = wrapped ? ext : buf + sizeof(bstr);
  int r = htp_parse_protocol(isnull ? NULL : b);
  if (isnull) VASSERT(r == HTP_PROTOCOL_INVALID, "NULL => INVALID");
  else if (len == 8 && t[0] == 'H' && t[1] == 'T' && t[2] == 'T' && t[3] == 'P' && t[4] == '/' && t[6] == '.' && t[5] == '1' && t[7] == '1') VASSERT(r == HTP_PROTOCOL_1_1, "\"HTTP/1.1\" => 1.1");
  else if (len == 8 && t[0] == 'H' && t[1] == 'T' && t[2] == 'T' && t[3] == 'P' && t[4] == '/' && t[6] == '.' && t[5] == '1' && t[7] == '0') VASSERT(r == HTP_PROTOCOL_1_0, "\"HTTP/1.0\" => 1.0");
  else if (len == 8 && t[0] == 'H' && t[1] == 'T' && t[2] == 'T' && t[3] == 'P' && t[4] == '/' && t[6] == '.' && t[5] == '0' && t[7] == '9') VASSERT(r == HTP_PROTOCOL_0_9, "\"HTTP/0.9\" => 0.9");
  else VASSERT(r == HTP_PROTOCOL_INVALID, "anything else (any other length included) => INVALID");
  if (!isnull && len == 8) VASSERT(r == lr_protocol(t, 8), "equals the reference used by the line units");
  VASSERT(LR_PROTOCOL_INVALID == HTP_PROTOCOL_INVALID && LR_PROTOCOL_0_9 == HTP_PROTOCOL_0_9 && LR_PROTOCOL_1_0 == HTP_PROTOCOL_1_0 && LR_PROTOCOL_1_1 == HTP_PROTOCOL_1_1 &&
          LR_FIELD_UNPARSEABLE == HTP_FIELD_UNPARSEABLE && LR_FIELD_INVALID == HTP_FIELD_INVALID, "the reference's constants are the library's");
  CANARY(); }'''
UNITS.append(U(
    name='htp_parse_protocol_lemma', props=['C02', 'C01'], kind='lemma', src=['htp_parsers.c'], contracts_inc=['line_ref.h', 'c02_extract.h'], harness=PROTO_H,
    flags_add=['--unwind', '10', '--unwinding-assertions'], min_obl=8,
    assumes=['full domain: the string header is arbitrary (any length, inline or wrapped); the function is loop-free and reads the 8 bytes only when len == 8 '
             '(the unwinding bound only serves the reference lr_protocol on 8 bytes)'],
    sub='htp_parse_protocol (loop-free, full domain): exactly "HTTP/1.1", "HTTP/1.0", "HTTP/0.9" map to their numbers, every other string of any length and NULL to HTP_PROTOCOL_INVALID; '
        'no read unless the length is 8'))

METHOD_H = r'''
typedef struct { unsigned char a[N]; size_t la; } vin_t;
void HARNESS(void) { VIN(vin_t);
  VASSUME(in.la <= N);
  /* the reference table maps every documented method name to its enum htp_method_t number (literals: decided by constant folding);
     the real function equals the reference on ALL strings of length <= N below, which includes each of these names */
#define M(s, num) VASSERT((int) (num) == lr_method_number((const unsigned char *) s, sizeof(s) - 1), "reference table: documented method " s " has number " #num);
  M("HEAD", HTP_M_HEAD) M("GET", HTP_M_GET) M("PUT", HTP_M_PUT) M("POST", HTP_M_POST) M("DELETE", HTP_M_DELETE) M("CONNECT", HTP_M_CONNECT) M("OPTIONS", HTP_M_OPTIONS)
  M("TRACE", HTP_M_TRACE) M("PATCH", HTP_M_PATCH) M("PROPFIND", HTP_M_PROPFIND) M("PROPPATCH", HTP_M_PROPPATCH) M("MKCOL", HTP_M_MKCOL) M("COPY", HTP_M_COPY) M("MOVE", HTP_M_MOVE)
  M("LOCK", HTP_M_LOCK) M("UNLOCK", HTP_M_UNLOCK) M("VERSION-CONTROL", HTP_M_VERSION_CONTROL) M("CHECKOUT", HTP_M_CHECKOUT) M("UNCHECKOUT", HTP_M_UNCHECKOUT) M("CHECKIN", HTP_M_CHECKIN)
  M("UPDATE", HTP_M_UPDATE) M("LABEL", HTP_M_LABEL) M("REPORT", HTP_M_REPORT) M("MKWORKSPACE", HTP_M_MKWORKSPACE) M("MKACTIVITY", HTP_M_MKACTIVITY)
  M("BASELINE-CONTROL", HTP_M_BASELINE_CONTROL) M("MERGE", HTP_M_MERGE) M("INVALID", HTP_M_INVALID)
  VASSERT(htp_convert_method_to_number(NULL) == HTP_M_UNKNOWN, "NULL => UNKNOWN");
  /* anything else: equality with the reference table on all strings of length <= N (N >= 17 covers one byte more than the longest name) */
  bstr *b = c02_mk_line(in.a, in.la, N);
  if (b != NULL) {
    int r = htp_convert_method_to_number(b);
    int e = lr_method_number(in.a, in.la);
    VASSERT(r == e, "method number equals the reference table: a documented name (case-sensitive, exact) or HTP_M_UNKNOWN");
    VASSERT(r >= HTP_M_UNKNOWN && r <= HTP_M_INVALID, "result is a member of enum htp_method_t");
    free(b);
  }
  CANARY(); }'''
UNITS.append(U(
    name='ref_convert_method_to_number', props=['C02'], kind='bounded', src=['htp_util.c'], link=['bstr.c'], replay='vin',
    contracts_inc=['line_ref.h', 'c02_extract.h'], harness=METHOD_H, defs={'quick': mk({'N': 17}), 'thorough': {'N': 20}},
    flags_add=['--unwind', '30', '--unwinding-assertions', '--memory-leak-check'], flags_del=['--unsigned-overflow-check'], timeout=(600, 3000),
    bound='all strings of every length 0..N (quick N=17, thorough N=20; the longest documented name has 16 bytes, so every documented name is inside the domain)',
    assumes=['bounded: strings of length <= N over all byte values; real bstr_cmp_c / bstr_util_cmp_mem (bstr.c linked)'],
    sub='real htp_convert_method_to_number: each of the 28 documented method names maps to its enum htp_method_t number, NULL and every other string (case differences, prefixes, '
        'extensions included) to HTP_M_UNKNOWN'))

# ======================================================================================================
# 2. contract units (dfcc, symbolic length)
# ======================================================================================================
CD = {'quick': {'VCAP': 1024, 'C02_CONTRACTS': 1}, 'thorough': {'VCAP': 65536}}
AC = ['line length <= VCAP (symbolic); objects are fresh and disjoint']


def cu(name, src, harness, loops, sub, props=('C02', 'C01'), replace=(), link=(), defs=CD, assumes=AC, **kw):
    UNITS.append(U(name=name, props=list(props), kind='contract', src=[src], enforce=name, contracts_inc=['c02_extract.h'], replace=list(replace), link=list(link),
                   loops={src: {name: loops}} if loops else {}, harness=harness, defs=defs, sub=sub, assumes=assumes, **kw))


cu('htp_chomp', 'htp_util.c', 'void HARNESS(void) { unsigned char *d; size_t *l; htp_chomp(d, l); CANARY(); }',
   {'count': 1, 0: dict(assigns='*len, r', inv=['*len <= g_c02_len0', 'r >= 0 && r <= 2', '(r == 0) == (*len == g_c02_len0)',
                                                 '(gk >= *len && gk < g_c02_len0) ==> C02_ISCRLF(data[gk])',
                                                 '(gj >= *len && gj < g_c02_len0) ==> C02_ISCRLF(data[gj])'], dec='*len')},
   'htp_chomp, any length: only the length is written; it shrinks by exactly the trailing CR / LF run (everything cut is CR or LF, the new last byte is neither); '
   'result 0..2 and 0 iff nothing was removed; termination', min_obl=20)
cu('htp_is_line_empty', 'htp_util.c', 'void HARNESS(void) { unsigned char *d; size_t l; htp_is_line_empty(d, l); CANARY(); }', None,
   'htp_is_line_empty (loop-free): 1 exactly for CR, LF and CR LF; no read beyond the length', min_obl=8)
cu('htp_is_line_whitespace', 'htp_util.c', 'void HARNESS(void) { unsigned char *d; size_t l; htp_is_line_whitespace(d, l); CANARY(); }',
   {'count': 1, 0: dict(assigns='i', inv=['i <= len', '(gk < i) ==> ISSP(data[gk])'], dec='len - i')},
   'htp_is_line_whitespace, any length: 1 iff every byte is white space (isspace set); termination', min_obl=15)
cu('htp_connp_is_line_folded', 'htp_util.c', 'void HARNESS(void) { unsigned char *d; size_t l; htp_connp_is_line_folded(d, l); CANARY(); }', None,
   'htp_connp_is_line_folded (loop-free): -1 on NULL / empty, else 1 iff the first byte is SP, HT or NUL (documented folding characters); reads only data[0]', min_obl=8)

GROW = ['(h->flags & __CPROVER_loop_entry(h->flags)) == __CPROVER_loop_entry(h->flags)',
        '(connp->out_tx->flags & __CPROVER_loop_entry(connp->out_tx->flags)) == __CPROVER_loop_entry(connp->out_tx->flags)']
RH_LOOPS = {'count': 6,
    0: dict(assigns='colon_pos', inv=['colon_pos <= len', '(gk < colon_pos) ==> data[gk] != 58'], dec='len - colon_pos'),
    1: dict(assigns='prev, name_end, h->flags, connp->out_tx->flags',
            inv=['prev == name_end', 'name_end <= colon_pos', '(gk >= name_end && gk < colon_pos) ==> ISSP(data[gk])'] + GROW, dec='prev'),
    2: dict(assigns='value_start', inv=['value_start <= len', 'name_end <= value_start', '(gk >= name_end && gk < value_start) ==> (data[gk] == 58 || ISSP(data[gk]))'],
            dec='len - value_start'),
    3: dict(assigns='i, h->flags, connp->out_tx->flags', inv=['i <= name_end'] + GROW, dec='name_end - i'),
    4: dict(assigns='i', inv=['i >= value_start', 'i <= value_end'], dec='value_end - i'),
    5: dict(assigns='prev, value_end', inv=['value_end <= len', 'value_end >= 1', 'prev == value_end - 1', 'value_start <= value_end',
                                           '(gk >= value_end && gk < len) ==> ISLWS(data[gk])'], dec='prev')}
cu('htp_parse_response_header_generic', 'htp_response_generic.c',
   'void HARNESS(void) { htp_connp_t *c; htp_header_t *h; unsigned char *d; size_t n; htp_parse_response_header_generic(c, h, d, n); CANARY(); }',
   RH_LOOPS,
   'htp_parse_response_header_generic for lines of ANY length: memory safety, termination; exactly two duplications, each source range inside the input line (asserted at the call), '
   'name at offset 0 and before the value; every byte of the line outside the two reported ranges is a colon, white space or a line terminator (nothing dropped); '
   'OK iff no allocation failed, then the header owns both copies; on ERROR every copy is released exactly once; flags only grow; frame = the header and the transaction flags',
   props=('C02', 'C01', 'C18'), link=['htp_util.c'],
   replace=['htp_chomp/contract_c02_chomp_site', 'htp_log/contract_c02_htp_log', 'bstr_dup_mem/contract_c02_dup_mem', 'bstr_free/contract_c02_bstr_free'],
   defs={'quick': {'VCAP': 64, 'C02_CONTRACTS': 1}, 'thorough': {'VCAP': 256}}, min_obl=100, timeout=(300, 1500),
   assumes=['input: heap object of constant size VCAP, symbolic line length <= VCAP, only read',
            'htp_chomp replaced by its contract (unit htp_chomp); htp_log replaced by a no-op contract; bstr_dup_mem replaced by the provenance-logging stub contract_c02_dup_mem '
            '(precondition "source range lies inside the input line" asserted at every call; that the copy is byte-identical is C17 + the bounded units); bstr_free by an ownership-logging stub',
            'htp_is_space / htp_is_lws / htp_is_token: the real code (htp_util.c linked)',
            'KNOWN_F_C02_RESP_HDR_LEN0 (default on): the line is not empty after removing CR / LF (finding F1)'])

# ---- Basic credentials: user-id = bytes before the FIRST colon of the decoded text, password = everything after it (RFC 7617) ----
AB_H = r'''
typedef struct { unsigned char dec[N]; size_t dl; unsigned char ws; } vin_t;
static unsigned char ab_dec[N]; static size_t ab_dl; static int ab_calls;
/* stand-in for the base64 decoder: answers with the harness' decoded text (any bytes, length 1..N), allocation may fail.
 * The real decoder is a separate unit (c18_base64_decode_mem); what is checked here is the SPLIT of the decoded text. */
bstr *v_stub_b64(const void *data, size_t len) { ab_calls++; return bstr_dup_mem(ab_dec, ab_dl); }
static struct { bstr b; unsigned char d[12]; } ab_val;
void HARNESS(void) { VIN(vin_t);
  VASSUME(in.dl >= 1 && in.dl <= N);
  static htp_connp_t C; static htp_tx_t TX; static htp_header_t H;
  for (size_t i = 0; i < N; i++) ab_dec[i] = in.dec[i];
  ab_dl = in.dl; ab_calls = 0;
  memcpy(ab_val.d, (in.ws & 1) ? "Basic  QUJD" : "Basic QUJDRA", 12); ab_val.b.len = 11 + !(in.ws & 1); ab_val.b.size = 12; ab_val.b.realptr = NULL;
  C.in_tx = &TX; TX.connp = &C; H.value = &ab_val.b;
  int rc = htp_parse_authorization_basic(&C, &H);
  VASSERT(rc == HTP_OK || rc == HTP_DECLINED || rc == HTP_ERROR, "documented return codes");
  VASSERT(ab_calls == 1, "the credentials text is decoded once");
  size_t colon = N; for (size_t i = N; i-- > 0; ) if (i < in.dl && in.dec[i] == ':') colon = i;      /* FIRST colon (RFC 7617: the user-id cannot contain one, the password may) */
  VASSERT((rc == HTP_DECLINED) ==> 1, "");
  if (rc == HTP_DECLINED) VASSERT(colon == N, "DECLINED only when the decoded text has no colon");
  if (rc == HTP_OK) {
    VASSERT(colon < N, "OK only when the decoded text has a colon");
    bstr *u = TX.request_auth_username, *p = TX.request_auth_password;
    VASSERT(u != NULL && p != NULL, "OK: both credentials reported");
    if (u != NULL && p != NULL && colon < N) {
      VASSERT(bstr_len(u) == colon, "user-id = the bytes before the FIRST colon (length)");
      VASSERT(bstr_len(p) == in.dl - colon - 1, "password = everything after the first colon, further colons included (length)");
      for (size_t i = 0; i < N; i++) if (i < colon && i < bstr_len(u)) VASSERT(bstr_ptr(u)[i] == in.dec[i], "user-id bytes as sent");
      for (size_t i = 0; i < N; i++) if (colon + 1 + i < in.dl && i < bstr_len(p)) VASSERT(bstr_ptr(p)[i] == in.dec[colon + 1 + i], "password bytes as sent");
    }
  } else VASSERT(TX.request_auth_username == NULL && TX.request_auth_password == NULL, "no credentials reported unless OK");
  bstr_free(TX.request_auth_username); bstr_free(TX.request_auth_password);
  TX.request_auth_username = NULL; TX.request_auth_password = NULL;
  CANARY(); }'''
UNITS.append(U(
    name='ref_authorization_basic_split', props=['C02'], kind='bounded', src=['htp_parsers.c'], link=['bstr.c'], replay='vin',
    pre='#define htp_base64_decode_mem v_stub_b64\n', harness=AB_H.replace('  VASSERT((rc == HTP_DECLINED) ==> 1, "");\n', ''),
    defs={'quick': {'N': 6}, 'thorough': {'N': 10}},
    flags_add=['--unwind', '14', '--unwinding-assertions', '--memory-leak-check'], flags_del=['--unsigned-overflow-check'], timeout=(600, 3000),
    bound='all decoded credential texts of every length 1..N (quick N=6, thorough N=10) over all byte values; header value "Basic" + one or two spaces + base64 text',
    assumes=['htp_base64_decode_mem replaced by a stand-in that returns the harness\' decoded text (the split, not base64, is under test); every allocation may fail'],
    sub='real htp_parse_authorization_basic: user-id = bytes before the FIRST colon of the decoded text, password = all bytes after it (RFC 7617), DECLINED iff there is no colon; '
        'nothing reported unless OK; no leak'))

# ---- small line predicates that decide what a line IS (header-block terminator, ignorable line, folding, status-line heuristic) ----
LP_H = r'''
typedef struct { unsigned char a[N]; size_t la; unsigned char pers; int next_no_lf; int c; } vin_t;
static htp_connp_t LC; static htp_cfg_t LCFG;
static int lp_ws(unsigned char c) { return c == 0x20 || (c >= 0x09 && c <= 0x0d); }
void HARNESS(void) { VIN(vin_t);
  VASSUME(in.la <= N);
  unsigned char *d = c02_mk_buf(in.a, N);
  if (d == NULL) return;
  LC.cfg = &LCFG; LCFG.server_personality = (in.pers & 1) ? HTP_SERVER_IIS_5_1 : HTP_SERVER_APACHE_2;
  /* reference, from the comments in the source: an empty line (CR LF / LF / CR) ends the header block; IIS 5.1 also accepts a line of white space only;
     a line of ONE linear-white-space byte + LF ends it only when the caller says that no LF follows right away */
  int empty = (in.la == 1 && (in.a[0] == '\n' || in.a[0] == '\r')) || (in.la == 2 && in.a[0] == '\r' && in.a[1] == '\n');
  int allws = 1; for (size_t i = 0; i < N; i++) if (i < in.la && !lp_ws(in.a[i])) allws = 0;
  int lwslf = in.la == 2 && (in.a[0] == ' ' || in.a[0] == '\t') && in.a[1] == '\n';
  int want = ((in.pers & 1) && allws) ? 1 : empty ? 1 : lwslf ? in.next_no_lf : 0;
  VASSERT(htp_connp_is_line_terminator(&LC, d, in.la, in.next_no_lf) == want, "header-block terminator equals the documented rule");
  int wanti = ((in.pers & 1) && allws) ? 1 : empty ? 1 : 0;
  VASSERT(htp_connp_is_line_ignorable(&LC, d, in.la) == wanti, "ignorable line (before a request/status line) equals the documented rule");
  VASSERT(htp_is_folding_char(in.c) == (in.c == ' ' || in.c == '\t' || in.c == 0), "folding characters are SP, HT and NUL; in particular -1 (no byte available) is not one");
  /* status-line heuristic (source comment: Firefox (?i)^\s*http): body unless the line, after leading white space / NUL bytes, starts with "http" in any letter case */
  size_t p = 0; while (p < in.la && (lp_ws(in.a[p]) || in.a[p] == 0)) p++;
  int looks = p + 4 <= in.la && (in.a[p] | 0x20) == 'h' && (in.a[p + 1] | 0x20) == 't' && (in.a[p + 2] | 0x20) == 't' && (in.a[p + 3] | 0x20) == 'p';
  VASSERT(htp_treat_response_line_as_body(d, in.la) == !looks, "a line is taken for a status line iff it starts (after white space / NUL) with http in any case");
  VASSERT(htp_treat_response_line_as_body(NULL, 0) == 1, "no line at all is body");
  for (size_t i = 0; i < N; i++) VASSERT(d[i] == in.a[i], "the line is not modified");
  free(d);
  CANARY(); }'''
UNITS.append(U(
    name='ref_line_class_predicates', props=['C02', 'C03', 'C06'], kind='bounded', src=['htp_util.c'], link=['bstr.c'], replay='vin',
    pre=UTIL_PRE, contracts_inc=['line_ref.h', 'c02_extract.h'], harness=LP_H,
    defs={'quick': mk({'N': 6}), 'thorough': {'N': 9}},
    flags_add=['--unwind', '12', '--unwinding-assertions', '--memory-leak-check'], flags_del=['--unsigned-overflow-check'], timeout=(300, 1200),
    bound='all lines of every length 0..N (quick N=6, thorough N=9) over all byte values; two personalities (IIS 5.1 and a generic one); any int for the folding test',
    assumes=AB,
    sub='real htp_connp_is_line_terminator / htp_connp_is_line_ignorable / htp_is_folding_char / htp_treat_response_line_as_body equal their documented meaning '
        '(these decide where a header block ends, which lines are skipped, what continues a header and whether bytes after a response are a status line or body)'))
