from vrun import U

UNITS = []

# ---- unit 1: the two (static) decompressor sinks of the transaction layer -------------------------------------------
D1 = {'quick': {'CHUNK_CAP': 4096, 'C07_UNIT_CALLBACK': 1}, 'thorough': {'CHUNK_CAP': 1048576}}
A1 = ['hook runner htp_req/res_run_hook_body_data replaced by the logging stub of sm.h (any return code); user callbacks are outside the proof',
      'gettimeofday and htp_timer_track replaced by frame stubs (any clock): the time-limit switch to passthrough is not part of the byte bound',
      'entry: entity length in [0, 2^62], compressed (message) length in [0, INT64_MAX/2048] (beyond that the code\'s own 2048*len overflows int64), block length <= CHUNK_CAP, nb_callbacks < UINT32_MAX (reset per body-data call)',
      '"compressed length" is tx->{request,response}_message_len as the code maintains it: all body bytes seen so far INCLUDING chunked-framing lines (deviation from the statement, see notes/c07.md)']
for d, dec, enc in (('res', 'out_decompressor', 'response'), ('req', 'req_decompressor', 'request')):
    fn = 'htp_tx_%s_process_body_data_decompressor_callback' % d
    UNITS.append(U(name='c07_%s_callback' % d, props=['C07', 'C01'], kind='contract', src=['htp_transaction.c'], enforce=fn,
                   replace=['htp_%s_run_hook_body_data' % d, 'htp_log/contract_c07_htp_log', 'gettimeofday', 'htp_timer_track'],
                   contracts_inc=['sm.h', 'c07_decomp.h'],
                   harness='void HARNESS(void) { htp_tx_data_t *d; %s(d); CANARY(); }' % fn,
                   defs=D1, min_obl=40, assumes=A1,
                   sub='%s decompressor sink: entity_len += d->len; the hooks see exactly (d->data, d->len, tx) once; HTP_OK <=> hooks OK and entity_len <= max(compression_bomb_limit, 2048*message_len); outside the bound => HTP_ERROR and nothing else (frame)' % enc))

# ---- unit 2: the inflate loop ---------------------------------------------------------------------------------------------
D2 = {'quick': {'C07_UNIT_DECOMPRESS': 1, 'C07_INCAP': 65536, 'C07_RESTART_MIN': 3}, 'thorough': {'C07_INCAP': '((size_t) UINT32_MAX + 4096)'}}
ZSTUBS = ['inflate', 'inflateInit2_', 'inflateEnd', 'crc32', 'LzmaDec_Allocate', 'LzmaDec_Init', 'LzmaDec_Free', 'LzmaDec_DecodeToBuf']
A2 = ['zlib (inflate, inflateInit2_, inflateEnd, crc32) and the LZMA SDK (LzmaDec_Allocate/Init/Free/DecodeToBuf) replaced by frame contracts: they consume a prefix of the input window, fill a prefix of the output window and return ANY code; their call-site requirements (valid windows) are proved',
      'for the variant only: inflate == Z_OK / LzmaDec_DecodeToBuf == SZ_OK implies progress (input consumed or output produced), and the sink accepts a bounded number of bytes per call (ghost budget = the bomb inequality of unit 1 with message_len fixed during the call)',
      'downstream sink (drec->super.callback) replaced by a stub returning any status; single / innermost layer (next == NULL): the recursive next-layer call is unreachable in this unit (dfcc asserts no_recursive_call); an outer layer hands its buffers to the next layer through the same three call sites, see notes/c07.md',
      'the `goto restart` back edge (no loop-contract syntax exists for goto loops) is unwound (4 - restart_min) times before contract instrumentation; the unwinding assertion is part of the obligations, so the bound is proved from the restart counter, not assumed',
      'input chunk <= C07_INCAP bytes; decompressor object well-formed on entry (output cursor inside the 8 KiB buffer, zlib_initialized in 0..4, header_len <= 14) - re-established on every exit (P0)',
      'KNOWN_F_C07_STALE_REDELIVERY is NO LONGER defined (fixed in /repo 9249f2d): obligation S4 is claimed in full. Historic note - with the macro: obligation S4 (no non-empty delivery on a stream that was dead on entry) is claimed only when the output window is not full / at end-of-body empty; the probe run without the macro fails (finding c07_stale_buffer_redelivery)']
LOOP2 = dict(
    assigns='consumed, rc, callback_rc, drec->stream, drec->crc, drec->header, drec->header_len, drec->state, '
            'g_c07_cb, g_c07_cb_failed, g_c07_cb_rc, g_c07_cb_ptr, g_c07_cb_len, g_c07_budget',
    inv=['C07_OUT_OK(drec)', 'C07_IN_OK(drec, d)', 'drec->header_len <= LZMA_PROPS_SIZE + 9',
         '(drec->zlib_initialized == HTP_COMPRESSION_LZMA && drec->header_len < LZMA_PROPS_SIZE + 8 && drec->stream.avail_in != 0) ==> drec->stream.avail_in == d->len',
         'drec->zlib_initialized == HTP_COMPRESSION_LZMA ==> rc == 0',
         'g_c07_cb_failed == 0', 'C07_INV_DEAD(drec)'],
    dec='drec->stream.avail_in, g_c07_budget, drec->stream.avail_out')
for nm, rmin, th in (('c07_decompress', 3, False),):  # rmin = 2 (one re-entry, unwind 2) was tried: dfcc then attributes the error path to the inner loop (frame failures), see notes
    D2x = {'quick': dict(D2['quick'], C07_RESTART_MIN=rmin), 'thorough': D2['thorough']}
    UNITS.append(U(name=nm, props=['C07', 'C01'], kind='contract', src=['htp_decompressors.c'], enforce='htp_gzip_decompressor_decompress',
                   replace=['c07_sink'] + ZSTUBS + ['htp_gzip_decompressor_restart', 'memcpy/contract_c07_memcpy', 'htp_log/contract_c07_htp_log'],
                   contracts_inc=['c07_decomp.h'], thorough_only=th,
                   pre_instrument=['--unwindset', 'htp_gzip_decompressor_decompress.0:%d' % (4 - rmin), '--unwinding-assertions'],
                   loops={'htp_decompressors.c': {'htp_gzip_decompressor_decompress': {'count': 1, 0: LOOP2}}},
                   harness='void HARNESS(void) { htp_decompressor_t *z; htp_tx_data_t *d; htp_gzip_decompressor_decompress(z, d); CANARY(); }',
                   defs=D2x, min_obl=200, timeout=(150, 600), objbits=12,
                   assumes=A2 + ['entry: drec->restart >= %d, i.e. at most %d re-entries through `goto restart` in this call' % (rmin, 3 - rmin)],
                   sub='one decompressor layer, any zlib/LZMA behaviour, restart counter >= %d on entry: every delivery is <= 8192 bytes of the own buffer, the untouched input, or the empty end marker; a refused delivery ends the call at once (non-OK, no further delivery, stream dead); dead stream + input => ERROR and no delivery; passthrough delivers the input once; all buffer arithmetic memory-safe; the inflate loop terminates' % rmin))

# the two helpers that c07_decompress replaces by contracts, enforced on the real code
UNITS.append(U(name='c07_restart', props=['C07', 'C01'], kind='contract', src=['htp_decompressors.c'], enforce='htp_gzip_decompressor_restart',
               contract='contract_real_htp_gzip_decompressor_restart', replace=['inflateInit2_', 'htp_gzip_decompressor_probe'],
               contracts_inc=['c07_decomp.h'], defs=D2, min_obl=30,
               harness='void HARNESS(void) { htp_decompressor_gzip_t *z; const unsigned char *p; size_t n; size_t *c; htp_gzip_decompressor_restart(z, p, n, c); CANARY(); }',
               assumes=['inflateInit2_ replaced by a frame contract (any result, cursors untouched); probe replaced by its contract (enforced by c07_probe)'],
               sub='restart heuristics: returns 1 only while the restart counter is < 3 and then increments it (at most 3 restarts per decompressor, hence termination of the `goto restart` loop); never moves the zlib cursors; *consumed_back <= data_len; only switches gzip <-> raw deflate'))
UNITS.append(U(name='c07_probe', props=['C07', 'C01'], kind='contract', src=['htp_decompressors.c'], enforce='htp_gzip_decompressor_probe',
               contract='contract_real_htp_gzip_decompressor_probe', contracts_inc=['c07_decomp.h'], defs=D2, min_obl=10,
               loops={'htp_decompressors.c': {'htp_gzip_decompressor_probe': {'count': 1, 0: dict(
                   assigns='len', inv=['len >= 10', 'len <= data_len || len == 10'], dec='(len <= data_len ? data_len - len : 0)')}}},
               harness='void HARNESS(void) { const unsigned char *p; size_t n; htp_gzip_decompressor_probe(p, n); CANARY(); }',
               sub='gzip header probe: reads only inside the chunk, skip count <= chunk length, terminates'))

UNITS.append(U(name='c07_create', props=['C07', 'C18', 'C01'], kind='contract', src=['htp_decompressors.c'], enforce='htp_gzip_decompressor_create',
               replace=['inflateInit2_', 'inflateEnd', 'htp_log/contract_c07_htp_log'], contracts_inc=['c07_decomp.h'], defs=D2, min_obl=30,
               harness='void HARNESS(void) { htp_connp_t *c; enum htp_content_encoding_t f; htp_gzip_decompressor_create(c, f); CANARY(); }',
               assumes=['inflateInit2_ / inflateEnd replaced by frame contracts (any result); calloc / malloc may fail'],
               sub='factory: NULL or an object satisfying the invariant c07_decompress requires (cursor at the start of a fresh 8 KiB buffer, coding recorded, restart 0, unlinked); only gzip / deflate / lzma yield an object; LZMA with lzma_memlimit == 0 or response_lzma_layer_limit <= 0 is created in passthrough mode (no LZMA layer applied)'))

# ---- unit 3: building the response decompressor chain ------------------------------------------------------------------------
# (a dfcc contract unit with the loop unwound needed > 300 s; the loop carries a moving heap pointer `comp`, for which no loop
#  invariant can be written - pointer_equals is not allowed in invariants -, so this is a plain bounded harness over the real code)
CHAIN_POST = r"""
static htp_decompressor_t *c07_objs[8]; static int c07_freed[8]; static int c07_made, c07_made_lzma, c07_failed, c07_fmt_bad, c07_alien;
static htp_header_t *c07_hdr;
int nondet_int(void);
htp_decompressor_t *htp_gzip_decompressor_create(htp_connp_t *connp, enum htp_content_encoding_t format) {
  if (format != HTP_COMPRESSION_GZIP && format != HTP_COMPRESSION_DEFLATE && format != HTP_COMPRESSION_LZMA) c07_fmt_bad = 1;
  if (nondet_int() || c07_made >= 8) { c07_failed = 1; return NULL; }
  htp_decompressor_t *z = calloc(1, sizeof(htp_decompressor_gzip_t));
  if (z == NULL) { c07_failed = 1; return NULL; }
  c07_objs[c07_made++] = z; if (format == HTP_COMPRESSION_LZMA) c07_made_lzma++;
  return z; }
void htp_gzip_decompressor_destroy(htp_decompressor_t *z) {
  int found = 0;
  for (int i = 0; i < 8; i++) if (i < c07_made && c07_objs[i] == z) { VASSERT(!c07_freed[i], "C18 no layer is destroyed twice"); c07_freed[i] = 1; found = 1; }
  if (!found) c07_alien = 1;
  free(z); }
void *htp_table_get_c(const htp_table_t *t, const char *k) { return c07_hdr; }
int bstr_cmp_c_nocasenorzero(const bstr *b, const char *c) { return nondet_int(); }
int bstr_util_cmp_mem(const void *a, size_t la, const void *b, size_t lb) { return nondet_int(); }
int bstr_util_mem_index_of_c_nocase(const void *a, size_t la, const char *c) { return nondet_int(); }
htp_status_t htp_connp_res_receiver_finalize_clear(htp_connp_t *c) { return nondet_int(); }
htp_status_t htp_hook_run_all(htp_hook_t *h, void *u) { ((htp_tx_t *) u)->response_content_encoding_processing = (enum htp_content_encoding_t) nondet_int(); return nondet_int(); }
void htp_log(htp_connp_t *connp, const char *file, int line, enum htp_log_level_t level, int code, const char *fmt, ...) { }
"""
CHAIN_H = r"""typedef struct { unsigned char v[C07_N]; size_t lv; int limit; int lzlimit; int enabled; int have_ce; } vin_t;
void HARNESS(void) { VIN(vin_t);
  VASSUME(in.lv <= C07_N && in.limit >= 0 && in.limit <= 8);
  htp_cfg_t *cfg = malloc(sizeof(*cfg)); htp_connp_t *connp = malloc(sizeof(*connp)); htp_tx_t *tx = malloc(sizeof(*tx));
  bstr *val = malloc(sizeof(bstr) + C07_N); htp_header_t *h = malloc(sizeof(*h));
  VASSUME(cfg != NULL && connp != NULL && tx != NULL && val != NULL && h != NULL);
  cfg->response_decompression_layer_limit = in.limit; cfg->response_lzma_layer_limit = in.lzlimit; cfg->response_decompression_enabled = in.enabled;
  connp->cfg = cfg; connp->out_decompressor = NULL; tx->connp = connp;
  val->len = in.lv; val->size = C07_N; val->realptr = NULL; for (int i = 0; i < C07_N; i++) ((unsigned char *) val + sizeof(bstr))[i] = in.v[i];
  h->value = val; c07_hdr = in.have_ce ? h : NULL;
  htp_status_t rc = htp_tx_state_response_headers(tx);
  VASSERT(in.limit == 0 || c07_made <= in.limit, "C07 layers created <= response_decompression_layer_limit");
  VASSERT(c07_made_lzma <= 1 || c07_made_lzma <= in.lzlimit, "C07 LZMA layers <= response_lzma_layer_limit (coding list)");
  VASSERT(!(c07_made >= 2 && c07_made_lzma >= 1) || c07_made_lzma <= in.lzlimit, "C07 LZMA layer inside a coding list only within response_lzma_layer_limit");
  VASSERT(!c07_fmt_bad, "C07 the factory is only asked for gzip / deflate / lzma");
  VASSERT(!c07_failed || rc == HTP_ERROR, "C07 a failed layer creation is reported as HTP_ERROR");
  /* every created layer is linked from connp->out_decompressor in creation order with the response sink as callback */
  htp_decompressor_t *p = connp->out_decompressor; int n = 0;
  for (int i = 0; i < 8; i++) if (p != NULL) { VASSERT(i < c07_made && p == c07_objs[i], "C18 chain holds exactly the created layers, in order");
      VASSERT(p->callback == htp_tx_res_process_body_data_decompressor_callback, "C07 every layer delivers into the bomb-checking sink"); n++; p = p->next; }
  VASSERT(p == NULL && n == c07_made, "C18 no created layer is unreachable (also after a failed creation)");
  /* tear-down by the real owner: everything freed exactly once */
  htp_tx_res_destroy_decompressors(connp);
  for (int i = 0; i < 8; i++) VASSERT(i >= c07_made || c07_freed[i], "C18 every created layer is destroyed");
  VASSERT(!c07_alien && connp->out_decompressor == NULL, "C18 only created layers are destroyed; chain head cleared");
  free(h); free(val); free(tx); free(connp); free(cfg);
  CANARY(); }"""
UNITS.append(U(name='c07_chain', props=['C07', 'C18', 'C01'], kind='bounded', src=['htp_transaction.c'], post=CHAIN_POST, harness=CHAIN_H,
               defs={'quick': {'C07_N': 6}, 'thorough': {'C07_N': 10}}, flags_add=['--unwind', '12', '--unwinding-assertions', '--memory-leak-check'],
               min_obl=100, timeout=(150, 900),
               bound='Content-Encoding value of at most C07_N (6 / 10) bytes, hence at most C07_N tokens; layer limit 0..8; comparison helpers return arbitrary results, so every token is every coding',
               assumes=['real code: htp_tx_state_response_headers, get_token, htp_tx_res_destroy_decompressors; C stubs with nondeterministic results: header lookup, string comparisons (each token may be any coding), hooks (may rewrite response_content_encoding_processing), receiver finalisation, htp_log',
                        'decompressor factory / destructor are counting stubs (calloc / free of a real-size object, NULL at any time)'],
               sub='chain construction on the real loop: layers created <= response_decompression_layer_limit (when non-zero); LZMA layers from a coding list <= response_lzma_layer_limit; every created layer is linked in order with the bomb-checking sink as callback, also after a failed creation (HTP_ERROR, nothing leaks); the real tear-down frees each layer exactly once'))

