from vrun import U

UNITS = []

# ---- unit 1: the two (static) decompressor sinks of the transaction layer -------------------------------------------
D1 = {'quick': {'CHUNK_CAP': 4096, 'C07_UNIT_CALLBACK': 1}, 'thorough': {'CHUNK_CAP': 1048576}}
A1 = ['hook runner htp_req/res_run_hook_body_data replaced by the logging stub of sm.h (any return code); user callbacks are outside the proof',
      'gettimeofday and htp_timer_track replaced by frame stubs (any clock): the time-limit switch to passthrough is not part of the byte bound',
      'entry: entity length in [0, 2^62], compressed (message) length in [0, INT64_MAX/2048] (beyond that the code\'s own 2048*len overflows int64), block length <= CHUNK_CAP, nb_callbacks < UINT32_MAX (reset per body-data call)',
      '"compressed length" is tx->{request,response}_message_len as the code maintains it: all body bytes seen so far INCLUDING chunked-framing lines (deviation from the statement, see notes/c07.md)']
for d, dec, enc in (('res', 'out_decompressor', 'response'), ('req', 'req_decompressor', 'request')):
    fn = 'htp_tx_%s_process_body_data_decompressor_callback' % d
    UNITS.append(U(name='c07_%s_callback' % d, props=['C07', 'C01'], kind='contract', src=['htp_transaction.c'], enforce=fn,
                   replace=['htp_%s_run_hook_body_data' % d, 'htp_log/contract_c07_htp_log', 'gettimeofday', 'htp_timer_track'],
                   contracts_inc=['sm.h', 'c07_decomp.h'],
                   harness='void HARNESS(void) { htp_tx_data_t *d; %s(d); CANARY(); }' % fn,
                   defs=D1, min_obl=40, assumes=A1,
                   sub='%s decompressor sink: entity_len += d->len; the hooks see exactly (d->data, d->len, tx) once; HTP_OK <=> hooks OK and entity_len <= max(compression_bomb_limit, 2048*message_len); outside the bound => HTP_ERROR + ERROR log and nothing else' % enc))

# ---- unit 2: the inflate loop ---------------------------------------------------------------------------------------------
D2 = {'quick': {'C07_UNIT_DECOMPRESS': 1, 'C07_INCAP': 65536, 'KNOWN_F_C07_STALE_REDELIVERY': 1, 'C07_RESTART_MIN': 3}, 'thorough': {'C07_INCAP': '((size_t) UINT32_MAX + 4096)'}}
ZSTUBS = ['inflate', 'inflateInit2_', 'inflateEnd', 'crc32', 'LzmaDec_Allocate', 'LzmaDec_Init', 'LzmaDec_Free', 'LzmaDec_DecodeToBuf']
A2 = ['zlib (inflate, inflateInit2_, inflateEnd, crc32) and the LZMA SDK (LzmaDec_Allocate/Init/Free/DecodeToBuf) replaced by frame contracts: they consume a prefix of the input window, fill a prefix of the output window and return ANY code; their call-site requirements (valid windows) are proved',
      'for the variant only: inflate == Z_OK / LzmaDec_DecodeToBuf == SZ_OK implies progress (input consumed or output produced), and the sink accepts a bounded number of bytes per call (ghost budget = the bomb inequality of unit 1 with message_len fixed during the call)',
      'downstream sink (drec->super.callback) replaced by a stub returning any status; single / innermost layer (next == NULL): the recursive next-layer call is unreachable in this unit (see c07_decompress_layers)',
      'the `goto restart` back edge (no loop-contract syntax exists for goto loops) is unwound (4 - restart_min) times before contract instrumentation; the unwinding assertion is part of the obligations, so the bound is proved from the restart counter, not assumed',
      'input chunk <= C07_INCAP bytes; decompressor object well-formed on entry (output cursor inside the 8 KiB buffer, zlib_initialized in 0..4, header_len <= 14) - re-established on every exit (P0)',
      'KNOWN_F_C07_STALE_REDELIVERY defined: obligation S4 (no non-empty delivery on a stream that was dead on entry) is claimed only when the output window is not full / at end-of-body empty; the probe run without the macro fails (finding c07_stale_buffer_redelivery)']
LOOP2 = dict(
    assigns='consumed, rc, callback_rc, drec->stream, drec->crc, drec->header, drec->header_len, drec->state, '
            'g_c07_cb, g_c07_cb_failed, g_c07_cb_rc, g_c07_cb_ptr, g_c07_cb_len, g_c07_budget',
    inv=['C07_OUT_OK(drec)', 'C07_IN_OK(drec, d)', 'drec->header_len <= LZMA_PROPS_SIZE + 9',
         '(drec->zlib_initialized == HTP_COMPRESSION_LZMA && drec->header_len < LZMA_PROPS_SIZE + 8 && drec->stream.avail_in != 0) ==> drec->stream.avail_in == d->len',
         'drec->zlib_initialized == HTP_COMPRESSION_LZMA ==> rc == 0',
         'g_c07_cb_failed == 0', 'C07_INV_DEAD(drec)'],
    dec='drec->stream.avail_in, g_c07_budget, drec->stream.avail_out')
for nm, rmin, th in (('c07_decompress', 3, False), ('c07_decompress_restart1', 2, False)):
    D2x = {'quick': dict(D2['quick'], C07_RESTART_MIN=rmin), 'thorough': D2['thorough']}
    UNITS.append(U(name=nm, props=['C07', 'C01'], kind='contract', src=['htp_decompressors.c'], enforce='htp_gzip_decompressor_decompress',
                   replace=['c07_sink'] + ZSTUBS + ['htp_gzip_decompressor_restart', 'memcpy/contract_c07_memcpy', 'htp_log/contract_c07_htp_log'],
                   contracts_inc=['c07_decomp.h'], thorough_only=th,
                   pre_instrument=['--unwindset', 'htp_gzip_decompressor_decompress.0:%d' % (4 - rmin), '--unwinding-assertions'],
                   loops={'htp_decompressors.c': {'htp_gzip_decompressor_decompress': {'count': 1, 0: LOOP2}}},
                   harness='void HARNESS(void) { htp_decompressor_t *z; htp_tx_data_t *d; htp_gzip_decompressor_decompress(z, d); CANARY(); }',
                   defs=D2x, min_obl=200, timeout=(150, 600), objbits=12,
                   assumes=A2 + ['entry: drec->restart >= %d, i.e. at most %d re-entries through `goto restart` in this call' % (rmin, 3 - rmin)],
                   sub='one decompressor layer, any zlib/LZMA behaviour, restart counter >= %d on entry: every delivery is <= 8192 bytes of the own buffer, the untouched input, or the empty end marker; a refused delivery ends the call at once (non-OK, no further delivery, stream dead); dead stream + input => ERROR and no delivery; passthrough delivers the input once; all buffer arithmetic memory-safe; the inflate loop terminates' % rmin))
