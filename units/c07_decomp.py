from vrun import U

UNITS = []

# ---- unit 1: the two (static) decompressor sinks of the transaction layer -------------------------------------------
D1 = {'quick': {'CHUNK_CAP': 4096, 'C07_UNIT_CALLBACK': 1}, 'thorough': {'CHUNK_CAP': 1048576}}
A1 = ['hook runner htp_req/res_run_hook_body_data replaced by the logging stub of sm.h (any return code); user callbacks are outside the proof',
      'gettimeofday and htp_timer_track replaced by frame stubs (any clock): the time-limit switch to passthrough is not part of the byte bound',
      'entry: entity length in [0, 2^62], compressed (message) length in [0, INT64_MAX/2048] (beyond that the code\'s own 2048*len overflows int64), block length <= CHUNK_CAP, nb_callbacks < UINT32_MAX (reset per body-data call)',
      '"compressed length" is tx->{request,response}_message_len as the code maintains it: all body bytes seen so far INCLUDING chunked-framing lines (deviation from the statement, see notes/c07.md)']
for d, dec, enc in (('res', 'out_decompressor', 'response'), ('req', 'req_decompressor', 'request')):
    fn = 'htp_tx_%s_process_body_data_decompressor_callback' % d
    UNITS.append(U(name='c07_%s_callback' % d, props=['C07', 'C01'], kind='contract', src=['htp_transaction.c'], enforce=fn,
                   replace=['htp_%s_run_hook_body_data' % d, 'htp_log/contract_c07_htp_log', 'gettimeofday', 'htp_timer_track'],
                   contracts_inc=['sm.h', 'c07_decomp.h'],
                   harness='void HARNESS(void) { htp_tx_data_t *d; %s(d); CANARY(); }' % fn,
                   defs=D1, min_obl=40, assumes=A1,
                   sub='%s decompressor sink: entity_len += d->len; the hooks see exactly (d->data, d->len, tx) once; HTP_OK <=> hooks OK and entity_len <= max(compression_bomb_limit, 2048*message_len); outside the bound => HTP_ERROR + ERROR log and nothing else' % enc))

# ---- unit 2: the inflate loop ---------------------------------------------------------------------------------------------
D2 = {'quick': {'C07_UNIT_DECOMPRESS': 1, 'C07_INCAP': 65536, 'KNOWN_F_C07_STALE_REDELIVERY': 1, 'C07_RESTART_MIN': 3}, 'thorough': {'C07_INCAP': '((size_t) UINT32_MAX + 4096)'}}
ZSTUBS = ['inflate', 'inflateInit2_', 'inflateEnd', 'crc32', 'LzmaDec_Allocate', 'LzmaDec_Init', 'LzmaDec_Free', 'LzmaDec_DecodeToBuf']
A2 = ['zlib (inflate, inflateInit2_, inflateEnd, crc32) and the LZMA SDK (LzmaDec_Allocate/Init/Free/DecodeToBuf) replaced by frame contracts: they consume a prefix of the input window, fill a prefix of the output window and return ANY code; their call-site requirements (valid windows) are proved',
      'for the variant only: inflate == Z_OK / LzmaDec_DecodeToBuf == SZ_OK implies progress (input consumed or output produced), and the sink accepts a bounded number of bytes per call (ghost budget = the bomb inequality of unit 1 with message_len fixed during the call)',
      'downstream sink (drec->super.callback) replaced by a stub returning any status; single / innermost layer (next == NULL): the recursive next-layer call is unreachable in this unit (see c07_decompress_layers)',
      'the `goto restart` back edge (no loop-contract syntax exists for goto loops) is unwound (4 - restart_min) times before contract instrumentation; the unwinding assertion is part of the obligations, so the bound is proved from the restart counter, not assumed',
      'input chunk <= C07_INCAP bytes; decompressor object well-formed on entry (output cursor inside the 8 KiB buffer, zlib_initialized in 0..4, header_len <= 14) - re-established on every exit (P0)',
      'KNOWN_F_C07_STALE_REDELIVERY defined: obligation S4 (no non-empty delivery on a stream that was dead on entry) is claimed only when the output window is not full / at end-of-body empty; the probe run without the macro fails (finding c07_stale_buffer_redelivery)']
LOOP2 = dict(
    assigns='consumed, rc, callback_rc, drec->stream, drec->crc, drec->header, drec->header_len, drec->state, '
            'g_c07_cb, g_c07_cb_failed, g_c07_cb_rc, g_c07_cb_ptr, g_c07_cb_len, g_c07_budget',
    inv=['C07_OUT_OK(drec)', 'C07_IN_OK(drec, d)', 'drec->header_len <= LZMA_PROPS_SIZE + 9',
         '(drec->zlib_initialized == HTP_COMPRESSION_LZMA && drec->header_len < LZMA_PROPS_SIZE + 8 && drec->stream.avail_in != 0) ==> drec->stream.avail_in == d->len',
         'drec->zlib_initialized == HTP_COMPRESSION_LZMA ==> rc == 0',
         'g_c07_cb_failed == 0', 'C07_INV_DEAD(drec)'],
    dec='drec->stream.avail_in, g_c07_budget, drec->stream.avail_out')
for nm, rmin, th in (('c07_decompress', 3, False),):
    D2x = {'quick': dict(D2['quick'], C07_RESTART_MIN=rmin), 'thorough': D2['thorough']}
    UNITS.append(U(name=nm, props=['C07', 'C01'], kind='contract', src=['htp_decompressors.c'], enforce='htp_gzip_decompressor_decompress',
                   replace=['c07_sink'] + ZSTUBS + ['htp_gzip_decompressor_restart', 'memcpy/contract_c07_memcpy', 'htp_log/contract_c07_htp_log'],
                   contracts_inc=['c07_decomp.h'], thorough_only=th,
                   pre_instrument=['--unwindset', 'htp_gzip_decompressor_decompress.0:%d' % (4 - rmin), '--unwinding-assertions'],
                   loops={'htp_decompressors.c': {'htp_gzip_decompressor_decompress': {'count': 1, 0: LOOP2}}},
                   harness='void HARNESS(void) { htp_decompressor_t *z; htp_tx_data_t *d; htp_gzip_decompressor_decompress(z, d); CANARY(); }',
                   defs=D2x, min_obl=200, timeout=(150, 600), objbits=12,
                   assumes=A2 + ['entry: drec->restart >= %d, i.e. at most %d re-entries through `goto restart` in this call' % (rmin, 3 - rmin)],
                   sub='one decompressor layer, any zlib/LZMA behaviour, restart counter >= %d on entry: every delivery is <= 8192 bytes of the own buffer, the untouched input, or the empty end marker; a refused delivery ends the call at once (non-OK, no further delivery, stream dead); dead stream + input => ERROR and no delivery; passthrough delivers the input once; all buffer arithmetic memory-safe; the inflate loop terminates' % rmin))

# the two helpers that c07_decompress replaces by contracts, enforced on the real code
UNITS.append(U(name='c07_restart', props=['C07', 'C01'], kind='contract', src=['htp_decompressors.c'], enforce='htp_gzip_decompressor_restart',
               contract='contract_real_htp_gzip_decompressor_restart', replace=['inflateInit2_', 'htp_gzip_decompressor_probe'],
               contracts_inc=['c07_decomp.h'], defs=D2, min_obl=30,
               harness='void HARNESS(void) { htp_decompressor_gzip_t *z; const unsigned char *p; size_t n; size_t *c; htp_gzip_decompressor_restart(z, p, n, c); CANARY(); }',
               assumes=['inflateInit2_ replaced by a frame contract (any result, cursors untouched); probe replaced by its contract (enforced by c07_probe)'],
               sub='restart heuristics: returns 1 only while the restart counter is < 3 and then increments it (at most 3 restarts per decompressor, hence termination of the `goto restart` loop); never moves the zlib cursors; *consumed_back <= data_len; only switches gzip <-> raw deflate'))
UNITS.append(U(name='c07_probe', props=['C07', 'C01'], kind='contract', src=['htp_decompressors.c'], enforce='htp_gzip_decompressor_probe',
               contract='contract_real_htp_gzip_decompressor_probe', contracts_inc=['c07_decomp.h'], defs=D2, min_obl=10,
               loops={'htp_decompressors.c': {'htp_gzip_decompressor_probe': {'count': 1, 0: dict(
                   assigns='len', inv=['len >= 10', 'len <= data_len || len == 10'], dec='(len <= data_len ? data_len - len : 0)')}}},
               harness='void HARNESS(void) { const unsigned char *p; size_t n; htp_gzip_decompressor_probe(p, n); CANARY(); }',
               sub='gzip header probe: reads only inside the chunk, skip count <= chunk length, terminates'))

# ---- unit 3: building the response decompressor chain ------------------------------------------------------------------------
D3 = {'quick': {'C07_UNIT_CHAIN': 1, 'C07_MAXLAYERS': 2, 'C07_CECAP': 64, 'CHUNK_CAP': 4096}, 'thorough': {'C07_CECAP': 1024}}
UNITS.append(U(name='c07_chain', props=['C07', 'C18', 'C01'], kind='bounded', src=['htp_transaction.c'], enforce='htp_tx_state_response_headers',
               replace=['htp_table_get_c/contract_c07_htp_table_get_c', 'bstr_cmp_c_nocasenorzero/contract_c07_bstr_cmp_c_nocasenorzero',
                        'bstr_util_cmp_mem/contract_c07_bstr_util_cmp_mem', 'bstr_util_mem_index_of_c_nocase/contract_c07_bstr_util_mem_index_of_c_nocase',
                        'htp_connp_res_receiver_finalize_clear/contract_c07_htp_connp_res_receiver_finalize_clear', 'htp_hook_run_all/contract_c07_htp_hook_run_all',
                        'htp_tx_res_destroy_decompressors/contract_c07_htp_tx_res_destroy_decompressors', 'get_token/contract_c07_get_token',
                        'htp_gzip_decompressor_create/contract_c07_htp_gzip_decompressor_create', 'htp_log/contract_c07_htp_log'],
               contracts_inc=['sm.h', 'c07_decomp.h'],
               pre_instrument=['--unwindset', 'htp_tx_state_response_headers.0:4', '--unwinding-assertions'],
               harness='void HARNESS(void) { htp_tx_t *t; htp_tx_state_response_headers(t); CANARY(); }',
               defs=D3, min_obl=100, timeout=(150, 600), objbits=12,
               bound='response_decompression_layer_limit in 1..2 (default 2): the chain loop is unwound 4 times and the unwinding assertion proves that this is enough for every header value; limit 0 (= unlimited) and limits > 2 are not covered',
               assumes=['header lookup, string comparisons, tokenizer, hooks, receiver finalisation, old-chain destruction and the decompressor factory are replaced by frame stubs with arbitrary results (so every Content-Encoding value, token sequence and hook outcome is covered); the factory returns NULL or a fresh unlinked object and counts layers / LZMA layers',
                        'the tokenizer stub returns a token length <= remaining input; the real get_token is not verified here'],
               sub='chain construction: layers created <= response_decompression_layer_limit; LZMA layers from a coding list <= response_lzma_layer_limit; every created layer is linked from connp->out_decompressor with the response sink as callback, also after a failed creation (no leak, HTP_ERROR returned); the old chain is destroyed first'))
