from vrun import U
import os as _os

# The line-oriented RESPONSE states under contract (contracts/sm_resline.h, ghosts contracts/ghost_c10.h, notes/sm_resline.md).
UNITS = []
D = {'quick': {'CHUNK_CAP': 4096}, 'thorough': {'CHUNK_CAP': 1048576}}
A = ['chunk length <= CHUNK_CAP (symbolic); stream offset and message length <= 2^62 on entry (shared cursor precondition CUR_OUT / TX_OUT of the state-machine layer); a real chunk (no gap)',
     'a response transaction is attached with tx->connp == connp; out_status is not STOP / ERROR (the driver returns before calling a state function otherwise)',
     'htp_connp_res_consolidate_data / htp_connp_res_clear_buffer replaced by the logging stubs of contracts/sm.h (consolidated line <= LINE_CAP = 256 bytes, fresh; L1 of C03 is enforced on the real buffer functions by their own units)',
     'body sink htp_tx_res_process_body_data_ex replaced by a logging stub with arbitrary result in {OK, ERROR} that adds len to response_message_len (enforced on the real function by its own unit)',
     'callbacks return OK / DECLINED / STOP / ERROR only and do not write the parser (frame of the transition stubs = frame enforced on the real transition functions by the C05 units)']
H = 'void HARNESS(void) { htp_connp_t *c; %s(c); CANARY(); }'

COPY_ASSIGNS = 'connp->out_next_byte, connp->out_current_read_offset, connp->out_stream_offset'

# ---- htp_connp_RES_LINE --------------------------------------------------------------------------------------------------------------
RL_CASES = [('blank', '(g_rl_ign!=0)', 'htp_connp_is_line_ignorable answers yes (blank line)'),
            ('body', '(g_rl_ign==0&&g_rl_asbody!=0)', 'not ignorable and htp_treat_response_line_as_body answers yes (the line does not look like a status line)'),
            ('status', '(g_rl_ign==0&&g_rl_asbody==0)', 'not ignorable and htp_treat_response_line_as_body answers no (status line)')]
for _tag, _case, _what in RL_CASES:
  UNITS.append(U(name='htp_connp_RES_LINE_' + _tag, props=['C09', 'C03', 'C05', 'C06', 'C01'], kind='contract', src=['htp_response.c'], enforce='htp_connp_RES_LINE',
               replace=['htp_connp_res_consolidate_data', 'htp_connp_res_clear_buffer', 'htp_connp_is_line_ignorable/contract_rl_is_line_ignorable', 'htp_chomp/contract_rl_chomp',
                        'htp_treat_response_line_as_body/contract_rl_treat_as_body', 'htp_tx_res_process_body_data_ex', 'bstr_free/contract_rl_bstr_free', 'bstr_dup_mem/contract_rl_bstr_dup_mem',
                        'htp_parse_response_line_generic/contract_rl_parse_response_line', 'htp_tx_state_response_line/contract_rl_htp_tx_state_response_line', 'htp_log'],
               contracts_inc=['sm_resline.h'], harness=H % 'htp_connp_RES_LINE', defs={k: dict(v, RL_CASE=_case) for k, v in D.items()}, min_obl=100, timeout=(900, 2400), solver='--sat-solver cadical',
               pre_instrument=['--restrict-function-pointer', 'htp_connp_RES_LINE.function_pointer_call.1/htp_parse_response_line_generic'],
               loops={'htp_response.c': {'htp_connp_RES_LINE': {'count': 1, 0: dict(
                   assigns=COPY_ASSIGNS,
                   inv=['RL_READ_INV(connp)', 'RL_SOFF_INV(connp)',
                        'connp->out_status == HTP_STREAM_CLOSED ==> connp->out_current_read_offset >= connp->out_current_len',
                        # no LF read so far; a CR read so far is the last byte read and is followed by a visible LF (the CR LF look-ahead `continue`)
                        'RL_GK_READ(connp) ==> connp->out_current_data[gk] != LF',
                        '(RL_GK_READ(connp) && (int64_t) gk + 1 < connp->out_current_read_offset) ==> connp->out_current_data[gk] != CR',
                        '(RL_GK_READ(connp) && (int64_t) gk + 1 == connp->out_current_read_offset && connp->out_current_data[gk] == CR) ==> '
                        '(connp->out_current_read_offset < connp->out_current_len && connp->out_current_data[connp->out_current_read_offset] == LF)'],
                   dec='connp->out_current_len - connp->out_current_read_offset')}}},
               sub='[case: ' + _what + '] response status-line state: result in {OK, ERROR, STOP, DATA_BUFFER}; stream offset += bytes read; incomplete line => DATA_BUFFER with the chunk exhausted and NOTHING decided '
                   '(no helper ran, transaction, buffer and state untouched; no LF among the bytes read); a decision is taken only after a byte was read and never past the first LF; '
                   'blank line counted and discarded; non-status first line delivered to the body sink at most once, counted in message length, discarded once; previous status-line strings released exactly once each; '
                   'status line stored, parsed, RESPONSE_LINE transition exactly once, buffer discarded and RES_HEADERS / progress HEADERS only after it succeeded; progress monotone; shared state contract; the copy loop terminates',
               assumes=A + ['case split: this unit assumes ' + _what + ' (RL_CASE = ' + _case + '); the three units htp_connp_RES_LINE_blank / _body / _status are exhaustive over the answers of the two replaced classifiers',
                            'out_status == CLOSED only with the chunk exhausted (htp_connp_close offers an empty chunk and the driver leaves CLOSED before it returns): with CLOSED, a stale CR in out_next_byte '
                            'and a visible LF the for(;;) loop of RES_LINE would not terminate (continue without consuming)',
                            'response_progress == LINE on entry (the two transitions into RES_LINE set it); response_ignored_lines < UINT_MAX (an unsigned counter incremented per blank line)',
                            'the four status-line strings of the transaction are NULL or live heap objects',
                            'htp_connp_is_line_ignorable, htp_treat_response_line_as_body answer arbitrarily (prophecy ghosts); htp_chomp replaced by its length contract (class 0..2, <= bytes removed); '
                            'bstr_free / bstr_dup_mem replaced by logging stubs (free insists on a live heap object)',
                            'cfg->parse_response_line restricted to htp_parse_response_line_generic (the only implementation in the tree) and replaced by its frame (parsed pieces of the transaction); '
                            'htp_tx_state_response_line replaced by a stub with the frame of the real function (flags grow, status number) and any result in {OK, STOP, ERROR}; it insists on being called at most once']))

# ---- htp_connp_RES_FINALIZE ----------------------------------------------------------------------------------------------------------
UNITS.append(U(name='htp_connp_RES_FINALIZE', props=['C06', 'C03', 'C09', 'C05', 'C01'], kind='contract', src=['htp_response.c'], enforce='htp_connp_RES_FINALIZE',
               replace=['htp_connp_res_consolidate_data/contract_rf_consolidate', 'htp_connp_res_clear_buffer', 'htp_treat_response_line_as_body/contract_rf_treat_as_body',
                        'htp_tx_res_process_body_data_ex/contract_rf_sink', 'htp_tx_state_response_complete_ex/contract_rf_response_complete', 'htp_log'],
               contracts_inc=['sm_resline.h'], harness=H % 'htp_connp_RES_FINALIZE', defs=D, min_obl=100, timeout=(600, 1800), solver='--sat-solver cadical',
               loops={'htp_response.c': {'htp_connp_RES_FINALIZE': {'count': 1, 0: dict(
                   assigns=COPY_ASSIGNS,
                   inv=['RL_READ_INV(connp)', 'RL_SOFF_INV(connp)', 'RL_GK_READ(connp) ==> connp->out_current_data[gk] != LF'],
                   dec='connp->out_current_len - connp->out_current_read_offset')}}},
               sub='end-of-response probe: result in {OK, ERROR, STOP, DATA_OTHER, DATA_BUFFER}; probe line incomplete => DATA_BUFFER with the chunk exhausted and nothing decided (no LF among the bytes read); '
                   'completion and delivery exclude each other, each at most once; unexpected body = the WHOLE pending line (buffered part + this chunk) delivered once, counted in message length, discarded once; '
                   'a line that starts the next response is un-read exactly (read back to the first unconsumed byte, buffer cut back to what earlier calls stored, nothing discarded): buffered ++ unconsumed == pending on entry; '
                   'nothing pending => completion with the cursor untouched; shared state contract; the probe loop terminates',
               assumes=A[:2] + ['htp_connp_res_consolidate_data replaced by a stub that states what the real function computes about LENGTHS and OFFSETS (no buffer: line = unconsumed part of the chunk, nothing moves; '
                                'buffer: unconsumed part appended, consume = read, line = whole buffer; failure changes nothing); the line bytes are a fresh readable range (contents abstracted); '
                                'that relation is read off htp_response.c:195-266 and is NOT enforced by a unit of its own (htp_connp_res_buffer has a C10 unit for the limit)',
                                'htp_connp_res_clear_buffer, body sink (arbitrary result in {OK, ERROR}, adds len to response_message_len), htp_treat_response_line_as_body (arbitrary answer, prophecy ghost) replaced by stubs',
                                'htp_tx_state_response_complete_ex replaced by a stub with the frame enforced on the real function by its C05 unit (transaction, out_tx, in_tx, out_state, out_data_other_at_tx_end, receiver hook and offset; '
                                'NOT the cursor, the buffer or the stream states), results {OK, STOP, ERROR, DATA_OTHER}; it may free the transaction; it insists on being called at most once',
                                'entry facts beyond the shared cursor invariant: consume <= read and receiver <= consume (the rewind exception consume > read reaches FINALIZE only through RES_BODY_IDENTITY_STREAM_CLOSE on a CLOSED stream, '
                                'i.e. in the close call, whose chunk is empty and whose offsets are all 0); a buffered probe (out_buf != NULL, <= LINE_CAP bytes) re-enters at consume offset 0 of a new chunk (the driver resets the offsets per chunk)']))

# the length / offset relation that RES_FINALIZE's consolidation stub states, enforced on the real function (same macro RF_CONSOL_REL in both contracts)
UNITS.append(U(name='htp_connp_res_consolidate_data_rel', props=['C03', 'C06', 'C01'], kind='contract', src=['htp_response.c'], enforce='htp_connp_res_consolidate_data',
               contract='contract_real_res_consolidate', replace=['htp_connp_res_buffer/contract_rf_res_buffer'], contracts_inc=['sm_resline.h'],
               harness='void HARNESS(void) { htp_connp_t *c; unsigned char **d; size_t *l; htp_connp_res_consolidate_data(c, d, l); CANARY(); }', defs=D, min_obl=20, timeout=(240, 900),
               sub='real htp_connp_res_consolidate_data: without a buffer the pending line is the unconsumed part of the chunk (length read - consume) and nothing moves; with a buffer the unconsumed part is appended, '
                   'consume catches up with read and the line is the whole buffer (old size + read - consume); a failed append changes nothing and leaves the out-parameters alone: '
                   'the relation (macro RF_CONSOL_REL) that the RES_FINALIZE unit assumes of its consolidation stub',
               assumes=['htp_connp_res_buffer replaced by a stub that states what the lemma units htp_connp_res_buffer_cap4 / _cap6 (C10) establish on the real function for enumerated sizes: OK => buffer non-NULL, size += read - consume, '
                        'consume = read; failure or no chunk => nothing changes', 'chunk length <= CHUNK_CAP, consume <= read <= len; a real chunk (the close call, NULL chunk with all offsets 0, is not modelled: the function then computes NULL + 0)']))

# ---- htp_connp_RES_HEADERS: per-call bounded units (the dfcc contract version was not attempted for lack of time: RES_LINE alone needs a three-way case split to get through the SAT solver) ----
RH_COMMON = r'''
#ifndef VNATIVE
void htp_log(htp_connp_t *connp, const char *file, int line, enum htp_log_level_t level, int code, const char *fmt, ...) { }
#endif
static int rh_add_calls, rh_dup_calls, rh_proc_calls, rh_proc_rc, rh_hook_calls, rh_hook_saw_null, rh_hook_saw_proc; static size_t rh_add_len, rh_dup_len, rh_proc_len;
static const void *rh_add_dst, *rh_add_src, *rh_dup_src, *rh_proc_ptr; static bstr *rh_dup_ret; static htp_connp_t RH_C; static htp_tx_t RH_TX; static htp_cfg_t RH_CFG;
bstr *v_model_dup_mem(const void *data, size_t len) { rh_dup_calls++; rh_dup_src = data; rh_dup_len = len;
  bstr *b = malloc(sizeof(bstr) + N); if (b == NULL) return NULL; b->len = len; b->size = len; b->realptr = NULL; rh_dup_ret = b; return b; }
bstr *v_model_add_mem(bstr *destination, const void *data, size_t len) { rh_add_calls++; rh_add_dst = destination; rh_add_src = data; rh_add_len = len; return destination; }
static htp_status_t rh_stub_process_header(htp_connp_t *connp, unsigned char *data, size_t len) { rh_proc_calls++; rh_proc_ptr = data; rh_proc_len = len; return rh_proc_rc; }
htp_status_t v_stub_hook_run_all(htp_hook_t *hook, void *user_data) { rh_hook_calls++; rh_hook_saw_null = (RH_C.out_header == NULL); rh_hook_saw_proc = rh_proc_calls; return HTP_OK; }
'''
RH_FOLD = RH_COMMON + r'''
typedef struct { unsigned char line[N]; unsigned char pend[P]; size_t pending; int res_proto; int req_proto; uint64_t flags; } vin_t;
void HARNESS(void) { VIN(vin_t);
  /* one FOLDED continuation line at the end of the chunk: starts with SP or HT, its only LF is the last byte */
  for (int i = 0; i + 1 < N; i++) VASSUME(in.line[i] != '\n' && in.line[i] != '\r' && in.line[i] != 0);
  VASSUME(in.line[N - 1] == '\n' && (in.line[0] == ' ' || in.line[0] == '\t'));
  int line_colon = 0; for (int i = 0; i + 1 < N; i++) if (in.line[i] == ':') line_colon = 1;
  /* the pending header: payload of P bytes when its contents matter (continuation with a colon), ANY length (payload never read) otherwise */
  VASSUME(!line_colon || in.pending <= P);
  int pend_colon = 0; for (size_t i = 0; i < P; i++) if (i < in.pending && in.pend[i] == ':') pend_colon = 1;
  htp_connp_t *c = &RH_C; htp_tx_t *tx = &RH_TX; htp_cfg_t *cfg = &RH_CFG;
  unsigned char *chunk = malloc(N); bstr *pend = malloc(sizeof(bstr) + P);
  if (!chunk || !pend) { free(chunk); free(pend); return; }
  memcpy(chunk, in.line, N); memcpy((unsigned char *) pend + sizeof(bstr), in.pend, P);
  pend->len = in.pending; pend->size = in.pending; pend->realptr = NULL; const unsigned char *pp = (unsigned char *) pend + sizeof(bstr);
  cfg->field_limit_hard = 1000; cfg->server_personality = HTP_SERVER_GENERIC; cfg->process_response_header = rh_stub_process_header;
  tx->cfg = cfg; tx->connp = c; tx->response_progress = HTP_RESPONSE_HEADERS; tx->flags = in.flags;
  tx->response_protocol_number = in.res_proto; tx->request_protocol_number = in.req_proto;        /* both symbolic and unrelated */
  c->cfg = cfg; c->out_tx = tx; c->out_status = HTP_STREAM_DATA; c->out_header = pend; c->out_current_data = chunk; c->out_current_len = N;
  rh_proc_rc = HTP_OK;
  htp_status_t rc = htp_connp_RES_HEADERS(c);
  int new_header = line_colon && pend_colon && in.res_proto == HTP_PROTOCOL_1_1;
  if (new_header && rh_dup_calls == 1 && rh_dup_ret == NULL) { VASSERT(rc == HTP_ERROR && c->out_header == NULL, "allocation failure: error, no dangling pending header"); free(chunk); return; }
  VASSERT(rc == HTP_DATA_BUFFER, "after a folded line at the chunk end the state waits for more data");
  if (new_header) {
    /* C02 / C11: a continuation line WITH a colon after a complete header, in an HTTP/1.1 RESPONSE, is a new header (invalid folding): the pending one is processed as it is */
    VASSERT(rh_proc_calls == 1 && rh_proc_ptr == pp && rh_proc_len == in.pending, "pending header processed once, as it stands");
    VASSERT(rh_add_calls == 0, "nothing appended to it");
    VASSERT(rh_dup_calls == 1 && rh_dup_src == chunk + 1 && rh_dup_len == N - 2, "the continuation (minus its leading blank and its line ending) becomes the new pending header");
    VASSERT(c->out_header == rh_dup_ret && c->out_header != pend, "new pending header installed, the old one released (a double free / leak shows at the teardown below)");
    VASSERT(tx->flags == (in.flags | HTP_INVALID_FOLDING), "INVALID_FOLDING raised, nothing else");
  } else {
    /* C10: appended iff the PENDING header is below the cap (the continuation's own length does not matter) */
    VASSERT(rh_proc_calls == 0 && rh_dup_calls == 0 && c->out_header == pend, "the pending header stays pending");
    VASSERT(rh_add_calls == (in.pending < HTP_MAX_HEADER_FOLDED ? 1 : 0), "a continuation is appended iff the pending header is below HTP_MAX_HEADER_FOLDED");
    if (rh_add_calls == 1) VASSERT(rh_add_dst == pend && rh_add_src == chunk && rh_add_len == N - 1, "the appended range is the chomped line");
    VASSERT(tx->flags == in.flags, "no flag raised");
  }
  VASSERT(c->out_current_read_offset == N && c->out_current_consume_offset == N && c->out_buf == NULL, "the line was consumed, nothing stays buffered");
  if (c->out_header != NULL) free(c->out_header);          /* what htp_connp_destroy does */
  free(chunk);
  CANARY(); }'''
UNITS.append(U(name='htp_connp_RES_HEADERS_fold_decision', props=['C10', 'C02', 'C11', 'C01'], kind='bounded', src=['htp_response.c'], link=['htp_util.c', 'bstr.c', 'htp_hooks.c', 'htp_list.c'],
               replay='vin', pre='#define bstr_dup_mem v_model_dup_mem\n#define bstr_add_mem v_model_add_mem', harness=RH_FOLD,
               defs={'quick': {'N': 4, 'P': 3}, 'thorough': {'N': 6, 'P': 4}}, min_obl=30, timeout=(600, 2400),
               flags_add=['--unwind', '10', '--unwinding-assertions', '--memory-leak-check'], flags_del=['--unsigned-overflow-check'], solver='--sat-solver cadical',
               bound='one folded continuation line of exactly N bytes (quick 4, thorough 6) over all byte values; pending header of <= P bytes (quick 3, thorough 4) with symbolic contents when the line has a colon, '
                     'of ANY (unbounded symbolic) length when it has none',
               sub='folded-line branch of htp_connp_RES_HEADERS as a decision table: continuation with a colon + pending header with a colon + RESPONSE protocol HTTP/1.1 (request protocol symbolic and unrelated) => '
                   'pending header processed once as it stands, INVALID_FOLDING raised, the continuation becomes the new pending header, old one released once; '
                   'otherwise appended iff the PENDING header length is below HTP_MAX_HEADER_FOLDED (not the continuation length), never processed early',
               assumes=['cfg->process_response_header replaced by a logging stub through the function pointer; bstr_add_mem / bstr_dup_mem replaced by logging models inside this TU; real chomp, folding test, terminator test, bstr_chr, bstr_free',
                        'stream open, progress HEADERS, generic personality; transaction flags symbolic']))

RH_CLOSED = RH_COMMON + r'''
typedef struct { unsigned char pend[P]; size_t pending; int prc; int progress; } vin_t;
void HARNESS(void) { VIN(vin_t);
  VASSUME(in.pending <= P && (in.prc == HTP_OK || in.prc == HTP_ERROR) && (in.progress == HTP_RESPONSE_HEADERS || in.progress == HTP_RESPONSE_TRAILER));
  htp_connp_t *c = &RH_C; htp_tx_t *tx = &RH_TX; htp_cfg_t *cfg = &RH_CFG;
  bstr *pend = malloc(sizeof(bstr) + P);
  if (!pend) return;
  memcpy((unsigned char *) pend + sizeof(bstr), in.pend, P); pend->len = in.pending; pend->size = in.pending; pend->realptr = NULL; const unsigned char *pp = (unsigned char *) pend + sizeof(bstr);
  cfg->field_limit_hard = 1000; cfg->server_personality = HTP_SERVER_GENERIC; cfg->process_response_header = rh_stub_process_header;
  tx->cfg = cfg; tx->connp = c; tx->response_progress = in.progress;
  c->cfg = cfg; c->out_tx = tx; c->out_status = HTP_STREAM_CLOSED; c->out_header = pend; c->out_current_data = NULL; c->out_current_len = 0;   /* what htp_connp_close offers */
  rh_proc_rc = in.prc;
  htp_status_t rc = htp_connp_RES_HEADERS(c);
  VASSERT(rh_proc_calls == 1 && rh_proc_ptr == pp && rh_proc_len == in.pending, "stream closed inside the header block: the pending header is processed exactly once");
  if (in.prc != HTP_OK) {
    VASSERT(rc == HTP_ERROR && c->out_header == pend && rh_hook_calls == 0 && c->out_state != htp_connp_RES_FINALIZE, "refused header: error, the pending line keeps its owner, no trailer hook, no state change");
  } else {
    VASSERT(rc == HTP_OK && c->out_header == NULL && c->out_state == htp_connp_RES_FINALIZE, "pending header released and cleared, response moves to FINALIZE");
    VASSERT(rh_hook_calls == 1 && rh_hook_saw_null && rh_hook_saw_proc == 1, "the trailer hook runs once, AFTER the pending header was processed and released");
  }
  if (c->out_header != NULL) bstr_free(c->out_header);      /* what htp_connp_destroy does: a double free shows here, a leak at exit */
  CANARY(); }'''
UNITS.append(U(name='htp_connp_RES_HEADERS_closed_stream', props=['C05', 'C18', 'C01'], kind='bounded', src=['htp_response.c'], link=['htp_util.c', 'bstr.c', 'htp_hooks.c', 'htp_list.c'],
               replay='vin', pre='#define bstr_dup_mem v_model_dup_mem\n#define bstr_add_mem v_model_add_mem\n#define htp_hook_run_all v_stub_hook_run_all', harness=RH_CLOSED,
               defs={'quick': {'N': 4, 'P': 3}, 'thorough': {'N': 6, 'P': 6}}, min_obl=20, timeout=(300, 1200),
               flags_add=['--unwind', '10', '--unwinding-assertions', '--memory-leak-check'], flags_del=['--unsigned-overflow-check'], solver='--sat-solver cadical',
               bound='pending header of <= P bytes (quick 3, thorough 6), empty chunk, stream CLOSED',
               sub='closed-stream branch of htp_connp_RES_HEADERS: the pending header is processed exactly once and released (field NULL) BEFORE the trailer hook runs and the state moves to FINALIZE; '
                   'a refused header is an error with the pending line still owned by the parser (no hook, no state change); no double free, no leak at teardown',
               assumes=['cfg->process_response_header replaced by a logging stub with result OK / ERROR; htp_hook_run_all replaced by a logging stub that records what it sees (no raw-data receiver installed)',
                        'progress HEADERS or TRAILER']))
