"""C18 - allocation failure anywhere is survived without memory unsafety: OWNERSHIP LEMMA UNITS.

Every unit is a plain harness  `build minimal valid arguments by hand ; call the real function ; run the REAL
teardown the library would run later on the same objects`  with every malloc/calloc/realloc/strdup allowed to fail
independently (--malloc-may-fail --malloc-fail-null are always on).  The obligations are CBMC's pointer checks
(double free, use after free, free of a non-heap / non-base pointer, dereference of NULL / dead object) plus
--memory-leak-check where the harness can free everything it owns, plus a few VASSERTs on the error protocol.

The KNOWN_F_C18_<NAME> blocks in the harnesses are INACTIVE (no unit defines the macros any more): they repaired, inside
the harness, the dangling pointer of a confirmed defect while it was unfixed.  All of them are fixed in /repo
(known_findings.json `fixed`), so every unit now checks the real code without any repair; the blocks are kept only as a
way to demonstrate the old failure (`-D` the macro on a pre-fix tree).
"""
from vrun import U

UNITS = []
P = ['C18', 'C01']


def cases(macro, lo, hi):
    return ' '.join('%s(%d)' % (macro, k) for k in range(lo, hi + 1))


def lem(name, src, harness, sub, assumes, defs=None, unwind=8, leak=True, kind='lemma', **kw):
    d = {'quick': dict(defs or {})}
    fl = ['--unwind', str(unwind), '--unwinding-assertions'] + (['--memory-leak-check'] if leak else [])
    kw.setdefault('min_obl', 50)
    kw.setdefault('timeout', (300, 900))
    UNITS.append(U(name=name, props=P, kind=kind, src=src, contracts_inc=['c18_alloc.h'], harness=harness, defs=d,
                   flags_add=fl + list(kw.pop('flags_add', [])), sub=sub,
                   assumes=['every malloc/calloc/realloc/strdup may fail independently; the obligations are the pointer checks of the called function AND of the real teardown that follows'] + list(assumes), **kw))


# ======================================================================================================================
# 1. Authorization parsing ; the two bstr_free of htp_tx_destroy_incomplete
# ======================================================================================================================
AUTH_H = r'''
/* Stand-in for htp_base64_decode_mem (htp_base64.c is NOT linked here: its Duff's-device decoder loop does not unwind in
 * reasonable time).  Same allocation pattern as the real one: scratch buffer of len bytes, result = NULL or an
 * inline bstr of 1..len arbitrary bytes made by the real bstr_dup_mem, scratch freed. */
bstr *htp_base64_decode_mem(const void *data, size_t len) {
  VASSERT(__CPROVER_r_ok(data, len), "base64 input readable");
  unsigned char *tmp = malloc(len); if (tmp == NULL) return NULL;
  size_t rl; bstr *r = NULL;
#define D(k) if (rl == (k) && (k) <= len) r = bstr_dup_mem(tmp, (k));
  D(1) D(2) D(3) D(4)
  free(tmp); return r;
}
static void auth_case(size_t n, const unsigned char *a) {          /* n is a constant at every call site */
  htp_connp_t *c = calloc(1, sizeof(*c)); htp_tx_t *tx = calloc(1, sizeof(*tx)); htp_header_t *h = calloc(1, sizeof(*h));
  bstr *v = c18_bstr(n, a);
  if (!c || !tx || !h || !v) { free(c); free(tx); free(h); free(v); return; }
  c->in_tx = tx; tx->connp = c; h->value = v;
  int rc = AUTH_FN(c, h);
  VASSERT(rc == HTP_OK || rc == HTP_ERROR || rc == HTP_DECLINED, "documented return codes only");
#if AUTH_BASIC
  if (rc == HTP_OK) VASSERT(tx->request_auth_username != NULL && tx->request_auth_password != NULL, "OK: both credentials present");
#ifdef KNOWN_F_C18_AUTH_BASIC
  /* finding c18_auth_basic: on a failed password allocation the username is freed but the field keeps the stale pointer */
  if (rc == HTP_ERROR) tx->request_auth_username = NULL;
#endif
  if (rc != HTP_OK) VASSERT(tx->request_auth_password == NULL, "no password without success");
#endif
  /* what htp_tx_destroy_incomplete does with the two fields */
  bstr_free(tx->request_auth_username);
  bstr_free(tx->request_auth_password);
  free(v); free(h); free(tx); free(c);
}
#define C(k) if (n == (k)) { auth_case((k), in); }
void HARNESS(void) { size_t n; unsigned char in[AUTHN];
  VASSUME(n >= AUTHMIN && n <= AUTHN);
  CASES
  CANARY(); }'''
lem('c18_auth_basic', ['htp_parsers.c'], AUTH_H.replace('CASES', cases('C', 5, 9)).replace('AUTH_FN', 'htp_parse_authorization_basic'),
    'htp_parse_authorization_basic ; bstr_free(username) ; bstr_free(password): no double free / leak whichever of the four allocations fails (base64 scratch, decoded bstr, username, password)',
    ['header value: every byte string of length 5..9 ("Basic" + up to 4 bytes); value lengths are enumerated constants; shorter values are excluded by the caller htp_parse_authorization (prefix test)',
     'htp_base64_decode_mem replaced by a stand-in with the same allocation pattern and an ARBITRARY decoded string of 0..4 bytes (not longer than its input) (superset of what base64 can produce); real bstr.c linked; the real decoder is exercised by unit c18_base64_decode_mem',],
    defs={'AUTHN': 9, 'AUTHMIN': 5, 'AUTH_BASIC': 1}, link=['bstr.c'], unwind=16)

# ======================================================================================================================
# 2. host[:port] parsing ; htp_uri_free (CONNECT target) / the caller's frees (Host header)
# ======================================================================================================================
HP_COMMON = ''
RC_VALIDATE = ['--replace-calls', 'htp_validate_hostname:c18_validate_hostname']
URI_HP_H = HP_COMMON + r'''
static void hp_case(const unsigned char *a) {
  htp_connp_t *c = calloc(1, sizeof(*c)); htp_tx_t *tx = calloc(1, sizeof(*tx));
  bstr *in = c18_bstr(HPN, a); htp_uri_t *uri = htp_uri_alloc();             /* tx->parsed_uri_raw as made by htp_tx_create */
  if (!c || !tx || !in || !uri) { free(c); free(tx); free(in); htp_uri_free(uri); return; }
  c->in_tx = tx; tx->connp = c;
  int rc = htp_parse_uri_hostport(c, in, uri);                                 /* htp_tx_state_request_line, CONNECT branch */
  VASSERT(rc == HTP_OK || rc == HTP_ERROR, "OK or ERROR");
  if (rc == HTP_ERROR) VASSERT(uri->port == NULL, "ERROR: no port text is handed out");
#ifdef KNOWN_F_C18_HOSTPORT
  /* finding c18_hostport: a failed port allocation frees *hostname but leaves the stale pointer in uri->hostname */
  if (rc == HTP_ERROR) uri->hostname = NULL;
#endif
  htp_uri_free(uri);                                                          /* htp_tx_destroy_incomplete: htp_uri_free(tx->parsed_uri_raw) */
  free(in); free(tx); free(c);
}
void HARNESS(void) { unsigned char in[HPN]; hp_case(in); CANARY(); }'''
HPA = ['input: every byte string of length exactly HPN=5 (shorter ones = white-space padded, trimmed first): covers the IPv6 branch with and without port, host:port, host alone, empty',
       'real bstr.c linked; memchr: textbook model (CBMC 6.11 has none); htp_validate_hostname (pure, no allocation) exchanged at its call sites (goto-instrument --replace-calls) by a stand-in that requires a live bstr and answers arbitrarily']
lem('c18_uri_hostport', ['htp_util.c'], URI_HP_H,
    'htp_parse_uri_hostport(connp, target, tx->parsed_uri_raw) ; htp_uri_free: no double free / use after free / leak whichever allocation (host name, port text) fails',
    HPA,
    defs={'HPN': 5, 'C18_MEMCHR_MODEL': 1, 'C18_VALIDATE_HOSTNAME_STUB': 1}, link=['bstr.c'], unwind=8, pre_instrument=RC_VALIDATE)
HDR_HP_H = HP_COMMON + r'''
static void hp_case(const unsigned char *a, int want_port) {
  bstr *in = c18_bstr(HPN, a); if (in == NULL) return;
  bstr *hostname = in, *port = in; int pn; uint64_t flags;                       /* junk values that must not survive */
  htp_status_t rc = htp_parse_header_hostport(in, &hostname, want_port ? &port : NULL, &pn, &flags);
  VASSERT(rc == HTP_OK || rc == HTP_ERROR, "OK or ERROR");
  /* the caller (htp_tx_process_request_headers) returns on ERROR without touching its locals, and owns the strings on OK */
  if (rc == HTP_OK) { bstr_free(hostname); if (want_port) bstr_free(port); }
  free(in);
}
void HARNESS(void) { unsigned char in[HPN]; int want_port; hp_case(in, want_port); CANARY(); }'''
lem('c18_header_hostport', ['htp_util.c'], HDR_HP_H,
    'htp_parse_header_hostport ; caller teardown (nothing on ERROR, both strings on OK), with and without the port out-parameter: on ERROR nothing is left allocated and nothing the caller must free; no double free / leak',
    HPA, defs={'HPN': 5, 'C18_MEMCHR_MODEL': 1, 'C18_VALIDATE_HOSTNAME_STUB': 1}, link=['bstr.c'], unwind=8, pre_instrument=RC_VALIDATE)

# ======================================================================================================================
# 3. htp_conn_create ; htp_conn_open ; htp_conn_destroy
# ======================================================================================================================
CONN_H = r'''
void htp_tx_destroy_incomplete(htp_tx_t *tx) { VASSERT(0, "a connection without transactions destroys no transaction"); }
void HARNESS(void) {
  htp_conn_t *conn = htp_conn_create();                     /* real: two real lists */
  if (conn != NULL) {
    char ca[4], sa[4]; int has_c, has_s, has_ts, cp, sp; htp_time_t ts;
    ca[3] = 0; sa[3] = 0;
    htp_status_t rc = htp_conn_open(conn, has_c ? ca : NULL, cp, has_s ? sa : NULL, sp, has_ts ? &ts : NULL);
    VASSERT(rc == HTP_OK || rc == HTP_ERROR, "OK or ERROR");
    if (rc == HTP_OK) VASSERT((conn->client_addr != NULL) == (has_c != 0) && (conn->server_addr != NULL) == (has_s != 0), "OK: both addresses copied");
#ifdef KNOWN_F_C18_CONN_OPEN
    /* finding c18_conn_open: a failed server_addr copy frees client_addr but leaves the stale pointer behind */
    if (rc == HTP_ERROR) conn->client_addr = NULL;
#endif
    htp_conn_close(conn, has_ts ? &ts : NULL);
    htp_conn_destroy(conn);
  }
  CANARY(); }'''
lem('c18_conn_open', ['htp_connection.c'], CONN_H,
    'htp_conn_create ; htp_conn_open ; htp_conn_close ; htp_conn_destroy: partial creation is undone, both address copies are freed exactly once whichever allocation fails, nothing leaks',
    ['addresses: NULL or any C string of <= 3 characters; ports, timestamp arbitrary; real htp_list.c linked',
     'the connection holds no transaction and no log message (htp_tx_destroy_incomplete asserted unreachable)'],
    defs={}, link=['htp_list.c'], unwind=6, min_obl=30)

# ======================================================================================================================
# 4. multipart Content-Disposition ; htp_mpart_part_destroy
# ======================================================================================================================
CD_H = r'''
static void cd_case(const unsigned char *a, int gave_up, int type, int has_name, int has_file) {          /* CDN is a constant */
  htp_mpartp_t *parser = malloc(sizeof(*parser));
  htp_multipart_part_t *part = malloc(sizeof(*part));
  htp_header_t *h = malloc(sizeof(*h));
  htp_table_t *t = malloc(sizeof(*t)); void **el = C18_ELEMS_RAW(8);
  bstr *name = C18_BSTR_RAW(19), *key = C18_BSTR_RAW(19), *value = C18_BSTR_RAW(CDN);
  bstr *name0 = C18_BSTR_RAW(1), *fname0 = C18_BSTR_RAW(1); htp_file_t *file0 = malloc(sizeof(*file0));
#define CLEAN free(parser); free(part); free(h); free(t); free(el); free(name); free(key); free(value); free(name0); free(fname0); free(file0)
  C18_NEED(parser, CLEAN) C18_NEED(part, CLEAN) C18_NEED(h, CLEAN) C18_NEED(t, CLEAN) C18_NEED(el, CLEAN) C18_NEED(name, CLEAN) C18_NEED(key, CLEAN) C18_NEED(value, CLEAN)
  C18_NEED(name0, CLEAN) C18_NEED(fname0, CLEAN) C18_NEED(file0, CLEAN)
  *parser = (htp_mpartp_t){0}; *part = (htp_multipart_part_t){0}; *h = (htp_header_t){0}; *file0 = (htp_file_t){0};
  C18_BSTR_INIT(name, 19, "content-disposition"); C18_BSTR_INIT(key, 19, "content-disposition"); C18_BSTR_INIT(value, CDN, a);
  C18_BSTR_INIT(name0, 1, "n"); C18_BSTR_INIT(fname0, 1, "f"); file0->fd = -1; file0->filename = fname0;
  C18_TABLE_INIT(t, el, 8);                                                     /* = htp_table_create(4) in htp_mpart_part_create */
  h->name = name; h->value = value;
  C18_TABLE_PUT(t, key, h, HTP_TABLE_KEYS_COPIED);                              /* = htp_table_add(part->headers, h->name, h) in htp_mpartp_parse_header */
  part->parser = parser; part->type = type; part->headers = t;
  /* the state of the parameter loop after earlier parameters: the part may already own a name and / or a file record */
  if (has_name) part->name = name0; else free(name0);
  if (has_file) part->file = file0; else { free(fname0); free(file0); }
  htp_status_t rc = htp_mpart_part_parse_c_d(part);
  VASSERT(rc == HTP_OK || rc == HTP_DECLINED || rc == HTP_ERROR, "OK, DECLINED or ERROR");
  /* (finding c18_mpart_cd_file - stale part->file after a failed file-name copy - was repaired in /repo by e20b396 while this unit
   *  was being written; the unit runs without a KNOWN_F carve-out and the mutant that removes the repair is killed) */
  if (part->file != NULL) VASSERT(__CPROVER_r_ok(part->file, sizeof(htp_file_t)) && part->file->filename != NULL && part->file->fd == -1, "a file record, when present, is live and has a name");
  bstr *handed_over = (gave_up && part->type == MULTIPART_PART_TEXT) ? part->name : NULL;   /* then owned by tx->request_params */
  htp_mpart_part_destroy(part, gave_up);                                        /* htp_mpartp_destroy: every part in the list */
  bstr_free(handed_over);                                                       /* htp_tx_destroy_incomplete: bstr_free(param->name) */
  free(parser);
}
void HARNESS(void) { unsigned char in[CDN]; int gave_up, type, has_name, has_file;
  VASSUME(in[0] == 'f' && in[1] == 'o' && in[2] == 'r' && in[3] == 'm' && in[4] == '-' && in[5] == 'd' && in[6] == 'a' && in[7] == 't' && in[8] == 'a');
  cd_case(in, gave_up, type, has_name, has_file); CANARY(); }'''
CD_US = ','.join(['htp_mpart_part_parse_c_d.6:3'] + ['htp_mpart_part_parse_c_d.%d:15' % i for i in range(6)] + ['htp_mpart_decode_quoted_cd_value_inplace.0:15'])
lem('c18_mpart_cd', ['htp_multipart.c'], CD_H,
    'htp_mpart_part_parse_c_d ; htp_mpart_part_destroy on a part laid out as htp_mpart_part_create/htp_mpartp_parse_header lay it out (header table with copied key, built field by field): name, file record and file name are freed exactly once whichever allocation fails and wherever the syntax check gives up; no leak',
    ['C-D header value: "form-data" followed by every byte string of exactly 13 bytes (one complete name= or filename= parameter, a second incomplete one, unknown parameters, broken quoting, escapes)',
     'headers with several parameters: covered by starting from a part that may ALREADY own a name and/or a file record (the state of the parameter loop after earlier parameters; a superset of what is reachable at entry)',
     'bstr_dup_mem exchanged at its call sites (goto-instrument --replace-calls) by a fixed-capacity stand-in (contracts/c18_alloc.h): symbolic-size copy + in-place unquoting does not encode; real htp_table.c, htp_list.c, bstr.c linked otherwise',
     'part type and gave_up_data arbitrary; when the name was handed over to the transaction (gave_up_data and a TEXT part) the harness frees it as htp_tx_destroy_incomplete does',
     ],
    defs={'CDN': 22, 'C18_DUPCAP': 16}, link=['htp_table.c', 'htp_list.c', 'bstr.c'], unwind=23, unwindset=CD_US,
    pre_instrument=['--replace-calls', 'bstr_dup_mem:c18_bstr_dup_mem'])

# ======================================================================================================================
# 5. urlencoded body: parameters move from the parser's table to the transaction ; htp_tx_destroy_incomplete (REAL)
# ======================================================================================================================
TXLINK = ['htp_transaction.c', 'htp_urlencoded.c', 'htp_table.c', 'htp_list.c', 'bstr.c', 'bstr_builder.c', 'htp_connection.c',
          'htp_connection_parser.c', 'htp_util.c', 'htp_multipart.c', 'htp_hooks.c', 'htp_config.c', 'htp_decompressors.c']
URLB_H = r'''
htp_status_t c18_nop_urldecode(htp_tx_t *tx, bstr *b) { VASSERT(__CPROVER_r_ok(b, sizeof(bstr)), "decoded string is live"); return HTP_OK; }
static void urlb_case(int npairs, int state) {                        /* npairs is a constant */
  htp_tx_t *tx = malloc(sizeof(*tx)); htp_cfg_t *cfg = malloc(sizeof(*cfg)); htp_urlenp_t *up = malloc(sizeof(*up));
  htp_table_t *tp = malloc(sizeof(*tp)); void **tpe = C18_ELEMS_RAW(2);      /* tx->request_params: room for ONE pair, the second add must grow */
  htp_table_t *pp = malloc(sizeof(*pp)); void **ppe = C18_ELEMS_RAW(4);      /* the parser's table: two pairs */
  bstr_builder_t *bb = malloc(sizeof(*bb)); htp_list_array_t *pl = malloc(sizeof(*pl)); void **ple = C18_ELEMS_RAW(2);
  bstr *n0 = C18_BSTR_RAW(1), *v0 = C18_BSTR_RAW(1), *n1 = C18_BSTR_RAW(1), *v1 = C18_BSTR_RAW(1);
#define CLEAN free(tx); free(cfg); free(up); free(tp); free(tpe); free(pp); free(ppe); free(bb); free(pl); free(ple); free(n0); free(v0); free(n1); free(v1)
  C18_NEED(tx, CLEAN) C18_NEED(cfg, CLEAN) C18_NEED(up, CLEAN) C18_NEED(tp, CLEAN) C18_NEED(tpe, CLEAN) C18_NEED(pp, CLEAN) C18_NEED(ppe, CLEAN)
  C18_NEED(bb, CLEAN) C18_NEED(pl, CLEAN) C18_NEED(ple, CLEAN) C18_NEED(n0, CLEAN) C18_NEED(v0, CLEAN) C18_NEED(n1, CLEAN) C18_NEED(v1, CLEAN)
  *tx = (htp_tx_t){0}; *cfg = (htp_cfg_t){0}; *up = (htp_urlenp_t){0};
  C18_BSTR_INIT(n0, 1, "a"); C18_BSTR_INIT(v0, 1, "1"); C18_BSTR_INIT(n1, 1, "b"); C18_BSTR_INIT(v1, 1, "2");
  C18_TABLE_INIT(tp, tpe, 2); C18_TABLE_INIT(pp, ppe, 4); C18_LIST_INIT(pl, ple, 2); bb->pieces = pl;
  if (npairs >= 1) C18_TABLE_PUT(pp, n0, v0, HTP_TABLE_KEYS_ADOPTED); else { free(n0); free(v0); }      /* htp_urlenp_add_field_piece: htp_table_addn(params, name, value) */
  if (npairs >= 2) C18_TABLE_PUT(pp, n1, v1, HTP_TABLE_KEYS_ADOPTED); else { free(n1); free(v1); }
  tx->cfg = cfg; tx->is_config_shared = HTP_CONFIG_SHARED; tx->request_params = tp;                      /* as after htp_tx_create */
  up->tx = tx; up->params = pp; up->_bb = bb; up->argument_separator = '&'; up->decode_url_encoding = 1; up->_state = state;   /* as after htp_urlenp_create + parsing */
  tx->request_urlenp_body = up;
  htp_tx_data_t d; d.tx = tx; d.data = NULL; d.len = 0; d.is_last = 1;                                    /* end-of-body marker */
  htp_status_t rc = htp_ch_urlencoded_callback_request_body_data(&d);
  VASSERT(rc == HTP_OK || rc == HTP_ERROR, "OK or ERROR");
  if (rc == HTP_OK) VASSERT(up->params == NULL && htp_table_size(tx->request_params) == (size_t) npairs, "OK: every pair moved, the parser gave its table up");
#ifdef KNOWN_F_C18_URLENC_PARAMS
  /* finding c18_urlenc_params: after a failure in the middle of the move the pairs already moved are owned by BOTH tables.
   * Harness-side repair = roll the move back: drop the transaction's records, the strings stay with the parser. */
  if (rc == HTP_ERROR && up->params != NULL) {
    for (size_t i = 0, n = htp_table_size(tx->request_params); i < n; i++) free(htp_table_get_index(tx->request_params, i, NULL));
    htp_table_clear_ex(tx->request_params);
  }
#endif
  htp_tx_destroy_incomplete(tx);                                                                         /* REAL teardown: parsers, parameters, tables */
  free(cfg);
}
void HARNESS(void) { int state = HTP_URLENP_STATE_KEY;      /* body ended with the separator: the final (empty) field adds no pair */
  int np; VASSUME(np >= 0 && np <= 2);
  if (np == 0) urlb_case(0, state); if (np == 1) urlb_case(1, state); if (np == 2) urlb_case(2, state);
  CANARY(); }'''
lem('c18_urlenc_body', ['htp_content_handlers.c'], URLB_H,
    'htp_ch_urlencoded_callback_request_body_data at end of body ; REAL htp_tx_destroy_incomplete (htp_urlenp_destroy, parameter loop, htp_table_destroy): the 0..2 parsed pairs are owned by exactly one table at teardown whichever allocation fails (param record, growth of tx->request_params, the empty strings of the final field); nothing leaks on success',
    ['transaction, configuration, urlencoded parser, its table (0, 1 or 2 adopted pairs) and string builder laid out field by field as htp_tx_create / htp_urlenp_create / htp_urlenp_add_field_piece leave them; one-byte names and values',
     'tx->request_params has room for one pair, so the second move exercises the growth path and its failure; no parameter_processor',
     'parser state at end of body = KEY with nothing pending (a body ending in the separator); the VALUE state, where htp_urlenp_finalize itself appends one more pair through the real htp_table_addn, runs out of memory in propositional reduction (12 GB) and is covered only by the native sweep findings/c18_urlenc_params.c',
     'htp_tx_urldecode_params_inplace (no allocation; in-place decoder, C12/C15) exchanged at its call sites by a stand-in that requires a live bstr',
     'the other transaction fields are NULL (htp_tx_destroy_incomplete handles them by its NULL tests; no connection attached)'],
    defs={}, link=TXLINK, unwind=6,
    pre_instrument=['--replace-calls', 'htp_tx_urldecode_params_inplace:c18_nop_urldecode'])

# ======================================================================================================================
# multipart body callback: refused after the strings were handed to the transaction (no second finalisation)
# ======================================================================================================================
NEVER = ['htp_mpartp_parse', 'htp_mpartp_finalize', 'htp_mpartp_get_multipart', 'htp_list_array_size', 'htp_list_array_get', 'htp_tx_req_add_param']
UNITS.append(U(name='c18_mpart_callback_after_giveup', props=['C18', 'C01', 'C14'], kind='contract', src=['htp_content_handlers.c'],
               enforce='htp_ch_multipart_callback_request_body_data', replace=['%s/contract_never_%s' % (f, f) for f in NEVER], contracts_inc=['c18_alloc.h'],
               loops={'htp_content_handlers.c': {'htp_ch_multipart_callback_request_body_data': {'count': 1, 0: dict(assigns='i', inv=['i <= n'], dec='n - i')}}},
               harness='void HARNESS(void) { htp_tx_data_t *d; htp_ch_multipart_callback_request_body_data(d); CANARY(); }',
               defs={'quick': {'C18_MPART_AFTER_GIVEUP': 1}}, min_obl=10,
               sub='after gave_up_data == 1 (names/values of the text parts belong to tx->request_params) EVERY further invocation - data or end-of-body signal - returns HTP_ERROR, '
                   'calls neither the parser nor the parameter table (callee stubs require false) and writes nothing: no second finalisation, hence no string owned twice',
               assumes=['entry state gave_up_data == 1 only; the first finalisation (ownership hand-over under allocation failure) is unit c18_urlenc_body\'s multipart twin, shown natively only (findings/c18_mpart_params.c)']))
