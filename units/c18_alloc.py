"""C18 - allocation failure anywhere is survived without memory unsafety: OWNERSHIP LEMMA UNITS.

Every unit is a plain harness  `build minimal valid arguments by hand ; call the real function ; run the REAL
teardown the library would run later on the same objects`  with every malloc/calloc/realloc/strdup allowed to fail
independently (--malloc-may-fail --malloc-fail-null are always on).  The obligations are CBMC's pointer checks
(double free, use after free, free of a non-heap / non-base pointer, dereference of NULL / dead object) plus
--memory-leak-check where the harness can free everything it owns, plus a few VASSERTs on the error protocol.

KNOWN_F_C18_<NAME> macros (defined by default): the harness repairs the dangling pointer of a CONFIRMED defect
itself before the teardown, so that the unit passes on the unchanged tree and still checks everything else.
notes/c18.md says which macro belongs to which finding; remove the macro from `defs` after the fix has landed.
"""
from vrun import U

UNITS = []
P = ['C18', 'C01']


def cases(macro, lo, hi):
    return ' '.join('%s(%d)' % (macro, k) for k in range(lo, hi + 1))


def lem(name, src, harness, sub, assumes, defs=None, unwind=8, leak=True, kind='lemma', **kw):
    d = {'quick': dict(defs or {})}
    fl = ['--unwind', str(unwind), '--unwinding-assertions'] + (['--memory-leak-check'] if leak else [])
    kw.setdefault('min_obl', 50)
    kw.setdefault('timeout', (300, 900))
    UNITS.append(U(name=name, props=P, kind=kind, src=src, contracts_inc=['c18_alloc.h'], harness=harness, defs=d,
                   flags_add=fl + list(kw.pop('flags_add', [])), sub=sub,
                   assumes=['every malloc/calloc/realloc/strdup may fail independently; the obligations are the pointer checks of the called function AND of the real teardown that follows'] + list(assumes), **kw))


# ======================================================================================================================
# 1. Authorization parsing ; the two bstr_free of htp_tx_destroy_incomplete
# ======================================================================================================================
AUTH_H = r'''
static void auth_case(size_t n, const unsigned char *a) {          /* n is a constant at every call site */
  htp_connp_t *c = calloc(1, sizeof(*c)); htp_tx_t *tx = calloc(1, sizeof(*tx)); htp_header_t *h = calloc(1, sizeof(*h));
  bstr *v = c18_bstr(n, a);
  if (!c || !tx || !h || !v) { free(c); free(tx); free(h); free(v); return; }
  c->in_tx = tx; tx->connp = c; h->value = v;
  int rc = AUTH_FN(c, h);
  VASSERT(rc == HTP_OK || rc == HTP_ERROR || rc == HTP_DECLINED, "documented return codes only");
#if AUTH_BASIC
  if (rc == HTP_OK) VASSERT(tx->request_auth_username != NULL && tx->request_auth_password != NULL, "OK: both credentials present");
#ifdef KNOWN_F_C18_AUTH_BASIC
  /* finding c18_auth_basic: on a failed password allocation the username is freed but the field keeps the stale pointer */
  if (rc == HTP_ERROR) tx->request_auth_username = NULL;
#endif
  if (rc != HTP_OK) VASSERT(tx->request_auth_password == NULL, "no password without success");
#endif
  /* what htp_tx_destroy_incomplete does with the two fields */
  bstr_free(tx->request_auth_username);
  bstr_free(tx->request_auth_password);
  free(v); free(h); free(tx); free(c);
}
#define C(k) if (n == (k)) { auth_case((k), in); }
void HARNESS(void) { size_t n; unsigned char in[AUTHN];
  VASSUME(n >= AUTHMIN && n <= AUTHN);
  CASES
  CANARY(); }'''
lem('c18_auth_basic', ['htp_parsers.c'], AUTH_H.replace('CASES', cases('C', 5, 14)).replace('AUTH_FN', 'htp_parse_authorization_basic'),
    'htp_parse_authorization_basic ; bstr_free(username) ; bstr_free(password): no double free / leak whichever of the four allocations fails (base64 scratch, decoded bstr, username, password)',
    ['header value: every byte string of length 5..14 ("Basic" + up to 9 bytes = up to 6 decoded bytes); value lengths are enumerated constants; shorter values are excluded by the caller htp_parse_authorization (prefix test)',
     'real htp_base64.c and bstr.c linked',
     'KNOWN_F_C18_AUTH_BASIC: the harness NULLs request_auth_username after an HTP_ERROR return (finding c18_auth_basic); everything else is checked'],
    defs={'AUTHN': 14, 'AUTHMIN': 5, 'AUTH_BASIC': 1, 'KNOWN_F_C18_AUTH_BASIC': 1}, link=['bstr.c', 'htp_base64.c'], unwind=16)
