from vrun import U

UNITS = []

# ---- L2: a complete header line that ends exactly at the end of the chunk is kept pending (it may be folded) -------------
HDR_H = '''
#ifndef VNATIVE   /* the native replay links the real htp_log */
void htp_log(htp_connp_t *connp, const char *file, int line, enum htp_log_level_t level, int code, const char *fmt, ...) { }
#endif
/* constant-capacity model of bstr_dup_mem (symbolic-size heap objects do not bit-blast); checked against the real function by unit c13_dup_model_lemma */
bstr *v_model_dup_mem(const void *data, size_t len) {
  if (len > N) return NULL;
  bstr *b = malloc(sizeof(bstr) + N); if (b == NULL) return NULL;
  b->len = len; b->size = len; b->realptr = NULL;
  for (size_t i = 0; i < N; i++) if (i < len) ((unsigned char *) b)[sizeof(bstr) + i] = ((const unsigned char *) data)[i];
  return b; }
/* appending to a pending header cannot happen in this scenario (one line, nothing pending): reaching it is an error */
bstr *v_model_add_mem(bstr *destination, const void *data, size_t len) { VASSERT(0, "bstr_add_mem is not reached in the single-line scenario"); return NULL; }
static int g_processed;
static htp_status_t stub_process_header(htp_connp_t *connp, unsigned char *data, size_t len) { g_processed++; return HTP_OK; }
typedef struct { unsigned char line[N]; } vin_t;
void HARNESS(void) { VIN(vin_t);
  /* one header line "xxxx\\n" (LF or CRLF ending) with no line break inside and a first byte that is not a folding character */
  for (int i = 0; i + 1 < N; i++) VASSUME(in.line[i] != '\\n' && (in.line[i] != '\\r' || i + 2 == N));
#ifdef CR_AT_END
  VASSUME(in.line[N - 1] == '\\r' && in.line[0] != ' ' && in.line[0] != '\\t' && in.line[0] != 0 && in.line[0] != '\\r');
#else
  VASSUME(in.line[N - 1] == '\\n' && in.line[0] != ' ' && in.line[0] != '\\t' && in.line[0] != 0 && in.line[0] != '\\r');
#endif
#ifdef CONCRETE_TAIL
  /* the response state function is too branchy for a fully symbolic line: only the first byte (the one the folding test looks at) stays symbolic */
  for (int i = 1; i + 1 < N; i++) VASSUME(in.line[i] == (i == 1 ? ':' : 'b'));
#endif
  /* static objects: their zero initialisation is a constant for symex (a calloc'ed object keeps every field symbolic and nothing is pruned) */
  static htp_connp_t C; static htp_tx_t TX; static htp_cfg_t CFG;
  htp_connp_t *c = &C; htp_tx_t *tx = &TX; htp_cfg_t *cfg = &CFG;
  unsigned char *chunk = malloc(N);
  if (!chunk) return;
  memcpy(chunk, in.line, N);
  cfg->field_limit_hard = 1000; cfg->server_personality = HTP_SERVER_GENERIC;
  cfg->process_request_header = stub_process_header; cfg->process_response_header = stub_process_header;
  tx->cfg = cfg; tx->connp = c; tx->request_progress = HTP_REQUEST_HEADERS; tx->response_progress = HTP_RESPONSE_HEADERS;
  c->cfg = cfg; c->DIR_tx = tx; c->DIR_status = HTP_STREAM_DATA;
  c->DIR_current_data = chunk; c->DIR_current_len = N;
  htp_status_t rc = STATE_FN(c);
  if (rc == HTP_ERROR) { /* allocation failure while keeping the line */ free(c->DIR_header); free(c->DIR_buf); free(chunk); return; }
#ifdef CR_AT_END
  /* the chunk ends with the CR of an unfinished line: the state must ask the driver to BUFFER it (DATA_BUFFER), not to drop it (DATA) */
  VASSERT(rc == HTP_DATA_BUFFER, "a line cut between CR and LF asks for buffering (HTP_DATA would make the driver drop the unconsumed part of the line)");
  VASSERT(g_processed == 0 && c->DIR_header == NULL, "nothing is processed or kept before the line is complete");
  VASSERT(c->DIR_current_read_offset == N && c->DIR_current_consume_offset == 0, "whole chunk read, nothing consumed: the driver buffers exactly the line's bytes");
  free(c->DIR_buf); free(chunk);
#else
  VASSERT(rc == HTP_DATA_BUFFER, "a header line ending exactly at the chunk end asks for more data");
  VASSERT(g_processed == 0, "look-ahead defers: the header is NOT processed before the first byte of the next line is known (it may be a folded continuation)");
  VASSERT(c->DIR_header != NULL, "the line is kept pending");
  if (c->DIR_header != NULL) {
    size_t want = (N >= 2 && in.line[N - 2] == '\\r') ? N - 2 : N - 1;
    VASSERT(bstr_len(c->DIR_header) == want, "pending header = the line without its line ending");
    for (size_t i = 0; i < want; i++) VASSERT(bstr_ptr(c->DIR_header)[i] == in.line[i], "pending header bytes are the line's bytes");
  }
  VASSERT(c->DIR_current_read_offset == N, "the whole chunk was read");
  free(c->DIR_header); free(c->DIR_buf); free(chunk);
#endif
  CANARY(); }'''
for d, fn, src in (('in', 'htp_connp_REQ_HEADERS', 'htp_request.c'), ('out', 'htp_connp_RES_HEADERS', 'htp_response.c')):
    UNITS.append(U(name='%s_lookahead_defers' % fn, props=['C03', 'C02'], kind='bounded', src=[src], link=['htp_util.c', 'bstr.c', 'htp_hooks.c', 'htp_list.c'],
                   replay='vin', pre='#define bstr_dup_mem v_model_dup_mem\n#define bstr_add_mem v_model_add_mem', harness=HDR_H.replace('DIR', d).replace('STATE_FN', fn),
                   defs={'quick': {'N': 5}, 'thorough': {'N': 8}}, min_obl=30, timeout=(600, 2400),
                   flags_add=['--unwind', '10', '--unwinding-assertions'], flags_del=['--unsigned-overflow-check'], solver='--sat-solver cadical',
                   bound='header lines of exactly N bytes (quick 5, thorough 8) over all byte values, LF or CRLF ended',
                   sub='L2 at the header-folding look-ahead of %s: a complete header line that ends exactly at the chunk end is kept pending and not processed, because the next chunk may start with a folded continuation' % fn,
                   assumes=['cfg->process_*_header replaced by a counting stub through the function pointer; real line assembly, chomp, folding test, buffer handling',
                            'bounded by line length; the deferral condition itself does not depend on the length', 'bstr_dup_mem replaced by a constant-capacity model inside this TU']))

for d, fn, src in (('in', 'htp_connp_REQ_HEADERS', 'htp_request.c'), ('out', 'htp_connp_RES_HEADERS', 'htp_response.c')):
    UNITS.append(U(name='%s_cr_at_chunk_end' % fn, props=['C03', 'C02'], kind='bounded', src=[src], link=['htp_util.c', 'bstr.c', 'htp_hooks.c', 'htp_list.c'],
                   replay='vin', pre='#define bstr_dup_mem v_model_dup_mem\n#define bstr_add_mem v_model_add_mem', harness=HDR_H.replace('DIR', d).replace('STATE_FN', fn),
                   defs={'quick': {'N': 5, 'CR_AT_END': 1}, 'thorough': {'N': 8, 'CR_AT_END': 1}}, min_obl=30, timeout=(600, 2400),
                   flags_add=['--unwind', '10', '--unwinding-assertions'], flags_del=['--unsigned-overflow-check'], solver='--sat-solver cadical',
                   bound='header line prefixes of exactly N bytes (quick 5, thorough 8) ending with CR, no LF inside',
                   sub='L2 at the CR/LF look-ahead of %s: a header line cut between its CR and LF asks for buffering (DATA_BUFFER) with nothing consumed, so that the driver keeps the line; nothing is processed' % fn,
                   assumes=['cfg->process_*_header replaced by a counting stub through the function pointer; real line assembly, chomp, folding test, buffer handling',
                            'bounded by line length; the deferral condition itself does not depend on the length', 'bstr_dup_mem replaced by a constant-capacity model inside this TU']))


# ---- L2 at the end-of-response probe: RES_FINALIZE looks at the line that follows a response and hands it on ------------------
FIN_H = r'''
#ifndef VNATIVE
void htp_log(htp_connp_t *connp, const char *file, int line, enum htp_log_level_t level, int code, const char *fmt, ...) { }
#endif
#define CAP (B + N)
static unsigned char fin_body[CAP]; static size_t fin_body_n; static int fin_body_calls, fin_complete_calls; static unsigned char fin_treat;
int v_stub_treat(const uint8_t *data, size_t len) { return fin_treat; }      /* any answer of the "is this a status line?" heuristic */
htp_status_t v_stub_body(htp_tx_t *tx, const void *data, size_t len) {
  fin_body_calls++;
  for (size_t i = 0; i < CAP; i++) if (i < len && fin_body_n + i < CAP) fin_body[fin_body_n + i] = ((const unsigned char *) data)[i];
  fin_body_n += len; return HTP_OK; }
htp_status_t v_stub_complete(htp_tx_t *tx, int hybrid_mode) { fin_complete_calls++; return HTP_OK; }
typedef struct { unsigned char pre[B]; unsigned char chunk[N]; size_t lb; size_t start; unsigned char treat; } vin_t;
static htp_connp_t C; static htp_tx_t TX; static htp_cfg_t CFG;
static void run(vin_t in, size_t lb) {            /* lb is a constant at every call site: out_buf is a heap object of exactly lb bytes */
  htp_connp_t *c = &C; htp_tx_t *tx = &TX; htp_cfg_t *cfg = &CFG;
  unsigned char *chunk = malloc(N); unsigned char *ob = lb ? malloc(lb) : NULL;
  if (!chunk || (lb && !ob)) { free(chunk); free(ob); return; }
  memcpy(chunk, in.chunk, N); if (lb) memcpy(ob, in.pre, lb);
  cfg->field_limit_hard = 1000; tx->cfg = cfg; tx->connp = c; c->cfg = cfg; c->out_tx = tx; c->out_status = HTP_STREAM_DATA;
  c->out_current_data = chunk; c->out_current_len = N;
  c->out_current_read_offset = c->out_current_consume_offset = (int64_t) in.start;
  c->out_buf = ob; c->out_buf_size = lb; fin_treat = in.treat & 1; fin_body_n = 0; fin_body_calls = 0; fin_complete_calls = 0;
  /* expected pending byte sequence on entry: the buffered bytes, then the unconsumed rest of the chunk */
  unsigned char want[CAP]; size_t nw = 0;
  for (size_t i = 0; i < lb; i++) want[nw++] = in.pre[i];
  for (size_t i = 0; i < N; i++) if (i >= in.start) want[nw++] = in.chunk[i];
  htp_status_t rc = htp_connp_RES_FINALIZE(c);
  if (rc == HTP_ERROR) { free(c->out_buf); free(chunk); return; }            /* allocation failure inside the consolidation */
  if (rc == HTP_DATA_BUFFER) {
    VASSERT(c->out_current_read_offset == N && c->out_current_consume_offset == (int64_t) in.start && c->out_buf == ob && c->out_buf_size == lb && fin_body_calls == 0,
            "probe needs more data: chunk read to its end, nothing consumed, nothing delivered, buffer untouched (the driver buffers the rest)");
  } else {
    VASSERT(rc == HTP_OK && fin_complete_calls + fin_body_calls == 1, "either the line is delivered as body (once) or the response is completed (once)");
    VASSERT(c->out_current_consume_offset >= 0 && c->out_current_consume_offset <= c->out_current_read_offset && c->out_current_read_offset <= N, "cursor order");
    VASSERT(c->out_buf != NULL || c->out_buf_size == 0, "buffer size without a buffer");
    /* conservation: bytes delivered as body ++ bytes still buffered ++ unconsumed rest of the chunk == what was pending on entry:
       the line after a response is handed to the next state exactly once, whatever part of it arrived in an earlier chunk */
    unsigned char got[2 * CAP]; size_t ng = 0;
    for (size_t i = 0; i < CAP; i++) if (i < fin_body_n) got[ng++] = fin_body[i];
    size_t nb = c->out_buf != NULL ? c->out_buf_size : 0;
    VASSERT(nb <= CAP && fin_body_n <= CAP, "sizes within what was pending");
    if (nb > CAP || fin_body_n > CAP || c->out_current_consume_offset < 0 || c->out_current_consume_offset > N) { free(c->out_buf); free(chunk); return; }
    for (size_t i = 0; i < CAP; i++) if (i < nb) got[ng++] = c->out_buf[i];
    for (size_t i = 0; i < N; i++) if ((int64_t) i >= c->out_current_consume_offset) got[ng++] = in.chunk[i];
    VASSERT(ng == nw, "conservation (length): delivered ++ buffered ++ unconsumed == pending on entry (no byte of the probed line is lost or doubled)");
    for (size_t i = 0; i < CAP; i++) if (i < nw && i < ng) VASSERT(got[i] == want[i], "conservation (bytes): same bytes in the same order");
  }
  free(c->out_buf); free(chunk);
}
void HARNESS(void) { VIN(vin_t);
  VASSUME(in.lb <= B && in.start <= N);
  VASSUME(in.lb == 0 || in.start == 0);                         /* a probe continued from an earlier chunk starts at the beginning of this one */
  for (size_t i = 0; i < B; i++) VASSUME(in.pre[i] != '\n');    /* buffered bytes are an unfinished line */
  if (in.lb == 0) run(in, 0);
#if B >= 1
  else if (in.lb == 1) run(in, 1);
#endif
#if B >= 2
  else if (in.lb == 2) run(in, 2);
#endif
#if B >= 3
  else if (in.lb == 3) run(in, 3);
#endif
  CANARY(); }'''
UNITS.append(U(name='htp_connp_RES_FINALIZE_probe_conserves', props=['C03', 'C06', 'C01'], kind='bounded', src=['htp_response.c'], link=['htp_util.c', 'bstr.c', 'htp_hooks.c', 'htp_list.c'],
               replay='vin', pre='#define htp_treat_response_line_as_body v_stub_treat\n#define htp_tx_res_process_body_data_ex v_stub_body\n#define htp_tx_state_response_complete_ex v_stub_complete',
               harness=FIN_H, defs={'quick': {'N': 3, 'B': 2}, 'thorough': {'N': 5, 'B': 3}}, min_obl=30, timeout=(600, 2400),
               flags_add=['--unwind', '10', '--unwinding-assertions'], flags_del=['--unsigned-overflow-check'], solver='--sat-solver cadical',
               bound='chunk of N bytes (quick 3, thorough 5) over all byte values, 0..B bytes (quick 2, thorough 3) of the probed line buffered by earlier calls, any start offset',
               sub='L2 at the end-of-response probe (htp_connp_RES_FINALIZE + real consolidation/buffering): the line that follows a response is either delivered as body once or handed to RES_LINE once — '
                   'delivered ++ buffered ++ unconsumed equals what was pending on entry, wherever the chunk boundary falls inside that line ("the bytes following the body start the next message")',
               assumes=['htp_treat_response_line_as_body (heuristic: does the line look like a status line) replaced by a stub that answers arbitrarily; body sink and response completion replaced by logging stubs',
                        'stream not closed; a probe that continues from an earlier chunk starts at offset 0 of the current one (that is how the driver re-enters a state after DATA_BUFFER)']))

# (a two-run relational unit `S(whole line) == S(first k bytes) ; real req_buffer ; S(rest)` for htp_connp_REQ_LINE was written and does not finish:
#  symbolic cut position 240 s then solver errors under memory pressure, enumerated cut positions > 600 s.  Not delivered; see DESIGN section 8.2.)

# ---- C10: the cap on a header assembled from folded lines (HTP_MAX_HEADER_FOLDED), for EVERY pending length ------------------------------
FOLD_H = r'''
#ifndef VNATIVE
void htp_log(htp_connp_t *connp, const char *file, int line, enum htp_log_level_t level, int code, const char *fmt, ...) { }
#endif
static int fold_add_calls, fold_dup_calls, fold_processed; static size_t fold_add_len; static unsigned char fold_add_bytes[N]; static const bstr *fold_add_dst;
bstr *v_model_dup_mem(const void *data, size_t len) { fold_dup_calls++; return NULL; }
/* appending to the pending header: logged; the pending object itself is a bare bstr header whose len is SYMBOLIC (its payload is never touched) */
bstr *v_model_add_mem(bstr *destination, const void *data, size_t len) {
  fold_add_calls++; fold_add_dst = destination; fold_add_len = len;
  for (size_t i = 0; i < N; i++) if (i < len) fold_add_bytes[i] = ((const unsigned char *) data)[i];
  return destination; }
static htp_status_t stub_process_header(htp_connp_t *connp, unsigned char *data, size_t len) { fold_processed++; return HTP_OK; }
typedef struct { unsigned char line[N]; size_t pending; } vin_t;
void HARNESS(void) { VIN(vin_t);
  /* one FOLDED continuation line: starts with SP or HT, its only LF is the last byte, something in front of the line ending */
  for (int i = 0; i + 1 < N; i++) VASSUME(in.line[i] != '\n' && in.line[i] != '\r' && in.line[i] != 0);
  VASSUME(in.line[N - 1] == '\n' && (in.line[0] == ' ' || in.line[0] == '\t'));
#ifdef NO_COLON
  for (int i = 0; i < N; i++) VASSUME(in.line[i] != ':');     /* response side: a continuation with a colon makes the state search the pending header's payload (not modelled here) */
#endif
  static htp_connp_t C; static htp_tx_t TX; static htp_cfg_t CFG;
  htp_connp_t *c = &C; htp_tx_t *tx = &TX; htp_cfg_t *cfg = &CFG;
  unsigned char *chunk = malloc(N); bstr *pend = malloc(sizeof(bstr));
  if (!chunk || !pend) { free(chunk); free(pend); return; }
  memcpy(chunk, in.line, N);
  pend->len = in.pending; pend->size = in.pending; pend->realptr = NULL;              /* ANY pending length, below or above the cap */
  cfg->field_limit_hard = 1000; cfg->server_personality = HTP_SERVER_GENERIC;
  cfg->process_request_header = stub_process_header; cfg->process_response_header = stub_process_header;
  tx->cfg = cfg; tx->connp = c; tx->request_progress = HTP_REQUEST_HEADERS; tx->response_progress = HTP_RESPONSE_HEADERS;
  c->cfg = cfg; c->DIR_tx = tx; c->DIR_status = HTP_STREAM_DATA; c->DIR_header = pend;
  c->DIR_current_data = chunk; c->DIR_current_len = N;
  fold_add_calls = 0; fold_dup_calls = 0; fold_processed = 0;
  htp_status_t rc = STATE_FN(c);
  VASSERT(rc == HTP_DATA_BUFFER, "after a folded line at the chunk end the state waits for more data");
  VASSERT(fold_processed == 0 && fold_dup_calls == 0 && c->DIR_header == pend, "the pending header stays pending (the next line may be another continuation)");
  VASSERT(fold_add_calls == (in.pending < HTP_MAX_HEADER_FOLDED ? 1 : 0), "a continuation is appended iff the pending header is below HTP_MAX_HEADER_FOLDED: pending' <= cap - 1 + one line (itself <= field_limit_hard)");
  if (fold_add_calls == 1) {
    VASSERT(fold_add_dst == pend && fold_add_len <= N - 1, "the appended range is (part of) this line");
    VASSERT(fold_add_len >= 1 && fold_add_bytes[fold_add_len - 1] != '\n', "the line ending is not appended");
  }
  VASSERT(c->DIR_current_read_offset == N && c->DIR_current_consume_offset == N && c->DIR_buf == NULL, "the line was consumed, nothing stays buffered");
  free(pend); free(chunk);
  CANARY(); }'''
for d, fn, src in (('in', 'htp_connp_REQ_HEADERS', 'htp_request.c'), ('out', 'htp_connp_RES_HEADERS', 'htp_response.c')):
    UNITS.append(U(name='%s_folded_cap' % fn, props=['C10', 'C01'], kind='bounded', src=[src], link=['htp_util.c', 'bstr.c', 'htp_hooks.c', 'htp_list.c'],
                   replay='vin', pre='#define bstr_dup_mem v_model_dup_mem\n#define bstr_add_mem v_model_add_mem', harness=FOLD_H.replace('DIR', d).replace('STATE_FN', fn),
                   defs={'quick': dict({'N': 4}, **({'NO_COLON': 1} if d == 'out' else {})), 'thorough': dict({'N': 6}, **({'NO_COLON': 1} if d == 'out' else {}))}, min_obl=30, timeout=(600, 2400),
                   flags_add=['--unwind', '10', '--unwinding-assertions'], flags_del=['--unsigned-overflow-check'], solver='--sat-solver cadical',
                   bound=('continuation lines without a colon; ' if d == 'out' else '') + 'one folded continuation line of exactly N bytes (quick 4, thorough 6); the length of the pending header is an UNBOUNDED symbolic size_t',
                   sub='folded-header cap of %s: with a pending header of ANY length, a continuation line is appended iff the pending length is below HTP_MAX_HEADER_FOLDED (102400), '
                       'so an assembled header never exceeds cap - 1 + one line; beyond the cap the line is dropped (warning), never an overflow' % fn,
                   assumes=['bstr_add_mem replaced by a logging model; the pending header is a bare bstr header with symbolic len (its payload is never read on this path)',
                            'cfg->process_*_header replaced by a counting stub']))

# ---- C18 / C01: ownership of the pending header line when the header block ends (and when a new header line arrives) ------------------
PEND_H = r'''
#ifndef VNATIVE
void htp_log(htp_connp_t *connp, const char *file, int line, enum htp_log_level_t level, int code, const char *fmt, ...) { }
#endif
bstr *v_model_dup_mem(const void *data, size_t len) {
  if (len > N) return NULL;
  bstr *b = malloc(sizeof(bstr) + N); if (b == NULL) return NULL;
  b->len = len; b->size = len; b->realptr = NULL;
  for (size_t i = 0; i < N; i++) if (i < len) ((unsigned char *) b)[sizeof(bstr) + i] = ((const unsigned char *) data)[i];
  return b; }
bstr *v_model_add_mem(bstr *destination, const void *data, size_t len) { return destination; }
static int pend_rc, pend_calls, pend_hdrs_rc;
static htp_status_t stub_process_header(htp_connp_t *connp, unsigned char *data, size_t len) { pend_calls++; return pend_rc; }   /* fails e.g. when one of its allocations fails */
htp_status_t v_stub_tx_headers(htp_tx_t *tx) { return pend_hdrs_rc; }
typedef struct { unsigned char line[N]; size_t n; int rc; int hrc; unsigned char clen; } vin_t;
void HARNESS(void) { VIN(vin_t);
  /* the chunk: one complete line - the blank line that ends the header block, or a new (non-folded) header line - followed by nothing */
  VASSUME(in.n >= 1 && in.n <= N && in.line[in.n - 1] == '\n');
  for (size_t i = 0; i < N; i++) if (i + 1 < in.n) VASSUME(in.line[i] != '\n');
  static htp_connp_t C; static htp_tx_t TX; static htp_cfg_t CFG;
  htp_connp_t *c = &C; htp_tx_t *tx = &TX; htp_cfg_t *cfg = &CFG;
  unsigned char *chunk = malloc(N); bstr *pend = malloc(sizeof(bstr) + 2);
  if (!chunk || !pend) { free(chunk); free(pend); return; }
  memcpy(chunk, in.line, N);
  pend->len = 2; pend->size = 2; pend->realptr = NULL; ((unsigned char *) pend)[sizeof(bstr)] = 'a'; ((unsigned char *) pend)[sizeof(bstr) + 1] = ':';
  cfg->field_limit_hard = 1000; cfg->server_personality = HTP_SERVER_GENERIC;
  cfg->process_request_header = stub_process_header; cfg->process_response_header = stub_process_header;
  tx->cfg = cfg; tx->connp = c; tx->request_progress = HTP_REQUEST_HEADERS; tx->response_progress = HTP_RESPONSE_HEADERS; tx->response_transfer_coding = HTP_CODING_NO_BODY;
  c->cfg = cfg; c->DIR_tx = tx; c->DIR_status = HTP_STREAM_DATA; c->DIR_header = pend;
  c->DIR_current_data = chunk; c->DIR_current_len = (int64_t) in.n;
  pend_rc = in.rc; pend_hdrs_rc = in.hrc; pend_calls = 0;
  htp_status_t rc = STATE_FN(c);
  /* whatever happened - header processor refused, allocation failed, block finished - the pending line has exactly ONE owner: either the parser still
     holds it (and htp_connp_destroy will free it), or it was released and the field is NULL / holds a NEW string.  The teardown below is what htp_connp_destroy does. */
  if (c->DIR_header != NULL) { bstr_free(c->DIR_header); c->DIR_header = NULL; }          /* double free here = dangling DIR_header */
  if (c->DIR_buf != NULL) free(c->DIR_buf);
  free(chunk);
  CANARY(); }'''
for d, fn, src, txh in (('in', 'htp_connp_REQ_HEADERS', 'htp_request.c', 'htp_tx_state_request_headers'), ('out', 'htp_connp_RES_HEADERS', 'htp_response.c', 'htp_tx_state_response_headers')):
    UNITS.append(U(name='%s_pending_header_owner' % fn, props=['C18', 'C01'], kind='bounded', src=[src], link=['htp_util.c', 'bstr.c', 'htp_hooks.c', 'htp_list.c'],
                   pre='#define bstr_dup_mem v_model_dup_mem\n#define bstr_add_mem v_model_add_mem\n#define %s v_stub_tx_headers\n' % txh, harness=PEND_H.replace('DIR', d).replace('STATE_FN', fn),
                   defs={'quick': {'N': 4}, 'thorough': {'N': 6}}, min_obl=30, timeout=(600, 2400),
                   flags_add=['--unwind', '10', '--unwinding-assertions', '--memory-leak-check'], flags_del=['--unsigned-overflow-check'], solver='--sat-solver cadical',
                   bound='a pending header line + one further complete line of 1..N bytes (quick 4, thorough 6) over all byte values (blank line, new header line, folded line, junk)',
                   sub='ownership of the pending header line in %s: whatever the header processor answers (it fails when one of its allocations fails) and whichever allocation of the state function fails, '
                       'the pending line is freed exactly once by the state function or by the teardown (what htp_connp_destroy does with the field) - no dangling pointer, no double free, no leak' % fn,
                   assumes=['cfg->process_*_header replaced by a stub with an arbitrary answer; the headers transition replaced by a stub with an arbitrary answer', 'bstr_dup_mem / bstr_add_mem replaced by constant-capacity models inside this TU',
                            'no native replay (the failing allocation pattern is not reproduced natively)']))
