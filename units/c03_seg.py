from vrun import U

UNITS = []

# ---- L2: a complete header line that ends exactly at the end of the chunk is kept pending (it may be folded) -------------
HDR_H = '''
#ifndef VNATIVE   /* the native replay links the real htp_log */
void htp_log(htp_connp_t *connp, const char *file, int line, enum htp_log_level_t level, int code, const char *fmt, ...) { }
#endif
/* constant-capacity model of bstr_dup_mem (symbolic-size heap objects do not bit-blast); checked against the real function by unit c13_dup_model_lemma */
bstr *v_model_dup_mem(const void *data, size_t len) {
  if (len > N) return NULL;
  bstr *b = malloc(sizeof(bstr) + N); if (b == NULL) return NULL;
  b->len = len; b->size = len; b->realptr = NULL;
  for (size_t i = 0; i < N; i++) if (i < len) ((unsigned char *) b)[sizeof(bstr) + i] = ((const unsigned char *) data)[i];
  return b; }
/* appending to a pending header cannot happen in this scenario (one line, nothing pending): reaching it is an error */
bstr *v_model_add_mem(bstr *destination, const void *data, size_t len) { VASSERT(0, "bstr_add_mem is not reached in the single-line scenario"); return NULL; }
static int g_processed;
static htp_status_t stub_process_header(htp_connp_t *connp, unsigned char *data, size_t len) { g_processed++; return HTP_OK; }
typedef struct { unsigned char line[N]; } vin_t;
void HARNESS(void) { VIN(vin_t);
  /* one header line "xxxx\\n" (LF or CRLF ending) with no line break inside and a first byte that is not a folding character */
  for (int i = 0; i + 1 < N; i++) VASSUME(in.line[i] != '\\n' && (in.line[i] != '\\r' || i + 2 == N));
  VASSUME(in.line[N - 1] == '\\n' && in.line[0] != ' ' && in.line[0] != '\\t' && in.line[0] != 0 && in.line[0] != '\\r');
#ifdef CONCRETE_TAIL
  /* the response state function is too branchy for a fully symbolic line: only the first byte (the one the folding test looks at) stays symbolic */
  for (int i = 1; i + 1 < N; i++) VASSUME(in.line[i] == (i == 1 ? ':' : 'b'));
#endif
  /* static objects: their zero initialisation is a constant for symex (a calloc'ed object keeps every field symbolic and nothing is pruned) */
  static htp_connp_t C; static htp_tx_t TX; static htp_cfg_t CFG;
  htp_connp_t *c = &C; htp_tx_t *tx = &TX; htp_cfg_t *cfg = &CFG;
  unsigned char *chunk = malloc(N);
  if (!chunk) return;
  memcpy(chunk, in.line, N);
  cfg->field_limit_hard = 1000; cfg->server_personality = HTP_SERVER_GENERIC;
  cfg->process_request_header = stub_process_header; cfg->process_response_header = stub_process_header;
  tx->cfg = cfg; tx->connp = c; tx->request_progress = HTP_REQUEST_HEADERS; tx->response_progress = HTP_RESPONSE_HEADERS;
  c->cfg = cfg; c->DIR_tx = tx; c->DIR_status = HTP_STREAM_DATA;
  c->DIR_current_data = chunk; c->DIR_current_len = N;
  htp_status_t rc = STATE_FN(c);
  if (rc == HTP_ERROR) { /* allocation failure while keeping the line */ free(c->DIR_header); free(c->DIR_buf); free(chunk); return; }
  VASSERT(rc == HTP_DATA_BUFFER, "a header line ending exactly at the chunk end asks for more data");
  VASSERT(g_processed == 0, "look-ahead defers: the header is NOT processed before the first byte of the next line is known (it may be a folded continuation)");
  VASSERT(c->DIR_header != NULL, "the line is kept pending");
  if (c->DIR_header != NULL) {
    size_t want = (N >= 2 && in.line[N - 2] == '\\r') ? N - 2 : N - 1;
    VASSERT(bstr_len(c->DIR_header) == want, "pending header = the line without its line ending");
    for (size_t i = 0; i < want; i++) VASSERT(bstr_ptr(c->DIR_header)[i] == in.line[i], "pending header bytes are the line's bytes");
  }
  VASSERT(c->DIR_current_read_offset == N, "the whole chunk was read");
  free(c->DIR_header); free(c->DIR_buf); free(chunk);
  CANARY(); }'''
for d, fn, src in (('in', 'htp_connp_REQ_HEADERS', 'htp_request.c'), ('out', 'htp_connp_RES_HEADERS', 'htp_response.c')):
    UNITS.append(U(name='%s_lookahead_defers' % fn, props=['C03', 'C02'], kind='bounded', src=[src], link=['htp_util.c', 'bstr.c', 'htp_hooks.c', 'htp_list.c'],
                   replay='vin', pre='#define bstr_dup_mem v_model_dup_mem\n#define bstr_add_mem v_model_add_mem', harness=HDR_H.replace('DIR', d).replace('STATE_FN', fn),
                   defs={'quick': {'N': 5}, 'thorough': {'N': 8}}, min_obl=30, timeout=(600, 2400),
                   flags_add=['--unwind', '8', '--unwinding-assertions'], flags_del=['--unsigned-overflow-check'], solver='--sat-solver cadical',
                   bound='header lines of exactly N bytes (quick 5, thorough 8) over all byte values, LF or CRLF ended',
                   sub='L2 at the header-folding look-ahead of %s: a complete header line that ends exactly at the chunk end is kept pending and not processed, because the next chunk may start with a folded continuation' % fn,
                   assumes=['cfg->process_*_header replaced by a counting stub through the function pointer; real line assembly, chomp, folding test, buffer handling',
                            'bounded by line length; the deferral condition itself does not depend on the length', 'bstr_dup_mem replaced by a constant-capacity model inside this TU']))
