"""Line-oriented REQUEST states under the shared state contract (C09 / C03 / C06 / C10 / C01):
htp_connp_REQ_LINE (+ htp_connp_REQ_LINE_complete), htp_connp_REQ_PROTOCOL, htp_connp_REQ_HEADERS.
Contracts: contracts/sm_reqline.h (each CONTAINS RQ_COMMON_POST of contracts/sm.h); ghosts: contracts/ghost_c09.h; notes: notes/sm_reqline.md."""
import os
from vrun import U

UNITS = []
INC = ['sm_reqline.h']
D = {'quick': {'CHUNK_CAP': 4096, 'LINE_CAP': 256}, 'thorough': {'CHUNK_CAP': 1048576, 'LINE_CAP': 256}}
CADICAL = '--sat-solver cadical'   # MiniSat's simplifier never leaves "propositional reduction" on these units (cadical: seconds)
H = 'void HARNESS(void) { htp_connp_t *c; %s(c); CANARY(); }'
A0 = ['chunk length <= CHUNK_CAP (symbolic); stream offset and message length <= 2^62 on entry (int64 counters provably do not wrap within one call)',
      'no gap: the driver refuses gaps (NULL chunk) in every line-oriented state (htp_request.c:1078-1091)']
A_CONSOL = ('htp_connp_req_consolidate_data replaced by a stub: OK => a fresh readable region of <= LINE_CAP bytes that holds at least the pending bytes of this chunk '
            '(real function: len == buffered + pending, lemma unit htp_connp_req_consolidate_clear); consume offset unchanged or == read offset; ERROR => out-parameters untouched')
A_CLEAR = 'htp_connp_req_clear_buffer replaced by its contract (buffer NULL, size 0, consume == read; real function: lemma unit htp_connp_req_consolidate_clear)'
A_LINECB = ['cfg->parse_request_line restricted to htp_parse_request_line_generic (the Apache 2.2 variant delegates to the same _ex function) and replaced by a frame-only stub (C02 units carry its content)',
            'htp_tx_state_request_line replaced by a stub: OK / STOP / ERROR, OK => in_state == REQ_PROTOCOL, else state unchanged, cursor not in its frame (enforced: unit htp_tx_state_request_line, C05)',
            'htp_connp_is_line_ignorable replaced by a stub answering 0 / 1 (its meaning: bounded unit in units/c02_extract.py); htp_chomp replaced (only shrinks the length); bstr_dup_mem replaced (NULL or a fresh bstr of that length)',
            'request_ignored_lines < UINT_MAX on entry (the counter is an unsigned int; 2^32 empty lines would wrap it, which is defined behaviour but flagged by the overflow check)']

COPY_INV = ['connp->in_current_read_offset >= __CPROVER_loop_entry(connp->in_current_read_offset)', 'connp->in_current_read_offset <= connp->in_current_len',
            'connp->in_stream_offset == __CPROVER_loop_entry(connp->in_stream_offset) + (connp->in_current_read_offset - __CPROVER_loop_entry(connp->in_current_read_offset))',
            '(gk < CHUNK_CAP && (int64_t) gk >= __CPROVER_loop_entry(connp->in_current_read_offset) && (int64_t) gk < connp->in_current_read_offset) ==> connp->in_current_data[gk] != LF']
COPY_LOOP = dict(assigns='connp->in_next_byte, connp->in_current_read_offset, connp->in_stream_offset', inv=COPY_INV,
                 dec='connp->in_current_len - connp->in_current_read_offset')

FP_LINE = ['--restrict-function-pointer', 'htp_connp_REQ_LINE_complete.function_pointer_call.1/htp_parse_request_line_generic']
R_COMPLETE = ['htp_connp_req_consolidate_data/contract_ql_consolidate', 'htp_connp_req_clear_buffer', 'htp_connp_is_line_ignorable/contract_ql_is_line_ignorable', 'htp_chomp',
              'bstr_dup_mem/contract_site_bstr_dup_mem', 'htp_parse_request_line_generic/contract_ql_parse_request_line',
              'htp_tx_state_request_line/contract_ql_tx_state_request_line']

UNITS.append(U(name='htp_connp_REQ_LINE_complete', props=['C09', 'C06', 'C05', 'C03', 'C01'], kind='contract', src=['htp_request.c'], enforce='htp_connp_REQ_LINE_complete',
               replace=R_COMPLETE, contracts_inc=INC, harness=H % 'htp_connp_REQ_LINE_complete', defs=D, min_obl=30, pre_instrument=FP_LINE, solver=CADICAL,
               sub='a complete request line: OK => consumed exactly once (buffer cleared, consume == read); ignorable line => counted, nothing decided; request line => copied, parsed, THEN the transition, '
                   'whose success alone moves the state to REQ_PROTOCOL; any callback refusal => ERROR with the state unchanged; DATA only for an empty region; read/stream offset, chunk, status, tx attachment not in the frame',
               assumes=A0 + [A_CONSOL, A_CLEAR] + A_LINECB))

UNITS.append(U(name='htp_connp_REQ_LINE', props=['C09', 'C03', 'C06', 'C05', 'C01'], kind='contract', src=['htp_request.c'], enforce='htp_connp_REQ_LINE',
               replace=['htp_connp_REQ_LINE_complete/contract_site_htp_connp_REQ_LINE_complete'], contracts_inc=INC, harness=H % 'htp_connp_REQ_LINE', defs=D, min_obl=30, solver=CADICAL,
               loops={'htp_request.c': {'htp_connp_REQ_LINE': {'count': 1, 0: COPY_LOOP}}},
               sub='request line state: the line ends at the FIRST LF (or at the end of the last chunk of a closed stream); incomplete line => DATA_BUFFER with the chunk exhausted and nothing decided '
                   '(no helper ran, state / tx flags / buffer / consume offset untouched: segmentation-safe); stream offset += bytes read; completed line consumed exactly once; shared state contract; terminates',
               assumes=A0 + ['htp_connp_REQ_LINE_complete replaced by its contract (same frame and post as the one enforced by unit htp_connp_REQ_LINE_complete; its requires are asserted at the call site)',
                             'request_ignored_lines < UINT_MAX on entry']))

UNITS.append(U(name='htp_connp_req_consolidate_data_site', props=['C03', 'C09', 'C01'], kind='contract', src=['htp_request.c'], enforce='htp_connp_req_consolidate_data',
               contract='contract_real_req_consolidate', replace=['htp_connp_req_buffer/contract_ql_site_req_buffer'], contracts_inc=INC,
               harness='void HARNESS(void) { htp_connp_t *c; unsigned char **d; size_t *l; htp_connp_req_consolidate_data(c, d, l); CANARY(); }', defs=D, min_obl=30, solver=CADICAL,
               sub='the REAL consolidate meets what the line states assume of it (stubs contract_ql_consolidate / contract_qh_consolidate): frame, OK / ERROR, region = buffered + pending bytes (so never shorter than the pending bytes), '
                   'readable, consume offset unchanged or == read, out-parameters untouched on failure, nothing buffered => a range of the chunk itself',
               assumes=A0[:1] + ['htp_connp_req_buffer replaced by a stub stating what lemma units htp_connp_req_buffer_cap4/6 prove for enumerated sizes (OK => size += pending, consumer catches up; else nothing changes)',
                                 'buffered bytes <= LINE_CAP; the stubs used by the state units say "fresh region" where the real function returns a range of the chunk or of the buffer: readability is what is enforced here']))

# ---- REQ_PROTOCOL -----------------------------------------------------------------------------------------------------------
QP_LOOP = {'htp_request.c': {'htp_connp_REQ_PROTOCOL': {'count': 1, 0: dict(
    assigns='pos', inv=['pos >= connp->in_current_read_offset', 'pos <= connp->in_current_len',
                        '(gk < CHUNK_CAP && (int64_t) gk >= connp->in_current_read_offset && (int64_t) gk < pos) ==> ISSP(connp->in_current_data[gk])'],
    dec='connp->in_current_len - pos')}}}
QP_SUB = ('HTTP/0.9 probe: always OK, consumes nothing (cursor / buffer / status not in the frame); a line with a protocol => HEADERS; otherwise exactly HEADERS (0.9 mark cleared, progress HEADERS) or FINALIZE '
          '(mark and progress untouched); FINALIZE only if every byte left in the chunk is white space and at most 16 are left; shared state contract; terminates. '
          'The decision itself depends on chunk geometry: finding findings/c03_req_protocol_probe.c')
QP_A = A0 + ['htp_log replaced; real htp_is_space linked (htp_util.c)',
             'C03 L2 ("cannot see the byte => defer") is NOT claimed for this probe: it fails on the unchanged tree (strict clause QP_STRICT_L2; native reproducer findings/c03_req_protocol_probe.c)']
UNITS.append(U(name='htp_connp_REQ_PROTOCOL', props=['C09', 'C03', 'C05', 'C01'], kind='contract', src=['htp_request.c'], link=['htp_util.c', 'bstr.c'], enforce='htp_connp_REQ_PROTOCOL',
               replace=['htp_log'], contracts_inc=INC, harness=H % 'htp_connp_REQ_PROTOCOL', defs=D, min_obl=30, solver=CADICAL, loops=QP_LOOP, sub=QP_SUB, assumes=QP_A))
# The L2 obligation of DESIGN "C03" for this probe.  FAILS on the unchanged tree (genuine, natively confirmed: findings/c03_req_protocol_probe.c), therefore not registered.
if os.environ.get('SM_REQLINE_STRICT'):
    UNITS.append(U(name='htp_connp_REQ_PROTOCOL_L2_strict', props=['C03'], kind='contract', src=['htp_request.c'], link=['htp_util.c', 'bstr.c'], enforce='htp_connp_REQ_PROTOCOL',
                   replace=['htp_log'], contracts_inc=INC, harness=H % 'htp_connp_REQ_PROTOCOL', defs={k: dict(v, QP_STRICT_L2=1) for k, v in D.items()}, min_obl=30, solver=CADICAL,
                   loops=QP_LOOP, sub='EXPECTED TO FAIL: with fewer than 17 bytes left in the chunk of an open stream the probe must not conclude HTTP/0.9 (it cannot see what follows)', assumes=QP_A))

# ---- REQ_HEADERS ------------------------------------------------------------------------------------------------------------
LE = '__CPROVER_loop_entry'
QH_LOOPS = {'htp_request.c': {'htp_connp_REQ_HEADERS': {'count': 2,
    0: dict(assigns='QH_LOOP_ASSIGNS(connp)',
            inv=['connp->in_current_read_offset >= %s(connp->in_current_read_offset)' % LE, 'connp->in_current_read_offset <= connp->in_current_len',
                 '0 <= connp->in_current_consume_offset && connp->in_current_consume_offset <= connp->in_current_read_offset',
                 'connp->in_stream_offset == %s(connp->in_stream_offset) + (connp->in_current_read_offset - %s(connp->in_current_read_offset))' % (LE, LE),
                 'QH_HDR_LOOP_INV(connp)', 'QH_HDR_LEN_INV(connp)',
                 'QH_PENDING_NO_LF(connp, %s(connp->in_current_read_offset))' % LE],
            dec='connp->in_current_len - connp->in_current_read_offset'),
    1: dict(assigns='trim', inv=['trim <= len'], dec='len - trim')}}}
# Callees that live in OTHER translation units are given small nondeterministic C MODELS in the wrapper TU (QH_MODELS) instead of contracts: every
# --replace-call-with-contract site costs ~3000 symex steps of write-set bookkeeping (three write sets per call), and with 22 such sites the unit needed
# > 25 min.  What a contract would put into `requires` is an assertion in the model (checked at every call, in every loop iteration); what it would
# `ensure` is what the model computes from nondet choices (no __CPROVER_assume anywhere).  The three callees that are static in htp_request.c itself
# (consolidate, clear_buffer) and the transaction transition stay contracts.
QH_MODELS = r"""
_Bool nondet_qh_bool(void); size_t nondet_qh_size(void); int nondet_qh_int(void);
void htp_log(htp_connp_t *connp, const char *file, int line, enum htp_log_level_t level, int code, const char *fmt, ...) { }
/* cfg->process_request_header (generic personality; C02 / C11 units carry its content): OK or ERROR */
htp_status_t htp_process_request_header_generic(htp_connp_t *connp, unsigned char *data, size_t len) {
  __CPROVER_assert(len < QH_HBOUND, "C10: whatever reaches the header parser is below the folded cap plus one line");
  return nondet_qh_bool() ? HTP_OK : HTP_ERROR; }
/* only the LENGTH of the pending header is modelled: ONE static bstr header object (dfcc forbids allocation inside a loop contract; at most one header is pending at a time) */
struct bstr_t qh_hdr_obj;
bstr *bstr_dup_mem(const void *data, size_t len) {
  __CPROVER_assert(len <= LINE_CAP && __CPROVER_r_ok(data, len), "bstr_dup_mem: source region readable");
  if (nondet_qh_bool()) return NULL;
  qh_hdr_obj.len = len; qh_hdr_obj.size = len; qh_hdr_obj.realptr = NULL; return &qh_hdr_obj; }
bstr *bstr_add_mem(bstr *destination, const void *data, size_t len) {
  __CPROVER_assert(destination != NULL && destination->len < (size_t) HTP_MAX_HEADER_FOLDED, "C10: a folded continuation is appended only while the pending header is below HTP_MAX_HEADER_FOLDED");
  __CPROVER_assert(len <= LINE_CAP && __CPROVER_r_ok(data, len), "bstr_add_mem: source region readable");
  if (nondet_qh_bool()) return NULL;                                          /* failure leaves the destination alone */
  size_t n = destination->len + len; qh_hdr_obj.len = n; qh_hdr_obj.size = n; qh_hdr_obj.realptr = NULL; return &qh_hdr_obj; }
void bstr_free(bstr *b) { __CPROVER_assert(b != NULL, "bstr_free: only a pending header is released"); }   /* dfcc forbids deallocation inside a loop contract */
int htp_chomp(unsigned char *data, size_t *len) { size_t n = nondet_qh_size(); if (n <= *len) *len = n; return nondet_qh_bool(); }
int htp_connp_is_line_terminator(htp_connp_t *connp, unsigned char *data, size_t len, int next_no_lf) { return nondet_qh_bool(); }
int htp_connp_is_line_folded(unsigned char *data, size_t len) { int r = nondet_qh_int(); return r < 0 ? -1 : (r > 0 ? 1 : 0); }
int htp_is_folding_char(int c) { return nondet_qh_bool(); }
"""
QH_R = ['htp_connp_req_consolidate_data/contract_qh_consolidate', 'htp_connp_req_clear_buffer/contract_qh_clear_buffer',
        'htp_tx_state_request_headers/contract_qh_tx_state_request_headers']
UNITS.append(U(name='htp_connp_REQ_HEADERS', props=['C10', 'C09', 'C03', 'C06', 'C05', 'C01'], kind='contract', src=['htp_request.c'], post=QH_MODELS,
               enforce='htp_connp_REQ_HEADERS', contract='contract_qh_htp_connp_REQ_HEADERS', replace=QH_R, contracts_inc=INC, harness=H % 'htp_connp_REQ_HEADERS', defs=D, min_obl=100, timeout=(900, 2400), solver=CADICAL, flags_add=['--slice-formula'],
               pre_instrument=sum([['--restrict-function-pointer', 'htp_connp_REQ_HEADERS.function_pointer_call.%d/htp_process_request_header_generic' % i] for i in (1, 2, 3, 4)], []),
               loops=QH_LOOPS,
               sub='request header block, unbounded: a folded continuation is appended only while the pending header is below HTP_MAX_HEADER_FOLDED (asserted at every append), so it stays below the cap plus one line; '
                   'DATA_BUFFER only with the chunk exhausted on an open stream, no transition run, and the unconsumed rest is an unfinished line (no LF); the block ends through the transition exactly once and only '
                   'with no header pending, the buffer discarded and consume == read; stream offset += bytes read; shared state contract; terminates (every iteration consumes a byte)',
               assumes=A0 + ['htp_connp_req_consolidate_data / htp_connp_req_clear_buffer replaced by lean contracts (region <= LINE_CAP readable, consume unchanged or == read; buffer NULL, size 0, consume == read); '
                             'the real consolidate is enforced against these facts by unit htp_connp_req_consolidate_data_site',
                             'cfg->process_request_header restricted to htp_process_request_header_generic (the Apache variant is a delegate) and given a nondeterministic C model (OK / ERROR; C02 / C11 units carry its content)',
                             'only the LENGTH of the pending header is modelled: bstr_dup_mem / bstr_add_mem are C models that answer NULL or ONE static bstr header object with the right length '
                             '(dfcc forbids allocation and deallocation inside a loop contract; at most one header is pending at a time); bstr_free is a no-op model; '
                             'ownership of the pending header: unit htp_connp_REQ_HEADERS_pending_header_owner; the bytes handed to the header parser are not modelled (C02 / C03 units)',
                             'line classification (htp_connp_is_line_terminator, htp_connp_is_line_folded, htp_is_folding_char), htp_chomp (any shorter-or-equal length), htp_log: nondeterministic C models, no __CPROVER_assume',
                             'htp_tx_state_request_headers replaced by a stub (OK / STOP / ERROR; enforced: unit htp_tx_state_request_headers, C05) whose requires carry the consumed-exactly-once and TRAILER-on-close claims; '
                             'its frame lists in_state and in_current_receiver_offset only (the real one also clears in_data_receiver_hook and may set tx flags: not read here)',
                             'LINE_CAP stands for the longest consolidated line (in the real parser: field_limit_hard plus one chunk)',
                             '--slice-formula (sound formula slicing; halves the solver time)']))
