from vrun import U

UNITS = []
D = {'quick': {'CHUNK_CAP': 4096}, 'thorough': {'CHUNK_CAP': 1048576}}
INC = ['sm.h']
A = ['callback runner (htp_req/res_run_hook_body_data) replaced by a logging stub with arbitrary return code; user callbacks are outside the proof',
     'no content coding (decompression is C07)']
for d, enc in (('req', 'request'), ('res', 'response')):
    fn = 'htp_tx_%s_process_body_data_ex' % d
    UNITS.append(U(name=fn, props=['C06', 'C01'], kind='contract', src=['htp_transaction.c'], enforce=fn, contract='contract_real_' + fn,
                   replace=['htp_%s_run_hook_body_data' % d, 'htp_log', 'htp_gzip_decompressor_decompress',
                            'htp_tx_%s_destroy_decompressors' % d],
                   contracts_inc=INC, harness='void HARNESS(void) { htp_tx_t *t; const void *p; size_t n; %s(t, p, n); CANARY(); }' % fn,
                   defs=D, min_obl=30, assumes=A,
                   sub='%s body sink: entity length += exactly the bytes handed to the callbacks, callbacks receive the caller\'s (ptr,len) for this tx, (NULL,0) is the end marker%s; frame excludes cursor/state' % (enc, '' if d == 'req' else ', message length += len')))
