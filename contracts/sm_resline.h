/* The line-oriented RESPONSE states under contract: htp_connp_RES_LINE, htp_connp_RES_FINALIZE, htp_connp_RES_HEADERS (htp_response.c).
 * Each contract CONTAINS RS_COMMON_POST (contracts/sm.h), so "enforced => shared state contract" holds syntactically (DESIGN 8.4).
 * Ghosts: contracts/ghost_c10.h.  Units: units/sm_resline.py.  Notes: notes/sm_resline.md. */
#ifndef SM_RESLINE_H
#define SM_RESLINE_H
#include "sm.h"

/* ==== stubs shared by the three units ================================================================ */
/* "does the line look like a status line / is it body" heuristic: any answer, the same one every time (called at most once per invocation) */
int contract_rl_treat_as_body(const uint8_t *data, size_t len)
__CPROVER_requires(len <= LINE_CAP && (len == 0 || __CPROVER_r_ok(data, len)))
__CPROVER_assigns()
__CPROVER_ensures(__CPROVER_return_value == g_rl_asbody)
;
/* blank / whitespace-only line test (personality dependent): any answer */
int contract_rl_is_line_ignorable(htp_connp_t *connp, unsigned char *data, size_t len)
__CPROVER_requires(len <= LINE_CAP && (len == 0 || __CPROVER_r_ok(data, len)))
__CPROVER_assigns()
__CPROVER_ensures(__CPROVER_return_value == g_rl_ign)
;
/* htp_chomp at the RES_LINE site: only *len is written, it shrinks; the result is a CLASS in 0..2 (0 iff nothing removed), enforced on the real function by unit htp_chomp (C02) */
int contract_rl_chomp(unsigned char *data, size_t *len)
__CPROVER_requires(__CPROVER_rw_ok(len, sizeof(*len)) && *len <= LINE_CAP && (*len == 0 || __CPROVER_r_ok(data, *len)))
__CPROVER_assigns(*len, g_rl_line_len)
__CPROVER_ensures(__CPROVER_return_value == g_rl_chomp && g_rl_chomp >= 0 && g_rl_chomp <= 2)
__CPROVER_ensures(*len <= O(*len) && ((__CPROVER_return_value == 0) == (*len == O(*len))) && g_rl_line_len == *len)
/* the class never exceeds the number of removed bytes (1: at least one, 2: CR LF) */
__CPROVER_ensures((size_t) __CPROVER_return_value <= O(*len) - *len)
;
/* release of a previous response-line string: a live heap object, released once (the caller NULLs the field) */
void contract_rl_bstr_free(bstr *b)
__CPROVER_requires(b != NULL && __CPROVER_is_freeable(b) && g_rl_free_n < 8)
__CPROVER_assigns(g_rl_free_n)
__CPROVER_ensures(g_rl_free_n == O(g_rl_free_n) + 1)
;
bstr *contract_rl_bstr_dup_mem(const void *data, size_t len)
__CPROVER_requires(len <= LINE_CAP && (len == 0 || __CPROVER_r_ok(data, len)) && g_rl_dup_n == 0)
__CPROVER_assigns(g_rl_dup_n, g_rl_dup_len)
__CPROVER_ensures(g_rl_dup_n == 1 && g_rl_dup_len == len)
__CPROVER_ensures(__CPROVER_return_value == NULL || (__CPROVER_is_fresh(__CPROVER_return_value, sizeof(bstr) + len) && __CPROVER_return_value->len == len && __CPROVER_return_value->size == len && __CPROVER_return_value->realptr == NULL))
;
/* cfg->parse_response_line restricted to the generic implementation (the only one in the tree), replaced by its frame:
 * it writes the parsed pieces of the status line into the transaction and nothing else (C02 units carry what it extracts) */
htp_status_t contract_rl_parse_response_line(htp_connp_t *connp)
__CPROVER_requires(__CPROVER_rw_ok(connp, sizeof(*connp)) && __CPROVER_rw_ok(connp->out_tx, sizeof(htp_tx_t)) && connp->out_tx->response_line != NULL && g_rl_parse_n == 0)
/* the previous pieces were released and cleared before (otherwise they leak: the parser overwrites the fields) */
__CPROVER_requires(connp->out_tx->response_protocol == NULL && connp->out_tx->response_status == NULL && connp->out_tx->response_message == NULL)
__CPROVER_assigns(g_rl_parse_n, connp->out_tx->response_protocol, connp->out_tx->response_protocol_number, connp->out_tx->response_status, connp->out_tx->response_status_number, connp->out_tx->response_message)
__CPROVER_ensures(g_rl_parse_n == 1 && __CPROVER_return_value == g_rl_parse_rc && (__CPROVER_return_value == HTP_OK || __CPROVER_return_value == HTP_ERROR))
;
/* RESPONSE_LINE transition as seen from RES_LINE (enforced on the real function by unit htp_tx_state_response_line, C05: frame = flags + status number, result in {OK, STOP, ERROR}).
 * requires g_txstate_n == 0: a second transition call in one invocation fails here */
htp_status_t contract_rl_htp_tx_state_response_line(htp_tx_t *tx)
__CPROVER_requires(tx != NULL && __CPROVER_rw_ok(tx, sizeof(*tx)) && g_txstate_n == 0 && g_rl_parse_n == 1 && tx->response_line != NULL)
__CPROVER_assigns(g_txstate_n, g_txstate_which, g_txstate_rc, tx->flags, tx->response_status_number)
__CPROVER_ensures(g_txstate_n == 1 && g_txstate_which == 13 && g_txstate_rc == __CPROVER_return_value)
__CPROVER_ensures(__CPROVER_return_value == HTP_OK || __CPROVER_return_value == HTP_STOP || __CPROVER_return_value == HTP_ERROR)
/* flags only grow */
__CPROVER_ensures((tx->flags & O(tx->flags)) == O(tx->flags))
;

/* ==== htp_connp_RES_LINE ================================================================================ */
#define RL_TX(c) ((c)->out_tx)
#define RL_STR_OK(p) ((p) == NULL || __CPROVER_is_fresh((p), sizeof(bstr)))
#define RL_NREAD(c) ((c)->out_current_read_offset - O((c)->out_current_read_offset))
/* witness is a chunk position read by this call */
#define RL_GK_IN(c) (gk < CHUNK_CAP && (int64_t) gk >= O((c)->out_current_read_offset) && (int64_t) gk < (c)->out_current_read_offset)
/* nothing decided: no helper ran, the transaction and the buffer are as they were */
#define RL_NOTHING_DECIDED(c) (g_consol_n == 0 && g_clear_n == 0 && g_txstate_n == 0 && g_body_n == 0 && g_rl_free_n == 0 && g_rl_parse_n == 0 && g_rl_dup_n == 0 && \
    (c)->out_state == O((c)->out_state) && (c)->out_current_consume_offset == O((c)->out_current_consume_offset) && (c)->out_buf == O((c)->out_buf) && (c)->out_buf_size == O((c)->out_buf_size) && \
    RL_TX(c)->flags == O(RL_TX(c)->flags) && RL_TX(c)->response_progress == O(RL_TX(c)->response_progress) && RL_TX(c)->response_ignored_lines == O(RL_TX(c)->response_ignored_lines) && \
    RL_TX(c)->response_line == O(RL_TX(c)->response_line) && RL_TX(c)->response_message_len == O(RL_TX(c)->response_message_len) && \
    RL_TX(c)->response_transfer_coding == O(RL_TX(c)->response_transfer_coding) && (c)->out_body_data_left == O((c)->out_body_data_left))
#define RL_OLD_STRS(c) ((size_t) (O(RL_TX(c)->response_line) != NULL) + (size_t) (O(RL_TX(c)->response_protocol) != NULL) + (size_t) (O(RL_TX(c)->response_status) != NULL) + (size_t) (O(RL_TX(c)->response_message) != NULL))
#define RL_R __CPROVER_return_value

htp_status_t contract_htp_connp_RES_LINE(htp_connp_t *connp)
__CPROVER_requires(CUR_OUT(connp) && TX_OUT(connp) && !g_in_gap && RS_SELF(connp, htp_connp_RES_LINE) && __CPROVER_is_fresh(connp->cfg, sizeof(htp_cfg_t)))
__CPROVER_requires(g_consol_n == 0 && g_clear_n == 0 && g_txstate_n == 0 && g_body_n == 0 && g_rl_free_n == 0 && g_rl_parse_n == 0 && g_rl_dup_n == 0)
/* personality hook: the generic status-line parser (the only implementation in the tree; htp_config.c installs it for every personality) */
__CPROVER_requires(connp->cfg->parse_response_line == htp_parse_response_line_generic)
/* case split over the answers of the two line classifiers (the union does not finish in the SAT solver, each case takes a minute): the units enumerate
 * RL_CASE = blank line | body-looking line | status line; together they cover every input */
#ifdef RL_CASE
__CPROVER_requires(RL_CASE)
#endif
/* a closed stream is offered no data (htp_connp_close calls the driver with an empty chunk; the driver leaves CLOSED at once) */
__CPROVER_requires(connp->out_status == HTP_STREAM_CLOSED ==> connp->out_current_read_offset >= connp->out_current_len)
/* state facts: RES_LINE is entered from response start and from the 100-continue restart, both with progress LINE */
__CPROVER_requires(connp->out_tx->response_progress == HTP_RESPONSE_LINE && connp->out_tx->response_ignored_lines < UINT_MAX)
__CPROVER_requires(RL_STR_OK(connp->out_tx->response_line) && RL_STR_OK(connp->out_tx->response_protocol) && RL_STR_OK(connp->out_tx->response_status) && RL_STR_OK(connp->out_tx->response_message))
__CPROVER_assigns(g_consol_n, g_consol_len, g_clear_n, g_txstate_n, g_txstate_which, g_txstate_rc, BODY_LOG_ASSIGNS, g_rl_free_n, g_rl_parse_n, g_rl_dup_n, g_rl_dup_len, g_rl_line_len,
    connp->out_next_byte, connp->out_current_read_offset, connp->out_stream_offset, connp->out_current_consume_offset, connp->out_buf, connp->out_buf_size, connp->out_state, connp->out_body_data_left,
    connp->out_tx->response_ignored_lines, connp->out_tx->response_line, connp->out_tx->response_protocol, connp->out_tx->response_protocol_number, connp->out_tx->response_status,
    connp->out_tx->response_status_number, connp->out_tx->response_message, connp->out_tx->response_content_encoding_processing, connp->out_tx->response_transfer_coding,
    connp->out_tx->response_progress, connp->out_tx->response_message_len, connp->out_tx->response_entity_len, connp->out_tx->flags)
/* C09: documented result set (never HTP_DATA: an unfinished line must be BUFFERED by the driver, not dropped; never DATA_OTHER) */
__CPROVER_ensures(RL_R == HTP_OK || RL_R == HTP_ERROR || RL_R == HTP_STOP || RL_R == HTP_DATA_BUFFER)
/* C09: the read cursor only moves forward and the stream offset grows by exactly the bytes read */
__CPROVER_ensures(RL_NREAD(connp) >= 0 && connp->out_stream_offset == O(connp->out_stream_offset) + RL_NREAD(connp))
/* C03 (L2): line not complete => chunk exhausted and NOTHING decided; none of the bytes read is LF */
__CPROVER_ensures(RL_R == HTP_DATA_BUFFER ==> (connp->out_current_read_offset == connp->out_current_len && RL_NOTHING_DECIDED(connp)))
__CPROVER_ensures((RL_R == HTP_DATA_BUFFER && RL_GK_IN(connp)) ==> connp->out_current_data[gk] != LF)
__CPROVER_ensures((RL_R != HTP_DATA_BUFFER && connp->out_status != HTP_STREAM_CLOSED) ==> RL_NREAD(connp) > 0)
__CPROVER_ensures((RL_R != HTP_DATA_BUFFER && RL_GK_IN(connp) && (int64_t) gk + 1 < connp->out_current_read_offset) ==> connp->out_current_data[gk] != LF)
/* the line is consolidated exactly once before anything is decided; a failed consolidation is an error with nothing else done */
__CPROVER_ensures(RL_R != HTP_DATA_BUFFER ==> g_consol_n == 1)
/* C05: at most one transition, at most one delivery, never both; transition only for a line that is neither ignorable nor body */
__CPROVER_ensures(g_body_n <= 1 && !(g_body_n == 1 && g_txstate_n == 1) && ((g_txstate_n == 1 || g_rl_parse_n == 1 || g_rl_dup_n == 1) ==> (!g_rl_ign && !g_rl_asbody)))
/* ignorable (blank) line: counted, discarded, nothing delivered, no transition; on a closed stream the response is finalised */
__CPROVER_ensures((RL_R != HTP_DATA_BUFFER && g_rl_ign && !(RL_R == HTP_ERROR && g_clear_n == 0)) ==> (RL_R == HTP_OK && g_clear_n == 1 && g_body_n == 0 && g_txstate_n == 0 && g_rl_free_n == 0 &&
    connp->out_tx->response_ignored_lines == O(connp->out_tx->response_ignored_lines) + 1 &&
    connp->out_state == (connp->out_status == HTP_STREAM_CLOSED ? htp_connp_RES_FINALIZE : htp_connp_RES_LINE) && connp->out_tx->response_progress == O(connp->out_tx->response_progress)))
/* once the line is known not to be ignorable the previous status-line strings are released, each live one exactly once, and their fields cleared */
__CPROVER_ensures((g_consol_n == 1 && !g_rl_ign && !(RL_R == HTP_ERROR && g_rl_free_n == 0 && g_clear_n == 0 && g_rl_dup_n == 0)) ==> g_rl_free_n == RL_OLD_STRS(connp))
/* C06: a first line that is not a status line is body: delivered at most once, every delivered byte counted in the message length, the line discarded afterwards (exactly once),
 * the delivered range is the chomped line plus the terminator class (never more than the consolidated line), without content decoding */
__CPROVER_ensures(g_body_n == 1 ==> (g_rl_asbody && !g_rl_ign && g_clear_n == 1 && RL_R == g_body_rc && g_body_len == g_rl_line_len + (size_t) g_rl_chomp && g_body_len <= g_consol_len &&
    connp->out_tx->response_message_len == O(connp->out_tx->response_message_len) + (int64_t) g_body_len &&
    connp->out_tx->response_content_encoding_processing == HTP_COMPRESSION_NONE && connp->out_tx->response_ignored_lines == O(connp->out_tx->response_ignored_lines)))
/* ... the body then runs to the end of the stream: with the chunk exhausted the response is a close-delimited identity body in FINALIZE, otherwise the next line is looked at */
__CPROVER_ensures((g_body_n == 1 && RL_R == HTP_OK) ==> (connp->out_current_read_offset >= connp->out_current_len
    ? (connp->out_state == htp_connp_RES_FINALIZE && connp->out_tx->response_transfer_coding == HTP_CODING_IDENTITY && connp->out_tx->response_progress == HTP_RESPONSE_BODY && connp->out_body_data_left == -1)
    : (connp->out_state == htp_connp_RES_LINE && connp->out_tx->response_progress == O(connp->out_tx->response_progress))))
/* body-looking line NOT delivered (skipped as junk in front of a status line): only when two more bytes of the chunk are visible [look-ahead, as coded: see notes, C03 candidate];
 * counted as ignored, discarded, state unchanged */
__CPROVER_ensures((g_consol_n == 1 && !g_rl_ign && g_rl_asbody && g_body_n == 0 && RL_R == HTP_OK) ==> (g_clear_n == 1 && connp->out_current_read_offset + 1 < connp->out_current_len &&
    connp->out_tx->response_ignored_lines == O(connp->out_tx->response_ignored_lines) + 1 && connp->out_state == O(connp->out_state) && g_txstate_n == 0))
__CPROVER_ensures(g_txstate_n == 1 ==> (g_rl_dup_n == 1 && g_rl_dup_len == g_rl_line_len && g_rl_parse_n == 1 && g_rl_parse_rc == HTP_OK && connp->out_tx->response_line != NULL && RL_R == g_txstate_rc))
__CPROVER_ensures((g_txstate_n == 1 && RL_R == HTP_OK) ==> (g_clear_n == 1 && connp->out_state == htp_connp_RES_HEADERS && connp->out_tx->response_progress == HTP_RESPONSE_HEADERS))
__CPROVER_ensures((g_txstate_n == 1 && RL_R != HTP_OK) ==> (g_clear_n == 0 && connp->out_state == O(connp->out_state) && connp->out_tx->response_progress == O(connp->out_tx->response_progress)))
__CPROVER_ensures((g_consol_n == 1 && !g_rl_ign && !g_rl_asbody && g_txstate_n == 0) ==> (RL_R == HTP_ERROR && g_clear_n == 0 && connp->out_state == O(connp->out_state)))
/* the state moves nowhere else; progress never moves backwards; flags only grow */
__CPROVER_ensures(connp->out_state == htp_connp_RES_LINE || connp->out_state == htp_connp_RES_HEADERS || connp->out_state == htp_connp_RES_FINALIZE)
__CPROVER_ensures(connp->out_tx->response_progress >= O(connp->out_tx->response_progress) && (connp->out_tx->flags & O(connp->out_tx->flags)) == O(connp->out_tx->flags))
__CPROVER_ensures(RS_COMMON_POST(connp))
;
/* ==== htp_connp_RES_FINALIZE: the probe of the line that follows a response ================================= */
#define RF_CONSOL_REL(c, data, len) ( \
    (__CPROVER_return_value == HTP_OK ==> *(len) == (O((c)->out_buf) == NULL ? (size_t) 0 : O((c)->out_buf_size)) + (size_t) ((c)->out_current_read_offset - O((c)->out_current_consume_offset))) && \
    ((__CPROVER_return_value == HTP_OK && O((c)->out_buf) == NULL) ==> ((c)->out_current_consume_offset == O((c)->out_current_consume_offset) && (c)->out_buf == NULL && (c)->out_buf_size == O((c)->out_buf_size))) && \
    ((__CPROVER_return_value == HTP_OK && O((c)->out_buf) != NULL) ==> ((c)->out_current_consume_offset == (c)->out_current_read_offset && (c)->out_buf != NULL && (c)->out_buf_size == *(len))) && \
    (__CPROVER_return_value != HTP_OK ==> (*(data) == O(*(data)) && *(len) == O(*(len)) && (c)->out_current_consume_offset == O((c)->out_current_consume_offset) && \
        (c)->out_buf == O((c)->out_buf) && (c)->out_buf_size == O((c)->out_buf_size))))
/* consolidation as the real function computes it (htp_response.c:249-266 + the success path of htp_connp_res_buffer): without a buffer the pending line is the
 * unconsumed part of the chunk and nothing moves; with a buffer the unconsumed part is appended, consume catches up with read and the line is the whole buffer.
 * Failure (limit exceeded / allocation failure) changes nothing.  The bytes themselves are abstracted to a fresh readable range. */
htp_status_t contract_rf_consolidate(htp_connp_t *connp, unsigned char **data, size_t *len)
__CPROVER_requires(__CPROVER_rw_ok(connp, sizeof(*connp)) && __CPROVER_w_ok(data, sizeof(*data)) && __CPROVER_w_ok(len, sizeof(*len)) && g_consol_n == 0)
__CPROVER_requires(connp->out_current_consume_offset >= 0 && connp->out_current_consume_offset <= connp->out_current_read_offset && connp->out_current_read_offset <= CHUNK_CAP &&
    (connp->out_buf == NULL || connp->out_buf_size <= LINE_CAP))
__CPROVER_assigns(g_consol_n, g_consol_len, *data, *len, connp->out_buf, connp->out_buf_size, connp->out_current_consume_offset)
__CPROVER_ensures(g_consol_n == 1 && (__CPROVER_return_value == HTP_OK || __CPROVER_return_value == HTP_ERROR))
__CPROVER_ensures(__CPROVER_return_value == HTP_OK ==> (g_consol_len == *len && __CPROVER_is_fresh(*data, *len)))
__CPROVER_ensures(RF_CONSOL_REL(connp, data, len))
;
/* the same relation ENFORCED on the real htp_connp_res_consolidate_data (unit htp_connp_res_consolidate_data_rel); there the line is not a fresh range but the unconsumed part of the
 * chunk / the buffer itself.  htp_connp_res_buffer is replaced by what its lemma units (htp_connp_res_buffer_cap4/6, C10) establish on the real function. */
htp_status_t contract_rf_res_buffer(htp_connp_t *connp)
__CPROVER_requires(__CPROVER_rw_ok(connp, sizeof(*connp)))
__CPROVER_assigns(connp->out_buf, connp->out_buf_size, connp->out_current_consume_offset)
__CPROVER_ensures(__CPROVER_return_value == HTP_OK || __CPROVER_return_value == HTP_ERROR)
/* no chunk (close call / gap): nothing to add, OK */
__CPROVER_ensures((__CPROVER_return_value == HTP_OK && connp->out_current_data != NULL) ==> (connp->out_buf != NULL && connp->out_current_consume_offset == connp->out_current_read_offset &&
    connp->out_buf_size == O(connp->out_buf_size) + (size_t) (connp->out_current_read_offset - O(connp->out_current_consume_offset))))
__CPROVER_ensures((__CPROVER_return_value != HTP_OK || connp->out_current_data == NULL) ==> (connp->out_buf == O(connp->out_buf) && connp->out_buf_size == O(connp->out_buf_size) &&
    connp->out_current_consume_offset == O(connp->out_current_consume_offset)))
;
htp_status_t contract_real_res_consolidate(htp_connp_t *connp, unsigned char **data, size_t *len)
__CPROVER_requires(__CPROVER_is_fresh(connp, sizeof(*connp)) && __CPROVER_is_fresh(data, sizeof(*data)) && __CPROVER_is_fresh(len, sizeof(*len)))
__CPROVER_requires(connp->out_current_consume_offset >= 0 && connp->out_current_consume_offset <= connp->out_current_read_offset && connp->out_current_read_offset <= connp->out_current_len &&
    connp->out_current_len <= CHUNK_CAP && (connp->out_buf == NULL || connp->out_buf_size <= LINE_CAP))
/* a real chunk (the close call offers none, with all offsets 0: then the function computes NULL + 0 and the relation holds trivially; not modelled) */
__CPROVER_requires(!g_in_gap && __CPROVER_is_fresh(connp->out_current_data, connp->out_current_len))
__CPROVER_assigns(*data, *len, connp->out_buf, connp->out_buf_size, connp->out_current_consume_offset)
__CPROVER_ensures(__CPROVER_return_value == HTP_OK || __CPROVER_return_value == HTP_ERROR)
__CPROVER_ensures(RF_CONSOL_REL(connp, data, len))
/* where the line lives: the unconsumed part of the chunk, or the buffer */
__CPROVER_ensures(__CPROVER_return_value == HTP_OK ==> *data == (O(connp->out_buf) == NULL ? connp->out_current_data + O(connp->out_current_consume_offset) : connp->out_buf))
;
int contract_rf_treat_as_body(const uint8_t *data, size_t len)
__CPROVER_requires(len >= 1 && len <= CHUNK_CAP + LINE_CAP)
__CPROVER_assigns()
__CPROVER_ensures(__CPROVER_return_value == g_rl_asbody)
;
/* body sink as in sm.h, for a pending line that may be longer than one chunk (buffered part + this chunk's part) */
htp_status_t contract_rf_sink(htp_tx_t *tx, const void *data, size_t len)
__CPROVER_requires(g_body_n == 0 && tx != NULL && len <= CHUNK_CAP + LINE_CAP && tx->response_message_len >= 0 && tx->response_message_len <= OFFMAX + 2 * CHUNK_CAP)
__CPROVER_requires(len == 0 || __CPROVER_r_ok(data, len))
__CPROVER_assigns(BODY_LOG_ASSIGNS, tx->response_message_len, tx->response_entity_len)
__CPROVER_ensures(g_body_n == 1 && g_body_len == len && g_body_rc == __CPROVER_return_value && (__CPROVER_return_value == HTP_OK || __CPROVER_return_value == HTP_ERROR) &&
    tx->response_message_len == O(tx->response_message_len) + (int64_t) len)
;
/* response completion as seen from RES_FINALIZE: frame and results as enforced on the real function by unit htp_tx_state_response_complete_ex (C05, C05_RES_COMPLETE_FRAME):
 * the cursor, the buffer and the stream states are NOT in its frame; it may free the transaction; called at most once (requires g_rl_cplt_n == 0) and never in hybrid mode */
htp_status_t contract_rf_response_complete(htp_tx_t *tx, int hybrid_mode)
__CPROVER_requires(tx != NULL && __CPROVER_rw_ok(tx, sizeof(*tx)) && __CPROVER_rw_ok(tx->connp, sizeof(htp_connp_t)) && tx->connp->out_tx == tx && hybrid_mode == 0 && g_rl_cplt_n == 0 && g_body_n == 0)
__CPROVER_assigns(g_rl_cplt_n, g_rl_cplt_rc, __CPROVER_object_whole(tx), tx->connp->out_tx, tx->connp->in_tx, tx->connp->out_state, tx->connp->out_data_other_at_tx_end,
    tx->connp->out_data_receiver_hook, tx->connp->out_current_receiver_offset)
__CPROVER_frees(tx)
__CPROVER_ensures(g_rl_cplt_n == 1 && g_rl_cplt_rc == __CPROVER_return_value &&
    (__CPROVER_return_value == HTP_OK || __CPROVER_return_value == HTP_STOP || __CPROVER_return_value == HTP_ERROR || __CPROVER_return_value == HTP_DATA_OTHER))
__CPROVER_ensures(__CPROVER_return_value == HTP_OK ==> (O(tx->connp)->out_tx == NULL && O(tx->connp)->out_state == htp_connp_RES_IDLE))
__CPROVER_ensures(__CPROVER_return_value != HTP_OK ==> (IS_RES_STATE(O(tx->connp)->out_state) && (O(tx->connp)->out_tx != NULL || O(tx->connp)->out_state == htp_connp_RES_IDLE)))
__CPROVER_ensures(__CPROVER_return_value == HTP_DATA_OTHER ==> (O(tx->connp)->out_tx == tx && O(tx->connp)->out_state == O(tx->connp->out_state)))
__CPROVER_ensures(O(tx->connp)->out_current_receiver_offset == O(tx->connp->out_current_receiver_offset) || O(tx->connp)->out_current_receiver_offset == O(tx->connp)->out_current_read_offset)
;
#define RF_R __CPROVER_return_value
/* the probe decided nothing */
#define RF_UNTOUCHED(c) (g_consol_n == 0 && g_clear_n == 0 && g_body_n == 0 && g_rl_cplt_n == 0 && (c)->out_state == O((c)->out_state) && (c)->out_tx == O((c)->out_tx) && \
    (c)->out_current_consume_offset == O((c)->out_current_consume_offset) && (c)->out_buf == O((c)->out_buf) && (c)->out_buf_size == O((c)->out_buf_size) && \
    (c)->out_tx->flags == O((c)->out_tx->flags) && (c)->out_tx->response_message_len == O((c)->out_tx->response_message_len) && (c)->out_tx->response_progress == O((c)->out_tx->response_progress))
htp_status_t contract_htp_connp_RES_FINALIZE(htp_connp_t *connp)
__CPROVER_requires(CUR_OUT(connp) && TX_OUT(connp) && !g_in_gap && RS_SELF(connp, htp_connp_RES_FINALIZE))
__CPROVER_requires(g_consol_n == 0 && g_clear_n == 0 && g_body_n == 0 && g_rl_cplt_n == 0)
/* state facts (see notes): FINALIZE is entered with consume <= read (the rewind exception of the shared cursor invariant reaches FINALIZE only through a closed stream, i.e. with a
 * fresh empty chunk) and with the raw-data receiver behind the consumer; a probe continued from an earlier chunk (out_buf != NULL) re-enters at offset 0 of the new chunk */
__CPROVER_requires(connp->out_current_consume_offset <= connp->out_current_read_offset && connp->out_current_receiver_offset <= connp->out_current_consume_offset)
__CPROVER_requires(connp->out_buf == NULL ? connp->out_buf_size == 0 : (connp->out_buf_size <= LINE_CAP && connp->out_current_consume_offset == 0))
#ifdef RF_CASE
__CPROVER_requires(RF_CASE)
#endif
__CPROVER_assigns(g_consol_n, g_consol_len, g_clear_n, BODY_LOG_ASSIGNS, g_rl_cplt_n, g_rl_cplt_rc,
    connp->out_next_byte, connp->out_current_read_offset, connp->out_stream_offset, connp->out_current_consume_offset, connp->out_buf, connp->out_buf_size,
    connp->out_tx, connp->in_tx, connp->out_state, connp->out_data_other_at_tx_end, connp->out_data_receiver_hook, connp->out_current_receiver_offset,
    __CPROVER_object_whole(connp->out_tx))
__CPROVER_frees(connp->out_tx)
/* C09: documented result set; HTP_DATA is never returned (an unfinished probe line must be buffered) */
__CPROVER_ensures(RF_R == HTP_OK || RF_R == HTP_ERROR || RF_R == HTP_STOP || RF_R == HTP_DATA_OTHER || RF_R == HTP_DATA_BUFFER)
/* C03 (L2): probe line not complete => chunk exhausted, NOTHING decided (no consolidation, no delivery, no completion; transaction, state, buffer, consume offset untouched),
 * every byte of the chunk read by the probe is counted in the stream offset, and none of them is LF */
__CPROVER_ensures(RF_R == HTP_DATA_BUFFER ==> (connp->out_current_read_offset == connp->out_current_len && RF_UNTOUCHED(connp) &&
    connp->out_stream_offset == O(connp->out_stream_offset) + RL_NREAD(connp) && RL_NREAD(connp) > 0))
__CPROVER_ensures((RF_R == HTP_DATA_BUFFER && RL_GK_IN(connp)) ==> connp->out_current_data[gk] != LF)
/* C05: completion and delivery exclude each other, each at most once; without an error of the consolidation exactly one of them happens */
__CPROVER_ensures(g_body_n + g_rl_cplt_n <= 1 && (RF_R != HTP_DATA_BUFFER ==> (g_body_n + g_rl_cplt_n == 1 || (RF_R == HTP_ERROR && g_consol_n == 1 && g_clear_n == 0))))
__CPROVER_ensures(g_rl_cplt_n == 1 ==> RF_R == g_rl_cplt_rc)
/* nothing pending on an open stream: the response completes at once, the cursor does not move */
__CPROVER_ensures((connp->out_status != HTP_STREAM_CLOSED && O(connp->out_current_read_offset) >= O(connp->out_current_len)) ==> (g_rl_cplt_n == 1 && g_consol_n == 0 &&
    connp->out_current_read_offset == O(connp->out_current_read_offset) && connp->out_current_consume_offset == O(connp->out_current_consume_offset) && connp->out_stream_offset == O(connp->out_stream_offset)))
/* C06: unexpected body: the WHOLE pending line (what earlier calls buffered plus this chunk's part) is delivered exactly once, every byte counted in the message length,
 * then discarded (consume == read, buffer dropped); the read cursor is not moved back */
__CPROVER_ensures(g_body_n == 1 ==> (g_rl_asbody && g_consol_n == 1 && g_body_len == g_consol_len && g_body_len > 0 && g_clear_n == 1 && RF_R == g_body_rc &&
    g_body_len == (O(connp->out_buf) == NULL ? (size_t) 0 : O(connp->out_buf_size)) + (size_t) (connp->out_current_read_offset - O(connp->out_current_consume_offset)) &&
    connp->out_tx == O(connp->out_tx) && connp->out_tx->response_message_len == O(connp->out_tx->response_message_len) + (int64_t) g_body_len &&
    connp->out_current_consume_offset == connp->out_current_read_offset && connp->out_buf == NULL && connp->out_buf_size == 0 && RL_NREAD(connp) >= 0 &&
    connp->out_stream_offset == O(connp->out_stream_offset) + RL_NREAD(connp) && connp->out_state == O(connp->out_state)))
/* C06 / C03: the line starts the next response: it is UN-READ exactly - the read cursor goes back to where the unconsumed bytes began (O(consume): offset 0 when part of the line was
 * buffered by earlier calls), the buffer is cut back to exactly what those earlier calls stored, nothing is discarded (no clear), nothing is delivered:
 * buffered ++ unconsumed after the call == pending on entry, so RES_LINE sees every byte of the status line exactly once */
__CPROVER_ensures((g_rl_cplt_n == 1 && g_consol_n == 1) ==> (g_clear_n == 0 && g_body_n == 0 && (g_consol_len == 0 || !g_rl_asbody) &&
    connp->out_current_read_offset == O(connp->out_current_consume_offset) && connp->out_current_consume_offset == O(connp->out_current_consume_offset) &&
    connp->out_buf_size == O(connp->out_buf_size) && (connp->out_buf == NULL) == (O(connp->out_buf) == NULL)))
/* the read cursor never passes the first LF of the probed line: on an open stream with a line probed, the last byte read is LF */
__CPROVER_ensures((RF_R != HTP_DATA_BUFFER && g_body_n == 1 && connp->out_status != HTP_STREAM_CLOSED && RL_NREAD(connp) > 0) ==> connp->out_current_data[connp->out_current_read_offset - 1] == LF)
__CPROVER_ensures(RS_COMMON_POST(connp))
;
#endif
