/* Ghost fragment of the life-cycle / authorization units (units/c18_life.py).  Picked up by ghost.h BEFORE the real sources.
 * Ghost scalars written by the call-logging stubs of the Digest authorization contract unit (contracts/c18_life.h). */
#ifndef GHOST_C16_H
#define GHOST_C16_H
#define GHOSTS_C16(X) \
    X(int, g_life_idx) X(int, g_life_q_n) X(size_t, g_life_q_len) X(size_t, g_life_q_off) X(size_t, g_life_q_obj) X(unsigned char, g_life_q_first) X(int, g_life_q_rc)
#endif
