/* htp_normalize_parsed_uri: port rule (C13) and pipeline order of the path stages (C12). Loop-free once the stages are replaced. */
#ifndef C13_NORM_H
#define C13_NORM_H
bstr *contract_np_bstr_dup(const bstr *b) __CPROVER_requires(b != NULL) __CPROVER_assigns()
__CPROVER_ensures(__CPROVER_return_value == NULL || __CPROVER_is_fresh(__CPROVER_return_value, sizeof(bstr) + 8));
bstr *contract_np_bstr_dup_lower(const bstr *b) __CPROVER_requires(b != NULL) __CPROVER_assigns()
__CPROVER_ensures(__CPROVER_return_value == NULL || __CPROVER_is_fresh(__CPROVER_return_value, sizeof(bstr) + 8));
htp_status_t contract_np_htp_tx_urldecode_uri_inplace(htp_tx_t *tx, bstr *input) __CPROVER_requires(input != NULL) __CPROVER_assigns() __CPROVER_ensures(1);
bstr *contract_np_htp_normalize_hostname_inplace(bstr *hostname) __CPROVER_requires(hostname != NULL) __CPROVER_assigns() __CPROVER_ensures(1);
/* the integer parser: any value of its result lattice (enforced by unit htp_parse_positive_integer_whitespace) */
int64_t contract_np_pint_ws(unsigned char *data, size_t len, int base)
__CPROVER_requires(base == 10) __CPROVER_assigns()
__CPROVER_ensures(__CPROVER_return_value == g_np_port && (g_np_port >= 0 || g_np_port == -1 || g_np_port == -2 || g_np_port == -1001 || g_np_port == -1002 || g_np_port == -1003));
#define NP_STAGE(name, ghost) \
    __CPROVER_requires(g_np_seq < 8) __CPROVER_assigns(g_np_seq, ghost, g_np_path) \
    __CPROVER_ensures(g_np_seq == __CPROVER_old(g_np_seq) + 1 && ghost == g_np_seq && g_np_path == (const void *) path)
int contract_np_htp_decode_path_inplace(htp_tx_t *tx, bstr *path) NP_STAGE(decode, g_np_s_decode);
void contract_np_htp_utf8_decode_path_inplace(htp_cfg_t *cfg, htp_tx_t *tx, bstr *path) NP_STAGE(utf8c, g_np_s_utf8c);
void contract_np_htp_utf8_validate_path(htp_tx_t *tx, bstr *path) NP_STAGE(utf8v, g_np_s_utf8v);
void contract_np_htp_normalize_uri_path_inplace(bstr *path) NP_STAGE(norm, g_np_s_norm);

#define NP_URI(u) (__CPROVER_is_fresh((u), sizeof(htp_uri_t)))
#define NP_COMP(p) ((p) == NULL || __CPROVER_is_fresh((p), sizeof(bstr) + 8))
int contract_htp_normalize_parsed_uri(htp_tx_t *tx, htp_uri_t *incomplete, htp_uri_t *normalized)
__CPROVER_requires(__CPROVER_is_fresh(tx, sizeof(*tx)) && __CPROVER_is_fresh(tx->cfg, sizeof(htp_cfg_t)) && NP_URI(incomplete) && NP_URI(normalized))
__CPROVER_requires(NP_COMP(incomplete->scheme) && NP_COMP(incomplete->username) && NP_COMP(incomplete->password) && NP_COMP(incomplete->hostname) &&
                   NP_COMP(incomplete->port) && NP_COMP(incomplete->path) && NP_COMP(incomplete->query) && NP_COMP(incomplete->fragment))
/* the normalised uri comes from htp_uri_alloc (calloc): empty */
__CPROVER_requires(normalized->scheme == NULL && normalized->username == NULL && normalized->password == NULL && normalized->hostname == NULL && normalized->port == NULL &&
                   normalized->path == NULL && normalized->query == NULL && normalized->fragment == NULL)
__CPROVER_requires(g_np_seq == 0 && g_np_s_decode == 0 && g_np_s_utf8c == 0 && g_np_s_utf8v == 0 && g_np_s_norm == 0)
__CPROVER_assigns(g_np_seq, g_np_s_decode, g_np_s_utf8c, g_np_s_utf8v, g_np_s_norm, g_np_path, tx->flags, __CPROVER_object_whole(normalized))
__CPROVER_ensures(__CPROVER_return_value == HTP_OK || __CPROVER_return_value == HTP_ERROR)
/* C13: the numeric port is the parsed value when it is in 1..65535, else -1 and the invalid-host indicator; no port text => -1, flags untouched */
__CPROVER_ensures((incomplete->port != NULL && __CPROVER_return_value == HTP_OK) ==> (
    (g_np_port >= 1 && g_np_port <= 65535) ? (normalized->port_number == g_np_port && tx->flags == __CPROVER_old(tx->flags))
                                           : (normalized->port_number == -1 && tx->flags == (__CPROVER_old(tx->flags) | HTP_HOSTU_INVALID))))
__CPROVER_ensures((incomplete->port == NULL && __CPROVER_return_value == HTP_OK) ==> (normalized->port_number == -1 && tx->flags == __CPROVER_old(tx->flags)))
/* C12: pipeline order on the path copy: decode, then UTF-8 best-fit conversion or validation as configured (never both), then dot-segment removal; each once */
__CPROVER_ensures((__CPROVER_return_value == HTP_OK && incomplete->path != NULL) ==> (g_np_s_decode == 1 && g_np_s_norm == 3 && g_np_seq == 3 && g_np_path == (const void *) normalized->path &&
    (tx->cfg->decoder_cfgs[HTP_DECODER_URL_PATH].utf8_convert_bestfit ? (g_np_s_utf8c == 2 && g_np_s_utf8v == 0) : (g_np_s_utf8v == 2 && g_np_s_utf8c == 0))))
__CPROVER_ensures((incomplete->path == NULL) ==> g_np_seq == 0)
/* a component is reported iff the raw component exists */
__CPROVER_ensures(__CPROVER_return_value == HTP_OK ==> ((normalized->path != NULL) == (incomplete->path != NULL) && (normalized->query != NULL) == (incomplete->query != NULL) &&
    (normalized->hostname != NULL) == (incomplete->hostname != NULL) && (normalized->scheme != NULL) == (incomplete->scheme != NULL)))
;
#endif
