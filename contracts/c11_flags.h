/* C11 — framing and host ambiguities are always flagged.
 *
 * Part 1: decision table of the static htp_tx_process_request_headers (htp_transaction.c), every callee
 *         REPLACED by a stub that answers with a prophecy ghost (ghost_c11.h).
 * Part 2: producer htp_process_request_header_generic (htp_request_generic.c): REPEATED bookkeeping.
 * Part 3: leaves htp_header_has_token, htp_validate_hostname, htp_parse_hostport, htp_parse_header_hostport.
 *
 * Rows of the table that the STATEMENT demands but the code does not deliver are kept, guarded by
 * KNOWN_F_C11_<NAME> (defined by default = the finding is registered and the row is stated the way the code
 * behaves).  Compile with -UKNOWN_F_C11_<NAME> (defs {'NO_KNOWN_F_C11_<NAME>': 1}) to see the row fail. */
#ifndef C11_FLAGS_H
#define C11_FLAGS_H

#ifndef NO_KNOWN_F_C11_FOLDED_NEVER_SET
#define KNOWN_F_C11_FOLDED_NEVER_SET 1      /* producer: HTP_FIELD_FOLDED is never set on a header (see notes/c11.md F1) */
#endif
#ifndef NO_KNOWN_F_C11_REPEATED_CL_BAD_TE
#define KNOWN_F_C11_REPEATED_CL_BAD_TE 1    /* several / folded C-L next to a T-E without "chunked": not marked SMUGGLING (F2) */
#endif
#ifndef NO_KNOWN_F_C11_BAD_CL_WITH_TE
#define KNOWN_F_C11_BAD_CL_WITH_TE 1        /* unparseable C-L next to chunked T-E: request not marked invalid (F3) */
#endif
#ifndef NO_KNOWN_F_C11_CL_JUNK
#define KNOWN_F_C11_CL_JUNK 1               /* htp_parse_content_length accepts junk around the digits (F4) */
#endif

#ifndef O
#define O(e) __CPROVER_old(e)
#endif
#define C11_HDR(g) ((htp_header_t *)(g))
#define HAS(f, bit) (((f) & (bit)) != 0)

/* a ghost header: absent, or a real header object whose value is a real inline bstr of capacity C11_VALCAP */
#define C11_GHOST_HDR(g) ((g) == NULL || (__CPROVER_is_fresh((g), sizeof(htp_header_t)) && \
    __CPROVER_is_fresh(C11_HDR(g)->value, sizeof(bstr) + C11_VALCAP) && C11_HDR(g)->value->realptr == NULL && \
    C11_HDR(g)->value->size == C11_VALCAP && C11_HDR(g)->value->len <= C11_VALCAP))

/* ================= Part 1: stubs of the callees of htp_tx_process_request_headers ====================== */
/* lookup by key literal: content-encoding / content-length / content-type / transfer-encoding / host */
#define C11_KEY_CE(k) ((k)[0] == 'c' && (k)[8] == 'e')
#define C11_KEY_CL(k) ((k)[0] == 'c' && (k)[8] == 'l')
#define C11_KEY_CT(k) ((k)[0] == 'c' && (k)[8] == 't')
#define C11_KEY_TE(k) ((k)[0] == 't')
#define C11_KEY_HOST(k) ((k)[0] == 'h')
void *contract_c11_htp_table_get_c(const htp_table_t *table, const char *ckey)
__CPROVER_requires(ckey != NULL && (ckey[0] == 'c' || ckey[0] == 't' || ckey[0] == 'h'))
__CPROVER_assigns(g_c11_seen_cl, g_c11_seen_ct)
__CPROVER_ensures(C11_KEY_CE(ckey) ==> __CPROVER_pointer_equals(__CPROVER_return_value, g_c11_hdr_ce))
__CPROVER_ensures(C11_KEY_CL(ckey) ==> __CPROVER_pointer_equals(__CPROVER_return_value, g_c11_hdr_cl))
__CPROVER_ensures(C11_KEY_CT(ckey) ==> __CPROVER_pointer_equals(__CPROVER_return_value, g_c11_hdr_ct))
__CPROVER_ensures(C11_KEY_TE(ckey) ==> __CPROVER_pointer_equals(__CPROVER_return_value, g_c11_hdr_te))
__CPROVER_ensures(C11_KEY_HOST(ckey) ==> __CPROVER_pointer_equals(__CPROVER_return_value, g_c11_hdr_host))
__CPROVER_ensures(g_c11_seen_cl == (C11_KEY_CL(ckey) ? 1 : O(g_c11_seen_cl)))
__CPROVER_ensures(g_c11_seen_ct == (C11_KEY_CT(ckey) ? 1 : O(g_c11_seen_ct)))
;
/* token search: any answer in {HTP_OK, HTP_ERROR} (that the real function only answers these is its own unit) */
htp_status_t contract_c11_htp_header_has_token(const unsigned char *hvp, size_t hvlen, const unsigned char *value)
__CPROVER_requires(hvlen <= C11_VALCAP && __CPROVER_r_ok(hvp, hvlen) && value != NULL && value[0] == 'c' && value[7] == 0)
__CPROVER_assigns()
__CPROVER_ensures(__CPROVER_return_value == g_c11_te_chunked)
;
int64_t contract_c11_htp_parse_content_length(bstr *b, htp_connp_t *connp)
__CPROVER_requires(__CPROVER_r_ok(b, sizeof(bstr)))
__CPROVER_assigns()
__CPROVER_ensures(__CPROVER_return_value == g_c11_cl_value)
;
/* Host header parser: hostname NULL or a fresh string; invalid bit OR-ed into *flags, nothing else of *flags changes.
 * (hostname == NULL on HTP_OK implies invalid: enforced on the real function, unit htp_parse_header_hostport) */
htp_status_t contract_c11_htp_parse_header_hostport(bstr *hostport, bstr **hostname, bstr **port, int *port_number, uint64_t *flags)
__CPROVER_requires(__CPROVER_r_ok(hostport, sizeof(bstr)) && __CPROVER_w_ok(hostname, sizeof(*hostname)) && port == NULL &&
                   __CPROVER_w_ok(port_number, sizeof(*port_number)) && __CPROVER_rw_ok(flags, sizeof(*flags)))
__CPROVER_assigns(*hostname, *port_number, *flags)
__CPROVER_ensures(__CPROVER_return_value == g_c11_hp_rc)
__CPROVER_ensures(__CPROVER_return_value == HTP_OK ==> (*port_number == g_c11_hp_port &&
    (*hostname == NULL || __CPROVER_is_fresh(*hostname, sizeof(bstr) + 8)) && (*hostname != NULL) == (g_c11_hp_valid != 0) &&
    *flags == (O(*flags) | (g_c11_hp_invalid ? HTP_HOSTH_INVALID : 0))))
__CPROVER_ensures(__CPROVER_return_value != HTP_OK ==> *flags == O(*flags))
;
int contract_c11_bstr_cmp_nocase(const bstr *b1, const bstr *b2)
__CPROVER_requires(b1 != NULL && b2 != NULL)
__CPROVER_assigns()
__CPROVER_ensures(__CPROVER_return_value == g_c11_host_cmp)
;
int contract_c11_bstr_cmp_c_nocasenorzero(const bstr *b, const char *c)
__CPROVER_requires(__CPROVER_r_ok(b, sizeof(bstr)) && c != NULL)
__CPROVER_assigns() __CPROVER_ensures(1)
;
bstr *contract_c11_bstr_dup(const bstr *b)
__CPROVER_requires(b != NULL)
__CPROVER_assigns()
__CPROVER_ensures(__CPROVER_return_value == NULL || __CPROVER_is_fresh(__CPROVER_return_value, sizeof(bstr) + 8))
;
void contract_c11_bstr_free(bstr *b)
__CPROVER_requires(b == NULL || __CPROVER_is_freeable(b))
__CPROVER_assigns()
__CPROVER_frees(b)
__CPROVER_ensures(1)
;
/* frame-only stubs: sub-parsers and callbacks that the property does not speak about; none of them has tx->flags,
 * the transfer coding or the host fields in its frame */
void contract_c11_htp_tx_req_destroy_decompressors(htp_connp_t *connp)
__CPROVER_requires(__CPROVER_rw_ok(connp, sizeof(*connp)))
__CPROVER_assigns(connp->req_decompressor) __CPROVER_ensures(connp->req_decompressor == NULL)
;
htp_decompressor_t *contract_c11_htp_gzip_decompressor_create(htp_connp_t *connp, enum htp_content_encoding_t format)
__CPROVER_requires(format == HTP_COMPRESSION_GZIP || format == HTP_COMPRESSION_DEFLATE || format == HTP_COMPRESSION_LZMA)
__CPROVER_assigns()
__CPROVER_ensures(__CPROVER_return_value == NULL || __CPROVER_is_fresh(__CPROVER_return_value, sizeof(htp_decompressor_t)))
;
htp_status_t contract_c11_htp_parse_ct_header(bstr *header, bstr **ct)
__CPROVER_requires(__CPROVER_r_ok(header, sizeof(bstr)) && __CPROVER_w_ok(ct, sizeof(*ct)))
__CPROVER_assigns(*ct) __CPROVER_ensures(1)
;
int contract_c11_htp_parse_cookies_v0(htp_connp_t *connp)
__CPROVER_requires(__CPROVER_rw_ok(connp, sizeof(*connp)) && __CPROVER_rw_ok(connp->in_tx, sizeof(htp_tx_t)))
__CPROVER_assigns(connp->in_tx->request_cookies) __CPROVER_ensures(1)
;
int contract_c11_htp_parse_authorization(htp_connp_t *connp)
__CPROVER_requires(__CPROVER_rw_ok(connp, sizeof(*connp)) && __CPROVER_rw_ok(connp->in_tx, sizeof(htp_tx_t)))
__CPROVER_assigns(connp->in_tx->request_auth_type, connp->in_tx->request_auth_username, connp->in_tx->request_auth_password)
__CPROVER_ensures(1)
;
htp_status_t contract_c11_htp_connp_req_receiver_finalize_clear(htp_connp_t *connp)
__CPROVER_requires(__CPROVER_rw_ok(connp, sizeof(*connp)))
__CPROVER_assigns(connp->in_data_receiver_hook) __CPROVER_ensures(1)
;
htp_status_t contract_c11_htp_hook_run_all(htp_hook_t *hook, void *user_data)
__CPROVER_requires(user_data != NULL)
__CPROVER_assigns() __CPROVER_ensures(1)
;

/* ---- the decision table -------------------------------------------------------------------------------- */
#define C11_TX(tx) (__CPROVER_is_fresh((tx), sizeof(htp_tx_t)) && __CPROVER_is_fresh((tx)->connp, sizeof(htp_connp_t)) && \
    __CPROVER_pointer_equals((tx)->connp->in_tx, (tx)) && __CPROVER_is_fresh((tx)->connp->cfg, sizeof(htp_cfg_t)) && \
    __CPROVER_is_fresh((tx)->parsed_uri, sizeof(htp_uri_t)) && (tx)->request_hostname == NULL)
/* inputs of the table */
#define T_TE        (g_c11_hdr_te != NULL)
#define T_CHUNKED   (T_TE && g_c11_te_chunked == HTP_OK)
#define T_CL        (g_c11_hdr_cl != NULL)
#define T_CL_REP    (T_CL && HAS(C11_HDR(g_c11_hdr_cl)->flags, HTP_FIELD_REPEATED))
#define T_CL_FOLD   (T_CL && HAS(C11_HDR(g_c11_hdr_cl)->flags, HTP_FIELD_FOLDED))
#define T_CL_BAD    (T_CL && g_c11_cl_value < 0)
#define T_PROTO(tx) ((tx)->request_protocol_number)
#define T_URIHOST(tx) ((tx)->parsed_uri->hostname != NULL)
#define T_HOST      (g_c11_hdr_host != NULL)
#define T_HOST_OK   (T_HOST && g_c11_hp_rc == HTP_OK)
/* the arbitration block ran completely / the host block ran completely */
#define T_FRAMED    (g_c11_seen_cl == 1)
#define T_HOSTED    (g_c11_seen_ct == 1)
/* the rows as the statement words them (no guard on T-E for the C-L anomalies) ... */
#ifdef KNOWN_F_C11_REPEATED_CL_BAD_TE
#define T_CL_ANOMALY_GUARD (!T_TE)
#else
#define T_CL_ANOMALY_GUARD 1
#endif
#ifdef KNOWN_F_C11_BAD_CL_WITH_TE
#define T_CL_BAD_GUARD (!T_TE)
#else
#define T_CL_BAD_GUARD 1
#endif
/* when is SMUGGLING newly raised: exactly on the statement's four triggers */
#define T_SMUGGLING_TRIGGER(tx) ((T_CHUNKED && T_CL) || (T_CHUNKED && T_PROTO(tx) < HTP_PROTOCOL_1_1) || (!T_TE && T_CL_REP) || (!T_TE && T_CL_FOLD))
#define T_AMBIG_TRIGGER(tx) (T_HOST_OK && T_URIHOST(tx) && (!g_c11_hp_valid || g_c11_host_cmp != 0 || \
    ((tx)->parsed_uri->port_number != -1 && g_c11_hp_port != -1 && (tx)->parsed_uri->port_number != g_c11_hp_port)))

htp_status_t contract_htp_tx_process_request_headers(htp_tx_t *tx)
__CPROVER_requires(C11_TX(tx))
__CPROVER_requires(C11_GHOST_HDR(g_c11_hdr_cl) && C11_GHOST_HDR(g_c11_hdr_te) && C11_GHOST_HDR(g_c11_hdr_host) && C11_GHOST_HDR(g_c11_hdr_ct) && C11_GHOST_HDR(g_c11_hdr_ce))
__CPROVER_requires(g_c11_seen_cl == 0 && g_c11_seen_ct == 0)
#ifdef C11_DBG_REQ
__CPROVER_requires(C11_DBG_REQ)
#endif
/* what the replaced value parsers are known to answer (each enforced on the real function by its own unit) */
__CPROVER_requires((g_c11_te_chunked == HTP_OK || g_c11_te_chunked == HTP_ERROR) && (g_c11_hp_rc == HTP_OK || g_c11_hp_rc == HTP_ERROR))
__CPROVER_requires((g_c11_hp_valid == 0 || g_c11_hp_valid == 1) && (g_c11_hp_invalid == 0 || g_c11_hp_invalid == 1) && (!g_c11_hp_valid ==> g_c11_hp_invalid))
__CPROVER_assigns(g_c11_seen_cl, g_c11_seen_ct, tx->request_content_encoding, tx->connp->req_decompressor, tx->request_transfer_coding, tx->flags,
    tx->request_content_length, tx->connp->put_file, tx->request_hostname, tx->request_port_number, tx->request_content_type, tx->request_cookies,
    tx->request_auth_type, tx->request_auth_username, tx->request_auth_password, tx->connp->in_data_receiver_hook)
/* 0. indicators only grow */
__CPROVER_ensures((tx->flags & O(tx->flags)) == O(tx->flags))
/* 0'. completeness of the guards: success means both blocks ran; the arbitration block is skipped only when decompressor set-up failed */
__CPROVER_ensures(__CPROVER_return_value == HTP_OK ==> (T_FRAMED && T_HOSTED))
__CPROVER_ensures(T_HOSTED ==> T_FRAMED)
__CPROVER_ensures((!tx->connp->cfg->request_decompression_enabled || g_c11_hdr_ce == NULL) ==> T_FRAMED)
__CPROVER_ensures((T_FRAMED && !T_URIHOST(tx) && tx->request_method_number != HTP_M_PUT && (!T_HOST || g_c11_hp_rc == HTP_OK)) ==> T_HOSTED)
#ifndef C11_NO_FRAMING
/* ---- framing rows -------------------------------------------------------------------------------------- */
/* 1. chunked T-E together with C-L: smuggling, body framed by the chunked coding */
__CPROVER_ensures((T_FRAMED && T_CHUNKED && T_CL) ==> (HAS(tx->flags, HTP_REQUEST_SMUGGLING) && tx->request_transfer_coding == HTP_CODING_CHUNKED))
/* 2. chunked coding below HTTP/1.1 (also: protocol unknown / invalid, which are negative numbers) */
__CPROVER_ensures((T_FRAMED && T_CHUNKED && T_PROTO(tx) < HTP_PROTOCOL_1_1) ==> (HAS(tx->flags, HTP_REQUEST_SMUGGLING) && tx->request_transfer_coding == HTP_CODING_CHUNKED))
/* 2'. chunked T-E always frames the body */
__CPROVER_ensures((T_FRAMED && T_CHUNKED) ==> tx->request_transfer_coding == HTP_CODING_CHUNKED)
/* 3. unsupported T-E: invalid */
__CPROVER_ensures((T_FRAMED && T_TE && !T_CHUNKED) ==> (HAS(tx->flags, HTP_REQUEST_INVALID_T_E) && HAS(tx->flags, HTP_REQUEST_INVALID) && tx->request_transfer_coding == HTP_CODING_INVALID))
/* 4. more than one C-L field */
__CPROVER_ensures((T_FRAMED && T_CL_REP && T_CL_ANOMALY_GUARD) ==> HAS(tx->flags, HTP_REQUEST_SMUGGLING))
/* 5. folded C-L (consumer side, over cl->flags as the code reads it; the producer never sets the bit: F1) */
__CPROVER_ensures((T_FRAMED && T_CL_FOLD && T_CL_ANOMALY_GUARD) ==> HAS(tx->flags, HTP_REQUEST_SMUGGLING))
/* 6. unparseable C-L: invalid */
__CPROVER_ensures((T_FRAMED && T_CL_BAD && T_CL_BAD_GUARD) ==> (HAS(tx->flags, HTP_REQUEST_INVALID_C_L) && HAS(tx->flags, HTP_REQUEST_INVALID)))
__CPROVER_ensures((T_FRAMED && T_CL_BAD && !T_TE) ==> tx->request_transfer_coding == HTP_CODING_INVALID)
/* 7. the remaining framing decisions, and the state facts the body states rely on */
__CPROVER_ensures((T_FRAMED && !T_TE && T_CL && !T_CL_BAD) ==> (tx->request_transfer_coding == HTP_CODING_IDENTITY && tx->request_content_length == g_c11_cl_value))
__CPROVER_ensures((T_FRAMED && !T_TE && !T_CL) ==> tx->request_transfer_coding == HTP_CODING_NO_BODY)
__CPROVER_ensures(T_FRAMED ==> (tx->request_transfer_coding == HTP_CODING_NO_BODY || tx->request_transfer_coding == HTP_CODING_IDENTITY ||
    tx->request_transfer_coding == HTP_CODING_CHUNKED || tx->request_transfer_coding == HTP_CODING_INVALID))
__CPROVER_ensures((T_FRAMED && tx->request_transfer_coding == HTP_CODING_IDENTITY) ==> tx->request_content_length >= 0)
__CPROVER_ensures((T_FRAMED && tx->request_transfer_coding == HTP_CODING_INVALID) ==> HAS(tx->flags, HTP_REQUEST_INVALID))
/* 8. no false alarm: an indicator that was clear on entry is raised only by one of its triggers */
__CPROVER_ensures((HAS(tx->flags, HTP_REQUEST_SMUGGLING) && !HAS(O(tx->flags), HTP_REQUEST_SMUGGLING)) ==> T_SMUGGLING_TRIGGER(tx))
__CPROVER_ensures((HAS(tx->flags, HTP_REQUEST_INVALID_T_E) && !HAS(O(tx->flags), HTP_REQUEST_INVALID_T_E)) ==> (T_TE && (!T_CHUNKED || T_PROTO(tx) < HTP_PROTOCOL_1_1)))
__CPROVER_ensures((HAS(tx->flags, HTP_REQUEST_INVALID_C_L) && !HAS(O(tx->flags), HTP_REQUEST_INVALID_C_L)) ==> (!T_TE && T_CL_BAD))
#endif
#ifndef C11_NO_HOST
/* ---- host rows ----------------------------------------------------------------------------------------- */
/* 9. no Host field on HTTP/1.1 or later */
__CPROVER_ensures((T_HOSTED && !T_HOST && T_PROTO(tx) >= HTP_PROTOCOL_1_1) ==> HAS(tx->flags, HTP_HOST_MISSING))
__CPROVER_ensures((HAS(tx->flags, HTP_HOST_MISSING) && !HAS(O(tx->flags), HTP_HOST_MISSING)) ==> (!T_HOST && T_PROTO(tx) >= HTP_PROTOCOL_1_1))
/* 10. target host differs from the Host field (the comparison is the case-insensitive one: callee bstr_cmp_nocase, C17) or both name a port and the ports differ */
__CPROVER_ensures((T_HOSTED && T_HOST && T_URIHOST(tx) && g_c11_hp_valid && g_c11_host_cmp != 0) ==> HAS(tx->flags, HTP_HOST_AMBIGUOUS))
__CPROVER_ensures((T_HOSTED && T_HOST && T_URIHOST(tx) && g_c11_hp_valid && tx->parsed_uri->port_number != -1 && g_c11_hp_port != -1 && tx->parsed_uri->port_number != g_c11_hp_port) ==> HAS(tx->flags, HTP_HOST_AMBIGUOUS))
/* 11. syntactically invalid Host field: invalid-host indicator, and ambiguous when the target names a host too */
__CPROVER_ensures((T_HOSTED && T_HOST && g_c11_hp_invalid) ==> HAS(tx->flags, HTP_HOSTH_INVALID))
__CPROVER_ensures((T_HOSTED && T_HOST && !g_c11_hp_valid) ==> HAS(tx->flags, HTP_HOSTH_INVALID))
__CPROVER_ensures((T_HOSTED && T_HOST && !g_c11_hp_valid && T_URIHOST(tx)) ==> HAS(tx->flags, HTP_HOST_AMBIGUOUS))
__CPROVER_ensures((HAS(tx->flags, HTP_HOST_AMBIGUOUS) && !HAS(O(tx->flags), HTP_HOST_AMBIGUOUS)) ==> T_AMBIG_TRIGGER(tx))
__CPROVER_ensures((HAS(tx->flags, HTP_HOSTH_INVALID) && !HAS(O(tx->flags), HTP_HOSTH_INVALID)) ==> (T_HOST_OK && g_c11_hp_invalid))
/* 12. the effective host: the target's when it names one (RFC 7230 5.4), else the Host field's */
__CPROVER_ensures((T_HOSTED && !T_URIHOST(tx) && !T_HOST) ==> tx->request_hostname == NULL)
__CPROVER_ensures((T_HOSTED && !T_URIHOST(tx) && T_HOST && g_c11_hp_valid) ==> (tx->request_hostname != NULL && tx->request_port_number == g_c11_hp_port))
__CPROVER_ensures((T_HOSTED && T_URIHOST(tx)) ==> (tx->request_hostname != NULL && tx->request_port_number == tx->parsed_uri->port_number))
/* 13. no other indicator bit is touched here */
__CPROVER_ensures((tx->flags & ~(HTP_REQUEST_SMUGGLING | HTP_REQUEST_INVALID_T_E | HTP_REQUEST_INVALID_C_L | HTP_REQUEST_INVALID | HTP_HOST_MISSING | HTP_HOST_AMBIGUOUS | HTP_HOSTH_INVALID | HTP_AUTH_INVALID)) ==
                  (O(tx->flags) & ~(HTP_REQUEST_SMUGGLING | HTP_REQUEST_INVALID_T_E | HTP_REQUEST_INVALID_C_L | HTP_REQUEST_INVALID | HTP_HOST_MISSING | HTP_HOST_AMBIGUOUS | HTP_HOSTH_INVALID | HTP_AUTH_INVALID)))
#endif
;

/* ================= Part 2: producer of HTP_FIELD_REPEATED ================================================== */
/* E = the header already stored under the same name: the replaced htp_table_get answers E when g_c11_have_ex, NULL otherwise (first occurrence).
 * E is a real object in both cases so that __CPROVER_old(E->...) is always readable (old() is evaluated unconditionally on entry). */
#define C11_E C11_HDR(g_c11_ex)
htp_status_t contract_c11_htp_parse_request_header_generic(htp_connp_t *connp, htp_header_t *h, unsigned char *data, size_t len)
__CPROVER_requires(__CPROVER_rw_ok(h, sizeof(*h)) && h->name == NULL && h->value == NULL && h->flags == 0)
__CPROVER_assigns(h->name, h->value, h->flags, g_c11_name, g_c11_value, g_c11_h)
__CPROVER_ensures(__CPROVER_return_value == g_c11_parse_rc && g_c11_h == (void *) h)
__CPROVER_ensures(__CPROVER_return_value == HTP_OK ==> (__CPROVER_is_fresh(h->name, sizeof(bstr) + 16) && __CPROVER_is_fresh(h->value, sizeof(bstr) + C11_VALCAP) &&
    h->value->realptr == NULL && h->value->size == C11_VALCAP && h->value->len == g_c11_newlen && g_c11_name == (void *) h->name && g_c11_value == (void *) h->value))
;
void *contract_c11_htp_table_get(const htp_table_t *table, const bstr *key)
__CPROVER_requires(key != NULL && (const void *) key == g_c11_name)
__CPROVER_assigns()
__CPROVER_ensures(g_c11_have_ex != 0 ==> __CPROVER_pointer_equals(__CPROVER_return_value, g_c11_ex))
__CPROVER_ensures(g_c11_have_ex == 0 ==> __CPROVER_return_value == NULL)
;
htp_status_t contract_c11_htp_table_add(htp_table_t *table, const bstr *key, const void *element)
__CPROVER_requires(g_c11_add_n == 0)
__CPROVER_assigns(g_c11_add_n, g_c11_add_key, g_c11_add_el)
__CPROVER_ensures(g_c11_add_n == 1 && g_c11_add_key == (const void *) key && g_c11_add_el == element && __CPROVER_return_value == g_c11_add_rc)
;
void contract_c11_htp_log(htp_connp_t *connp, const char *file, int line, enum htp_log_level_t level, int code, const char *fmt, ...)
__CPROVER_requires(1) __CPROVER_assigns() __CPROVER_ensures(1);
int contract_c11_bstr_cmp_c_nocase(const bstr *b, const char *c)
__CPROVER_requires((const void *) b == g_c11_name && c != NULL && c[0] == 'C' && c[7] == '-' && c[8] == 'L' && c[14] == 0)
__CPROVER_assigns()
__CPROVER_ensures(__CPROVER_return_value == g_c11_isclen)
;
/* ownership log for the parsed name / value: a second release of the same string is refused (asserted at the call site) */
void contract_c11log_bstr_free(bstr *b)
__CPROVER_requires(b != NULL && ((void *) b == g_c11_name || (void *) b == g_c11_value))
__CPROVER_requires(((void *) b == g_c11_name ==> g_c11_free_name == 0) && ((void *) b == g_c11_value ==> g_c11_free_value == 0))
__CPROVER_assigns(g_c11_free_name, g_c11_free_value)
__CPROVER_ensures(((void *) b == g_c11_name ==> g_c11_free_name == 1) && ((void *) b != g_c11_name ==> g_c11_free_name == O(g_c11_free_name)))
__CPROVER_ensures(((void *) b == g_c11_value ==> g_c11_free_value == 1) && ((void *) b != g_c11_value ==> g_c11_free_value == O(g_c11_free_value)))
;
/* growing the stored value: NULL (allocation failure / refusal) or a string of exactly the requested capacity with the old length */
bstr *contract_c11_bstr_expand(bstr *b, size_t newsize)
__CPROVER_requires(__CPROVER_rw_ok(b, sizeof(bstr)) && g_c11_exp_n == 0 && newsize <= 2 * C11_VALCAP + 2)
__CPROVER_assigns(g_c11_exp_n, g_c11_exp_req)
__CPROVER_ensures(g_c11_exp_n == 1 && g_c11_exp_req == newsize)
__CPROVER_ensures(__CPROVER_return_value == NULL || (__CPROVER_is_fresh(__CPROVER_return_value, sizeof(bstr) + 2 * C11_VALCAP + 2) &&
    __CPROVER_return_value->len == O(b->len) && __CPROVER_return_value->size == newsize && __CPROVER_return_value->realptr == NULL))
;
/* the _noex appenders silently truncate when the capacity is short: the stubs REQUIRE the room (asserted at the call site), so the caller provably asked for enough */
bstr *contract_c11_bstr_add_mem_noex(bstr *destination, const void *data, size_t len)
__CPROVER_requires(__CPROVER_rw_ok(destination, sizeof(bstr)) && len == 2 && __CPROVER_r_ok(data, len) && g_c11_addmem_n == 0 && g_c11_addb_n == 0 && destination->len + len <= destination->size)
__CPROVER_assigns(destination->len, g_c11_addmem_n, g_c11_sep0, g_c11_sep1)
__CPROVER_ensures(g_c11_addmem_n == 1 && g_c11_sep0 == ((const unsigned char *) data)[0] && g_c11_sep1 == ((const unsigned char *) data)[1])
__CPROVER_ensures(__CPROVER_return_value == destination && destination->len == O(destination->len) + len)
;
bstr *contract_c11_bstr_add_noex(bstr *destination, const bstr *source)
__CPROVER_requires(__CPROVER_rw_ok(destination, sizeof(bstr)) && __CPROVER_r_ok(source, sizeof(bstr)) && g_c11_addmem_n == 1 && g_c11_addb_n == 0 && destination->len + source->len <= destination->size)
__CPROVER_assigns(destination->len, g_c11_addb_n, g_c11_addb_src)
__CPROVER_ensures(g_c11_addb_n == 1 && g_c11_addb_src == (const void *) source)
__CPROVER_ensures(__CPROVER_return_value == destination && destination->len == O(destination->len) + source->len)
;

#define P_PARSED   (g_c11_parse_rc == HTP_OK)
#define P_SECOND   (P_PARSED && g_c11_have_ex != 0)                         /* same-name header already stored */
#define P_WAS_REP  (HAS(O(C11_E->flags), HTP_FIELD_REPEATED))
#define P_DROPPED(c) (P_SECOND && P_WAS_REP && O((c)->in_tx->req_header_repetitions) >= HTP_MAX_HEADERS_REPETITIONS)
#define P_MERGE(c) (P_SECOND && !P_DROPPED(c) && g_c11_isclen != 0)
#define P_STORED   (P_PARSED && g_c11_have_ex == 0 && g_c11_add_rc == HTP_OK)
htp_status_t contract_htp_process_request_header_generic(htp_connp_t *connp, unsigned char *data, size_t len)
__CPROVER_requires(__CPROVER_is_fresh(connp, sizeof(*connp)) && __CPROVER_is_fresh(connp->in_tx, sizeof(htp_tx_t)))
__CPROVER_requires(g_c11_ex != NULL && C11_GHOST_HDR(g_c11_ex) && g_c11_newlen <= C11_VALCAP && (g_c11_have_ex == 0 || g_c11_have_ex == 1))
__CPROVER_requires((g_c11_parse_rc == HTP_OK || g_c11_parse_rc == HTP_ERROR) && (g_c11_add_rc == HTP_OK || g_c11_add_rc == HTP_ERROR))
__CPROVER_requires(g_c11_free_name == 0 && g_c11_free_value == 0 && g_c11_add_n == 0 && g_c11_exp_n == 0 && g_c11_addmem_n == 0 && g_c11_addb_n == 0 && g_c11_h == NULL)
/* case split (the union of the three cases blows up the propositional encoding, each case takes seconds): the units enumerate
 * C11_PRODUCER_CASE = first occurrence | repeated Content-Length | repeated other name; together they cover every input */
#ifdef C11_PRODUCER_CASE
__CPROVER_requires(C11_PRODUCER_CASE)
#endif
/* C10: the repetition counter is within its cap on entry (it is 0 in a new transaction and only this function moves it) */
__CPROVER_requires(connp->in_tx->req_header_repetitions <= HTP_MAX_HEADERS_REPETITIONS)
__CPROVER_assigns(g_c11_name, g_c11_value, g_c11_h, g_c11_free_name, g_c11_free_value, g_c11_add_n, g_c11_add_key, g_c11_add_el, g_c11_exp_n, g_c11_exp_req,
    g_c11_addmem_n, g_c11_sep0, g_c11_sep1, g_c11_addb_n, g_c11_addb_src, connp->in_tx->req_header_repetitions;
    C11_E->flags, C11_E->value)
__CPROVER_ensures(__CPROVER_return_value == HTP_OK || __CPROVER_return_value == HTP_ERROR)
/* header allocation or parse failure: error, nothing stored, nothing marked */
__CPROVER_ensures(g_c11_h == NULL ==> (__CPROVER_return_value == HTP_ERROR && g_c11_add_n == 0))
__CPROVER_ensures((g_c11_h != NULL && !P_PARSED) ==> (__CPROVER_return_value == HTP_ERROR && g_c11_add_n == 0 && g_c11_exp_n == 0))
/* 1. a second header with the same name marks the STORED header as repeated, on every path (also when the newcomer is dropped or memory runs out) */
__CPROVER_ensures((g_c11_h != NULL && P_SECOND) ==> C11_E->flags == (O(C11_E->flags) | HTP_FIELD_REPEATED))
__CPROVER_ensures(!(g_c11_h != NULL && P_SECOND) ==> (C11_E->flags == O(C11_E->flags) && C11_E->value == O(C11_E->value)))
/* 2. repetition counter: capped, moves by one only for the third and later occurrences (C10) */
__CPROVER_ensures(connp->in_tx->req_header_repetitions <= HTP_MAX_HEADERS_REPETITIONS)
__CPROVER_ensures(connp->in_tx->req_header_repetitions == O(connp->in_tx->req_header_repetitions) +
    ((g_c11_h != NULL && P_SECOND && P_WAS_REP && O(connp->in_tx->req_header_repetitions) < HTP_MAX_HEADERS_REPETITIONS) ? 1 : 0))
/* 2'. beyond the cap the newcomer is dropped: nothing merged, nothing stored, success */
__CPROVER_ensures((g_c11_h != NULL && P_DROPPED(connp)) ==> (__CPROVER_return_value == HTP_OK && g_c11_exp_n == 0 && g_c11_add_n == 0 && C11_E->value == O(C11_E->value)))
/* 3. Content-Length is never merged: the stored value object and its length are untouched */
__CPROVER_ensures((g_c11_h != NULL && P_SECOND && g_c11_isclen == 0) ==> (g_c11_exp_n == 0 && g_c11_addmem_n == 0 && g_c11_addb_n == 0 && g_c11_add_n == 0 &&
    C11_E->value == O(C11_E->value) && C11_E->value->len == O(C11_E->value->len) && (__CPROVER_return_value == HTP_OK || P_DROPPED(connp))))
/* 4. any other name: stored value := old ", " new  (capacity asked for = len + 2 + n; separator bytes; then the parsed value) */
__CPROVER_ensures((g_c11_h != NULL && P_MERGE(connp)) ==> (g_c11_exp_n == 1 && g_c11_exp_req == O(C11_E->value->len) + 2 + g_c11_newlen && g_c11_add_n == 0))
__CPROVER_ensures((g_c11_h != NULL && P_MERGE(connp) && __CPROVER_return_value == HTP_OK) ==> (g_c11_addmem_n == 1 && g_c11_sep0 == ',' && g_c11_sep1 == ' ' &&
    g_c11_addb_n == 1 && g_c11_addb_src == (const void *) g_c11_value && C11_E->value != NULL && C11_E->value->len == O(C11_E->value->len) + 2 + g_c11_newlen &&
    C11_E->value->size == C11_E->value->len))
__CPROVER_ensures((g_c11_h != NULL && P_MERGE(connp) && __CPROVER_return_value != HTP_OK) ==> (C11_E->value == O(C11_E->value) && g_c11_addmem_n == 0))
/* 5. first occurrence: offered to the table under its own name, once */
__CPROVER_ensures((g_c11_h != NULL && P_PARSED && g_c11_have_ex == 0) ==> (g_c11_add_n == 1 && g_c11_add_key == (const void *) g_c11_name && g_c11_add_el == (const void *) g_c11_h && __CPROVER_return_value == HTP_OK))
/* 6. ownership of the parsed name and value (C18): kept iff the header was stored, released exactly once otherwise (a second release is refused by the stub) */
__CPROVER_ensures((g_c11_h != NULL && P_STORED) ==> (g_c11_free_name == 0 && g_c11_free_value == 0))
__CPROVER_ensures((g_c11_h != NULL && P_PARSED && !P_STORED) ==> (g_c11_free_name == 1 && g_c11_free_value == 1))
;

/* ================= Part 3: leaves ======================================================================== */
/* token search: safety, termination, result in {HTP_OK, HTP_ERROR}; read-only, symbolic length; the needle is the one
 * every call site passes ("chunked", lower-case, NUL-terminated).  Equality with the reference: bounded unit ref_header_has_token. */
#define C11_NEEDLE(v) (__CPROVER_is_fresh((v), 8) && (v)[0] == 'c' && (v)[1] == 'h' && (v)[2] == 'u' && (v)[3] == 'n' && (v)[4] == 'k' && (v)[5] == 'e' && (v)[6] == 'd' && (v)[7] == 0)
htp_status_t contract_htp_header_has_token(const unsigned char *hvp, size_t hvlen, const unsigned char *value)
__CPROVER_requires(hvlen <= VCAP && __CPROVER_is_fresh(hvp, hvlen) && C11_NEEDLE(value))
__CPROVER_assigns()
__CPROVER_ensures(__CPROVER_return_value == HTP_OK || __CPROVER_return_value == HTP_ERROR)
/* a hit needs room for the token */
__CPROVER_ensures(__CPROVER_return_value == HTP_OK ==> hvlen >= 7)
;

/* relaxed host name syntax: what makes a Host value "syntactically invalid" */
int contract_htp_validate_hostname(bstr *hostname)
__CPROVER_requires(RO_BSTR(hostname))
__CPROVER_assigns()
__CPROVER_ensures(__CPROVER_return_value == 0 || __CPROVER_return_value == 1 || (bstr_len(hostname) > 0 && bstr_ptr(hostname)[0] == '[' /* inet_pton's answer, unmodelled */))
__CPROVER_ensures((bstr_len(hostname) == 0 || bstr_len(hostname) > 255) ==> __CPROVER_return_value == 0)
/* not an IPv6 literal: any byte outside [A-Za-z0-9_-] and '.' invalidates (witness gk = any position) */
__CPROVER_ensures((bstr_len(hostname) > 0 && bstr_ptr(hostname)[0] != '[' && gk < bstr_len(hostname) && !C11_HOSTCH(bstr_ptr(hostname)[gk]) && bstr_ptr(hostname)[gk] != '.') ==> __CPROVER_return_value == 0)
/* empty label: leading dot, or two dots in a row */
__CPROVER_ensures((bstr_len(hostname) > 0 && bstr_ptr(hostname)[0] == '.') ==> __CPROVER_return_value == 0)
__CPROVER_ensures((bstr_len(hostname) > 0 && bstr_ptr(hostname)[0] != '[' && gk + 1 < bstr_len(hostname) && bstr_ptr(hostname)[gk] == '.' && bstr_ptr(hostname)[gk + 1] == '.') ==> __CPROVER_return_value == 0)
/* an IPv6 literal needs both brackets' room and must fit the address buffer */
__CPROVER_ensures((bstr_len(hostname) > 0 && bstr_ptr(hostname)[0] == '[' && (bstr_len(hostname) < 2 || bstr_len(hostname) - 2 >= 46 /* INET6_ADDRSTRLEN */)) ==> __CPROVER_return_value == 0)
;

/* Host header value -> (hostname, port, invalid-host indicator): the wrapper around htp_parse_hostport + htp_validate_hostname */
htp_status_t contract_c11s_htp_parse_hostport(bstr *hostport, bstr **hostname, bstr **port, int *port_number, int *invalid)
__CPROVER_requires(hostport != NULL && __CPROVER_w_ok(hostname, sizeof(*hostname)) && port == NULL && __CPROVER_w_ok(port_number, sizeof(*port_number)) && __CPROVER_w_ok(invalid, sizeof(*invalid)))
__CPROVER_assigns(*hostname, *port_number, *invalid)
__CPROVER_ensures(__CPROVER_return_value == g_c11_hp_rc && (g_c11_hp_rc == HTP_OK || g_c11_hp_rc == HTP_ERROR))
__CPROVER_ensures(__CPROVER_return_value == HTP_OK ==> (*invalid == g_c11_hp_invalid && (*hostname == NULL || __CPROVER_is_fresh(*hostname, sizeof(bstr) + 8)) &&
    (*hostname != NULL) == (g_c11_hp_valid != 0) &&
    /* enforced on the real htp_parse_hostport (units htp_parse_hostport / ref_parse_hostport): no hostname => invalid */
    (*hostname == NULL ==> *invalid == 1)))
;
int contract_c11s_htp_validate_hostname(bstr *hostname)
__CPROVER_requires(__CPROVER_r_ok(hostname, sizeof(bstr)))
__CPROVER_assigns()
__CPROVER_ensures(__CPROVER_return_value == g_c11_host_cmp)
;
htp_status_t contract_htp_parse_header_hostport(bstr *hostport, bstr **hostname, bstr **port, int *port_number, uint64_t *flags)
__CPROVER_requires(__CPROVER_is_fresh(hostport, sizeof(bstr)) && __CPROVER_is_fresh(hostname, sizeof(*hostname)) && port == NULL &&
                   __CPROVER_is_fresh(port_number, sizeof(*port_number)) && __CPROVER_is_fresh(flags, sizeof(*flags)))
__CPROVER_assigns(*hostname, *port_number, *flags)
__CPROVER_ensures(__CPROVER_return_value == g_c11_hp_rc)
/* only the Host-header indicator, only ever raised */
__CPROVER_ensures(*flags == O(*flags) || *flags == (O(*flags) | HTP_HOSTH_INVALID))
__CPROVER_ensures(__CPROVER_return_value != HTP_OK ==> *flags == O(*flags))
/* any syntactic defect reported by the authority parser, or a host name that fails validation, raises it */
__CPROVER_ensures((__CPROVER_return_value == HTP_OK && g_c11_hp_invalid != 0) ==> HAS(*flags, HTP_HOSTH_INVALID))
__CPROVER_ensures((__CPROVER_return_value == HTP_OK && *hostname != NULL && g_c11_host_cmp == 0) ==> HAS(*flags, HTP_HOSTH_INVALID))
/* what the table unit assumes of its stub: no host name at all => indicator raised */
__CPROVER_ensures((__CPROVER_return_value == HTP_OK && *hostname == NULL) ==> HAS(*flags, HTP_HOSTH_INVALID))
/* and not raised for a clean value */
__CPROVER_ensures((__CPROVER_return_value == HTP_OK && g_c11_hp_invalid == 0 && (*hostname == NULL || g_c11_host_cmp != 0)) ==> *flags == O(*flags))
;
#endif
