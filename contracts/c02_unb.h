/* C02 -- UNBOUNDED (loop-contract) units for the line / header extractors.  units/c02_unb.py, notes/c02_unb.md.
 *
 * Included after contracts/c02_extract.h with C02_CONTRACTS defined: the provenance-logging stubs contract_c02_dup_mem /
 * contract_c02_bstr_free / contract_c02_htp_log / contract_c02_chomp_site and the macros C02_O, C02_PUT, C02_KEEP,
 * C02_LOG_ASSIGNS of that header are reused unchanged (same ghost log, ghost_c02.h).  New ghosts: ghost_c04.h.
 */
#ifndef C02_UNB_H
#define C02_UNB_H
#ifndef C02_CONTRACTS
#error "c02_unb.h needs c02_extract.h with C02_CONTRACTS"
#endif

/* capacity of the raw input objects: exactly the line length (over-reads are caught by the bounds checks) unless a unit overrides it */
#ifndef C04_INCAP
#define C04_INCAP len
#endif
#define C04_UNP HTP_FIELD_UNPARSEABLE
#define C04_INV HTP_FIELD_INVALID
/* C04_ONLY(f, f0, bits): ghost_c04.h (loop invariants use it) */

/* ---- bstr_dup_c at the ONE call site of the request header parser: bstr_dup_c("") (the empty name of a colon-less field).
 * Precondition asserted at the call: the argument is the empty string.  Logged in the provenance log as a duplication of the
 * empty range at offset 0 (an empty string takes no byte from anywhere). ---- */
#define C04_PUT0(n, rv) (g_c02_d##n == 1 && g_c02_o##n == 0 && g_c02_l##n == 0 && g_c02_r##n == (const void *) (rv) && \
                         (((rv) == NULL) == (((g_c02_fail >> ((n) - 1)) & 1u) != 0)))
bstr *contract_c04_dup_c_empty(const char *cstr)
__CPROVER_requires(g_c02_d3 == 0)
__CPROVER_requires(__CPROVER_r_ok(cstr, 1) && cstr[0] == 0)
__CPROVER_assigns(C02_LOG_ASSIGNS)
__CPROVER_ensures(__CPROVER_return_value == NULL || __CPROVER_is_fresh(__CPROVER_return_value, sizeof(bstr)))
__CPROVER_ensures(C02_O(g_c02_d1) == 0 ? (C04_PUT0(1, __CPROVER_return_value) && C02_KEEP(2) && C02_KEEP(3))
                : C02_O(g_c02_d2) == 0 ? (C02_KEEP(1) && C04_PUT0(2, __CPROVER_return_value) && C02_KEEP(3))
                                        : (C02_KEEP(1) && C02_KEEP(2) && C04_PUT0(3, __CPROVER_return_value)))
;

/* =====================================================================================================
 * 1. htp_parse_request_header_generic, any line length
 *
 * Provenance (C02): exactly two duplications (name, value), both ranges inside the line (asserted per call by the stub), name at
 * offset 0, name before value; every byte between them is the colon or LWS, with AT MOST ONE colon in that gap (a second colon
 * belongs to the value); every byte after the value is LWS or a line terminator; the name contains neither a colon nor a NUL.
 * Colon-less field (flag UNPARSEABLE newly raised): empty name, value = the whole line minus its CR / LF tail, nothing trimmed.
 * Flags (C11 direction "whenever the trigger is present it is flagged"): colon found and (empty name | byte after the name is not
 * the colon, i.e. LWS before the colon | a non-token byte in the name) ==> HTP_FIELD_INVALID on the header; a newly raised
 * header flag is also raised on the transaction; no other flag bit changes, none is cleared.
 * C18: OK iff no allocation failed, then the header owns both copies; on ERROR each non-NULL copy was released exactly once.
 * ===================================================================================================== */
#define C04_HF   (h->flags)
#define C04_HF0  C02_O(h->flags)
#define C04_TF   (connp->in_tx->flags)
#define C04_TF0  C02_O(connp->in_tx->flags)
#define C04_INGAP(k) ((k) >= g_c02_l1 && (k) < g_c02_o2)
#define C04_TWO (g_c02_d2 == 1)
#define C04_NEWUNP ((C04_HF & C04_UNP) && !(C04_HF0 & C04_UNP))
htp_status_t contract_htp_parse_request_header_generic(htp_connp_t *connp, htp_header_t *h, unsigned char *data, size_t len)
__CPROVER_requires(__CPROVER_is_fresh(connp, sizeof(*connp)) && __CPROVER_is_fresh(connp->in_tx, sizeof(htp_tx_t)) && __CPROVER_is_fresh(h, sizeof(*h)))
__CPROVER_requires(len <= VCAP && __CPROVER_is_fresh(data, VCAP))      /* constant-size input object (an exact-size one does not finish in 300 s), symbolic length: over-reads are caught for len == VCAP; never written */
__CPROVER_requires(g_c02_base == (const void *) data && g_c02_len == len && g_c02_d1 == 0 && g_c02_d2 == 0 && g_c02_d3 == 0 && g_c02_f1 == 0 && g_c02_f2 == 0)
__CPROVER_assigns(h->name, h->value, h->flags, connp->in_tx->flags, C02_LOG_ASSIGNS, g_c02_f1, g_c02_f2)
__CPROVER_ensures(__CPROVER_return_value == HTP_OK || __CPROVER_return_value == HTP_ERROR)
/* provenance: name first, the value is only asked for when the name was obtained */
__CPROVER_ensures(g_c02_d1 == 1 && g_c02_d2 == (g_c02_r1 != NULL) && g_c02_d3 == 0)
__CPROVER_ensures(g_c02_o1 == 0 && g_c02_l1 <= len)
__CPROVER_ensures(C04_TWO ==> (g_c02_l1 <= g_c02_o2 && g_c02_o2 <= len && g_c02_l2 <= len - g_c02_o2))
__CPROVER_ensures((C04_TWO && gk < len && C04_INGAP(gk)) ==> (data[gk] == ':' || ISLWS(data[gk])))
__CPROVER_ensures((C04_TWO && gk < len && gj < len && C04_INGAP(gk) && C04_INGAP(gj) && data[gk] == ':' && data[gj] == ':') ==> gk == gj)
__CPROVER_ensures((C04_TWO && gk < len && gk >= g_c02_o2 + g_c02_l2) ==> (ISLWS(data[gk]) || C02_ISCRLF(data[gk])))
__CPROVER_ensures(gk < g_c02_l1 ==> (data[gk] != ':' && data[gk] != 0))
/* colon-less field */
__CPROVER_ensures(C04_NEWUNP ==> (g_c02_l1 == 0 && C04_HF == (C04_HF0 | C04_UNP)))
__CPROVER_ensures((C04_NEWUNP && C04_TWO) ==> g_c02_o2 == 0)
__CPROVER_ensures((C04_NEWUNP && C04_TWO && gk < len && gk >= g_c02_l2) ==> C02_ISCRLF(data[gk]))
/* colon found */
__CPROVER_ensures(!(C04_HF & C04_UNP) ==> (g_c02_l1 < len && C04_ONLY(C04_HF, C04_HF0, C04_INV)))
__CPROVER_ensures((!(C04_HF & C04_UNP) && C04_TWO) ==> g_c02_o2 > g_c02_l1)
__CPROVER_ensures((!(C04_HF & C04_UNP) && g_c02_l1 == 0) ==> (C04_HF & C04_INV))
__CPROVER_ensures((!(C04_HF & C04_UNP) && g_c02_l1 < len && data[g_c02_l1] != ':') ==> (C04_HF & C04_INV))
__CPROVER_ensures((!(C04_HF & C04_UNP) && gk < g_c02_l1 && !C02_TCHAR(data[gk])) ==> (C04_HF & C04_INV))
/* header flags and transaction flags: only the two bits, never cleared; what is newly raised on the header is raised on the transaction */
__CPROVER_ensures(C04_ONLY(C04_HF, C04_HF0, C04_UNP | C04_INV) && C04_ONLY(C04_TF, C04_TF0, C04_UNP | C04_INV))
__CPROVER_ensures((C04_HF & ~C04_HF0 & ~C04_TF) == 0)
/* ownership (C18) */
__CPROVER_ensures((__CPROVER_return_value == HTP_OK) == ((g_c02_fail & 3u) == 0))
__CPROVER_ensures(__CPROVER_return_value == HTP_OK ==> ((const void *) h->name == g_c02_r1 && (const void *) h->value == g_c02_r2 && g_c02_f1 == 0 && g_c02_f2 == 0))
__CPROVER_ensures(__CPROVER_return_value == HTP_ERROR ==> (g_c02_f1 == (g_c02_r1 != NULL) && g_c02_f2 == 0))
;


/* =====================================================================================================
 * 2. / 3. the two start-line parsers, any line length
 *
 * Input line: a bstr (inline or wrapped, ghost g_wrapped) whose data object has constant capacity VCAP and a symbolic length.
 * The duplications are logged in call order: slot 1 / 2 / 3 = first / second / third component.
 * ===================================================================================================== */
#define C04_LINE(b) ((g_wrapped ? (__CPROVER_is_fresh((b), sizeof(bstr)) && __CPROVER_is_fresh((b)->realptr, VCAP)) \
                                : (__CPROVER_is_fresh((b), sizeof(bstr) + VCAP) && (b)->realptr == NULL)) && (b)->len <= VCAP)
#define C04_LOG_INIT(b) (g_c02_base == (const void *) bstr_ptr(b) && g_c02_len == bstr_len(b) && g_c02_d1 == 0 && g_c02_d2 == 0 && g_c02_d3 == 0)
#define C04_E1 (g_c02_o1 + g_c02_l1)       /* end of the first / second / third reported range */
#define C04_E2 (g_c02_o2 + g_c02_l2)
#define C04_E3 (g_c02_o3 + g_c02_l3)
/* the n-th duplication was performed and answered a string */
#define C04_GOT1 (g_c02_d1 == 1 && g_c02_r1 != NULL)
#define C04_GOT2 (g_c02_d2 == 1 && g_c02_r2 != NULL)
#define C04_GOT3 (g_c02_d3 == 1 && g_c02_r3 != NULL)
/* OK iff no performed duplication failed; a later one is only attempted after the earlier one succeeded */
#define C04_CHAIN ((g_c02_d1 == 0 || g_c02_d1 == 1) && (g_c02_d2 == 0 || g_c02_d2 == 1) && (g_c02_d3 == 0 || g_c02_d3 == 1) && \
                   (g_c02_d2 ==> C04_GOT1) && (g_c02_d3 ==> C04_GOT2))
#define C04_OKIFF(rv) (((rv) == HTP_OK) == !((g_c02_d1 && g_c02_r1 == NULL) || (g_c02_d2 && g_c02_r2 == NULL) || (g_c02_d3 && g_c02_r3 == NULL)))

/* the duplicates returned by the stub are abstract (header only): the two classifiers that read them are replaced at their call sites.
 * htp_parse_status: same post-condition as the PROVED contract_htp_parse_status (c17_num.h); precondition reduced to "a string" */
int contract_c04_parse_status_site(bstr *status)
__CPROVER_requires(status != NULL && (const void *) status == g_c02_r2)
__CPROVER_assigns()
__CPROVER_ensures((__CPROVER_return_value >= 100 && __CPROVER_return_value <= 999) || __CPROVER_return_value == HTP_STATUS_INVALID)
;
/* htp_parse_protocol (loop-free; decided over its full domain by lemma htp_parse_protocol_lemma) */
int contract_c04_parse_protocol_site(bstr *protocol)
__CPROVER_requires(protocol != NULL && ((const void *) protocol == g_c02_r1 || (const void *) protocol == g_c02_r3))
__CPROVER_assigns()
__CPROVER_ensures(__CPROVER_return_value == HTP_PROTOCOL_INVALID || __CPROVER_return_value == HTP_PROTOCOL_0_9 ||
                  __CPROVER_return_value == HTP_PROTOCOL_1_0 || __CPROVER_return_value == HTP_PROTOCOL_1_1)
;
/* htp_convert_method_to_number (bounded unit ref_convert_method_to_number) */
int contract_c04_method_number_site(bstr *method)
__CPROVER_requires(method != NULL && (const void *) method == g_c02_r1)
__CPROVER_assigns()
__CPROVER_ensures(__CPROVER_return_value >= HTP_M_UNKNOWN && __CPROVER_return_value <= HTP_M_INVALID)
;

/* ---- htp_parse_response_line_generic ----
 * protocol / status / message = up to three duplications in this order; each range inside the line; the first two are MAXIMAL
 * words without white space, the message starts at a non-space byte and runs to the end of the line; everything in front of,
 * between and (when the line ends early) after the reported ranges is white space: nothing dropped, nothing invented.
 * Components of an earlier line never survive (reset to NULL / INVALID).  ERROR iff a duplication failed; the copies made so far
 * stay with the transaction (released by its destructor), nothing is released here. */
#define RL_D (bstr_ptr(connp->out_tx->response_line))
#define RL_N (bstr_len(connp->out_tx->response_line))
#define RL_TX (connp->out_tx)
htp_status_t contract_htp_parse_response_line_generic(htp_connp_t *connp)
__CPROVER_requires(__CPROVER_is_fresh(connp, sizeof(*connp)) && __CPROVER_is_fresh(connp->out_tx, sizeof(htp_tx_t)) && C04_LINE(connp->out_tx->response_line))
__CPROVER_requires(C04_LOG_INIT(connp->out_tx->response_line))
__CPROVER_assigns(RL_TX->response_protocol, RL_TX->response_protocol_number, RL_TX->response_status, RL_TX->response_status_number, RL_TX->response_message, C02_LOG_ASSIGNS)
__CPROVER_ensures(__CPROVER_return_value == HTP_OK || __CPROVER_return_value == HTP_ERROR)
__CPROVER_ensures(C04_CHAIN && C04_OKIFF(__CPROVER_return_value))
/* what the transaction reports = the copies, stale values gone */
__CPROVER_ensures((const void *) RL_TX->response_protocol == (g_c02_d1 ? g_c02_r1 : NULL) && (const void *) RL_TX->response_status == (g_c02_d2 ? g_c02_r2 : NULL) &&
                  (const void *) RL_TX->response_message == (g_c02_d3 ? g_c02_r3 : NULL))
__CPROVER_ensures(!C04_GOT1 ==> RL_TX->response_protocol_number == HTP_PROTOCOL_INVALID)
__CPROVER_ensures(!C04_GOT2 ==> RL_TX->response_status_number == HTP_STATUS_INVALID)
__CPROVER_ensures((RL_TX->response_status_number >= 100 && RL_TX->response_status_number <= 999) || RL_TX->response_status_number == HTP_STATUS_INVALID)
/* protocol */
__CPROVER_ensures(g_c02_d1 ==> (g_c02_l1 > 0 && g_c02_o1 <= RL_N && g_c02_l1 <= RL_N - g_c02_o1 && (C04_E1 == RL_N || ISSP(RL_D[C04_E1]))))
__CPROVER_ensures((g_c02_d1 && gk < g_c02_o1) ==> ISSP(RL_D[gk]))
__CPROVER_ensures((g_c02_d1 && gk >= g_c02_o1 && gk < C04_E1) ==> !ISSP(RL_D[gk]))
__CPROVER_ensures((!g_c02_d1 && gk < RL_N) ==> ISSP(RL_D[gk]))
/* status */
__CPROVER_ensures(g_c02_d2 ==> (g_c02_l2 > 0 && C04_E1 < g_c02_o2 && g_c02_o2 <= RL_N && g_c02_l2 <= RL_N - g_c02_o2 && (C04_E2 == RL_N || ISSP(RL_D[C04_E2]))))
__CPROVER_ensures((g_c02_d2 && gk >= C04_E1 && gk < g_c02_o2) ==> ISSP(RL_D[gk]))
__CPROVER_ensures((g_c02_d2 && gk >= g_c02_o2 && gk < C04_E2) ==> !ISSP(RL_D[gk]))
__CPROVER_ensures((C04_GOT1 && !g_c02_d2 && gk >= C04_E1 && gk < RL_N) ==> ISSP(RL_D[gk]))
/* message */
__CPROVER_ensures(g_c02_d3 ==> (g_c02_l3 > 0 && C04_E2 < g_c02_o3 && g_c02_o3 < RL_N && C04_E3 == RL_N && !ISSP(RL_D[g_c02_o3])))
__CPROVER_ensures((g_c02_d3 && gk >= C04_E2 && gk < g_c02_o3) ==> ISSP(RL_D[gk]))
__CPROVER_ensures((C04_GOT2 && !g_c02_d3 && gk >= C04_E2 && gk < RL_N) ==> ISSP(RL_D[gk]))
;


/* ---- htp_parse_request_line_generic_ex, nul_terminates and cfg->allow_space_uri and the leading-white-space policy symbolic ----
 * method / request-target / protocol = up to three duplications in this order, each range inside the line, ordered; everything in
 * front of the method and in the two gaps is white space; the method is a maximal white-space-free word (policy IGNORE; under
 * the other policies it starts at offset 0 and carries the leading white space); the request-target starts at a non-space byte
 * and, unless allow_space_uri, contains no SP and is followed by white space or the end; the protocol starts at a non-space byte and
 * runs to the end of the line.  NUL mode: no reported byte lies at or behind a NUL; the line ends at the end or at a NUL.
 * HTTP/0.9 (no protocol) exactly when nothing but white space follows the method / the request-target.
 * ERROR iff a duplication failed; the copies made so far stay owned by the transaction. */
#define QL_TX (connp->in_tx)
#define QL_D (bstr_ptr(connp->in_tx->request_line))
#define QL_N (bstr_len(connp->in_tx->request_line))
#define QL_UNW (connp->cfg->requestline_leading_whitespace_unwanted)
#define QL_ASU (connp->cfg->allow_space_uri)
#define QL_END(e) ((e) == QL_N || ISSP(QL_D[(e)]) || (nul_terminates && QL_D[(e)] == 0))      /* a word ends at the end of the line, at white space or (NUL mode) at a NUL */
#define QL_LAST (g_c02_d3 ? C04_E3 : g_c02_d2 ? C04_E2 : C04_E1)
htp_status_t contract_htp_parse_request_line_generic_ex(htp_connp_t *connp, int nul_terminates)
__CPROVER_requires(__CPROVER_is_fresh(connp, sizeof(*connp)) && __CPROVER_is_fresh(connp->cfg, sizeof(htp_cfg_t)) && __CPROVER_is_fresh(connp->in_tx, sizeof(htp_tx_t)))
__CPROVER_requires(__CPROVER_pointer_equals(connp->in_tx->connp, connp) && C04_LINE(connp->in_tx->request_line))
__CPROVER_requires(C04_LOG_INIT(connp->in_tx->request_line))
__CPROVER_assigns(QL_TX->request_method, QL_TX->request_method_number, QL_TX->request_uri, QL_TX->request_protocol, QL_TX->request_protocol_number, QL_TX->is_protocol_0_9,
                  QL_TX->response_status_expected_number, C02_LOG_ASSIGNS)
__CPROVER_ensures(__CPROVER_return_value == HTP_OK || __CPROVER_return_value == HTP_ERROR)
__CPROVER_ensures(g_c02_d1 == 1 && C04_CHAIN && C04_OKIFF(__CPROVER_return_value))
/* what the transaction reports = the copies; a component that was not found is left as it was */
__CPROVER_ensures((const void *) QL_TX->request_method == g_c02_r1 && (const void *) QL_TX->request_uri == (g_c02_d2 ? g_c02_r2 : (const void *) C02_O(QL_TX->request_uri)) &&
                  (const void *) QL_TX->request_protocol == (g_c02_d3 ? g_c02_r3 : (const void *) C02_O(QL_TX->request_protocol)))
/* HTTP/0.9 exactly when the line ended before a protocol was seen */
__CPROVER_ensures((__CPROVER_return_value == HTP_OK && !g_c02_d3) ==> (QL_TX->is_protocol_0_9 == 1 && QL_TX->request_protocol_number == HTP_PROTOCOL_0_9))
__CPROVER_ensures((__CPROVER_return_value == HTP_ERROR || g_c02_d3) ==> QL_TX->is_protocol_0_9 == C02_O(QL_TX->is_protocol_0_9))
__CPROVER_ensures(C04_GOT3 ==> (QL_TX->request_protocol_number == HTP_PROTOCOL_INVALID || QL_TX->request_protocol_number == HTP_PROTOCOL_0_9 ||
                                QL_TX->request_protocol_number == HTP_PROTOCOL_1_0 || QL_TX->request_protocol_number == HTP_PROTOCOL_1_1))
__CPROVER_ensures(__CPROVER_return_value == HTP_ERROR ==> QL_TX->request_protocol_number == C02_O(QL_TX->request_protocol_number))
__CPROVER_ensures(C04_GOT1 ? (QL_TX->request_method_number >= HTP_M_UNKNOWN && QL_TX->request_method_number <= HTP_M_INVALID)
                           : QL_TX->request_method_number == C02_O(QL_TX->request_method_number))
/* leading white space policy */
__CPROVER_ensures(QL_TX->response_status_expected_number == ((QL_UNW != HTP_UNWANTED_IGNORE && QL_N > 0 && ISSP(QL_D[0])) ? (int) QL_UNW : C02_O(QL_TX->response_status_expected_number)))
__CPROVER_ensures(QL_UNW != HTP_UNWANTED_IGNORE ==> g_c02_o1 == 0)
/* method */
__CPROVER_ensures(g_c02_o1 <= QL_N && g_c02_l1 <= QL_N - g_c02_o1 && QL_END(C04_E1))
__CPROVER_ensures(gk < g_c02_o1 ==> ISSP(QL_D[gk]))
__CPROVER_ensures((QL_UNW == HTP_UNWANTED_IGNORE && gk >= g_c02_o1 && gk < C04_E1) ==> !ISSP(QL_D[gk]))
__CPROVER_ensures((!nul_terminates && C04_GOT1 && !g_c02_d2 && gk >= C04_E1 && gk < QL_N) ==> ISSP(QL_D[gk]))
/* request-target */
__CPROVER_ensures(g_c02_d2 ==> (C04_E1 < g_c02_o2 && g_c02_o2 < QL_N && g_c02_l2 <= QL_N - g_c02_o2 && !ISSP(QL_D[g_c02_o2])))
__CPROVER_ensures((g_c02_d2 && gk >= C04_E1 && gk < g_c02_o2) ==> ISSP(QL_D[gk]))
__CPROVER_ensures((g_c02_d2 && !QL_ASU) ==> (g_c02_l2 > 0 && QL_END(C04_E2)))
__CPROVER_ensures((g_c02_d2 && !QL_ASU && gk >= g_c02_o2 && gk < C04_E2) ==> QL_D[gk] != 0x20)
__CPROVER_ensures((!nul_terminates && C04_GOT2 && !g_c02_d3 && gk >= C04_E2 && gk < QL_N) ==> ISSP(QL_D[gk]))
/* protocol */
__CPROVER_ensures(g_c02_d3 ==> (g_c02_l3 > 0 && C04_E2 <= g_c02_o3 && g_c02_o3 < QL_N && g_c02_l3 <= QL_N - g_c02_o3 && !ISSP(QL_D[g_c02_o3]) &&
                                (C04_E3 == QL_N || (nul_terminates && QL_D[C04_E3] == 0))))
__CPROVER_ensures((g_c02_d3 && !QL_ASU) ==> C04_E2 < g_c02_o3)
__CPROVER_ensures((g_c02_d3 && gk >= C04_E2 && gk < g_c02_o3) ==> ISSP(QL_D[gk]))
/* NUL mode: nothing is reported from at or behind a NUL */
__CPROVER_ensures((nul_terminates && gk < QL_LAST) ==> QL_D[gk] != 0)
;


/* =====================================================================================================
 * 4. cookies (htp_cookies.c) and the Content-Type extractor (htp_util.c)
 * ===================================================================================================== */
/* htp_table_addn at its one call site: the pair handed over is exactly the two copies just made, both present, neither released.
 * The table may refuse (list growth failed): prophecy g_c04_addn_fail. */
htp_status_t contract_c04_table_addn(htp_table_t *table, const bstr *key, const void *element)
__CPROVER_requires(g_c04_addn == 0 && (const void *) table == g_c04_tbl)
__CPROVER_requires(key != NULL && (const void *) key == g_c02_r1 && element != NULL && element == g_c02_r2 && g_c02_d1 == 1 && g_c02_d2 == 1 && g_c02_f1 == 0 && g_c02_f2 == 0)
__CPROVER_assigns(g_c04_addn)
__CPROVER_ensures(g_c04_addn == 1 && __CPROVER_return_value == (g_c04_addn_fail ? HTP_ERROR : HTP_OK))
;

/* ---- htp_parse_single_cookie_v0: one piece "name[=value]" ----
 * empty piece / piece starting with '=': ignored (OK, nothing duplicated).  Otherwise name = the bytes before the FIRST '=' (witness:
 * no '=' inside, the byte after it is '=' or the end), value = everything after that '=' (to the end of the piece; the empty string when
 * there is no '='); both inside the piece; the pair is handed to the cookie table exactly once, name first.
 * C18: OK only if the table HOLDS the pair; otherwise ERROR and every copy made was released exactly once. */
#define SC_IGN (len == 0 || data[0] == '=')
int contract_htp_parse_single_cookie_v0(htp_connp_t *connp, unsigned char *data, size_t len)
__CPROVER_requires(__CPROVER_is_fresh(connp, sizeof(*connp)) && __CPROVER_is_fresh(connp->in_tx, sizeof(htp_tx_t)))
__CPROVER_requires(len <= VCAP && __CPROVER_is_fresh(data, C04_INCAP))
__CPROVER_requires(g_c02_base == (const void *) data && g_c02_len == len && g_c02_d1 == 0 && g_c02_d2 == 0 && g_c02_d3 == 0 && g_c02_f1 == 0 && g_c02_f2 == 0)
__CPROVER_requires(g_c04_addn == 0 && g_c04_tbl == (const void *) connp->in_tx->request_cookies)
#ifdef KNOWN_F_C02_COOKIE_ADDN
/* known finding (findings/c02_cookie_addn_leak.c): the result of htp_table_addn is ignored; carved out: the table accepts the pair */
__CPROVER_requires(g_c04_addn_fail == 0)
#endif
__CPROVER_assigns(C02_LOG_ASSIGNS, g_c02_f1, g_c02_f2, g_c04_addn)
__CPROVER_ensures(__CPROVER_return_value == HTP_OK || __CPROVER_return_value == HTP_ERROR)
__CPROVER_ensures(C04_CHAIN && g_c02_d3 == 0 && g_c02_d1 == !SC_IGN)
__CPROVER_ensures(SC_IGN ==> (__CPROVER_return_value == HTP_OK && g_c04_addn == 0))
/* name */
__CPROVER_ensures(g_c02_d1 ==> (g_c02_o1 == 0 && g_c02_l1 > 0 && g_c02_l1 <= len && (g_c02_l1 == len || data[g_c02_l1] == '=')))
__CPROVER_ensures((g_c02_d1 && gk < g_c02_l1) ==> data[gk] != '=')
/* value */
__CPROVER_ensures(g_c02_d2 ==> (g_c02_l1 == len ? (g_c02_l2 == 0) : (g_c02_o2 == g_c02_l1 + 1 && g_c02_o2 + g_c02_l2 == len)))
/* hand-over and ownership */
__CPROVER_ensures(g_c04_addn == (C04_GOT1 && C04_GOT2))
__CPROVER_ensures((__CPROVER_return_value == HTP_OK) == (SC_IGN || (C04_GOT1 && C04_GOT2 && !g_c04_addn_fail)))
__CPROVER_ensures(__CPROVER_return_value == HTP_OK ==> (g_c02_f1 == 0 && g_c02_f2 == 0))
__CPROVER_ensures(__CPROVER_return_value == HTP_ERROR ==> (g_c02_f1 == C04_GOT1 && g_c02_f2 == C04_GOT2))
;

/* ---- htp_parse_cookies_v0: the Cookie header value is cut at ';' ----
 * The single-cookie parser is replaced at its call site by a stub that ASSERTS, for every piece handed over: the piece lies inside the
 * header value, starts where the previous one ended or later (wire order), is not empty-and-past-the-end, does not start with white space,
 * contains no ';' (witness) and ends at a ';' or at the end of the value (maximal).  It records whether the witness position was handed over. */
#define CK_OFF(p) (C02_POFF(p) - C02_POFF(g_c02_base))
int contract_c04_single_cookie_site(htp_connp_t *connp, unsigned char *data, size_t len)
__CPROVER_requires(__CPROVER_same_object(data, g_c02_base) && C02_POFF(data) >= C02_POFF(g_c02_base) && CK_OFF(data) <= g_c02_len && len <= g_c02_len - CK_OFF(data))
__CPROVER_requires(CK_OFF(data) >= g_c04_end && CK_OFF(data) < g_c02_len)
__CPROVER_requires(!ISSP(data[0]))
__CPROVER_requires((gk >= CK_OFF(data) && gk < CK_OFF(data) + len) ==> data[gk - CK_OFF(data)] != C04_SEMI)
__CPROVER_requires(CK_OFF(data) + len == g_c02_len || data[len] == C04_SEMI)
__CPROVER_requires((const void *) connp->in_tx->request_cookies == g_c04_tnew && g_c04_tnew != NULL)
__CPROVER_assigns(g_c04_calls, g_c04_end, g_c04_hit)
__CPROVER_ensures(g_c04_calls == 1 && g_c04_end == CK_OFF(data) + len)
__CPROVER_ensures(g_c04_hit == ((gk >= CK_OFF(data) && gk < CK_OFF(data) + len) ? 1 : C02_O(g_c04_hit)))
__CPROVER_ensures(__CPROVER_return_value == (g_c04_sfail ? HTP_ERROR : HTP_OK))
;

/* the Cookie header handed out by the table look-up: ONE static header whose value is a static inline bstr of capacity VCAP
 * (the harness fills it with arbitrary bytes); idiom of contracts/c05_txhdr.h */
typedef struct { bstr b; unsigned char d[VCAP]; } c04_ckval_t;
static c04_ckval_t c04_ckval;
static htp_header_t c04_ckhdr;
#define CK_D (c04_ckval.d)
#define CK_N (c04_ckval.b.len)
void *contract_c04_get_cookie_site(const htp_table_t *table, const char *ckey)
__CPROVER_requires((const void *) table == g_c04_src && __CPROVER_r_ok(ckey, 7))
__CPROVER_requires(ckey[0] == 'c' && ckey[1] == 'o' && ckey[2] == 'o' && ckey[3] == 'k' && ckey[4] == 'i' && ckey[5] == 'e' && ckey[6] == 0)
__CPROVER_assigns()
__CPROVER_ensures(__CPROVER_return_value == NULL || __CPROVER_pointer_equals(__CPROVER_return_value, (void *) &c04_ckhdr))
__CPROVER_ensures((__CPROVER_return_value == NULL) == (g_c04_nohdr != 0))
;
htp_table_t *contract_c04_table_create_site(size_t size)
__CPROVER_requires(size >= 1 && g_c04_tnew == NULL)
__CPROVER_assigns(g_c04_tnew)
__CPROVER_ensures(__CPROVER_return_value == NULL || __CPROVER_is_fresh(__CPROVER_return_value, sizeof(htp_table_t)))
__CPROVER_ensures((__CPROVER_return_value == NULL) == (g_c04_tfail != 0))
__CPROVER_ensures(g_c04_tnew == (const void *) __CPROVER_return_value)
;
htp_status_t contract_htp_parse_cookies_v0(htp_connp_t *connp)
__CPROVER_requires(__CPROVER_is_fresh(connp, sizeof(*connp)) && __CPROVER_is_fresh(connp->in_tx, sizeof(htp_tx_t)))
__CPROVER_requires(__CPROVER_pointer_equals(c04_ckhdr.value, &c04_ckval.b) && c04_ckval.b.realptr == NULL && c04_ckval.b.len <= VCAP)
__CPROVER_requires(g_c02_base == (const void *) c04_ckval.d && g_c02_len == c04_ckval.b.len && g_c04_src == (const void *) connp->in_tx->request_headers)
__CPROVER_requires(g_c04_tnew == NULL && g_c04_calls == 0 && g_c04_end == 0 && g_c04_hit == 0)
__CPROVER_assigns(connp->in_tx->request_cookies, g_c04_tnew, g_c04_calls, g_c04_end, g_c04_hit)
__CPROVER_ensures(__CPROVER_return_value == HTP_OK || __CPROVER_return_value == HTP_ERROR)
/* no Cookie header: nothing happens */
__CPROVER_ensures(g_c04_nohdr ==> (__CPROVER_return_value == HTP_OK && connp->in_tx->request_cookies == C02_O(connp->in_tx->request_cookies) && g_c04_calls == 0 && g_c04_tnew == NULL))
/* otherwise a NEW table is installed (NULL when it cannot be created: ERROR, no piece parsed) */
__CPROVER_ensures(!g_c04_nohdr ==> ((const void *) connp->in_tx->request_cookies == g_c04_tnew && (g_c04_tnew == NULL) == (g_c04_tfail != 0)))
__CPROVER_ensures((!g_c04_nohdr && g_c04_tfail) ==> (__CPROVER_return_value == HTP_ERROR && g_c04_calls == 0))
__CPROVER_ensures((__CPROVER_return_value == HTP_ERROR) == (!g_c04_nohdr && (g_c04_tfail || (g_c04_calls && g_c04_sfail))))
/* nothing dropped: every byte of the header value that was not handed to the single-cookie parser is white space or a ';'
 * (that each piece handed over is ';'-free, maximal, inside the value and in wire order is asserted by the site stub) */
__CPROVER_ensures(g_c04_end <= CK_N)
__CPROVER_ensures((__CPROVER_return_value == HTP_OK && !g_c04_nohdr && gk < CK_N && !g_c04_hit) ==> (ISSP(CK_D[gk]) || CK_D[gk] == C04_SEMI))
;

/* ---- htp_parse_ct_header: the media type = the prefix of the header value up to the first ';' ',' or SP, lower-cased ---- */
bstr *contract_c04_dup_ex_site(const bstr *b, size_t offset, size_t len)
__CPROVER_requires((const void *) b == g_c04_src && g_c02_d1 == 0 && offset <= bstr_len(b) && len <= bstr_len(b) - offset)
__CPROVER_assigns(g_c02_d1, g_c02_o1, g_c02_l1, g_c02_r1)
__CPROVER_ensures(__CPROVER_return_value == NULL || __CPROVER_is_fresh(__CPROVER_return_value, sizeof(bstr)))
__CPROVER_ensures(g_c02_d1 == 1 && g_c02_o1 == offset && g_c02_l1 == len && g_c02_r1 == (const void *) __CPROVER_return_value &&
                  ((__CPROVER_return_value == NULL) == ((g_c02_fail & 1u) != 0)))
;
bstr *contract_c04_lowercase_site(bstr *b)
__CPROVER_requires(b != NULL && (const void *) b == g_c02_r1 && g_c04_low == 0)
__CPROVER_assigns(g_c04_low)
__CPROVER_ensures(g_c04_low == 1 && __CPROVER_return_value == b)
;
#define CT_SEP(c) ((c) == ';' || (c) == ',' || (c) == ' ')
#define CT_ARGS (header != NULL && ct != NULL)
htp_status_t contract_htp_parse_ct_header(bstr *header, bstr **ct)
__CPROVER_requires((header == NULL || C04_LINE(header)) && (ct == NULL || __CPROVER_is_fresh(ct, sizeof(*ct))))
__CPROVER_requires(g_c04_src == (const void *) header && g_c02_d1 == 0 && g_c04_low == 0)
__CPROVER_assigns(g_c02_d1, g_c02_o1, g_c02_l1, g_c02_r1, g_c04_low; ct != NULL: *ct)
__CPROVER_ensures(__CPROVER_return_value == HTP_OK || __CPROVER_return_value == HTP_ERROR)
__CPROVER_ensures(!CT_ARGS ==> (__CPROVER_return_value == HTP_ERROR && g_c02_d1 == 0 && g_c04_low == 0 && (ct != NULL ==> *ct == C02_O(*ct))))
__CPROVER_ensures(CT_ARGS ==> (g_c02_d1 == 1 && g_c02_o1 == 0 && g_c02_l1 <= bstr_len(header) && (const void *) *ct == g_c02_r1))
__CPROVER_ensures(CT_ARGS ==> ((__CPROVER_return_value == HTP_OK) == (g_c02_r1 != NULL) && g_c04_low == (g_c02_r1 != NULL)))
__CPROVER_ensures((CT_ARGS && gk < g_c02_l1) ==> !CT_SEP(bstr_ptr(header)[gk]))
__CPROVER_ensures((CT_ARGS && g_c02_l1 < bstr_len(header)) ==> CT_SEP(bstr_ptr(header)[g_c02_l1]))
;


/* ---- htp_extract_quoted_string_as_bstr (Digest user name) ----
 * bstr_alloc is replaced by a stub that answers an inline string of CONSTANT object size (HOWTO 4: no symbolic-size objects that are
 * written) and logs the REQUESTED capacity; that no byte is written beyond the requested capacity is checked by the copy loop's
 * assigns clause __CPROVER_object_upto(outptr, outlen).  The input object has exactly `len` bytes (over-reads are caught). */
#ifdef C04_ALLOC_MODEL
/* the unit's `pre` renames bstr_alloc to this MODEL (real code, not a contract: a stub's "realptr == NULL" is only an assumption and leaves
 * the value set of bstr_ptr(*out) unknown, which makes every write through it explode): object of constant size, size field = requested
 * capacity, malloc may fail; the call is logged */
bstr *c04_alloc_model(size_t len) {
    VASSERT(g_c04_ad == 0, "the extractor allocates at most once");
    VASSERT(len <= VCAP, "requested capacity is not larger than the input (no length wrap-around)");
    bstr *r = malloc(sizeof(bstr) + (VCAP));
    g_c04_ad = 1; g_c04_alen = len; g_c04_ar = (const void *) r;
    if (r == NULL) return NULL;
    r->len = 0; r->size = len; r->realptr = NULL;
    return r;
}
#endif
#ifndef QS_INCAP
#define QS_INCAP len
#endif
#define QS_ARGS (data != NULL && out != NULL)
/* not even a candidate: empty, not starting with a quote, or nothing after the quote */
#define QS_NOCAND (len == 0 || data[0] != '"' || len == 1)
htp_status_t contract_htp_extract_quoted_string_as_bstr(unsigned char *data, size_t len, bstr **out, size_t *endoffset)
__CPROVER_requires(len <= VCAP && (data == NULL || __CPROVER_is_fresh(data, QS_INCAP)))
__CPROVER_requires((out == NULL || __CPROVER_is_fresh(out, sizeof(*out))) && (endoffset == NULL || __CPROVER_is_fresh(endoffset, sizeof(*endoffset))))
__CPROVER_requires(g_c04_ad == 0)
__CPROVER_assigns(g_c04_ad, g_c04_alen, g_c04_ar; out != NULL: *out; endoffset != NULL: *endoffset)
__CPROVER_ensures(__CPROVER_return_value == HTP_OK || __CPROVER_return_value == HTP_DECLINED || __CPROVER_return_value == HTP_ERROR)
__CPROVER_ensures(!QS_ARGS ==> (__CPROVER_return_value == HTP_ERROR && g_c04_ad == 0))
__CPROVER_ensures((QS_ARGS && QS_NOCAND) ==> (__CPROVER_return_value == HTP_DECLINED && g_c04_ad == 0))
/* nothing is reported unless OK */
__CPROVER_ensures((__CPROVER_return_value != HTP_OK && out != NULL) ==> (*out == C02_O(*out) || (g_c04_ad && *out == NULL)))
__CPROVER_ensures((__CPROVER_return_value != HTP_OK && endoffset != NULL) ==> *endoffset == C02_O(*endoffset))
__CPROVER_ensures((QS_ARGS && __CPROVER_return_value == HTP_DECLINED) ==> g_c04_ad == 0)
__CPROVER_ensures((QS_ARGS && __CPROVER_return_value == HTP_ERROR) ==> (g_c04_ad == 1 && g_c04_ar == NULL))
/* OK: one allocation; the content is shorter than the input by at least the two quotes; the reported length is exactly the requested capacity */
__CPROVER_ensures(__CPROVER_return_value == HTP_OK ==> (QS_ARGS && g_c04_ad == 1 && g_c04_ar != NULL && (const void *) *out == g_c04_ar && g_c04_alen + 2 <= len &&
                                                       bstr_len(*out) == g_c04_alen && bstr_size(*out) == g_c04_alen))
__CPROVER_ensures((__CPROVER_return_value == HTP_OK && endoffset != NULL) ==> (*endoffset >= 1 && *endoffset < len))
;

#endif
