/* Shared specification vocabulary (DESIGN.md 2.6). Included after the real sources. */
#ifndef VCOMMON_H
#define VCOMMON_H


#ifdef VNATIVE
static void v_havoc_ghosts(void) {}
#else
#define GHOST_HAVOC(T, n) { T nondet_ghost_##n(void); n = nondet_ghost_##n(); }
static void v_havoc_ghosts(void) { GHOSTS(GHOST_HAVOC) }
#endif
#ifdef VNATIVE
#define CANARY() ((void)0)
#include <string.h>
#define VIN(T) T in; memset(&in, 0, sizeof(in)); VIN_ASSIGN
#else
#define CANARY() __CPROVER_assert(0, "VACUITY_CANARY reachable")
/* bounded/lemma harness inputs: one nondet struct, so that a counterexample is one C initialiser */
#define VIN(T) T nondet_##T(void); T in = nondet_##T()
#endif
#define VASSERT(c, d) __CPROVER_assert((c), d)
#define VASSUME(c) __CPROVER_assume(c)

/* bstr well-formedness (inline bstr of capacity cap) */
#define BSTR_HDR (sizeof(bstr))
#define WF_BSTR_FRESH(b, cap) (__CPROVER_is_fresh((b), BSTR_HDR + (cap)) && (b)->size == (cap) && (b)->len <= (b)->size && (b)->realptr == NULL)

#endif
