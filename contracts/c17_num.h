/* Contracts for the numeric parsers of htp_util.c / htp_parsers.c (C17).
 * bstr_util_mem_to_pint is REPLACED by its own contract (c17_bstr.h), htp_log by a no-op contract. */
#ifndef C17_NUM_H
#define C17_NUM_H
#include "c17_bstr.h"


/* logging: variadic, writes only into the connection's log list, which no parser result depends on */
void contract_htp_log(htp_connp_t *connp, const char *file, int line, enum htp_log_level_t level, int code, const char *fmt, ...)
__CPROVER_requires(1)
__CPROVER_assigns()
__CPROVER_ensures(1)
;

/* call-site variant of the pint contract: same post-conditions, pointer validity instead of freshness */
int64_t contract_pint_site(const void *_data, size_t len, int base, size_t *lastlen)
__CPROVER_requires(len <= VCAP && __CPROVER_r_ok(_data, len) && __CPROVER_w_ok(lastlen, sizeof(*lastlen)))
__CPROVER_requires(base == 10 || base == 16)
__CPROVER_assigns(*lastlen)
__CPROVER_ensures(__CPROVER_return_value >= -2)
__CPROVER_ensures(len > 0 ==> ((__CPROVER_return_value == -1) == !ISDIG(UC(_data)[0], base)))
__CPROVER_ensures(__CPROVER_return_value >= 0 && len > 0 ==> ((*lastlen <= len + 1) && (gk < *lastlen && gk < len ==> ISDIG(UC(_data)[gk], base)) &&
    (*lastlen < len ==> !ISDIG(UC(_data)[*lastlen], base)) && (*lastlen >= len ==> *lastlen == len + 1)))
;

int64_t contract_htp_parse_positive_integer_whitespace(unsigned char *data, size_t len, int base)
__CPROVER_requires(len <= VCAP && __CPROVER_is_fresh(data, len) && (base == 10 || base == 16))
__CPROVER_assigns()
/* result lattice: a value, or one of the documented error codes */
__CPROVER_ensures(__CPROVER_return_value >= 0 || __CPROVER_return_value == -1 || __CPROVER_return_value == -2 ||
                  __CPROVER_return_value == -1001 || __CPROVER_return_value == -1002 || __CPROVER_return_value == -1003)
__CPROVER_ensures((__CPROVER_return_value == -1003) == (len == 0))
/* -1001 only if every byte is LWS; a value only if the first non-LWS byte is a digit */
__CPROVER_ensures((__CPROVER_return_value == -1001 && gk < len) ==> ISLWS(data[gk]))
__CPROVER_ensures((len > 0 && !ISLWS(data[0]) && !ISDIG(data[0], base)) ==> __CPROVER_return_value == -1)
__CPROVER_ensures((len > 0 && !ISLWS(data[0])) ==> __CPROVER_return_value != -1001)
;

int64_t contract_htp_parse_chunked_length(unsigned char *data, size_t len, int *extension)
__CPROVER_requires(len <= VCAP && __CPROVER_is_fresh(data, len) && (extension == NULL || __CPROVER_is_fresh(extension, sizeof(int))))
__CPROVER_assigns(extension != NULL: *extension)
/* never a wrapped value: anything above INT32_MAX is an error */
__CPROVER_ensures(__CPROVER_return_value <= INT32_MAX)
__CPROVER_ensures(__CPROVER_return_value >= 0 || __CPROVER_return_value == -1 || __CPROVER_return_value == -2 ||
                  __CPROVER_return_value == -1001 || __CPROVER_return_value == -1002 || __CPROVER_return_value == -1003 || __CPROVER_return_value == -1004)
__CPROVER_ensures(len == 0 ==> __CPROVER_return_value == -1004)
__CPROVER_ensures(extension != NULL ==> (*extension == __CPROVER_old(*extension) || *extension == 1))
;

int contract_htp_parse_status(bstr *status)
__CPROVER_requires(RO_BSTR(status))
__CPROVER_assigns()
__CPROVER_ensures((__CPROVER_return_value >= 100 && __CPROVER_return_value <= 999) || __CPROVER_return_value == HTP_STATUS_INVALID)
;

/* port: 1..65535 or (-1 and marked invalid); *invalid is never cleared */
htp_status_t contract_htp_parse_port(unsigned char *data, size_t len, int *port, int *invalid)
__CPROVER_requires(len <= VCAP && __CPROVER_is_fresh(data, len) && __CPROVER_is_fresh(port, sizeof(int)) && __CPROVER_is_fresh(invalid, sizeof(int)))
__CPROVER_assigns(*port, *invalid)
__CPROVER_ensures(__CPROVER_return_value == HTP_OK)
__CPROVER_ensures((*port >= 1 && *port <= 65535 && *invalid == __CPROVER_old(*invalid)) || (*port == -1 && *invalid == 1))
;

int64_t contract_htp_parse_content_length(bstr *b, htp_connp_t *connp)
__CPROVER_requires(RO_BSTR(b))
__CPROVER_assigns()
__CPROVER_ensures(__CPROVER_return_value >= -2 || __CPROVER_return_value == -1001 || __CPROVER_return_value == -1003)
__CPROVER_ensures((__CPROVER_return_value == -1003) == (bstr_len(b) == 0))
/* -1001 iff there is no decimal digit at all */
__CPROVER_ensures((__CPROVER_return_value == -1001 && gk < bstr_len(b)) ==> !ISDEC(bstr_ptr(b)[gk]))
__CPROVER_ensures((gk < bstr_len(b) && ISDEC(bstr_ptr(b)[gk])) ==> (__CPROVER_return_value >= 0 || __CPROVER_return_value == -2))
;
#endif
