/* C07 (containment part): decompression-bomb bound and layer limits.
 *   unit 1  htp_tx_{req,res}_process_body_data_decompressor_callback   (TU = htp_transaction.c, needs sm.h for the hook stubs)
 *   unit 2  htp_gzip_decompressor_decompress                           (TU = htp_decompressors.c)
 *   unit 3  htp_tx_state_response_headers chain construction           (TU = htp_transaction.c)
 * The faithfulness half of C07 (output == original payload) is a statement about DEFLATE / LZMA semantics implemented in
 * external code and is NOT claimed anywhere in this file. */
#ifndef C07_DECOMP_H
#define C07_DECOMP_H
#ifndef O
#define O(e) __CPROVER_old(e)
#endif

/* htp_log is variadic: dfcc appends its write-set parameter AFTER the variable arguments, so a log stub with a non-empty assigns
 * clause reads the first variadic argument as the write set (spurious failure).  The log stub therefore has an empty frame
 * and "an ERROR record is logged" cannot be stated as an obligation. */
void contract_c07_htp_log(htp_connp_t *connp, const char *file, int line, enum htp_log_level_t level, int code, const char *fmt, ...)
__CPROVER_requires(1) __CPROVER_assigns() __CPROVER_ensures(1);

#ifdef C07_UNIT_CALLBACK
/* ================================================================================================ unit 1 */
/* statement: "decompressed bytes delivered for one message never exceed max(bomb limit, 2048 x compressed length) by more than
 * one output buffer".  2048 is written as a literal on purpose (taken from the statement, not from HTP_COMPRESSION_BOMB_RATIO). */
#define C07_RATIO 2048
#define C07_WITHIN(entity, limit, msg) ((entity) <= (int64_t) (limit) || (entity) <= C07_RATIO * (msg))
/* largest compressed length for which 2048 * len is representable: the code multiplies in int64 */
#define C07_MSGMAX (INT64_MAX / C07_RATIO)
/* wall-clock helpers: replaced (time-based passthrough switch is not part of the containment bound) */
int contract_gettimeofday(struct timeval *tv, void *tz)
__CPROVER_requires(__CPROVER_w_ok(tv, sizeof(*tv))) __CPROVER_assigns(*tv) __CPROVER_ensures(1);
htp_status_t contract_htp_timer_track(int32_t *time_spent, struct timeval *after, struct timeval *before)
__CPROVER_requires(__CPROVER_w_ok(time_spent, sizeof(*time_spent))) __CPROVER_assigns(*time_spent)
__CPROVER_ensures(__CPROVER_return_value == HTP_OK || __CPROVER_return_value == HTP_ERROR);

#define C07_CB_PRE(d, DEC, ELEN, MLEN) ( \
    __CPROVER_is_fresh(d, sizeof(htp_tx_data_t)) && __CPROVER_is_fresh((d)->tx, sizeof(htp_tx_t)) && \
    __CPROVER_is_fresh((d)->tx->connp, sizeof(htp_connp_t)) && __CPROVER_is_fresh((d)->tx->connp->cfg, sizeof(htp_cfg_t)) && \
    __CPROVER_is_fresh((d)->tx->connp->DEC, sizeof(htp_decompressor_t)) && \
    (d)->len <= CHUNK_CAP && (d)->tx->ELEN >= 0 && (d)->tx->ELEN <= OFFMAX && \
    (d)->tx->MLEN >= 0 && (d)->tx->MLEN <= C07_MSGMAX && \
    (d)->tx->connp->DEC->nb_callbacks < UINT32_MAX && g_hook_n == 0)
#define C07_CB_ASSIGNS(d, DEC, ELEN) HOOK_LOG_ASSIGNS, (d)->tx->ELEN, (d)->tx->connp->DEC->nb_callbacks, \
    (d)->tx->connp->DEC->time_spent, (d)->tx->connp->DEC->time_before, (d)->tx->connp->DEC->passthrough
#define C07_CB_POST(d, ELEN, MLEN) \
    /* the entity length grows by exactly the bytes handed to the hooks, whatever the outcome */ \
    __CPROVER_ensures((d)->tx->ELEN == O((d)->tx->ELEN) + (int64_t) (d)->len) \
    /* exactly one hook run, and it sees exactly this block for this transaction */ \
    __CPROVER_ensures(g_hook_n == 1 && g_hook_ptr == (d)->data && g_hook_len == (d)->len && g_hook_tx == (const void *) (d)->tx) \
    /* THE BOUND: success means the running total is within max(limit, 2048 x compressed length so far) */ \
    __CPROVER_ensures(__CPROVER_return_value == HTP_OK ==> C07_WITHIN((d)->tx->ELEN, (d)->tx->connp->cfg->compression_bomb_limit, (d)->tx->MLEN)) \
    /* ... and conversely a total outside the bound is refused with HTP_ERROR; nothing else is recorded (frame: no transaction \
     * flag, no change of the decompressor other than the clock fields / time-limit passthrough switch) */ \
    __CPROVER_ensures(!C07_WITHIN((d)->tx->ELEN, (d)->tx->connp->cfg->compression_bomb_limit, (d)->tx->MLEN) ==> __CPROVER_return_value == HTP_ERROR) \
    /* the only results are OK and ERROR; every hook failure is mapped to ERROR; nothing else fails */ \
    __CPROVER_ensures(__CPROVER_return_value == ((g_hook_rc == HTP_OK && C07_WITHIN((d)->tx->ELEN, (d)->tx->connp->cfg->compression_bomb_limit, (d)->tx->MLEN)) ? HTP_OK : HTP_ERROR))

static htp_status_t contract_htp_tx_res_process_body_data_decompressor_callback(htp_tx_data_t *d)
__CPROVER_requires(C07_CB_PRE(d, out_decompressor, response_entity_len, response_message_len))
__CPROVER_assigns(C07_CB_ASSIGNS(d, out_decompressor, response_entity_len))
C07_CB_POST(d, response_entity_len, response_message_len)
;
static htp_status_t contract_htp_tx_req_process_body_data_decompressor_callback(htp_tx_data_t *d)
__CPROVER_requires(C07_CB_PRE(d, req_decompressor, request_entity_len, request_message_len))
__CPROVER_assigns(C07_CB_ASSIGNS(d, req_decompressor, request_entity_len))
C07_CB_POST(d, request_entity_len, request_message_len)
;
#endif /* C07_UNIT_CALLBACK */

#ifdef C07_UNIT_DECOMPRESS
/* ================================================================================================ unit 2 */
#define GZ(p) ((htp_decompressor_gzip_t *) (p))
#define C07_HDR_MAX (LZMA_PROPS_SIZE + 9)

/* ---- downstream sink: drec->super.callback (and, by the same contract, the next layer) ---------------------------------
 * In replace mode the requires clauses are ASSERTED at every call site, so they are statements about EVERY delivery:
 *   S1 for this transaction, with the caller's is_last;
 *   S2 shape: a window of at most 8192 bytes starting at the decompressor's own buffer, or the caller's input untouched
 *      (passthrough / fallback), or the empty end marker (NULL, 0);
 *   S3 never again after the sink has refused a delivery;
 *   S4 nothing (but empty blocks) on a stream that was already dead when the call began. */
htp_status_t c07_sink(htp_tx_data_t *d2);
htp_status_t (*v_c07_sinks[])(htp_tx_data_t *) = { c07_sink };
htp_status_t contract_c07_sink(htp_tx_data_t *d2)
__CPROVER_requires(__CPROVER_r_ok(d2, sizeof(*d2)))
__CPROVER_requires((const void *) d2->tx == g_c07_tx && d2->is_last == g_c07_last)                                        /* S1 */
__CPROVER_requires((d2->data == g_c07_buf && d2->len <= C07_BUF) || (d2->data == g_c07_in && d2->len == g_c07_inlen) ||
                   (d2->data == NULL && d2->len == 0))                                                                       /* S2 */
__CPROVER_requires(g_c07_cb_failed == 0)                                                                                     /* S3 */
__CPROVER_requires(g_c07_dead ==> d2->len == 0)                                                                              /* S4 */
__CPROVER_assigns(g_c07_cb, g_c07_cb_failed, g_c07_cb_rc, g_c07_cb_ptr, g_c07_cb_len, g_c07_budget)
__CPROVER_ensures(g_c07_cb == 1 && g_c07_cb_rc == __CPROVER_return_value && g_c07_cb_failed == (__CPROVER_return_value != HTP_OK))
__CPROVER_ensures(g_c07_cb_ptr == d2->data && g_c07_cb_len == d2->len)
/* termination model only: the sink accepts a bounded number of bytes per call of decompress (the bomb inequality proved in
 * unit 1 with message_len constant during one call); an accepted delivery uses up its length */
__CPROVER_ensures(__CPROVER_return_value == HTP_OK ? (O(g_c07_budget) >= d2->len && g_c07_budget == O(g_c07_budget) - d2->len) : g_c07_budget == O(g_c07_budget))
;

/* ---- zlib ----------------------------------------------------------------------------------------------------------- */
/* inflate: consumes a prefix of the input window, fills a prefix of the output window, any return code.
 * The call-site requirements (asserted) are the memory-safety obligations of the real zlib call. */
int contract_inflate(z_streamp strm, int flush)
__CPROVER_requires(__CPROVER_rw_ok(strm, sizeof(*strm)))
__CPROVER_requires(strm->avail_out <= C07_BUF && __CPROVER_w_ok(strm->next_out, strm->avail_out))
__CPROVER_requires(__CPROVER_r_ok(strm->next_in, strm->avail_in))
__CPROVER_assigns(strm->next_in, strm->avail_in, strm->next_out, strm->avail_out, strm->total_in, strm->total_out, strm->msg, strm->adler, strm->data_type)
__CPROVER_ensures(strm->avail_in <= O(strm->avail_in) && strm->next_in == O(strm->next_in) + (O(strm->avail_in) - strm->avail_in))
__CPROVER_ensures(strm->avail_out <= O(strm->avail_out) && strm->next_out == O(strm->next_out) + (O(strm->avail_out) - strm->avail_out))
/* zlib reports Z_BUF_ERROR when no progress is possible: Z_OK means input was consumed or output produced (used for the variant only) */
__CPROVER_ensures(__CPROVER_return_value == Z_OK ==> (strm->avail_in < O(strm->avail_in) || strm->avail_out < O(strm->avail_out)))
;
int contract_inflateInit2_(z_streamp strm, int windowBits, const char *version, int stream_size)
__CPROVER_requires(__CPROVER_rw_ok(strm, sizeof(*strm)))
__CPROVER_assigns(strm->msg, strm->state, strm->zalloc, strm->zfree, strm->opaque, strm->total_in, strm->total_out, strm->adler, strm->data_type)
__CPROVER_ensures(1);
int contract_inflateEnd(z_streamp strm)
__CPROVER_requires(__CPROVER_rw_ok(strm, sizeof(*strm)))
__CPROVER_assigns(strm->state) __CPROVER_ensures(1);
uLong contract_crc32(uLong crc, const Bytef *buf, uInt len)
__CPROVER_requires(buf == NULL || __CPROVER_r_ok(buf, len)) __CPROVER_assigns() __CPROVER_ensures(1);

/* ---- LZMA SDK --------------------------------------------------------------------------------------------------------- */
SRes contract_LzmaDec_Allocate(CLzmaDec *p, const Byte *props, unsigned propsSize, ISzAllocPtr alloc)
__CPROVER_requires(__CPROVER_rw_ok(p, sizeof(*p)) && __CPROVER_r_ok(props, propsSize))
__CPROVER_assigns(*p)
__CPROVER_ensures(__CPROVER_return_value == SZ_OK || __CPROVER_return_value == SZ_ERROR_MEM || __CPROVER_return_value == SZ_ERROR_UNSUPPORTED);
void contract_LzmaDec_Init(CLzmaDec *p) __CPROVER_requires(__CPROVER_rw_ok(p, sizeof(*p))) __CPROVER_assigns(*p) __CPROVER_ensures(1);
void contract_LzmaDec_Free(CLzmaDec *p, ISzAllocPtr alloc) __CPROVER_requires(__CPROVER_rw_ok(p, sizeof(*p))) __CPROVER_assigns(*p) __CPROVER_ensures(1);
SRes contract_LzmaDec_DecodeToBuf(CLzmaDec *p, Byte *dest, SizeT *destLen, const Byte *src, SizeT *srcLen, ELzmaFinishMode finishMode, ELzmaStatus *status, SizeT memlimit)
__CPROVER_requires(__CPROVER_rw_ok(p, sizeof(*p)) && __CPROVER_rw_ok(destLen, sizeof(*destLen)) && __CPROVER_rw_ok(srcLen, sizeof(*srcLen)) && __CPROVER_w_ok(status, sizeof(*status)))
__CPROVER_requires(*destLen <= C07_BUF && __CPROVER_w_ok(dest, *destLen) && __CPROVER_r_ok(src, *srcLen))
__CPROVER_assigns(*p, *destLen, *srcLen, *status)
__CPROVER_ensures(*destLen <= O(*destLen) && *srcLen <= O(*srcLen))
/* progress on success (variant only): with input available the decoder consumes input or produces output */
__CPROVER_ensures(__CPROVER_return_value == SZ_OK ==> (*destLen > 0 || *srcLen > 0))
;
/* gzip header probe (real function enforced by unit c07_probe) */
static size_t contract_htp_gzip_decompressor_probe(const unsigned char *data, size_t data_len)
__CPROVER_requires(data_len <= C07_INCAP && __CPROVER_r_ok(data, data_len))
__CPROVER_assigns()
__CPROVER_ensures(__CPROVER_return_value <= data_len)
;
static size_t contract_real_htp_gzip_decompressor_probe(const unsigned char *data, size_t data_len)
__CPROVER_requires(data_len <= C07_INCAP && __CPROVER_is_fresh(data, data_len))
__CPROVER_assigns()
__CPROVER_ensures(__CPROVER_return_value <= data_len)
;

/* restart heuristics (real function enforced by unit c07_restart): at most 3 restarts per decompressor, counted in drec->restart;
 * never touches the cursors; switches between the gzip and the raw-deflate personality only */
#define C07_RESTART_POST(drec, data_len, consumed_back) ( \
    (__CPROVER_return_value == 0 || __CPROVER_return_value == 1) && \
    (__CPROVER_return_value == 1 ==> (O((drec)->restart) < 3 && (drec)->restart == O((drec)->restart) + 1 && *(consumed_back) <= (data_len))) && \
    (__CPROVER_return_value == 0 ==> ((drec)->restart == O((drec)->restart) && *(consumed_back) == O(*(consumed_back)) && (drec)->zlib_initialized == O((drec)->zlib_initialized))) && \
    ((drec)->zlib_initialized == O((drec)->zlib_initialized) || (O((drec)->zlib_initialized) == HTP_COMPRESSION_DEFLATE && (drec)->zlib_initialized == HTP_COMPRESSION_GZIP) || \
     (O((drec)->zlib_initialized) == HTP_COMPRESSION_GZIP && (drec)->zlib_initialized == HTP_COMPRESSION_DEFLATE)) && \
    (drec)->stream.next_in == O((drec)->stream.next_in) && (drec)->stream.avail_in == O((drec)->stream.avail_in) && \
    (drec)->stream.next_out == O((drec)->stream.next_out) && (drec)->stream.avail_out == O((drec)->stream.avail_out))
#define C07_RESTART_ASSIGNS(drec, consumed_back) (drec)->restart, (drec)->zlib_initialized, *(consumed_back), (drec)->stream.msg, (drec)->stream.state, (drec)->stream.zalloc, \
    (drec)->stream.zfree, (drec)->stream.opaque, (drec)->stream.total_in, (drec)->stream.total_out, (drec)->stream.adler, (drec)->stream.data_type
static int contract_htp_gzip_decompressor_restart(htp_decompressor_gzip_t *drec, const unsigned char *data, size_t data_len, size_t *consumed_back)
__CPROVER_requires(__CPROVER_rw_ok(drec, sizeof(*drec)) && __CPROVER_rw_ok(consumed_back, sizeof(*consumed_back)) && data_len <= C07_INCAP && __CPROVER_r_ok(data, data_len))
__CPROVER_assigns(C07_RESTART_ASSIGNS(drec, consumed_back))
__CPROVER_ensures(C07_RESTART_POST(drec, data_len, consumed_back))
;
static int contract_real_htp_gzip_decompressor_restart(htp_decompressor_gzip_t *drec, const unsigned char *data, size_t data_len, size_t *consumed_back)
__CPROVER_requires(__CPROVER_is_fresh(drec, sizeof(*drec)) && __CPROVER_is_fresh(consumed_back, sizeof(*consumed_back)) && data_len <= C07_INCAP && __CPROVER_is_fresh(data, data_len))
__CPROVER_assigns(C07_RESTART_ASSIGNS(drec, consumed_back))
__CPROVER_ensures(C07_RESTART_POST(drec, data_len, consumed_back))
;
/* the one memcpy of the function (LZMA header bytes): call-site contract.  Asserted: source readable, destination inside the
 * 13-byte header array (an intra-object bound that the generic pointer checks do not see).  CBMC's own memcpy model with a symbolic
 * length from a cursor that was havocked by the loop contract blows the formula up to 12 M variables. */
void *contract_c07_memcpy(void *dst, const void *src, size_t n)
__CPROVER_requires(__CPROVER_r_ok(src, n) && n <= LZMA_PROPS_SIZE + 8)
__CPROVER_requires((unsigned char *) dst >= g_c07_hdr && (unsigned char *) dst + n <= g_c07_hdr + (LZMA_PROPS_SIZE + 8))
/* fidelity for any chunking of the 13-byte LZMA header: a later fragment is appended BEHIND the bytes collected by earlier calls */
__CPROVER_requires((unsigned char *) dst == g_c07_hdr + *g_c07_hlp)
__CPROVER_assigns(__CPROVER_object_upto(g_c07_hdr, LZMA_PROPS_SIZE + 8))
__CPROVER_ensures(__CPROVER_return_value == dst)
;

/* ---- the decompressor object between calls ------------------------------------------------------------------------------ */
#define C07_DEAD(z) ((z)->zlib_initialized == 0 && (z)->super.passthrough == 0)
/* since the fix 9249f2d a dead stream has an EMPTY output window (the refused buffer is not kept): part of the object invariant */
#define C07_DREC_FIELDS0(z) (C07_OUT_OK(z) && C07_ZI_OK(z) && (z)->header_len <= C07_HDR_MAX)
#define C07_DREC_FIELDS(z) (C07_DREC_FIELDS0(z) && (C07_DEAD(z) ==> (z)->stream.avail_out == C07_BUF))
/* on return from the end-of-body call (the last one) a refused final delivery may leave the window as it was */
#define C07_DREC_FIELDS_POST(z) (C07_DREC_FIELDS0(z) && (C07_DEAD(z) ==> ((z)->stream.avail_out == C07_BUF || g_c07_eos)))
/* KNOWN_F_C07_STALE_REDELIVERY (defined by default in the unit): obligation S4 is weakened to the states in which the code really
 * delivers nothing on a dead stream (output window not full and not the end-of-body call); without the macro S4 is asked for
 * every dead stream and FAILS on the unchanged tree: finding c07_stale_buffer_redelivery. */
#ifdef KNOWN_F_C07_STALE_REDELIVERY
#define C07_DEAD_CLAIMED(z, d) (C07_DEAD(z) && (g_c07_eos ? (z)->stream.avail_out == C07_BUF : (z)->stream.avail_out != 0))
#else
#define C07_DEAD_CLAIMED(z, d) C07_DEAD(z)
#endif

htp_status_t contract_htp_gzip_decompressor_decompress(htp_decompressor_t *drec1, htp_tx_data_t *d)
__CPROVER_requires(__CPROVER_is_fresh(drec1, sizeof(htp_decompressor_gzip_t)) && __CPROVER_is_fresh(GZ(drec1)->buffer, C07_BUF) && C07_DREC_FIELDS(GZ(drec1)))
__CPROVER_requires(__CPROVER_is_fresh(d, sizeof(*d)) && __CPROVER_is_fresh(d->tx, sizeof(htp_tx_t)) && __CPROVER_is_fresh(d->tx->cfg, sizeof(htp_cfg_t)))
__CPROVER_requires(d->len <= C07_INCAP && (g_c07_eos ? d->data == NULL : __CPROVER_is_fresh(d->data, d->len)))
/* C07_RESTART_MIN = 3: the restart heuristics are exhausted (htp_gzip_decompressor_restart returns 0), the `goto restart` edge is
 * unreachable and the unwinding assertion placed on it (unwind 1) proves that; C07_RESTART_MIN = 2: one re-entry (unwind 2); ... */
__CPROVER_requires(GZ(drec1)->restart >= C07_RESTART_MIN)
/* single / innermost layer; the terminal callback is the sink stub */
__CPROVER_requires(drec1->next == NULL && drec1->callback == c07_sink)
/* ghost snapshot the sink's call-site obligations refer to */
__CPROVER_requires(__CPROVER_pointer_equals(g_c07_hdr, GZ(drec1)->header))
__CPROVER_requires(__CPROVER_pointer_equals(g_c07_hlp, &GZ(drec1)->header_len))
__CPROVER_requires(g_c07_buf == GZ(drec1)->buffer && g_c07_in == d->data && g_c07_inlen == d->len && g_c07_tx == (const void *) d->tx && g_c07_last == d->is_last)
__CPROVER_requires(g_c07_cb == 0 && g_c07_cb_failed == 0 && g_c07_dead == (C07_DEAD_CLAIMED(GZ(drec1), d) ? 1 : 0))
__CPROVER_assigns(g_c07_cb, g_c07_cb_failed, g_c07_cb_rc, g_c07_cb_ptr, g_c07_cb_len, g_c07_budget,
                  GZ(drec1)->stream, GZ(drec1)->zlib_initialized, GZ(drec1)->restart, GZ(drec1)->header, GZ(drec1)->header_len, GZ(drec1)->state, GZ(drec1)->crc,
                  drec1->passthrough)
/* P0 the object stays well-formed for the next call (so this contract is an invariant over any sequence of calls) */
__CPROVER_ensures(C07_DREC_FIELDS_POST(GZ(drec1)) && GZ(drec1)->buffer == O(GZ(drec1)->buffer))
/* P1 result codes: OK, ERROR, the sink's refusal code, or (LZMA allocation failure) the raw SRes 2 / 4 */
__CPROVER_ensures(__CPROVER_return_value == HTP_OK || __CPROVER_return_value == HTP_ERROR || (g_c07_cb_failed && __CPROVER_return_value == g_c07_cb_rc) ||
                  (O(GZ(drec1)->zlib_initialized) == HTP_COMPRESSION_LZMA && !g_c07_cb_failed && (__CPROVER_return_value == SZ_ERROR_MEM || __CPROVER_return_value == SZ_ERROR_UNSUPPORTED)))
/* P2 a refused delivery ends the call with a non-OK result (S3 says: and with no further delivery) ... */
__CPROVER_ensures(g_c07_cb_failed ==> (__CPROVER_return_value != HTP_OK && (__CPROVER_return_value == g_c07_cb_rc || __CPROVER_return_value == HTP_ERROR)))
/* ... and, unless the object was in passthrough mode, leaves the stream dead */
__CPROVER_ensures((g_c07_cb_failed && !O(drec1->passthrough)) ==> C07_DEAD(GZ(drec1)))
/* P3 passthrough mode: exactly the caller's block, once, nothing else touched */
__CPROVER_ensures(O(drec1->passthrough) ==> (g_c07_cb == 1 && g_c07_cb_ptr == d->data && g_c07_cb_len == d->len &&
    __CPROVER_return_value == (g_c07_cb_rc == HTP_OK ? HTP_OK : HTP_ERROR) && GZ(drec1)->zlib_initialized == O(GZ(drec1)->zlib_initialized) && drec1->passthrough == O(drec1->passthrough)))
/* P4 dead stream with input: error, no delivery */
__CPROVER_ensures((g_c07_dead && !g_c07_eos && d->len > 0) ==> (__CPROVER_return_value == HTP_ERROR && g_c07_cb == 0))
/* P5 passthrough is only ever switched ON, and only after the fallback delivery of the untouched input was accepted */
__CPROVER_ensures((drec1->passthrough != O(drec1->passthrough)) ==> (drec1->passthrough == 1 && GZ(drec1)->zlib_initialized == 0 && g_c07_cb == 1 && !g_c07_cb_failed &&
    g_c07_cb_ptr == d->data && g_c07_cb_len == d->len && __CPROVER_return_value == HTP_OK))
;

/* factory: establishes the object invariant that contract_htp_gzip_decompressor_decompress requires, and applies the LZMA switches */
#define C07_LZMA_OFF(c) ((c)->cfg->lzma_memlimit == 0 || (c)->cfg->response_lzma_layer_limit <= 0)
htp_decompressor_t *contract_htp_gzip_decompressor_create(htp_connp_t *connp, enum htp_content_encoding_t format)
__CPROVER_requires(__CPROVER_is_fresh(connp, sizeof(*connp)) && __CPROVER_is_fresh(connp->cfg, sizeof(htp_cfg_t)))
__CPROVER_assigns()
__CPROVER_ensures(__CPROVER_return_value == NULL || (
    (format == HTP_COMPRESSION_GZIP || format == HTP_COMPRESSION_DEFLATE || format == HTP_COMPRESSION_LZMA) &&
    __CPROVER_rw_ok(GZ(__CPROVER_return_value)->buffer, C07_BUF) && C07_DREC_FIELDS(GZ(__CPROVER_return_value)) &&
    GZ(__CPROVER_return_value)->stream.avail_out == C07_BUF && GZ(__CPROVER_return_value)->zlib_initialized == (int) format &&
    GZ(__CPROVER_return_value)->restart == 0 && GZ(__CPROVER_return_value)->header_len == 0 &&
    __CPROVER_return_value->next == NULL && __CPROVER_return_value->callback == NULL &&
    /* a disabled LZMA (memory limit 0 or LZMA layer limit <= 0) never decompresses: the layer is created in passthrough mode */
    __CPROVER_return_value->passthrough == ((format == HTP_COMPRESSION_LZMA && C07_LZMA_OFF(connp)) ? 1 : 0)))
;
#endif /* C07_UNIT_DECOMPRESS */

#endif
