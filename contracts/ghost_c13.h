/* Ghost state and spec macros of property C13 (URI splitting).  Included BEFORE the real sources.
 *
 * Provenance log of the bstr_dup_mem stub (contract_c13_dup_mem, contracts/c13_uri.h): the n-th call
 * records (offset of its source pointer in the input buffer, length) in slot n.  The splitter makes at
 * most 8 calls (one per component), in the fixed order
 *      scheme, user, password, { host, port | port, host }, path, query, fragment
 * (host first for a "[...]" literal, port first otherwise), so the slot of every component is a function
 * of which components are present. */
#ifndef GHOST_C13_H
#define GHOST_C13_H

#define GHOSTS_C13(X) \
    X(const unsigned char *, g_uri_base) X(size_t, g_uri_len) X(size_t, g_dup_n) X(_Bool, g_c13_prealloc) X(size_t, g_mc_i) \
    X(size_t, g_o0) X(size_t, g_l0) X(size_t, g_o1) X(size_t, g_l1) X(size_t, g_o2) X(size_t, g_l2) X(size_t, g_o3) X(size_t, g_l3) \
    X(size_t, g_o4) X(size_t, g_l4) X(size_t, g_o5) X(size_t, g_l5) X(size_t, g_o6) X(size_t, g_l6) X(size_t, g_o7) X(size_t, g_l7)

#define C13_LOG_ASSIGNS g_dup_n, g_o0, g_l0, g_o1, g_l1, g_o2, g_l2, g_o3, g_l3, g_o4, g_l4, g_o5, g_l5, g_o6, g_l6, g_o7, g_l7
#define C13_MAXDUP 8

/* slot lookup (ghost scalars only) */
#define C13_O(i) ((i) == 0 ? g_o0 : (i) == 1 ? g_o1 : (i) == 2 ? g_o2 : (i) == 3 ? g_o3 : (i) == 4 ? g_o4 : (i) == 5 ? g_o5 : (i) == 6 ? g_o6 : g_o7)
#define C13_L(i) ((i) == 0 ? g_l0 : (i) == 1 ? g_l1 : (i) == 2 ? g_l2 : (i) == 3 ? g_l3 : (i) == 4 ? g_l4 : (i) == 5 ? g_l5 : (i) == 6 ? g_l6 : g_l7)
#define C13_E(i) (C13_O(i) + C13_L(i))

/* Known finding F-C13-IPV6: after a "[...]" literal the bytes up to the ':' (or the end of the authority)
 * belong to no component.  With the finding acknowledged the contract only claims "no overlap" there. */
#ifndef C13_NO_KNOWN_IPV6
#define C13_IPV6_GAP <=
#else
#define C13_IPV6_GAP ==
#endif
#endif
