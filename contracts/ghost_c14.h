/* Ghost state and spec macros of property C14 (multipart).  Included BEFORE the real sources.
 *
 * (a) Event log of the per-call units on htp_mpartp_parse: the parser hands data to the part layer only
 *     through the function pointers parser->handle_data / parser->handle_boundary and stores look-ahead
 *     through bstr_builder_append_mem(boundary_pieces).  The harness installs logging stubs for all three
 *     (contracts/c14_mpart.h).  The ghosts below are what the stubs need besides the hand-out automaton's own
 *     scalars (r14_*, c14_mpart.h).  Every ghost is (re)initialised by the harness; the havoc by the generated entry
 *     point only makes forgetting that visible.  No loop invariant uses them (the units are per-call harnesses).
 */
#ifndef GHOST_C14_H
#define GHOST_C14_H

#define GHOSTS_C14(X) \
    X(const unsigned char *, g14_chunk)   /* the caller's buffer of this call (exactly N bytes) */ \
    X(size_t, g14_hi)                     /* running end of the chunk bytes handed out (position of the next delimiter) */ \
    X(size_t, g14_nb)                     /* handle_boundary events */ \
    X(size_t, g14_app_n)                  /* set-aside appends in this call */ \
    X(_Bool, g14_carried)                 /* entry state BOUNDARY and the carried candidate is completed by this chunk */ \
    X(size_t, g14_bmp0) X(int, g14_cr0) X(size_t, g14_np0) \
    X(unsigned, g14_modeseq) X(unsigned, g14_calls) /* line/data mode the stubbed part layer leaves behind, call by call */

#endif
