/* C15 (urlencoded) ghost state and specification macros.  Included BEFORE the real sources
 * (through ghost.h), because the loop invariant of htp_urlenp_parse_partial refers to them.
 *
 * Call log of htp_urlenp_add_field_piece (the logging stub in c15_urlen.h writes these):
 *   g_fp_n                      number of calls so far
 *   g_fp_last_{start,end,c,state}  arguments of the LAST call and urlenp->_state at that call
 *   g_fp_wit_{start,end,c,state}   the same for the gk-th call (gk = arbitrary witness index)
 *   g_fp_wit_prev_{end,c}          (end, c) of the call BEFORE the gk-th one (adjacency law)
 *   g_fp_state0                 urlenp->_state on entry of htp_urlenp_parse_partial
 *   g_fp_bj                     the input byte at witness position gj (contract requires g_fp_bj == data[gj]);
 *                               a scalar copy, because re-reading data[gj] in every invariant costs 130 s instead of 6 s
 * Effect log of the piece handler's callees (stubs used by unit htp_urlenp_add_field_piece):
 *   g_bb_n                       abstract builder state = number of pieces (what bstr_builder_size returns)
 *   g_bb_app, g_bb_app_ptr/len   bstr_builder_append_mem calls and the last (ptr, len)
 *   g_bb_clr, g_bb_tostr         bstr_builder_clear / bstr_builder_to_str calls
 *   g_dupm_n, g_dupm_ptr/len     bstr_dup_mem calls and the last (ptr, len)
 *   g_field                      the bstr returned by to_str / dup_mem (NULL: none or allocation failed)
 *   g_dupc_n, g_dupc_a, g_dupc_b bstr_dup_c("") calls and the first / second result
 *   g_free_n, g_freed            bstr_free calls on non-NULL and the last argument
 *   g_dec_n, g_dec_a, g_dec_b    decoder calls and the first / second decoded string
 *   g_pairs, g_pair_name/value/rc  htp_table_addn calls (= pairs reported), last arguments and result
 */
#ifndef GHOST_C15_H
#define GHOST_C15_H

#define GHOSTS_C15(X) \
    X(size_t, g_ud_n) X(const void *, g_ud_cfg) X(int, g_ud_ctx) X(const void *, g_ud_in) X(const void *, g_ud_flags) X(const void *, g_ud_status) X(int, g_ud_rc) \
    X(size_t, g_fp_n) X(size_t, g_fp_last_start) X(size_t, g_fp_last_end) X(int, g_fp_last_c) X(int, g_fp_last_state) \
    X(size_t, g_fp_wit_start) X(size_t, g_fp_wit_end) X(int, g_fp_wit_c) X(int, g_fp_wit_state) \
    X(size_t, g_fp_wit_prev_end) X(int, g_fp_wit_prev_c) X(int, g_fp_state0) X(int, g_fp_bj) \
    X(size_t, g_bb_n) X(size_t, g_bb_app) X(const void *, g_bb_app_ptr) X(size_t, g_bb_app_len) X(size_t, g_bb_clr) X(size_t, g_bb_tostr) \
    X(size_t, g_dupm_n) X(const void *, g_dupm_ptr) X(size_t, g_dupm_len) X(const void *, g_field) \
    X(size_t, g_dupc_n) X(const void *, g_dupc_a) X(const void *, g_dupc_b) X(size_t, g_free_n) X(const void *, g_freed) \
    X(size_t, g_dec_n) X(const void *, g_dec_a) X(const void *, g_dec_b) \
    X(size_t, g_pairs) X(const void *, g_pair_name) X(const void *, g_pair_value) X(int, g_pair_rc)

#define C15_KEY 1
#define C15_VALUE 2
/* byte b ends a piece that is scanned in state st (separator sep): '&' always, '=' only in a key */
#define C15_DELIM(st, sep, b) ((b) == (sep) || ((st) == C15_KEY && (b) == '='))
/* state after a piece that ended with delimiter c */
#define C15_NEXT(sep, c) ((c) == (sep) ? C15_KEY : C15_VALUE)

#define FP_LOG_ASSIGNS g_fp_n, g_fp_last_start, g_fp_last_end, g_fp_last_c, g_fp_last_state, \
    g_fp_wit_start, g_fp_wit_end, g_fp_wit_c, g_fp_wit_state, g_fp_wit_prev_end, g_fp_wit_prev_c

/* Everything the tiling law says about the gk-th call, for input data[0..L), entry state S0.
 * Reads of data[] are guarded by the preceding conjuncts. */
#define FP_WIT_OK(data, L, S0, sep) ( \
    g_fp_wit_start <= g_fp_wit_end && g_fp_wit_end <= (L) && \
    (gk == 0 ? (g_fp_wit_start == 0 && g_fp_wit_state == (S0)) \
             : (g_fp_wit_prev_c != -1 && g_fp_wit_prev_end < g_fp_wit_start && g_fp_wit_start == g_fp_wit_prev_end + 1 && g_fp_wit_state == C15_NEXT(sep, g_fp_wit_prev_c))) && \
    (g_fp_wit_state == C15_KEY || g_fp_wit_state == C15_VALUE) && \
    (g_fp_wit_end < (L) ? g_fp_wit_c == (data)[g_fp_wit_end] : g_fp_wit_c == -1) && \
    (g_fp_wit_c != -1 ==> C15_DELIM(g_fp_wit_state, sep, g_fp_wit_c)) && \
    ((g_fp_wit_start <= gj && gj < g_fp_wit_end) ==> !C15_DELIM(g_fp_wit_state, sep, g_fp_bj)))

#endif
